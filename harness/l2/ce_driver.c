/* C14 driver: one copy per simulated rank (rankified together with libparsec).  Instrumented.
 *
 * The rank's single sim-thread is the funnelled communication thread.  The engine is brought up
 * WITHOUT parsec_init(): exactly the calls remote_dep_dequeue_init() / remote_dep_dequeue_main()
 * make around the engine, nothing else of the runtime:
 *     MPI_Init_thread                                   (application)
 *     parsec_installdirs_open / parsec_mca_param_init / parsec_output_init   (parsec_init prologue:
 *                                                        mpi_funneled_init_once registers MCA parameters)
 *     a bare parsec_context_t (comm_ctx = -1) with one virtual process, parsec_comm_es attached to it
 *                                                       (remote_dep_mpi_initialize_execution_stream:
 *                                                        next_tag() reads parsec_comm_es...->flags)
 *     parsec_comm_engine_init(ctx)                      (remote_dep_dequeue_init; = mpi_funnelled_init,
 *                                                        registers the two internal GET/PUT tags)
 *     ce->tag_register(9.., cb, .., max_len)            (user tags above PARSEC_CE_REMOTE_DEP_MAX_CTRL_TAG)
 *     ce->enable(ce)                                    (remote_dep_dequeue_main)
 *     ... send_am / put / get / progress / can_serve ...
 *     ce->tag_unregister, ce->fini(ce)                  (parsec_comm_engine_fini() minus the remote_dep
 *                                                        teardown, which was never set up)
 * No PaRSEC thread exists besides this one, so "funnelled" holds by construction.
 * The client follows remote_dep's discipline: put/get are issued only when can_serve() says so
 * (from the plan loop, from inside an AM callback, or later from the progress loop when the engine
 * was full), except for ops flagged `nocheck` which mimic the 2nd..n-th flow of one GET request
 * (remote_dep_mpi_put_start loops over the flows after a single can_serve check).
 * Buffers are never touched here (instrumented code): the harness fills and checks them. */
#include "parsec/parsec_config.h"
#include "parsec/runtime.h"
#include "parsec/parsec_internal.h"
#include "parsec/execution_stream.h"
#include "parsec/parsec_comm_engine.h"
#include "parsec/parsec_mpi_funnelled.h"
#include "parsec/remote_dep.h"
#include "parsec/utils/mca_param.h"
#include "parsec/utils/installdirs.h"
#include "parsec/utils/output.h"
#include <mpi.h>
#include <stdlib.h>
#include <string.h>
#include <stdio.h>
#include "sim/core/sim.h"
#include "harness/l2/ce_common.h"

static ce_shared_t *SH;
static int ME;
static parsec_comm_engine_t *CE;
static parsec_ce_mem_reg_handle_t LH[CE_MAX_XFER], RH[CE_MAX_XFER];
static MPI_Datatype LDT[CE_MAX_XFER], RDT[CE_MAX_XFER];
static unsigned char RHC[CE_MAX_XFER][CE_HANDLE_MAX];   /* partner handles received in request AMs */
static int PENDING[CE_MAX_XFER], NPENDING;
static unsigned char *AMBUF;
static uint64_t BACKOFF;

static void make_type(const ce_layout_t *l, MPI_Datatype *dt, int *count)
{
    MPI_Datatype base = l->elem == 8 ? MPI_DOUBLE : l->elem == 4 ? MPI_INT : MPI_BYTE;
    *count = l->reps;
    switch (l->kind) {
    case CE_L_BYTES:  *dt = MPI_BYTE; return;
    case CE_L_CONTIG: MPI_Type_contiguous(l->count, base, dt); break;
    case CE_L_VECTOR: MPI_Type_vector(l->count, l->blocklen, l->stride, base, dt); break;
    default:          MPI_Type_indexed(l->nblk, l->bl, l->disp, base, dt); break;
    }
    MPI_Type_commit(dt);
}
static void drop_type(const ce_layout_t *l, MPI_Datatype *dt) { if (l->kind != CE_L_BYTES) MPI_Type_free(dt); }

/* the initiator's side of transfer id */
static void reg_local(int id)
{
    ce_xfer_t *x = &SH->xf[id];
    const ce_layout_t *l = x->kind == CE_PUT ? &x->sl : &x->dl;
    int cnt; size_t hs;
    make_type(l, &LDT[id], &cnt);
    CE->mem_register(x->kind == CE_PUT ? x->smem : x->dmem, PARSEC_MEM_TYPE_NONCONTIGUOUS, cnt, LDT[id], -1, &LH[id], &hs);
}
/* the partner's side: registered, and a byte copy of the handle published as it would travel on the wire */
static void reg_remote(int id)
{
    ce_xfer_t *x = &SH->xf[id];
    const ce_layout_t *l = x->kind == CE_PUT ? &x->dl : &x->sl;
    int cnt; size_t hs;
    make_type(l, &RDT[id], &cnt);
    CE->mem_register(x->kind == CE_PUT ? x->dmem : x->smem, PARSEC_MEM_TYPE_NONCONTIGUOUS, cnt, RDT[id], -1, &RH[id], &hs);
    ceh_handle(ME, id, RH[id], (int)hs);
}

static int local_cb(parsec_comm_engine_t *ce, parsec_ce_mem_reg_handle_t lreg, ptrdiff_t ldispl,
                    parsec_ce_mem_reg_handle_t rreg, ptrdiff_t rdispl, size_t size, int remote, void *cb_data)
{
    (void)rreg;
    int id = (int)(intptr_t)cb_data - 1;
    int ok = id >= 0 && id < SH->nxf && NULL != LH[id] && lreg == LH[id];
    ceh_local_done(ME, id, ok, (long)ldispl, (long)rdispl, (long)size, remote);
    if (ok) {
        ce->mem_unregister(&lreg);
        LH[id] = NULL;
        drop_type(SH->xf[id].kind == CE_PUT ? &SH->xf[id].sl : &SH->xf[id].dl, &LDT[id]);
    }
    return 1;
}

/* r_tag of put/get: called on the partner when its half of the transfer completed */
static int remote_cb(parsec_comm_engine_t *ce, parsec_ce_tag_t tag, void *msg, size_t msg_size, int src, void *cb_data)
{
    (void)cb_data;
    int id = ceh_remote_done(ME, msg, (long)msg_size, src, (long)tag);
    if (id >= 0 && id < SH->nxf && NULL != RH[id]) {
        ce->mem_unregister(&RH[id]);
        RH[id] = NULL;
        drop_type(SH->xf[id].kind == CE_PUT ? &SH->xf[id].dl : &SH->xf[id].sl, &RDT[id]);
    }
    return 1;
}

static void start_xfer(int id, void *rh)
{
    ce_xfer_t *x = &SH->xf[id];
    unsigned char rcb[CE_RCB_MAX];
    reg_local(id);
    ceh_rcb_fill(id, rcb);
    ceh_issue(ME, id);
    if (x->kind == CE_PUT)
        CE->put(CE, LH[id], x->ldispl, rh, 0, x->sl.size, x->partner, local_cb, (void *)(intptr_t)(id + 1),
                (parsec_ce_tag_t)SH->rcb_fn[x->partner], rcb, (size_t)x->rcb_size);
    else
        CE->get(CE, LH[id], x->ldispl, rh, 0, x->dl.size, x->partner, local_cb, (void *)(intptr_t)(id + 1),
                (parsec_ce_tag_t)SH->rcb_fn[x->partner], rcb, (size_t)x->rcb_size);
}

static int try_start(int id, void *rh, int where)
{
    ce_xfer_t *x = &SH->xf[id];
    int room = CE->can_serve(CE);
    if (!room && !x->nocheck) return 0;
    if (!ceh_may_initiate(ME, id)) return 0;
    if (!room) ceh_event(ME, CEE_PHASE, 100, id);      /* issued although the engine is full */
    if (where) ceh_event(ME, CEE_PHASE, 100 + where, id);
    start_xfer(id, rh);
    return 1;
}

static void drain(void)
{
    while (NPENDING) {
        int id = PENDING[0];
        if (!try_start(id, RHC[id], 2)) break;
        NPENDING--;
        for (int i = 0; i < NPENDING; i++) PENDING[i] = PENDING[i + 1];
    }
    SH->npending[ME] = NPENDING;
}

static int am_cb(parsec_comm_engine_t *ce, parsec_ce_tag_t tag, void *msg, size_t size, int src, void *cb_data)
{
    (void)ce;
    int id = ceh_am_deliver(ME, (int)(intptr_t)cb_data, (long)tag, src, msg, size);
    if (id >= 0 && id < SH->nxf) {
        /* the message buffer is recycled when we return: keep the partner's handle */
        memcpy(RHC[id], (char *)msg + CE_REQ_HDR, (size_t)SH->handle_size);
        if (NPENDING || !try_start(id, RHC[id], 1)) {
            PENDING[NPENDING++] = id;
            SH->npending[ME] = NPENDING;
            ceh_event(ME, CEE_PHASE, 103, id);
        }
    }
    return 1;
}

static int progress_once(int may_sleep)
{
    int n = CE->progress(CE);
    drain();
    if (n) BACKOFF = 0;
    else if (may_sleep) {
        /* the real communication thread yields / nanosleeps when idle (comm_thread_yield) */
        if (!BACKOFF) BACKOFF = (uint64_t)SH->idle_ns;
        if (BACKOFF) { sim_delay(BACKOFF); BACKOFF *= 2; if (BACKOFF > 1000000) BACKOFF = 1000000; }
        else sim_yield();
    }
    return n;
}

static void phase(int p) { SH->phase[ME] = p; ceh_event(ME, CEE_PHASE, p, 0); }

void *rank_main(void *arg)
{
    ce_rank_arg_t *ra = arg;
    SH = ra->sh;
    ME = ra->rank;
    sim_set_rank(ME);
    int prov;
    MPI_Init_thread(NULL, NULL, MPI_THREAD_SERIALIZED, &prov);
    phase(1);
    parsec_installdirs_open();
    parsec_mca_param_init();
    parsec_output_init();
    parsec_context_t *ctx = calloc(1, sizeof(parsec_context_t));
    parsec_vp_t *vp = calloc(1, sizeof(parsec_vp_t));
    ctx->comm_ctx = -1;
    ctx->nb_vp = 1;
    ctx->nb_nodes = 1;
    vp->parsec_context = ctx;
    vp->nb_cores = 1;
    ctx->virtual_processes[0] = vp;
    parsec_comm_es.th_id = 0;
    parsec_comm_es.virtual_process = vp;
    CE = parsec_comm_engine_init(ctx);
    if (NULL == CE || CE->capabilites.sided != 2 || !CE->capabilites.supports_noncontiguous_datatype) { ceh_event(ME, CEE_INIT_FAILED, 1, 0); return NULL; }
    int nfirst = SH->late_reg ? SH->ntags - 1 : SH->ntags;
    for (int i = 0; i < nfirst; i++)
        if (PARSEC_SUCCESS != CE->tag_register(CE_FIRST_TAG + i, am_cb, (void *)(intptr_t)i, (size_t)SH->tag_len[i])) ceh_event(ME, CEE_API_ERROR, 1, i);
    CE->enable(CE);
    if (SH->late_reg) {
        /* a tag registered while the engine runs; the communication thread calls enable at every wake-up */
        int i = SH->ntags - 1;
        if (PARSEC_SUCCESS != CE->tag_register(CE_FIRST_TAG + i, am_cb, (void *)(intptr_t)i, (size_t)SH->tag_len[i])) ceh_event(ME, CEE_API_ERROR, 1, i);
        CE->enable(CE);
    }
    if (ctx->nb_nodes != SH->nranks || ctx->my_rank != ME) { ceh_event(ME, CEE_INIT_FAILED, 2, ctx->nb_nodes); return NULL; }
    int hs = CE->get_mem_handle_size();
    if (hs > CE_HANDLE_MAX) { ceh_event(ME, CEE_INIT_FAILED, 3, hs); return NULL; }
    SH->handle_size = hs;
    SH->rcb_fn[ME] = (uintptr_t)remote_cb;
    int maxlen = 0;
    for (int i = 0; i < SH->ntags; i++) if (SH->tag_len[i] > maxlen) maxlen = SH->tag_len[i];
    AMBUF = malloc((size_t)maxlen + CE_REQ_HDR + CE_HANDLE_MAX);
    /* remote side of the transfers somebody else starts without asking: handle known beforehand */
    for (int i = 0; i < SH->nxf; i++) if (!SH->xf[i].via_am && SH->xf[i].partner == ME) reg_remote(i);
    ceh_arrive(ME, 0);
    sim_block_on(ceh_barrier_pred, (void *)0, 0, "start barrier");
    phase(2);
    for (int k = 0; k < SH->nops[ME] && !ceh_failed(); k++) {
        const ce_op_t *o = &SH->ops[ME][k];
        SH->op_idx[ME] = k;
        switch (o->kind) {
        case CE_OP_AM:
            for (int j = 0; j < o->n; j++) {
                ce_am_t *am = &SH->am[o->arg + j];
                if (am->req_xfer >= 0) {
                    reg_remote(am->req_xfer);
                    ceh_am_fill(ME, am->id, AMBUF);
                    memcpy(AMBUF + CE_REQ_HDR, RH[am->req_xfer], (size_t)hs);
                } else ceh_am_fill(ME, am->id, AMBUF);
                CE->send_am(CE, CE_FIRST_TAG + am->tag, am->dst, AMBUF, (size_t)am->len);
            }
            break;
        case CE_OP_XFER:
            if (!try_start(o->arg, SH->xf[o->arg].rhandle, 0)) {
                ceh_event(ME, CEE_PHASE, 104, o->arg);     /* had to wait for the engine (or for a data tag) */
                do progress_once(1); while (!ceh_failed() && !try_start(o->arg, SH->xf[o->arg].rhandle, 0));
            }
            break;
        case CE_OP_PROGRESS:
            for (int j = 0; j < o->n; j++) progress_once(0);
            break;
        default:
            sim_delay((uint64_t)o->n);
            break;
        }
    }
    SH->op_idx[ME] = SH->nops[ME];
    phase(3);
    while (!ceh_quiescent(ME)) progress_once(1);
    if (ceh_failed()) { SH->rank_done[ME] = 1; return NULL; }      /* no teardown of a broken engine */
    if (SH->end_barrier) {
        ceh_arrive(ME, 1);
        sim_block_on(ceh_barrier_pred, (void *)1, 0, "end barrier");
    }
    phase(4);
    /* nothing more may be delivered */
    for (int j = 0; j < SH->linger && !ceh_failed(); j++) { CE->progress(CE); sim_delay(2000); }
    if (ceh_failed()) { SH->rank_done[ME] = 1; return NULL; }
    for (int i = 0; i < SH->ntags; i++) CE->tag_unregister(CE_FIRST_TAG + i);
    CE->fini(CE);
    MPI_Finalize();
    free(AMBUF);
    phase(5);
    SH->rank_done[ME] = 1;
    return NULL;
}
