/* DTD harness (C03, C04, C17): whole runtime, 1..P simulated ranks, sequential reference.
 * Real: everything in libparsec (DTD front end, scheduler modules, remote_dep, comm engine).
 * Simulated: thread scheduling, clock, MPI network (simmpi).
 * knob `prop` selects which property's oracle classes are reported (3, 4 or 17). */
#define _GNU_SOURCE
#include "../hx.h"
#include "../../sim/mpi/simmpi.h"
#include "dtd_common.h"
#include <pthread.h>
#include <stdlib.h>
#include <string.h>
#include <stdio.h>
#include <unistd.h>

extern int hx_rank_count;
extern void *(*hx_rank_mains[])(void *);

enum { OP_TASK, OP_FLUSH, OP_FLUSHALL, OP_WAIT, OP_N };
static const char *const opnames[] = {"task", "flush", "flushall", "wait"};
enum { PR_READERS_OVERLAP, PR_REMOTE_TASK, PR_SAME_TILE_TWICE, PR_NESTED_INSERT, PR_WINDOW_SMALL, PR_MULTIRANK, PR_WRITER_AFTER_READERS,
       PR_NESTED_WINDOW_STOP, PR_AFTER_WAIT_CHECKED, PR_SHORT_LIMIT_0, PR_COPY_STALL, PR_COPY_STALL_FIRED, PR_N };
static const char *const probe_names[] = {"two_readers_overlapped", "task_ran_on_nonzero_rank", "task_uses_tile_twice", "task_inserted_from_task",
                                          "window_le_2", "multi_rank_run", "writer_ran_after_2plus_readers",
                                          "nested_insertion_hit_window_stop", "flushed_owner_copy_checked_after_wait", "multi_rank_comm_short_limit_0",
                                          "multi_rank_copy_stall", "local_copy_held_up"};

static const char *const SCHEDS[] = {"lfq", "ap", "gd", "ip", "lhq", "ll", "llp", "ltq", "pbq", "rnd", "spq"};
#define NSCHED 11

static dtd_shared_t SH;
static hx_result_t *RES;
static int PROP;

/* ---- reference ---- */
typedef struct {
    int64_t in_expect[DTD_MAX_PARAMS];
    int64_t out_val[DTD_MAX_PARAMS];
    int exp_rank;
} ref_task_t;
static ref_task_t REF[DTD_MAX_TASKS];
static int64_t ref_final[DTD_MAX_TILES];
static int tile_flushed[DTD_MAX_TILES];
static int last_writer_task[DTD_MAX_TILES], last_writer_param[DTD_MAX_TILES];

static int64_t mix(int64_t a, int64_t b)
{
    uint64_t s = (uint64_t)a * 0x9E3779B97F4A7C15ULL ^ (uint64_t)b;
    return (int64_t)(sim_splitmix(&s) & 0xffffffffffffULL);
}
static int reads(int m) { return m == M_IN || m == M_INOUT; }
static int writes(int m) { return m == M_OUT || m == M_INOUT; }

/* order in which task descs execute sequentially: main-thread order, a nested task right
 * after its inserter (insertion order as seen by the per-tile chains when the inserter's
 * body runs to completion before the next main insertion is NOT guaranteed; so nested tasks
 * only touch tiles nobody else touches -- see gen) */
static void compute_reference(void)
{
    int64_t val[DTD_MAX_TILES];
    for (int k = 0; k < SH.ntiles; k++) { val[k] = 1000 * (int64_t)(k + 1); last_writer_task[k] = -1; tile_flushed[k] = 0; }
    for (int i = 0; i < SH.ntasks; i++) {
        dtd_task_desc_t *d = &SH.tasks[i];
        if (d->is_flush == 1) { tile_flushed[d->tile[0]] = 1; continue; }
        if (d->is_flush == 2) { for (int k = 0; k < SH.ntiles; k++) tile_flushed[k] = 1; continue; }
        if (d->is_flush) continue;
        int64_t h = d->id + 1;
        for (int p = 0; p < d->nparams; p++) {
            REF[i].in_expect[p] = val[d->tile[p]];
            if (reads(d->mode[p])) h = mix(h, val[d->tile[p]] + 7 * p);
        }
        for (int p = 0; p < d->nparams; p++) if (writes(d->mode[p])) {
            REF[i].out_val[p] = mix(h, 100 + p);
            val[d->tile[p]] = REF[i].out_val[p];
            last_writer_task[d->tile[p]] = i;
            last_writer_param[d->tile[p]] = p;
        }
        REF[i].exp_rank = d->affinity >= 0 ? d->tile[d->affinity] % SH.nranks : -1;
    }
    for (int k = 0; k < SH.ntiles; k++) ref_final[k] = val[k];
}

/* ---- run-time observation ---- */
typedef struct { uint64_t begin, end; int rank, count; } obs_t;
static obs_t OBS[DTD_MAX_TASKS];
static int64_t OBS_out[DTD_MAX_TASKS][DTD_MAX_PARAMS];   /* value actually written by (task, param) */

/* per (rank, tile) in-flight state for C04 */
static int inflight_w[16][DTD_MAX_TILES], inflight_r[16][DTD_MAX_TILES];
static int readers_since_write[16][DTD_MAX_TILES];
static unsigned char INFL[16][DTD_MAX_TILES][DTD_MAX_TASKS];   /* 0 not running, 1 reading, 2 writing */
static int insert_done[DTD_MAX_TASKS];     /* insertion (by rank that runs it) has returned */

static uint64_t INS_BEGIN[16][DTD_MAX_TASKS], INS_END[16][DTD_MAX_TASKS];   /* per rank: insertion of task / flush [plan index] began, returned */
static uintptr_t TASK_ADDR[DTD_MAX_TASKS];          /* address of the runtime's task object when the body of [plan index] ran */
static int WAR_R = -1, WAR_W = -1, WAR_T = -1;     /* (reader, writer, tile) of a write-after-read failure, for the shape tag */
static int c3(void) { return PROP == 3; }
static int c4(void) { return PROP == 4; }
static int exp_rank_of(int i) { return SH.nranks == 1 ? 0 : REF[i].exp_rank; }
static int plan_has_nested(void) { for (int i = 0; i < SH.ntasks; i++) if (!SH.tasks[i].is_flush && SH.tasks[i].inserter >= 0) return 1; return 0; }

/* C17 (and the final-value half of C03), mid-run: parsec_taskpool_wait has just returned on `rank`, which owns tile k
 * (contents at `data`); plan entries [0, upto) were inserted before that wait.  If the last flush of k (flush or
 * flush_all) among them comes after the last writer of k among them, the flush "and the corresponding wait" are
 * over: the owner's copy must hold what that writer was OBSERVED to produce (its inputs are C03's business; the
 * initial contents if nobody wrote).  Plans with tasks inserting tasks are left to the end-of-run check. */
static void after_wait_check(int rank, int upto, int k, const int64_t *data)
{
    if (!(c3() || PROP == 17) || RES->vclass || !data || k < 0 || k >= SH.ntiles || plan_has_nested()) return;
    if (upto > SH.ntasks) upto = SH.ntasks;
    int lf = -1, lw = -1, lwp = -1, nwait = 1;
    for (int i = 0; i < upto; i++) {
        dtd_task_desc_t *d = &SH.tasks[i];
        if (d->is_flush == 3) { nwait++; continue; }
        if (d->is_flush == 2 || (d->is_flush == 1 && d->tile[0] == k)) { lf = i; continue; }
        if (d->is_flush) continue;
        for (int p = 0; p < d->nparams; p++) if (d->tile[p] == k && writes(d->mode[p])) { lw = i; lwp = p; }
    }
    if (lf < 0 || lf < lw) return;
    if (lw >= 0 && !OBS[lw].end) return;          /* the writer never ran: task-lost / a hang, reported elsewhere */
    sim_probe(PR_AFTER_WAIT_CHECKED);
    int64_t want = lw >= 0 ? OBS_out[lw][lwp] : 1000 * (int64_t)(k + 1);
    for (int j = 0; j < SH.nelems; j++) if (data[j] != want + j) {
        hx_fail(RES, "flush-wrong-value", "tile %d element %d on its owner rank %d is %lld after wait #%d (parsec_taskpool_wait just returned; the flush at plan index %d precedes it); last writer in insertion order (task %d) produced %lld",
                k, j, rank, (long long)data[j], nwait, lf, lw, (long long)(want + j));
        break;
    }
}

/* per rank: task objects that entered prepare_input since they last started executing (PINS events 11 / 12).  A count
 * that keeps growing while the task never executes = the task is being sent back by the write-after-read gate. */
#define PREP_SLOTS 512
static struct { uintptr_t addr; int rank; unsigned count; } PREP[PREP_SLOTS];
static void prep_note(int rank, uintptr_t addr, int executing)
{
    int free_slot = -1;
    for (int i = 0; i < PREP_SLOTS; i++) {
        if (PREP[i].addr == addr && PREP[i].rank == rank && PREP[i].count) { if (executing) PREP[i].count = 0; else PREP[i].count++; return; }
        if (!PREP[i].count && free_slot < 0) free_slot = i;
    }
    if (!executing && free_slot >= 0) { PREP[free_slot].addr = addr; PREP[free_slot].rank = rank; PREP[free_slot].count = 1; }
}
static int spinning_on_again(int rank)      /* tasks of that rank that entered prepare_input >= 4 times and have not executed */
{
    int n = 0;
    for (int i = 0; i < PREP_SLOTS; i++) if (PREP[i].rank == rank && PREP[i].count >= 4) n++;
    return n;
}

/* C06 (and what every other DTD oracle takes for granted): parsec_taskpool_wait / parsec_context_wait return only after
 * every task this rank inserted before the call and has to run itself has completed.  Tasks inserted by tasks count when
 * their inserter was inserted before the call (it finished, so its insertions happened). */
static void wait_returned_check(int rank, int kind, long a)
{
    if (!RES || RES->vclass) return;
    int bound = kind == 3 ? (int)a + 1 : SH.ntasks;
    for (int i = 0; i < SH.ntasks && i < DTD_MAX_TASKS; i++) {
        dtd_task_desc_t *d = &SH.tasks[i];
        if (d->is_flush || d->nparams < 1) continue;
        int top = d->inserter >= 0 ? d->inserter : i;
        if (top >= bound || exp_rank_of(i) != rank) continue;
        if (d->inserter >= 0 && !OBS[d->inserter].count) continue;      /* its inserter never ran here: reported elsewhere */
        if (!OBS[i].end) {
            hx_fail(RES, "wait-returned-early", "%s returned on rank %d although task %d, inserted before the call%s, has %s", kind == 5 ? "parsec_context_wait" : "parsec_taskpool_wait",
                    rank, i, d->inserter >= 0 ? " (by a task)" : "", OBS[i].count ? "not finished its body" : "not run");
            return;
        }
    }
}

void dtdh_event(int rank, int kind, long a, long b)
{
    if (kind == 11 || kind == 12) { prep_note(rank, (uintptr_t)b, kind == 12); return; }
    sim_hash_event(((uint64_t)rank << 56) ^ ((uint64_t)kind << 48) ^ (uint64_t)a);
    if (getenv("VERIF_MPI_TRACE")) fprintf(stderr, "[dtd t=%llu] rank %d event %d task %ld\n", (unsigned long long)sim_now(), rank, kind, a);
    int idx_ok = rank >= 0 && rank < 16 && a >= 0 && a < DTD_MAX_TASKS;
    if ((kind == 1 || kind == 8) && idx_ok) INS_BEGIN[rank][a] = sim_stamp();
    if ((kind == 2 || kind == 10) && idx_ok) INS_END[rank][a] = sim_stamp();
    if (kind == 6 && idx_ok) TASK_ADDR[a] = (uintptr_t)b;
    if (kind == 7) after_wait_check(rank, (int)(a >> 8), (int)(a & 0xff), (const int64_t *)(intptr_t)b);
    if (kind == 3 || kind == 4 || kind == 5) wait_returned_check(rank, kind, a);
    if (kind == 9) sim_probe(PR_NESTED_WINDOW_STOP);
    if (kind == 13) sim_probe(PR_COPY_STALL_FIRED);
    if (kind == 99) hx_fail(RES, "init-failed", "parsec_init returned NULL on rank %d", rank);
}

int dtdh_body(int rank, int id, int nparams, int64_t **p)
{
    if (id < 0 || id >= SH.ntasks) { hx_fail(RES, "garbage-task", "body called with task id %d", id); return 0; }
    dtd_task_desc_t *d = &SH.tasks[id];
    obs_t *o = &OBS[id];
    o->count++;
    o->rank = rank;
    o->begin = sim_stamp();
    sim_hash_event(((uint64_t)rank << 56) ^ 0xB0000 ^ (uint64_t)id);
    if (rank) sim_probe(PR_REMOTE_TASK);
    if (o->count > 1) hx_fail(RES, "task-ran-twice", "task %d body invoked %d times", id, o->count);
    /* distinct tiles of this task with strongest mode */
    int tl[DTD_MAX_PARAMS], tw[DTD_MAX_PARAMS], nt = 0;
    for (int i = 0; i < nparams; i++) {
        int k = -1;
        for (int j = 0; j < nt; j++) if (tl[j] == d->tile[i]) k = j;
        if (k < 0) { tl[nt] = d->tile[i]; tw[nt] = 0; k = nt++; } else sim_probe(PR_SAME_TILE_TWICE);
        if (writes(d->mode[i])) tw[k] = 1;
    }
    /* C04: conflicting accesses on the same rank must not be in flight.  Classes say which hazard
     * was not enforced: war- (a writer and an EARLIER-inserted reader overlap), raw- (a reader or writer
     * overlaps an earlier-inserted writer) */
    for (int j = 0; j < nt; j++) {
        int t = tl[j];
        for (int q = 0; q < SH.ntasks && c4() && !RES->vclass; q++) {
            if (q == id || !INFL[rank][t][q]) continue;
            int qw = INFL[rank][t][q] == 2;
            if (!tw[j] && !qw) continue;            /* two readers may share */
            int earlier_is_reader = q < id ? !qw : !tw[j];
            if (earlier_is_reader && !RES->vclass) { WAR_T = t; if (tw[j]) { WAR_R = q; WAR_W = id; } else { WAR_R = id; WAR_W = q; } }
            hx_fail(RES, earlier_is_reader ? "war-overlap" : "raw-overlap",
                    "task %d starts %s tile %d on rank %d while task %d (inserted %s it) is still %s it", id, tw[j] ? "writing" : "reading", t, rank, q,
                    q < id ? "before" : "after", qw ? "writing" : "reading");
        }
        if (tw[j]) {
            if (readers_since_write[rank][t] >= 2) sim_probe(PR_WRITER_AFTER_READERS);
            inflight_w[rank][t]++;
            readers_since_write[rank][t] = 0;
        } else {
            if (inflight_r[rank][t]) sim_probe(PR_READERS_OVERLAP);
            inflight_r[rank][t]++;
            readers_since_write[rank][t]++;
        }
        INFL[rank][t][id] = tw[j] ? 2 : 1;
    }
    /* read phase */
    int64_t h = d->id + 1;
    int64_t rd[DTD_MAX_PARAMS] = {0};
    for (int i = 0; i < nparams; i++) {
        if (!p[i]) { hx_fail(RES, "null-data", "task %d param %d has a NULL data pointer", id, i); continue; }
        if (!reads(d->mode[i])) continue;
        int64_t b = p[i][0];
        rd[i] = b;
        for (int j = 1; j < SH.nelems; j++) if (p[i][j] != b + j && c3()) hx_fail(RES, "torn-data", "task %d param %d (tile %d): element %d is %lld, expected %lld", id, i, d->tile[i], j, (long long)p[i][j], (long long)(b + j));
        if (c3() && b != REF[id].in_expect[i]) {
            /* classify: value of a later-inserted writer (write-after-read not enforced), an older
             * version (read-after-write not enforced), or something nobody wrote */
            int later = -1, older = -1;
            for (int j = 0; j < SH.ntasks; j++) {
                dtd_task_desc_t *e = &SH.tasks[j];
                if (e->is_flush || j == id) continue;
                for (int q = 0; q < e->nparams; q++) if (e->tile[q] == d->tile[i] && writes(e->mode[q]) && REF[j].out_val[q] == b) { if (j > id) later = j; else older = j; }
            }
            if (b == 1000 * (int64_t)(d->tile[i] + 1)) older = -2;
            if (later >= 0 && !RES->vclass) { WAR_R = id; WAR_W = later; WAR_T = d->tile[i]; }
            if (later >= 0)
                hx_fail(RES, "war-violation", "task %d param %d (tile %d) read %lld = the value written by LATER-inserted task %d; sequential execution gives %lld", id, i, d->tile[i], (long long)b, later, (long long)REF[id].in_expect[i]);
            else if (older != -1)
                hx_fail(RES, "raw-violation", "task %d param %d (tile %d) read the stale value %lld (from %s %d); sequential execution gives %lld", id, i, d->tile[i], (long long)b, older == -2 ? "the initial contents, task" : "earlier task", older, (long long)REF[id].in_expect[i]);
            else
                hx_fail(RES, "wrong-input", "task %d param %d (tile %d, mode %d) read %lld, sequential execution gives %lld", id, i, d->tile[i], d->mode[i], (long long)b, (long long)REF[id].in_expect[i]);
        }
        h = mix(h, b + 7 * i);
    }
    if (d->delay) sim_delay((uint64_t)d->delay); else sim_yield();
    /* a reader must still see its input after the stretch (nobody wrote under it) */
    for (int i = 0; i < nparams; i++) {
        if (!p[i] || !reads(d->mode[i]) ) continue;
        int aliased_w = 0;
        for (int q = 0; q < nparams; q++) if (q != i && d->tile[q] == d->tile[i] && writes(d->mode[q])) aliased_w = 1;
        (void)aliased_w;
        if (c4() && p[i][0] != rd[i] && !RES->vclass)
            hx_fail(RES, "value-changed-under-reader", "task %d param %d (tile %d): value changed under a running reader", id, i, d->tile[i]);
    }
    /* write phase */
    for (int i = 0; i < nparams; i++) if (p[i] && writes(d->mode[i])) {
        int64_t v = mix(h, 100 + i);
        for (int j = 0; j < SH.nelems; j++) p[i][j] = v + j;
        OBS_out[id][i] = v;
    }
    if (d->delay) sim_delay((uint64_t)d->delay / 2 + 1);
    for (int j = 0; j < nt; j++) { if (tw[j]) inflight_w[rank][tl[j]]--; else inflight_r[rank][tl[j]]--; INFL[rank][tl[j]][id] = 0; }
    o->end = sim_stamp();
    if (getenv("VERIF_MPI_TRACE")) fprintf(stderr, "[dtd t=%llu] rank %d BODY task %d done\n", (unsigned long long)sim_now(), rank, id);
    return 0;
}

/* ---- plan <-> shared ---- */
static void plan_to_shared(const hx_plan_t *p)
{
    memset(&SH, 0, sizeof(SH));
    SH.nranks = (int)hx_knob(p, "nranks", 1);
    if (SH.nranks > hx_rank_count) SH.nranks = hx_rank_count;
    if (SH.nranks < 1) SH.nranks = 1;
    SH.nthreads = (int)hx_knob(p, "nthreads", 2);
    SH.ntiles = (int)hx_knob(p, "ntiles", 4);
    if (SH.ntiles > DTD_MAX_TILES) SH.ntiles = DTD_MAX_TILES;
    SH.nelems = (int)hx_knob(p, "nelems", 2);
    if (SH.nelems > DTD_MAX_ELEMS) SH.nelems = DTD_MAX_ELEMS;
    SH.window = (int)hx_knob(p, "window", 0);
    SH.threshold = (int)hx_knob(p, "threshold", 0);
    int n = 0;
    int task_index[HX_MAX_OPS];
    for (int i = 0; i < p->nops && n < DTD_MAX_TASKS - 1; i++) {
        const hx_op_t *o = &p->ops[i];
        dtd_task_desc_t *d = &SH.tasks[n];
        memset(d, 0, sizeof(*d));
        d->id = n; d->inserter = -1; d->affinity = -1;
        task_index[i] = -1;
        switch (o->op) {
        case OP_TASK: {
            int np = (int)(o->b & 0xf);
            if (np < 1) np = 1;
            if (np > DTD_MAX_PARAMS) np = DTD_MAX_PARAMS;
            d->nparams = np;
            for (int k = 0; k < np; k++) {
                int f = (int)((o->a >> (8 * k)) & 0xff);
                d->tile[k] = (f & 0x1f) % SH.ntiles;
                d->mode[k] = ((f >> 5) & 3) % 3;
            }
            if (hx_knob(p, "no_repeat", 0)) {
                /* drop later parameters that name a tile already used by this task */
                int m2 = 0;
                for (int k = 0; k < np; k++) {
                    int dup = 0;
                    for (int q = 0; q < m2; q++) if (d->tile[q] == d->tile[k]) dup = 1;
                    if (!dup) { d->tile[m2] = d->tile[k]; d->mode[m2] = d->mode[k]; m2++; }
                }
                np = d->nparams = m2;
            }
            int aff = (int)((o->b >> 4) & 0xf);
            d->affinity = aff ? (aff - 1) % np : -1;
            int back = (int)((o->b >> 8) & 0xff);
            if (back) {
                /* nested: inserted from the body of the back-th previous *main* task, if any */
                int cnt = 0;
                for (int j = n - 1; j >= 0; j--) if (!SH.tasks[j].is_flush && SH.tasks[j].inserter < 0) { if (++cnt == back) { d->inserter = j; break; } }
            }
            d->delay = (int)(o->c & 0xfffff);
            d->priority = (int)((o->c >> 20) & 0xff);
            task_index[i] = n;
            n++;
            break;
        }
        case OP_FLUSH: d->is_flush = 1; d->tile[0] = (int)(o->a % SH.ntiles); d->nparams = 0; n++; break;
        case OP_FLUSHALL: d->is_flush = 2; n++; break;
        case OP_WAIT: d->is_flush = 3; n++; break;
        }
    }
    (void)task_index;
    /* legality fix-ups (the DTD API has preconditions a legal client respects; see docs/doxygen/dtd.md
     * and the comments of parsec_dtd_data_flush(_all) in insert_function.h):
     *  - no task may use a tile after it was flushed until the taskpool has been waited
     *  - distributed runs flush every data collection before ANY parsec_taskpool_wait (all :mp tests
     *    do; a rank that only knows remote writers of unflushed tiles never leaves the wait otherwise):
     *    a wait op becomes flush_all + wait when nranks > 1
     *  - a mid-program flush_all is followed by a wait; the program always ends with flush_all (+ the
     *    driver's final wait)
     *  - a nested task may only use tiles that no other insertion uses, except nested tasks of the SAME
     *    inserter (one body inserts them one after the other, in plan order): otherwise "insertion order"
     *    is not defined
     *  - a flush_all is preceded by a wait when tasks inserted since the last wait insert tasks themselves:
     *    otherwise the nested insertion could come after the flush of its tile
     *  - distributed runs need an affinity on every task (placement "given by affinity") */
    {
        static dtd_task_desc_t out[DTD_MAX_TASKS];
        int remap[DTD_MAX_TASKS];
        int flushed[DTD_MAX_TILES] = {0};
        int m = 0;
#define EMIT_SPECIAL(kind) do { if (m < DTD_MAX_TASKS - 2) { memset(&out[m], 0, sizeof(out[m])); out[m].id = m; out[m].inserter = -1; out[m].affinity = -1; out[m].is_flush = (kind); m++; } } while (0)
#define NESTED_SINCE_WAIT(res) do { (res) = 0; for (int z_ = m - 1; z_ >= 0 && out[z_].is_flush != 3; z_--) if (!out[z_].is_flush && out[z_].inserter >= 0) (res) = 1; } while (0)
        for (int i = 0; i < n && m < DTD_MAX_TASKS - 5; i++) {
            dtd_task_desc_t *d = &SH.tasks[i];
            remap[i] = -1;
            if (d->is_flush == 3 || d->is_flush == 2) {
                if (m && out[m - 1].is_flush == 3) continue;                 /* nothing happened since the last wait */
                if (d->is_flush == 2 || SH.nranks > 1) {
                    if (!(m && out[m - 1].is_flush == 2)) { int ns; NESTED_SINCE_WAIT(ns); if (ns) EMIT_SPECIAL(3); EMIT_SPECIAL(2); }
                }
                EMIT_SPECIAL(3);
                memset(flushed, 0, sizeof(flushed));
                continue;
            }
            if (d->is_flush == 1) {
                if (flushed[d->tile[0]]) continue;
                flushed[d->tile[0]] = 1;
            } else {
                int bad = 0;
                for (int k = 0; k < d->nparams; k++) if (flushed[d->tile[k]]) bad = 1;
                if (bad) continue;
            }
            out[m] = *d;
            out[m].id = m;
            if (d->inserter >= 0) out[m].inserter = remap[d->inserter];       /* -1 if the inserter was dropped: becomes a main insertion */
            remap[i] = m;
            m++;
        }
        /* a trailing wait is redundant with the driver's final wait */
        while (m && out[m - 1].is_flush == 3) m--;
        if (!(m && out[m - 1].is_flush == 2)) { int ns; NESTED_SINCE_WAIT(ns); if (ns) EMIT_SPECIAL(3); EMIT_SPECIAL(2); }
        memcpy(SH.tasks, out, sizeof(out[0]) * (size_t)m);
        n = m;
    }
    /* nested tasks: restrict to private tiles */
    for (int i = 0; i < n; i++) {
        dtd_task_desc_t *d = &SH.tasks[i];
        if (d->inserter < 0 || d->is_flush) continue;
        int ok = 1;
        for (int j = 0; j < n && ok; j++) {
            if (j == i || SH.tasks[j].is_flush == 2 || SH.tasks[j].is_flush == 3) continue;
            if (!SH.tasks[j].is_flush && SH.tasks[j].inserter == d->inserter) continue;   /* same body inserts both, in plan order */
            for (int a = 0; a < d->nparams && ok; a++) {
                if (SH.tasks[j].is_flush == 1) { if (SH.tasks[j].tile[0] == d->tile[a]) ok = 0; continue; }
                for (int b = 0; b < SH.tasks[j].nparams; b++) if (SH.tasks[j].tile[b] == d->tile[a]) ok = 0;
            }
        }
        if (!ok || SH.nranks > 1) d->inserter = -2; /* dropped */
    }
    int m = 0;
    for (int i = 0; i < n; i++) {
        if (SH.tasks[i].inserter == -2) continue;
        int old = SH.tasks[i].id;
        SH.tasks[m] = SH.tasks[i];
        SH.tasks[m].id = m;
        for (int j = i + 1; j < n; j++) if (SH.tasks[j].inserter == old) SH.tasks[j].inserter = m;
        m++;
    }
    n = m;
    if (SH.nranks > 1) for (int i = 0; i < n; i++) if (!SH.tasks[i].is_flush && SH.tasks[i].affinity < 0) SH.tasks[i].affinity = 0;
    SH.ntasks = n;
}

static void gen(hx_plan_t *p, hx_rng_t *r)
{
    int prop = 3;
    hx_set_knob(p, "prop", prop);
    int P = hx_chance(r, 45) ? 1 : (int)hx_range(r, 2, hx_rank_count > 1 ? hx_rank_count : 1);
    if (P > hx_rank_count) P = hx_rank_count;
    hx_set_knob(p, "nranks", P);
    hx_set_knob(p, "nthreads", hx_chance(r, 70) ? hx_range(r, 1, 4) : hx_range(r, 5, 8));
    int nt = (int)hx_range(r, 2, 6);
    hx_set_knob(p, "ntiles", nt);
    hx_set_knob(p, "nelems", hx_chance(r, 80) ? hx_range(r, 1, 4) : hx_range(r, 5, DTD_MAX_ELEMS));
    hx_set_knob(p, "sched", hx_below(r, NSCHED));
    /* tasks inserting tasks: single rank only; the nested tasks get 1-2 tiles of their own (the highest indices:
     * plan_to_shared drops a nested task whose tiles anybody else uses), and window x threshold stay small in most
     * of these plans so that nested insertions fall on window stops */
    int nested_ok = P == 1 && hx_chance(r, 40);
    int nres = !nested_ok ? 0 : nt >= 4 && hx_chance(r, 50) ? 2 : 1;
    int ntm = nt - nres;                /* main insertions use tiles [0, ntm), nested ones [ntm, nt) */
    int small = nested_ok && hx_chance(r, 70);
    static const int wins[] = {0, 0, 1, 2, 8};
    hx_set_knob(p, "window", small ? hx_range(r, 1, 2) : wins[hx_below(r, 5)]);
    static const int thr[] = {0, 0, 1, 2, 4};
    hx_set_knob(p, "threshold", small ? hx_range(r, 1, 2) : thr[hx_below(r, 5)]);
    hx_set_knob(p, "net_lat", hx_chance(r, 50) ? 1000 : hx_range(r, 100, 200000));
    hx_set_knob(p, "net_jit", hx_chance(r, 30) ? 0 : hx_range(r, 100, 400000));
    hx_set_knob(p, "net_heavy", hx_chance(r, 30) ? hx_range(r, 1, 20) : 0);
    static const long eag[] = {0, 64, 65536, 1 << 30};
    hx_set_knob(p, "net_eager", eag[hx_below(r, 4)]);
    hx_set_knob(p, "net_partial", hx_chance(r, 40) ? hx_range(r, 5, 60) : 0);
    hx_set_knob(p, "net_lag", hx_chance(r, 40) ? hx_range(r, 5, 40) : 0);
    hx_set_knob(p, "net_late", hx_chance(r, 30) ? hx_range(r, 5, 60) : 0);
    hx_set_knob(p, "partial_flush", hx_chance(r, 50));
    /* PaRSEC's own short-message limit (default 1 KB: a tile always travels inside the activation message): 0 sends
     * every tile through the rendezvous (GET) path */
    hx_set_knob(p, "comm_short", P > 1 && hx_chance(r, 40) ? 0 : -1);
    /* a slow local copy in the communication engine (dtd_driver.c: stalled_reshape), simulated ns */
    hx_set_knob(p, "copy_stall", !(P > 1 && hx_chance(r, 40)) ? 0 : hx_chance(r, 40) ? hx_range(r, 2000, 1000000) : hx_range(r, 1000000, 40000000));
    /* 0: workers hand local copies (the flush copy-back) to the communication thread as DEP_MEMCPY commands, the
     * funnelled model; -1: PaRSEC decides from the MPI thread level (simmpi: multiple, the worker copies in place) */
    hx_set_knob(p, "comm_mt", P > 1 && hx_chance(r, 50) ? 0 : -1);
    int n = (int)hx_range(r, 3, 28);
    int allow_rep = hx_chance(r, 10);   /* one tile in several parameters of a task: rare, own finding class */
    int nmain = 0;                      /* main insertions so far */
    int res_owner[2] = {-1, -1};        /* which main insertion's nested tasks use reserved tile ntm + x */
    for (int i = 0; i < n; i++) {
        int np = hx_chance(r, 55) ? 1 : hx_chance(r, 60) ? 2 : (int)hx_range(r, 3, 4);
        long a = 0;
        int used[DTD_MAX_PARAMS];
        int back = nested_ok && nmain > 0 && hx_chance(r, 30) ? (int)hx_range(r, 1, 3) : 0;
        int lo = 0, cnt = ntm;          /* this task draws its tiles from [lo, lo + cnt) */
        if (back) {
            if (back > nmain) back = nmain;
            int ins = nmain - back, x0 = -1, x1 = -1;
            for (int x = 0; x < nres; x++) if (res_owner[x] < 0 || res_owner[x] == ins) { if (x0 < 0) x0 = x; x1 = x; }
            if (x0 < 0) back = 0;       /* every reserved tile belongs to another inserter: a main insertion then */
            else { lo = ntm + x0; cnt = x1 - x0 + 1; }      /* nres <= 2: [x0, x1] holds candidates only */
        }
        if (!allow_rep && np > cnt) np = cnt;
        for (int k = 0; k < np; k++) {
            int tile = lo + (int)hx_below(r, cnt);
            if (!allow_rep) {
                for (;;) { int dup = 0; for (int q = 0; q < k; q++) if (used[q] == tile) dup = 1; if (!dup) break; tile = lo + (tile - lo + 1) % cnt; }
            }
            used[k] = tile;
            if (back) res_owner[tile - ntm] = nmain - back;
            int q = (int)hx_below(r, 100);
            int mode = q < 45 ? M_IN : q < 60 ? M_OUT : M_INOUT;
            a |= (long)((tile & 0x1f) | (mode << 5)) << (8 * k);
        }
        if (!back) nmain++;
        int aff = hx_chance(r, 80) ? 1 + (int)hx_below(r, np) : 0;
        long b = np | (aff << 4) | (back << 8);
        long c = (hx_chance(r, 60) ? hx_range(r, 0, 3000) : hx_range(r, 3000, 200000)) | (hx_below(r, 4) << 20);
        hx_add_op(p, 0, OP_TASK, a, b, c);
        if (hx_chance(r, 4)) hx_add_op(p, 0, OP_WAIT, 0, 0, 0);
    }
    /* trailing flushes (the tiles reserved for nested tasks are only ever flushed by flush_all) */
    if (hx_knob(p, "partial_flush", 0)) {
        for (int k = 0; k < ntm; k++) if (hx_chance(r, 50)) hx_add_op(p, 0, OP_FLUSH, k, 0, 0);
    } else hx_add_op(p, 0, OP_FLUSHALL, 0, 0, 0);
}

static void setenv_int(const char *k, long v) { char b[32]; snprintf(b, sizeof(b), "%ld", v); setenv(k, b, 1); }

static void init(void)
{
    setenv("HWLOC_SYNTHETIC", "pack:1 core:16 pu:1", 1);
    setenv("HWLOC_THISSYSTEM", "0", 1);
    char tmpl[] = "/tmp/verif_home_XXXXXX";
    char *d = hx_scratch_dir(tmpl);
    if (d) setenv("HOME", d, 1);
    /* scrub */
    extern char **environ;
    for (char **e = environ; *e;) {
        if (!strncmp(*e, "PARSEC_MCA_", 11)) { char nm[128]; snprintf(nm, sizeof(nm), "%.*s", (int)(strchr(*e, '=') - *e), *e); unsetenv(nm); e = environ; }
        else e++;
    }
}

static void *rank_tramp(void *a)
{
    dtd_rank_arg_t *ra = a;
    sim_set_rank(ra->rank);
    return hx_rank_mains[ra->rank](a);
}

/* Root cause of the single-rank shapes of KF-DTD-WAR-RACE, as far as the harness can witness it.
 * parsec_insert_dtd_task (insert_function.c, branch "have parent, but parent is not alive") compares the tile's
 * last_user.task with this_task to recognise "the same task uses the tile in several flows".  last_user.task of a tile X
 * whose last user is a COMPLETED reader q is a dangling pointer: q's task object went back to the mempool of its task
 * class.  When the next task T that uses X (flow f) is of the same class and is handed q's object, the comparison is
 * true by accident and DTD drops a reader reference of T's flow g = the flow at which q used X (if that flow is
 * already bound to a copy, i.e. g < f and the last writer of tile V = T.tile[g] is complete).  The reader count of V's
 * copy is one too low from then on (T itself is not counted; -1 when all readers are gone): every later writer of V on
 * this rank starts while one earlier reader is still pending or running.  V need not be a tile q ever used.
 * Returns 1 if such a (q, T) exists for V on rank rr with T inserted before task `before`:
 *   T's task object IS q's (addresses seen by the two bodies), same class (same parameter count and modes: the driver
 *   has one body function per signature), both ran on rr, q used X read-only at position g, T is the next user of X
 *   in insertion order (no flush of X in between: a flush + wait recreates the tile), T.tile[f] == X with g < f,
 *   T.tile[g] == V, q's body had ended before T's insertion began, the last writer of V before T had ended before
 *   T's insertion returned. */
static int recycled_reader_spoils(int rr, int V, int before, int *out_q, int *out_t)
{
    for (int t = 1; t < before && t < SH.ntasks; t++) {
        dtd_task_desc_t *T = &SH.tasks[t];
        if (T->is_flush || !OBS[t].count || OBS[t].rank != rr || !TASK_ADDR[t] || !INS_BEGIN[rr][t]) continue;
        for (int f = 1; f < T->nparams; f++) {
            int X = T->tile[f], q = -1, g = -1;
            for (int j = t - 1; j >= 0 && q < 0; j--) {
                dtd_task_desc_t *e = &SH.tasks[j];
                if (e->is_flush == 2 || (e->is_flush == 1 && e->tile[0] == X)) break;
                if (e->is_flush) continue;
                for (int b = 0; b < e->nparams; b++) if (e->tile[b] == X) { q = j; g = b; }
            }
            if (q < 0 || g >= f || T->tile[g] != V) continue;
            dtd_task_desc_t *Q = &SH.tasks[q];
            if (Q->nparams != T->nparams || memcmp(Q->mode, T->mode, sizeof(int) * (size_t)Q->nparams)) continue;
            int ronly = 1;
            for (int b = 0; b < Q->nparams; b++) if (Q->tile[b] == X && Q->mode[b] != M_IN) ronly = 0;
            if (!ronly) continue;
            if (!OBS[q].count || OBS[q].rank != rr || TASK_ADDR[q] != TASK_ADDR[t]) continue;
            if (!(OBS[q].end && OBS[q].end < INS_BEGIN[rr][t])) continue;
            int w = -1;
            for (int j = t - 1; j >= 0 && w < 0; j--) {
                dtd_task_desc_t *e = &SH.tasks[j];
                if (e->is_flush) continue;
                for (int b = 0; b < e->nparams; b++) if (e->tile[b] == V && writes(e->mode[b])) w = j;
            }
            if (w >= 0 && !(OBS[w].end && (!INS_END[rr][t] || OBS[w].end < INS_END[rr][t]))) continue;
            *out_q = q; *out_t = t;
            return 1;
        }
    }
    return 0;
}

static void run(const hx_plan_t *p, hx_result_t *res)
{
    RES = res;
    PROP = (int)hx_knob(p, "prop", 3);
    plan_to_shared(p);
    compute_reference();
    if (getenv("VERIF_DUMP_SHARED")) {   /* for tools/realrun: run the same plan on the real runtime + real MPI */
        FILE *f = fopen(getenv("VERIF_DUMP_SHARED"), "wb");
        if (f) { fwrite(&SH, sizeof(SH), 1, f); fclose(f); }
    }
    memset(OBS, 0, sizeof(OBS));
    memset(INS_BEGIN, 0, sizeof(INS_BEGIN));
    memset(INS_END, 0, sizeof(INS_END));
    memset(TASK_ADDR, 0, sizeof(TASK_ADDR));
    memset(PREP, 0, sizeof(PREP));
    WAR_R = WAR_W = WAR_T = -1;
    memset(OBS_out, 0, sizeof(OBS_out));
    memset(inflight_w, 0, sizeof(inflight_w));
    memset(INFL, 0, sizeof(INFL));
    memset(inflight_r, 0, sizeof(inflight_r));
    memset(readers_since_write, 0, sizeof(readers_since_write));
    setenv("PARSEC_MCA_mca_sched", SCHEDS[hx_knob(p, "sched", 0) % NSCHED], 1);
    if (SH.window > 0) setenv_int("PARSEC_MCA_dtd_window_size", SH.window); else unsetenv("PARSEC_MCA_dtd_window_size");
    if (SH.threshold > 0) setenv_int("PARSEC_MCA_dtd_threshold_size", SH.threshold); else unsetenv("PARSEC_MCA_dtd_threshold_size");
    {
        long cs = hx_knob(p, "comm_short", -1), st = hx_knob(p, "copy_stall", 0);
        if (cs >= 0) setenv_int("PARSEC_MCA_runtime_comm_short_limit", cs); else unsetenv("PARSEC_MCA_runtime_comm_short_limit");
        if (st > 0) setenv_int("VERIF_DTD_COPY_STALL_NS", st); else unsetenv("VERIF_DTD_COPY_STALL_NS");
        if (hx_knob(p, "comm_mt", -1) >= 0) setenv_int("PARSEC_MCA_runtime_comm_thread_multiple", hx_knob(p, "comm_mt", -1)); else unsetenv("PARSEC_MCA_runtime_comm_thread_multiple");
        if (SH.nranks > 1 && cs == 0) sim_probe(PR_SHORT_LIMIT_0);
        if (SH.nranks > 1 && st > 0) sim_probe(PR_COPY_STALL);
    }
    if (SH.window > 0 && SH.window <= 2) sim_probe(PR_WINDOW_SMALL);
    if (SH.nranks > 1) sim_probe(PR_MULTIRANK);
    for (int i = 0; i < SH.ntasks; i++) if (SH.tasks[i].inserter >= 0) sim_probe(PR_NESTED_INSERT);
    simmpi_cfg_t cfg;
    memset(&cfg, 0, sizeof(cfg));
    cfg.lat_base_ns = (uint64_t)hx_knob(p, "net_lat", 1000);
    cfg.lat_jitter_ns = (uint64_t)hx_knob(p, "net_jit", 1000);
    cfg.heavy_tail_pct = (int)hx_knob(p, "net_heavy", 0);
    cfg.eager_limit = hx_knob(p, "net_eager", 65536);
    cfg.testsome_partial_pct = (int)hx_knob(p, "net_partial", 0);
    cfg.testsome_lag_pct = (int)hx_knob(p, "net_lag", 0);
    cfg.testsome_lag_max = 3;
    cfg.late_send_pct = (int)hx_knob(p, "net_late", 0);
    simmpi_reset(SH.nranks, hx_current_seed(), &cfg);
    pthread_t pt[16];
    dtd_rank_arg_t ra[16];
    for (int k = 0; k < SH.nranks; k++) { ra[k].sh = &SH; ra[k].rank = k; pthread_create(&pt[k], NULL, rank_tramp, &ra[k]); }
    for (int k = 0; k < SH.nranks; k++) pthread_join(pt[k], NULL);
    /* ---- end-of-run oracles ---- */
    for (int i = 0; i < SH.ntasks && !res->vclass; i++) {
        dtd_task_desc_t *d = &SH.tasks[i];
        if (d->is_flush) continue;
        if (OBS[i].count != 1) hx_fail(res, OBS[i].count ? "task-ran-twice" : "task-lost", "task %d body ran %d times", i, OBS[i].count);
        else if (c3() && REF[i].exp_rank >= 0 && OBS[i].rank != REF[i].exp_rank)
            hx_fail(res, "wrong-rank", "task %d ran on rank %d, its affinity tile %d lives on rank %d", i, OBS[i].rank, d->tile[d->affinity], REF[i].exp_rank);
        hx_hash(res, ((uint64_t)i << 32) ^ (uint64_t)OBS[i].rank ^ (OBS[i].begin << 8));
    }
    if (c4() && !res->vclass) {
        /* writer must not begin before every earlier-inserted reader/writer of the tile (same rank) ended */
        for (int i = 0; i < SH.ntasks && !res->vclass; i++) {
            dtd_task_desc_t *w = &SH.tasks[i];
            if (w->is_flush || w->inserter >= 0) continue;
            for (int a = 0; a < w->nparams && !res->vclass; a++) {
                for (int j = 0; j < i && !res->vclass; j++) {
                    dtd_task_desc_t *e = &SH.tasks[j];
                    if (e->is_flush || e->inserter >= 0 || OBS[j].rank != OBS[i].rank) continue;
                    for (int b = 0; b < e->nparams; b++) {
                        if (e->tile[b] != w->tile[a]) continue;
                        if (!writes(w->mode[a]) && !writes(e->mode[b])) continue;
                        if (OBS[i].begin < OBS[j].end) {
                            if (!writes(e->mode[b]) && !res->vclass) { WAR_R = j; WAR_W = i; WAR_T = w->tile[a]; }
                            hx_fail(res, writes(e->mode[b]) ? "raw-order-violation" : "war-order-violation", "task %d (%s tile %d) began at stamp %llu before earlier-inserted task %d (%s) ended at %llu on rank %d",
                                    i, writes(w->mode[a]) ? "writes" : "reads", w->tile[a], (unsigned long long)OBS[i].begin, j, writes(e->mode[b]) ? "writes" : "reads",
                                    (unsigned long long)OBS[j].end, OBS[i].rank);
                            break;
                        }
                    }
                }
            }
        }
    }
    if ((c3() || PROP == 17) && !res->vclass) {
        for (int k = 0; k < SH.ntiles && !res->vclass; k++) {
            if (!tile_flushed[k]) continue;
            if (!SH.final_valid[k]) { hx_fail(res, "flush-wrong-value", "owner of tile %d did not publish a final value", k); break; }
            /* C03: the sequential value.  C17: the value the last writer in insertion order ACTUALLY
             * produced in this run (its inputs are C03's business), or the initial contents */
            int64_t want = ref_final[k];
            if (PROP == 17) want = last_writer_task[k] >= 0 ? OBS_out[last_writer_task[k]][last_writer_param[k]] : 1000 * (int64_t)(k + 1);
            for (int j = 0; j < SH.nelems; j++) if (SH.final_[k][j] != want + j) {
                hx_fail(res, PROP == 17 ? "flush-wrong-value" : "wrong-final", "tile %d element %d on its owner rank %d is %lld after flush+wait; last writer in insertion order (task %d) produced %lld",
                        k, j, k % SH.nranks, (long long)SH.final_[k][j], last_writer_task[k], (long long)(want + j));
                break;
            }
        }
    }
    for (int k = 0; k < SH.nranks && !res->vclass; k++) if (!SH.rank_done[k]) hx_fail(res, "rank-not-finished", "rank %d did not reach the end of its program", k);
    if (res->vclass && !strncmp(res->vclass, "war-", 4) && WAR_R >= 0 && WAR_W >= 0) {
        /* shape of the write-after-read failure (known findings are keyed by it):
         *  remote-writer            the writer ran on another rank than the reader
         *  remote-writer-between    the writer ran on the reader's rank (the tile's owner) right behind a writer of another rank
         *  earlier-reader-completed an earlier reader of the same tile version had already completed when the
         *                           failing reader was inserted (the reader chain of the tile had been closed)
         *  reader-chain-closed-earlier  the reader accounting of the failing tile was spoilt earlier, by the recycling
         *                           of a completed reader's task object (recycled_reader_spoils() below); any later
         *                           reader / writer pair of that tile is affected, whatever its own chain looks like
         *  open-chain               none of these: reader and writer were linked behind a still pending predecessor */
        const char *tag = "open-chain";
        char why[160] = "";
        int rr = OBS[WAR_R].rank;
        if (OBS[WAR_W].count && OBS[WAR_W].rank != rr) tag = "remote-writer";
        else {
            for (int q = WAR_R - 1; q >= 0; q--) {
                dtd_task_desc_t *e = &SH.tasks[q];
                if (e->is_flush) continue;
                int uses = 0, wr = 0;
                for (int b = 0; b < e->nparams; b++) if (e->tile[b] == WAR_T) { uses = 1; if (writes(e->mode[b])) wr = 1; }
                if (!uses) continue;
                if (wr) break;                          /* an earlier version: stop */
                if (OBS[q].end && INS_BEGIN[rr][WAR_R] && OBS[q].end < INS_BEGIN[rr][WAR_R]) { tag = "earlier-reader-completed"; break; }
            }
            /* cross-rank shape with a LOCAL failing writer: between the failing reader and the failing writer (insertion
             * order) another rank wrote the tile, and that writer had finished before the failing writer began; reader and
             * failing writer both ran on the tile's owner.  The remote writer's output is deposited into the owner's tile
             * memory while the earlier-inserted local reader is still pending (what [remote-writer] is about), and the
             * next local writer then works on that memory (seed 1000346 of the generator of 2026-09-22, 3 ranks, ap;
             * the committed harness fails on the same plan) */
            if (!strcmp(tag, "open-chain") && SH.nranks > 1 && WAR_T % SH.nranks == rr)
                for (int j = WAR_R + 1; j < WAR_W; j++) {
                    dtd_task_desc_t *e = &SH.tasks[j];
                    if (e->is_flush || !OBS[j].end || OBS[j].rank == rr || !(OBS[j].end < OBS[WAR_W].begin)) continue;
                    for (int b = 0; b < e->nparams; b++) if (e->tile[b] == WAR_T && writes(e->mode[b])) tag = "remote-writer-between";
                }
            int rq, rt;
            if (!strcmp(tag, "open-chain") && recycled_reader_spoils(rr, WAR_T, WAR_W, &rq, &rt)) {
                tag = "reader-chain-closed-earlier";
                snprintf(why, sizeof(why), " (task %d was given the task object of task %d, the completed last reader of another tile it uses)", rt, rq);
            }
        }
        size_t l = strlen(res->detail);
        snprintf(res->detail + l, sizeof(res->detail) - l, " [%s]%s", tag, why);
    }
}

static int plan_has_repeat(void)
{
    for (int i = 0; i < SH.ntasks; i++) {
        dtd_task_desc_t *d = &SH.tasks[i];
        if (d->is_flush) continue;
        for (int a = 0; a < d->nparams; a++) for (int b = a + 1; b < d->nparams; b++) if (d->tile[a] == d->tile[b]) return 1;
    }
    return 0;
}
static void annotate(const hx_plan_t *p, char *buf, size_t n)
{
    PROP = (int)hx_knob(p, "prop", 3);
    plan_to_shared(p);
    snprintf(buf, n, "[sched=%s threads=%d ranks=%d%s]", SCHEDS[hx_knob(p, "sched", 0) % NSCHED], SH.nthreads, SH.nranks,
             plan_has_repeat() ? " plan-has-task-using-one-tile-in-several-parameters" : "");
}
/* KF-DTD-AGAIN-LIVELOCK shape: number of writers that are spinning on the write-after-read retry (AGAIN) on rank r,
 * i.e. tasks expected on r, inserted there and not yet run -- or flush tasks of tiles owned by r whose flush call has
 * begun there (how far a flush_all got is not visible: all its tiles count) -- whose earlier conflicting WRITERS all
 * finished (they have been activated) but which write a tile that an earlier-inserted reader-only task, expected on r
 * and not yet started, still has to read (plan-level count: it cannot tell an activated writer from one whose
 * activation was lost; describe_abort combines it with the observed retries, spinning_on_again()). */
static int tile_has_unstarted_reader_before(int i, int k, int r)
{
    /* all earlier writers of k finished, and an earlier reader-only access of k (after them) has not started */
    int pending_reader = 0;
    for (int j = 0; j < i; j++) {
        dtd_task_desc_t *e = &SH.tasks[j];
        if (e->is_flush) continue;
        int uses = 0, wr = 0;
        for (int b = 0; b < e->nparams; b++) if (e->tile[b] == k) { uses = 1; if (writes(e->mode[b])) wr = 1; }
        if (!uses) continue;
        if (wr) { if (!OBS[j].end) return 0; pending_reader = 0; continue; }
        if (!OBS[j].count && exp_rank_of(j) == r) pending_reader = 1;
    }
    return pending_reader;
}
static int war_blocked_writers(int r)
{
    int nw = 0;
    for (int i = 0; i < SH.ntasks; i++) {
        dtd_task_desc_t *d = &SH.tasks[i];
        if (d->is_flush == 3) continue;
        if (d->is_flush) {
            if (r < 0 || r >= 16 || !INS_BEGIN[r][i]) continue;
            for (int k = 0; k < SH.ntiles; k++) {
                if (d->is_flush == 1 && d->tile[0] != k) continue;
                if (k % SH.nranks == r && tile_has_unstarted_reader_before(i, k, r)) nw++;
            }
            continue;
        }
        if (OBS[i].count || exp_rank_of(i) != r || !INS_BEGIN[r][i]) continue;
        int activated = 1, blocked = 0;
        for (int a = 0; a < d->nparams && activated; a++)
            for (int j = 0; j < i && activated; j++) {
                dtd_task_desc_t *e = &SH.tasks[j];
                if (e->is_flush || OBS[j].end) continue;
                for (int b = 0; b < e->nparams; b++) if (e->tile[b] == d->tile[a] && writes(e->mode[b])) activated = 0;
            }
        if (!activated) continue;
        for (int a = 0; a < d->nparams; a++) if (writes(d->mode[a]) && tile_has_unstarted_reader_before(i, d->tile[a], r)) blocked = 1;
        nw += blocked;
    }
    return nw;
}
/* tasks inserting tasks (single rank): inserter tasks whose body ended but which are still inside parsec_dtd_insert_task
 * of one of their nested tasks (that insertion began and has not returned), i.e. stuck in the window stop of a nested
 * insertion.  parsec_execute_and_come_back() only returns when the taskpool's count of unfinished local tasks is
 * <= dtd_threshold_size, and that count includes the inserting task itself and every inserted task that cannot finish
 * before the inserter does (*dependents: inserted, unfinished tasks / flush tasks that conflict, directly or through
 * such tasks, with a stuck inserter inserted before them). */
static int nested_stuck(int *inserters, int *dependents)
{
    unsigned char S[DTD_MAX_TASKS];
    int M = 0, N = 0;
    memset(S, 0, sizeof(S));
    if (SH.nranks != 1) return 0;
    for (int c = 0; c < SH.ntasks; c++) {
        dtd_task_desc_t *d = &SH.tasks[c];
        if (d->is_flush || d->inserter < 0) continue;
        int i = d->inserter;
        if (OBS[i].end && INS_BEGIN[0][c] && !INS_END[0][c] && !S[i]) { S[i] = 1; M++; }
    }
    if (!M) return 0;
    for (int j = 0; j < SH.ntasks; j++) {
        dtd_task_desc_t *d = &SH.tasks[j];
        if (d->is_flush == 3 || S[j] || !INS_BEGIN[0][j]) continue;
        if (d->is_flush) {
            for (int k = 0; k < SH.ntiles; k++) {
                if (d->is_flush == 1 && d->tile[0] != k) continue;
                int dep = 0;
                for (int e = 0; e < j && !dep; e++) if (S[e]) for (int b = 0; b < SH.tasks[e].nparams; b++) if (SH.tasks[e].tile[b] == k) dep = 1;
                N += dep;
            }
            continue;
        }
        if (OBS[j].end) continue;
        int dep = 0;
        for (int e = 0; e < j && !dep; e++) {
            if (!S[e]) continue;
            dtd_task_desc_t *x = &SH.tasks[e];
            for (int a = 0; a < d->nparams && !dep; a++) for (int b = 0; b < x->nparams; b++)
                if (d->tile[a] == x->tile[b] && (writes(d->mode[a]) || writes(x->mode[b]))) { dep = 1; break; }
        }
        if (dep) { S[j] = 2; N++; }
    }
    *inserters = M; *dependents = N;
    return 1;
}
/* characterise a hang from the harness's own bookkeeping (world stopped) */
static void describe_abort(char *buf, size_t n)
{
    int done = 0, total = 0, starved = -1, blocked = 0;
    char ntag[160] = "";
    int nested_explains = 0, nm = 0, nn = 0;
    if (nested_stuck(&nm, &nn)) {
        int T = SH.threshold > 0 ? SH.threshold : 4000;
        nested_explains = nm + nn > T;
        snprintf(ntag, sizeof(ntag), " [%s inserters=%d dependents=%d threshold=%d]", nested_explains ? "nested-insertion-waits-for-own-dependents" : "stuck-in-nested-insertion", nm, nn, T);
    }
    for (int i = 0; i < SH.ntasks; i++) {
        dtd_task_desc_t *d = &SH.tasks[i];
        if (d->is_flush) continue;
        total++;
        if (OBS[i].end) { done++; continue; }
        if (OBS[i].count) continue;     /* running */
        int ready = 1;
        { int er = exp_rank_of(i); if (er < 0) er = 0; if (er < 16 && !INS_BEGIN[er][i]) ready = 0; }   /* not even inserted where it runs */
        for (int j = 0; j < i && ready; j++) {
            dtd_task_desc_t *e = &SH.tasks[j];
            if (e->is_flush || OBS[j].end) continue;
            for (int a = 0; a < d->nparams && ready; a++) for (int b = 0; b < e->nparams; b++)
                if (d->tile[a] == e->tile[b] && (writes(d->mode[a]) || writes(e->mode[b]))) { ready = 0; break; }
        }
        if (d->inserter >= 0 && !OBS[d->inserter].count) ready = 0;
        if (ready && starved < 0) starved = i; else if (!ready) blocked++;
    }
    if (starved >= 0) {
        int r = exp_rank_of(starved);
        if (r < 0) r = 0;
        int nw = 0;     /* over all ranks: the task that retries on rank r may stand for a writer or a flush placed on another rank */
        for (int q = 0; q < SH.nranks; q++) nw += war_blocked_writers(q);
        char shape[96] = "";
        /* claimed only when the retry is OBSERVED (tasks of this rank that went through prepare_input again and again and
         * never executed) and the plan explains it (writers behind not yet started readers).  waiters >= threads makes
         * the livelock certain, but it also persists with fewer waiters than threads (plan of seed 1000446: 3 waiters,
         * 4 threads, ip: 1 of 6 runs of the REAL runtime did not finish), so the thread count is only printed. */
        int sp = 0;     /* over all ranks: a rank caught in the retry loop also starves the ranks that wait for its data */
        for (int q = 0; q < SH.nranks; q++) sp += spinning_on_again(q);
        if (getenv("VERIF_DTD_DEBUG")) for (int q = 0; q < SH.nranks; q++) fprintf(stderr, "[dtd abort] starved task %d rank %d; rank %d: spinning=%d war_blocked_writers=%d\n", starved, r, q, spinning_on_again(q), war_blocked_writers(q));
        if (sp >= 1 && nw >= 1 && !nested_explains) snprintf(shape, sizeof(shape), " [again-livelock-shape spinning=%d waiters=%d threads=%d]", sp, nw, SH.nthreads);
        snprintf(buf, n, "%d of %d tasks done; task %d is data-ready (every earlier conflicting task finished) but never ran: ready-but-starved%s%s", done, total, starved, shape, ntag);
    } else
        snprintf(buf, n, "%d of %d tasks done; no data-ready task is waiting (%d wait for unfinished predecessors or are not inserted yet)%s", done, total, blocked, ntag);
}

static void tune(const hx_plan_t *p, sim_params_t *sp)
{
    sp->quantum_ns = 20;
    /* single-rank plans with tasks inserting tasks under a threshold of 1 or 2: complete runs take 1.6-2 M steps, and a
     * third of them ends in the nested window-stop hang (describe_abort: nested-insertion-waits-for-own-dependents), whose
     * idle polling makes 80 M steps cost minutes of wall clock; 24 M is still 12 times a complete run */
    int nested = 0;
    for (int i = 0; i < p->nops; i++) if (p->ops[i].op == OP_TASK && ((p->ops[i].b >> 8) & 0xff)) nested = 1;
    long thr = hx_knob(p, "threshold", 0);
    long dflt = nested && hx_knob(p, "nranks", 1) == 1 && thr >= 1 && thr <= 2 ? 24000000 : 48000000;
    /* plans with a task naming one tile in several parameters are shadowed as a whole by KF-DTD-REPEATED-TILE and often
     * hang: no point in paying 80 M steps of idle polling (up to 4 minutes of wall clock with 8 threads) for them */
    plan_to_shared(p);
    if (plan_has_repeat()) dflt = 24000000;
    sp->max_steps = (uint64_t)hx_knob(p, "max_steps", dflt);
}

static const hx_harness_t H = {
    .property = "C03", .name = "dtd", .opnames = opnames, .nopnames = OP_N,
    .est_steps = 2500000, .max_steps = 120000000, .gap_lo = 150, .gap_hi = 60000, .fork_per_run = 1, .gen = gen, .run = run, .init = init, .tune = tune, .describe_abort = describe_abort, .annotate = annotate,
    .probe_names = probe_names, .nprobes = PR_N,
};
int main(int argc, char **argv) { return hx_main(argc, argv, &H); }
