/* DTD harness (C03, C04, C17): whole runtime, 1..P simulated ranks, sequential reference.
 * Real: everything in libparsec (DTD front end, scheduler modules, remote_dep, comm engine).
 * Simulated: thread scheduling, clock, MPI network (simmpi).
 * knob `prop` selects which property's oracle classes are reported (3, 4 or 17). */
#define _GNU_SOURCE
#include "../hx.h"
#include "../../sim/mpi/simmpi.h"
#include "dtd_common.h"
#include <pthread.h>
#include <stdlib.h>
#include <string.h>
#include <stdio.h>
#include <unistd.h>

extern int hx_rank_count;
extern void *(*hx_rank_mains[])(void *);

enum { OP_TASK, OP_FLUSH, OP_FLUSHALL, OP_WAIT, OP_N };
static const char *const opnames[] = {"task", "flush", "flushall", "wait"};
enum { PR_READERS_OVERLAP, PR_REMOTE_TASK, PR_SAME_TILE_TWICE, PR_NESTED_INSERT, PR_WINDOW_SMALL, PR_MULTIRANK, PR_WRITER_AFTER_READERS, PR_N };
static const char *const probe_names[] = {"two_readers_overlapped", "task_ran_on_nonzero_rank", "task_uses_tile_twice", "task_inserted_from_task",
                                          "window_le_2", "multi_rank_run", "writer_ran_after_2plus_readers"};

static const char *const SCHEDS[] = {"lfq", "ap", "gd", "ip", "lhq", "ll", "llp", "ltq", "pbq", "rnd", "spq"};
#define NSCHED 11

static dtd_shared_t SH;
static hx_result_t *RES;
static int PROP;

/* ---- reference ---- */
typedef struct {
    int64_t in_expect[DTD_MAX_PARAMS];
    int64_t out_val[DTD_MAX_PARAMS];
    int exp_rank;
} ref_task_t;
static ref_task_t REF[DTD_MAX_TASKS];
static int64_t ref_final[DTD_MAX_TILES];
static int tile_flushed[DTD_MAX_TILES];
static int last_writer_task[DTD_MAX_TILES], last_writer_param[DTD_MAX_TILES];

static int64_t mix(int64_t a, int64_t b)
{
    uint64_t s = (uint64_t)a * 0x9E3779B97F4A7C15ULL ^ (uint64_t)b;
    return (int64_t)(sim_splitmix(&s) & 0xffffffffffffULL);
}
static int reads(int m) { return m == M_IN || m == M_INOUT; }
static int writes(int m) { return m == M_OUT || m == M_INOUT; }

/* order in which task descs execute sequentially: main-thread order, a nested task right
 * after its inserter (insertion order as seen by the per-tile chains when the inserter's
 * body runs to completion before the next main insertion is NOT guaranteed; so nested tasks
 * only touch tiles nobody else touches -- see gen) */
static void compute_reference(void)
{
    int64_t val[DTD_MAX_TILES];
    for (int k = 0; k < SH.ntiles; k++) { val[k] = 1000 * (int64_t)(k + 1); last_writer_task[k] = -1; tile_flushed[k] = 0; }
    for (int i = 0; i < SH.ntasks; i++) {
        dtd_task_desc_t *d = &SH.tasks[i];
        if (d->is_flush == 1) { tile_flushed[d->tile[0]] = 1; continue; }
        if (d->is_flush == 2) { for (int k = 0; k < SH.ntiles; k++) tile_flushed[k] = 1; continue; }
        if (d->is_flush) continue;
        int64_t h = d->id + 1;
        for (int p = 0; p < d->nparams; p++) {
            REF[i].in_expect[p] = val[d->tile[p]];
            if (reads(d->mode[p])) h = mix(h, val[d->tile[p]] + 7 * p);
        }
        for (int p = 0; p < d->nparams; p++) if (writes(d->mode[p])) {
            REF[i].out_val[p] = mix(h, 100 + p);
            val[d->tile[p]] = REF[i].out_val[p];
            last_writer_task[d->tile[p]] = i;
            last_writer_param[d->tile[p]] = p;
        }
        REF[i].exp_rank = d->affinity >= 0 ? d->tile[d->affinity] % SH.nranks : -1;
    }
    for (int k = 0; k < SH.ntiles; k++) ref_final[k] = val[k];
}

/* ---- run-time observation ---- */
typedef struct { uint64_t begin, end; int rank, count; } obs_t;
static obs_t OBS[DTD_MAX_TASKS];
static int64_t OBS_out[DTD_MAX_TASKS][DTD_MAX_PARAMS];   /* value actually written by (task, param) */

/* per (rank, tile) in-flight state for C04 */
static int inflight_w[16][DTD_MAX_TILES], inflight_r[16][DTD_MAX_TILES];
static int readers_since_write[16][DTD_MAX_TILES];
static unsigned char INFL[16][DTD_MAX_TILES][DTD_MAX_TASKS];   /* 0 not running, 1 reading, 2 writing */
static int insert_done[DTD_MAX_TASKS];     /* insertion (by rank that runs it) has returned */

static uint64_t INS_BEGIN[16][DTD_MAX_TASKS];
static int WAR_R = -1, WAR_W = -1, WAR_T = -1;     /* (reader, writer, tile) of a write-after-read failure, for the shape tag */
static int c3(void) { return PROP == 3; }
static int c4(void) { return PROP == 4; }

void dtdh_event(int rank, int kind, long a, long b)
{
    (void)b;
    sim_hash_event(((uint64_t)rank << 56) ^ ((uint64_t)kind << 48) ^ (uint64_t)a);
    if (getenv("VERIF_MPI_TRACE")) fprintf(stderr, "[dtd t=%llu] rank %d event %d task %ld\n", (unsigned long long)sim_now(), rank, kind, a);
    if (kind == 1 && rank >= 0 && rank < 16 && a >= 0 && a < DTD_MAX_TASKS) INS_BEGIN[rank][a] = sim_stamp();
    if (kind == 99) hx_fail(RES, "init-failed", "parsec_init returned NULL on rank %d", rank);
}

int dtdh_body(int rank, int id, int nparams, int64_t **p)
{
    if (id < 0 || id >= SH.ntasks) { hx_fail(RES, "garbage-task", "body called with task id %d", id); return 0; }
    dtd_task_desc_t *d = &SH.tasks[id];
    obs_t *o = &OBS[id];
    o->count++;
    o->rank = rank;
    o->begin = sim_stamp();
    sim_hash_event(((uint64_t)rank << 56) ^ 0xB0000 ^ (uint64_t)id);
    if (rank) sim_probe(PR_REMOTE_TASK);
    if (o->count > 1) hx_fail(RES, "task-ran-twice", "task %d body invoked %d times", id, o->count);
    /* distinct tiles of this task with strongest mode */
    int tl[DTD_MAX_PARAMS], tw[DTD_MAX_PARAMS], nt = 0;
    for (int i = 0; i < nparams; i++) {
        int k = -1;
        for (int j = 0; j < nt; j++) if (tl[j] == d->tile[i]) k = j;
        if (k < 0) { tl[nt] = d->tile[i]; tw[nt] = 0; k = nt++; } else sim_probe(PR_SAME_TILE_TWICE);
        if (writes(d->mode[i])) tw[k] = 1;
    }
    /* C04: conflicting accesses on the same rank must not be in flight.  Classes say which hazard
     * was not enforced: war- (a writer and an EARLIER-inserted reader overlap), raw- (a reader or writer
     * overlaps an earlier-inserted writer) */
    for (int j = 0; j < nt; j++) {
        int t = tl[j];
        for (int q = 0; q < SH.ntasks && c4() && !RES->vclass; q++) {
            if (q == id || !INFL[rank][t][q]) continue;
            int qw = INFL[rank][t][q] == 2;
            if (!tw[j] && !qw) continue;            /* two readers may share */
            int earlier_is_reader = q < id ? !qw : !tw[j];
            if (earlier_is_reader && !RES->vclass) { WAR_T = t; if (tw[j]) { WAR_R = q; WAR_W = id; } else { WAR_R = id; WAR_W = q; } }
            hx_fail(RES, earlier_is_reader ? "war-overlap" : "raw-overlap",
                    "task %d starts %s tile %d on rank %d while task %d (inserted %s it) is still %s it", id, tw[j] ? "writing" : "reading", t, rank, q,
                    q < id ? "before" : "after", qw ? "writing" : "reading");
        }
        if (tw[j]) {
            if (readers_since_write[rank][t] >= 2) sim_probe(PR_WRITER_AFTER_READERS);
            inflight_w[rank][t]++;
            readers_since_write[rank][t] = 0;
        } else {
            if (inflight_r[rank][t]) sim_probe(PR_READERS_OVERLAP);
            inflight_r[rank][t]++;
            readers_since_write[rank][t]++;
        }
        INFL[rank][t][id] = tw[j] ? 2 : 1;
    }
    /* read phase */
    int64_t h = d->id + 1;
    int64_t rd[DTD_MAX_PARAMS] = {0};
    for (int i = 0; i < nparams; i++) {
        if (!p[i]) { hx_fail(RES, "null-data", "task %d param %d has a NULL data pointer", id, i); continue; }
        if (!reads(d->mode[i])) continue;
        int64_t b = p[i][0];
        rd[i] = b;
        for (int j = 1; j < SH.nelems; j++) if (p[i][j] != b + j && c3()) hx_fail(RES, "torn-data", "task %d param %d (tile %d): element %d is %lld, expected %lld", id, i, d->tile[i], j, (long long)p[i][j], (long long)(b + j));
        if (c3() && b != REF[id].in_expect[i]) {
            /* classify: value of a later-inserted writer (write-after-read not enforced), an older
             * version (read-after-write not enforced), or something nobody wrote */
            int later = -1, older = -1;
            for (int j = 0; j < SH.ntasks; j++) {
                dtd_task_desc_t *e = &SH.tasks[j];
                if (e->is_flush || j == id) continue;
                for (int q = 0; q < e->nparams; q++) if (e->tile[q] == d->tile[i] && writes(e->mode[q]) && REF[j].out_val[q] == b) { if (j > id) later = j; else older = j; }
            }
            if (b == 1000 * (int64_t)(d->tile[i] + 1)) older = -2;
            if (later >= 0 && !RES->vclass) { WAR_R = id; WAR_W = later; WAR_T = d->tile[i]; }
            if (later >= 0)
                hx_fail(RES, "war-violation", "task %d param %d (tile %d) read %lld = the value written by LATER-inserted task %d; sequential execution gives %lld", id, i, d->tile[i], (long long)b, later, (long long)REF[id].in_expect[i]);
            else if (older != -1)
                hx_fail(RES, "raw-violation", "task %d param %d (tile %d) read the stale value %lld (from %s %d); sequential execution gives %lld", id, i, d->tile[i], (long long)b, older == -2 ? "the initial contents, task" : "earlier task", older, (long long)REF[id].in_expect[i]);
            else
                hx_fail(RES, "wrong-input", "task %d param %d (tile %d, mode %d) read %lld, sequential execution gives %lld", id, i, d->tile[i], d->mode[i], (long long)b, (long long)REF[id].in_expect[i]);
        }
        h = mix(h, b + 7 * i);
    }
    if (d->delay) sim_delay((uint64_t)d->delay); else sim_yield();
    /* a reader must still see its input after the stretch (nobody wrote under it) */
    for (int i = 0; i < nparams; i++) {
        if (!p[i] || !reads(d->mode[i]) ) continue;
        int aliased_w = 0;
        for (int q = 0; q < nparams; q++) if (q != i && d->tile[q] == d->tile[i] && writes(d->mode[q])) aliased_w = 1;
        (void)aliased_w;
        if (c4() && p[i][0] != rd[i] && !RES->vclass)
            hx_fail(RES, "value-changed-under-reader", "task %d param %d (tile %d): value changed under a running reader", id, i, d->tile[i]);
    }
    /* write phase */
    for (int i = 0; i < nparams; i++) if (p[i] && writes(d->mode[i])) {
        int64_t v = mix(h, 100 + i);
        for (int j = 0; j < SH.nelems; j++) p[i][j] = v + j;
        OBS_out[id][i] = v;
    }
    if (d->delay) sim_delay((uint64_t)d->delay / 2 + 1);
    for (int j = 0; j < nt; j++) { if (tw[j]) inflight_w[rank][tl[j]]--; else inflight_r[rank][tl[j]]--; INFL[rank][tl[j]][id] = 0; }
    o->end = sim_stamp();
    if (getenv("VERIF_MPI_TRACE")) fprintf(stderr, "[dtd t=%llu] rank %d BODY task %d done\n", (unsigned long long)sim_now(), rank, id);
    return 0;
}

/* ---- plan <-> shared ---- */
static void plan_to_shared(const hx_plan_t *p)
{
    memset(&SH, 0, sizeof(SH));
    SH.nranks = (int)hx_knob(p, "nranks", 1);
    if (SH.nranks > hx_rank_count) SH.nranks = hx_rank_count;
    if (SH.nranks < 1) SH.nranks = 1;
    SH.nthreads = (int)hx_knob(p, "nthreads", 2);
    SH.ntiles = (int)hx_knob(p, "ntiles", 4);
    if (SH.ntiles > DTD_MAX_TILES) SH.ntiles = DTD_MAX_TILES;
    SH.nelems = (int)hx_knob(p, "nelems", 2);
    if (SH.nelems > DTD_MAX_ELEMS) SH.nelems = DTD_MAX_ELEMS;
    SH.window = (int)hx_knob(p, "window", 0);
    SH.threshold = (int)hx_knob(p, "threshold", 0);
    int n = 0;
    int task_index[HX_MAX_OPS];
    for (int i = 0; i < p->nops && n < DTD_MAX_TASKS - 1; i++) {
        const hx_op_t *o = &p->ops[i];
        dtd_task_desc_t *d = &SH.tasks[n];
        memset(d, 0, sizeof(*d));
        d->id = n; d->inserter = -1; d->affinity = -1;
        task_index[i] = -1;
        switch (o->op) {
        case OP_TASK: {
            int np = (int)(o->b & 0xf);
            if (np < 1) np = 1;
            if (np > DTD_MAX_PARAMS) np = DTD_MAX_PARAMS;
            d->nparams = np;
            for (int k = 0; k < np; k++) {
                int f = (int)((o->a >> (8 * k)) & 0xff);
                d->tile[k] = (f & 0x1f) % SH.ntiles;
                d->mode[k] = ((f >> 5) & 3) % 3;
            }
            if (hx_knob(p, "no_repeat", 0)) {
                /* drop later parameters that name a tile already used by this task */
                int m2 = 0;
                for (int k = 0; k < np; k++) {
                    int dup = 0;
                    for (int q = 0; q < m2; q++) if (d->tile[q] == d->tile[k]) dup = 1;
                    if (!dup) { d->tile[m2] = d->tile[k]; d->mode[m2] = d->mode[k]; m2++; }
                }
                np = d->nparams = m2;
            }
            int aff = (int)((o->b >> 4) & 0xf);
            d->affinity = aff ? (aff - 1) % np : -1;
            int back = (int)((o->b >> 8) & 0xff);
            if (back) {
                /* nested: inserted from the body of the back-th previous *main* task, if any */
                int cnt = 0;
                for (int j = n - 1; j >= 0; j--) if (!SH.tasks[j].is_flush && SH.tasks[j].inserter < 0) { if (++cnt == back) { d->inserter = j; break; } }
            }
            d->delay = (int)(o->c & 0xfffff);
            d->priority = (int)((o->c >> 20) & 0xff);
            task_index[i] = n;
            n++;
            break;
        }
        case OP_FLUSH: d->is_flush = 1; d->tile[0] = (int)(o->a % SH.ntiles); d->nparams = 0; n++; break;
        case OP_FLUSHALL: d->is_flush = 2; n++; break;
        case OP_WAIT: d->is_flush = 3; n++; break;
        }
    }
    (void)task_index;
    /* legality fix-ups (the DTD API has preconditions a legal client respects; see docs/doxygen/dtd.md
     * and the comments of parsec_dtd_data_flush(_all) in insert_function.h):
     *  - no task may use a tile after it was flushed until the taskpool has been waited
     *  - distributed runs flush every data collection before ANY parsec_taskpool_wait (all :mp tests
     *    do; a rank that only knows remote writers of unflushed tiles never leaves the wait otherwise):
     *    a wait op becomes flush_all + wait when nranks > 1
     *  - a mid-program flush_all is followed by a wait; the program always ends with flush_all (+ the
     *    driver's final wait)
     *  - a nested task may only use tiles that no other insertion uses: otherwise "insertion order"
     *    is not defined
     *  - distributed runs need an affinity on every task (placement "given by affinity") */
    {
        static dtd_task_desc_t out[DTD_MAX_TASKS];
        int remap[DTD_MAX_TASKS];
        int flushed[DTD_MAX_TILES] = {0};
        int m = 0;
#define EMIT_SPECIAL(kind) do { if (m < DTD_MAX_TASKS - 2) { memset(&out[m], 0, sizeof(out[m])); out[m].id = m; out[m].inserter = -1; out[m].affinity = -1; out[m].is_flush = (kind); m++; } } while (0)
        for (int i = 0; i < n && m < DTD_MAX_TASKS - 4; i++) {
            dtd_task_desc_t *d = &SH.tasks[i];
            remap[i] = -1;
            if (d->is_flush == 3 || d->is_flush == 2) {
                if (m && out[m - 1].is_flush == 3) continue;                 /* nothing happened since the last wait */
                if (d->is_flush == 2 || SH.nranks > 1) { if (!(m && out[m - 1].is_flush == 2)) EMIT_SPECIAL(2); }
                EMIT_SPECIAL(3);
                memset(flushed, 0, sizeof(flushed));
                continue;
            }
            if (d->is_flush == 1) {
                if (flushed[d->tile[0]]) continue;
                flushed[d->tile[0]] = 1;
            } else {
                int bad = 0;
                for (int k = 0; k < d->nparams; k++) if (flushed[d->tile[k]]) bad = 1;
                if (bad) continue;
            }
            out[m] = *d;
            out[m].id = m;
            if (d->inserter >= 0) out[m].inserter = remap[d->inserter];       /* -1 if the inserter was dropped: becomes a main insertion */
            remap[i] = m;
            m++;
        }
        /* a trailing wait is redundant with the driver's final wait */
        while (m && out[m - 1].is_flush == 3) m--;
        if (!(m && out[m - 1].is_flush == 2)) EMIT_SPECIAL(2);
        memcpy(SH.tasks, out, sizeof(out[0]) * (size_t)m);
        n = m;
    }
    /* nested tasks: restrict to private tiles */
    for (int i = 0; i < n; i++) {
        dtd_task_desc_t *d = &SH.tasks[i];
        if (d->inserter < 0 || d->is_flush) continue;
        int ok = 1;
        for (int j = 0; j < n && ok; j++) {
            if (j == i || SH.tasks[j].is_flush == 2 || SH.tasks[j].is_flush == 3) continue;
            for (int a = 0; a < d->nparams && ok; a++) {
                if (SH.tasks[j].is_flush == 1) { if (SH.tasks[j].tile[0] == d->tile[a]) ok = 0; continue; }
                for (int b = 0; b < SH.tasks[j].nparams; b++) if (SH.tasks[j].tile[b] == d->tile[a]) ok = 0;
            }
        }
        if (!ok || SH.nranks > 1) d->inserter = -2; /* dropped */
    }
    int m = 0;
    for (int i = 0; i < n; i++) {
        if (SH.tasks[i].inserter == -2) continue;
        int old = SH.tasks[i].id;
        SH.tasks[m] = SH.tasks[i];
        SH.tasks[m].id = m;
        for (int j = i + 1; j < n; j++) if (SH.tasks[j].inserter == old) SH.tasks[j].inserter = m;
        m++;
    }
    n = m;
    if (SH.nranks > 1) for (int i = 0; i < n; i++) if (!SH.tasks[i].is_flush && SH.tasks[i].affinity < 0) SH.tasks[i].affinity = 0;
    SH.ntasks = n;
}

static void gen(hx_plan_t *p, hx_rng_t *r)
{
    int prop = 3;
    hx_set_knob(p, "prop", prop);
    int P = hx_chance(r, 45) ? 1 : (int)hx_range(r, 2, hx_rank_count > 1 ? hx_rank_count : 1);
    if (P > hx_rank_count) P = hx_rank_count;
    hx_set_knob(p, "nranks", P);
    hx_set_knob(p, "nthreads", hx_chance(r, 70) ? hx_range(r, 1, 4) : hx_range(r, 5, 8));
    int nt = (int)hx_range(r, 2, 6);
    hx_set_knob(p, "ntiles", nt);
    hx_set_knob(p, "nelems", hx_range(r, 1, 4));
    hx_set_knob(p, "sched", hx_below(r, NSCHED));
    static const int wins[] = {0, 0, 1, 2, 8};
    hx_set_knob(p, "window", wins[hx_below(r, 5)]);
    static const int thr[] = {0, 0, 1, 2, 4};
    hx_set_knob(p, "threshold", thr[hx_below(r, 5)]);
    hx_set_knob(p, "net_lat", hx_chance(r, 50) ? 1000 : hx_range(r, 100, 200000));
    hx_set_knob(p, "net_jit", hx_chance(r, 30) ? 0 : hx_range(r, 100, 400000));
    hx_set_knob(p, "net_heavy", hx_chance(r, 30) ? hx_range(r, 1, 20) : 0);
    static const long eag[] = {0, 64, 65536, 1 << 30};
    hx_set_knob(p, "net_eager", eag[hx_below(r, 4)]);
    hx_set_knob(p, "net_partial", hx_chance(r, 40) ? hx_range(r, 5, 60) : 0);
    hx_set_knob(p, "net_lag", hx_chance(r, 40) ? hx_range(r, 5, 40) : 0);
    hx_set_knob(p, "net_late", hx_chance(r, 30) ? hx_range(r, 5, 60) : 0);
    hx_set_knob(p, "partial_flush", hx_chance(r, 50));
    int n = (int)hx_range(r, 3, 28);
    int nested_ok = P == 1 && hx_chance(r, 30);
    int allow_rep = hx_chance(r, 10);   /* one tile in several parameters of a task: rare, own finding class */
    for (int i = 0; i < n; i++) {
        int np = hx_chance(r, 55) ? 1 : hx_chance(r, 60) ? 2 : (int)hx_range(r, 3, 4);
        long a = 0;
        int used[DTD_MAX_PARAMS];
        if (!allow_rep && np > nt) np = nt;
        for (int k = 0; k < np; k++) {
            int tile = (int)hx_below(r, nt);
            if (!allow_rep) {
                for (;;) { int dup = 0; for (int q = 0; q < k; q++) if (used[q] == tile) dup = 1; if (!dup) break; tile = (tile + 1) % nt; }
            }
            used[k] = tile;
            int q = (int)hx_below(r, 100);
            int mode = q < 45 ? M_IN : q < 60 ? M_OUT : M_INOUT;
            a |= (long)((tile & 0x1f) | (mode << 5)) << (8 * k);
        }
        int aff = hx_chance(r, 80) ? 1 + (int)hx_below(r, np) : 0;
        int back = nested_ok && hx_chance(r, 15) ? (int)hx_range(r, 1, 3) : 0;
        long b = np | (aff << 4) | (back << 8);
        long c = (hx_chance(r, 60) ? hx_range(r, 0, 3000) : hx_range(r, 3000, 200000)) | (hx_below(r, 4) << 20);
        hx_add_op(p, 0, OP_TASK, a, b, c);
        if (hx_chance(r, 4)) hx_add_op(p, 0, OP_WAIT, 0, 0, 0);
    }
    /* trailing flushes */
    if (hx_knob(p, "partial_flush", 0)) {
        for (int k = 0; k < nt; k++) if (hx_chance(r, 50)) hx_add_op(p, 0, OP_FLUSH, k, 0, 0);
    } else hx_add_op(p, 0, OP_FLUSHALL, 0, 0, 0);
}

static void setenv_int(const char *k, long v) { char b[32]; snprintf(b, sizeof(b), "%ld", v); setenv(k, b, 1); }

static void init(void)
{
    setenv("HWLOC_SYNTHETIC", "pack:1 core:16 pu:1", 1);
    setenv("HWLOC_THISSYSTEM", "0", 1);
    char tmpl[] = "/tmp/verif_home_XXXXXX";
    char *d = hx_scratch_dir(tmpl);
    if (d) setenv("HOME", d, 1);
    /* scrub */
    extern char **environ;
    for (char **e = environ; *e;) {
        if (!strncmp(*e, "PARSEC_MCA_", 11)) { char nm[128]; snprintf(nm, sizeof(nm), "%.*s", (int)(strchr(*e, '=') - *e), *e); unsetenv(nm); e = environ; }
        else e++;
    }
}

static void *rank_tramp(void *a)
{
    dtd_rank_arg_t *ra = a;
    sim_set_rank(ra->rank);
    return hx_rank_mains[ra->rank](a);
}

static void run(const hx_plan_t *p, hx_result_t *res)
{
    RES = res;
    PROP = (int)hx_knob(p, "prop", 3);
    plan_to_shared(p);
    compute_reference();
    if (getenv("VERIF_DUMP_SHARED")) {   /* for tools/realrun: run the same plan on the real runtime + real MPI */
        FILE *f = fopen(getenv("VERIF_DUMP_SHARED"), "wb");
        if (f) { fwrite(&SH, sizeof(SH), 1, f); fclose(f); }
    }
    memset(OBS, 0, sizeof(OBS));
    memset(INS_BEGIN, 0, sizeof(INS_BEGIN));
    WAR_R = WAR_W = WAR_T = -1;
    memset(OBS_out, 0, sizeof(OBS_out));
    memset(inflight_w, 0, sizeof(inflight_w));
    memset(INFL, 0, sizeof(INFL));
    memset(inflight_r, 0, sizeof(inflight_r));
    memset(readers_since_write, 0, sizeof(readers_since_write));
    setenv("PARSEC_MCA_mca_sched", SCHEDS[hx_knob(p, "sched", 0) % NSCHED], 1);
    if (SH.window > 0) setenv_int("PARSEC_MCA_dtd_window_size", SH.window); else unsetenv("PARSEC_MCA_dtd_window_size");
    if (SH.threshold > 0) setenv_int("PARSEC_MCA_dtd_threshold_size", SH.threshold); else unsetenv("PARSEC_MCA_dtd_threshold_size");
    if (SH.window > 0 && SH.window <= 2) sim_probe(PR_WINDOW_SMALL);
    if (SH.nranks > 1) sim_probe(PR_MULTIRANK);
    for (int i = 0; i < SH.ntasks; i++) if (SH.tasks[i].inserter >= 0) sim_probe(PR_NESTED_INSERT);
    simmpi_cfg_t cfg;
    memset(&cfg, 0, sizeof(cfg));
    cfg.lat_base_ns = (uint64_t)hx_knob(p, "net_lat", 1000);
    cfg.lat_jitter_ns = (uint64_t)hx_knob(p, "net_jit", 1000);
    cfg.heavy_tail_pct = (int)hx_knob(p, "net_heavy", 0);
    cfg.eager_limit = hx_knob(p, "net_eager", 65536);
    cfg.testsome_partial_pct = (int)hx_knob(p, "net_partial", 0);
    cfg.testsome_lag_pct = (int)hx_knob(p, "net_lag", 0);
    cfg.testsome_lag_max = 3;
    cfg.late_send_pct = (int)hx_knob(p, "net_late", 0);
    simmpi_reset(SH.nranks, hx_current_seed(), &cfg);
    pthread_t pt[16];
    dtd_rank_arg_t ra[16];
    for (int k = 0; k < SH.nranks; k++) { ra[k].sh = &SH; ra[k].rank = k; pthread_create(&pt[k], NULL, rank_tramp, &ra[k]); }
    for (int k = 0; k < SH.nranks; k++) pthread_join(pt[k], NULL);
    /* ---- end-of-run oracles ---- */
    for (int i = 0; i < SH.ntasks && !res->vclass; i++) {
        dtd_task_desc_t *d = &SH.tasks[i];
        if (d->is_flush) continue;
        if (OBS[i].count != 1) hx_fail(res, OBS[i].count ? "task-ran-twice" : "task-lost", "task %d body ran %d times", i, OBS[i].count);
        else if (c3() && REF[i].exp_rank >= 0 && OBS[i].rank != REF[i].exp_rank)
            hx_fail(res, "wrong-rank", "task %d ran on rank %d, its affinity tile %d lives on rank %d", i, OBS[i].rank, d->tile[d->affinity], REF[i].exp_rank);
        hx_hash(res, ((uint64_t)i << 32) ^ (uint64_t)OBS[i].rank ^ (OBS[i].begin << 8));
    }
    if (c4() && !res->vclass) {
        /* writer must not begin before every earlier-inserted reader/writer of the tile (same rank) ended */
        for (int i = 0; i < SH.ntasks && !res->vclass; i++) {
            dtd_task_desc_t *w = &SH.tasks[i];
            if (w->is_flush || w->inserter >= 0) continue;
            for (int a = 0; a < w->nparams && !res->vclass; a++) {
                for (int j = 0; j < i && !res->vclass; j++) {
                    dtd_task_desc_t *e = &SH.tasks[j];
                    if (e->is_flush || e->inserter >= 0 || OBS[j].rank != OBS[i].rank) continue;
                    for (int b = 0; b < e->nparams; b++) {
                        if (e->tile[b] != w->tile[a]) continue;
                        if (!writes(w->mode[a]) && !writes(e->mode[b])) continue;
                        if (OBS[i].begin < OBS[j].end) {
                            if (!writes(e->mode[b]) && !res->vclass) { WAR_R = j; WAR_W = i; WAR_T = w->tile[a]; }
                            hx_fail(res, writes(e->mode[b]) ? "raw-order-violation" : "war-order-violation", "task %d (%s tile %d) began at stamp %llu before earlier-inserted task %d (%s) ended at %llu on rank %d",
                                    i, writes(w->mode[a]) ? "writes" : "reads", w->tile[a], (unsigned long long)OBS[i].begin, j, writes(e->mode[b]) ? "writes" : "reads",
                                    (unsigned long long)OBS[j].end, OBS[i].rank);
                            break;
                        }
                    }
                }
            }
        }
    }
    if ((c3() || PROP == 17) && !res->vclass) {
        for (int k = 0; k < SH.ntiles && !res->vclass; k++) {
            if (!tile_flushed[k]) continue;
            if (!SH.final_valid[k]) { hx_fail(res, "flush-wrong-value", "owner of tile %d did not publish a final value", k); break; }
            /* C03: the sequential value.  C17: the value the last writer in insertion order ACTUALLY
             * produced in this run (its inputs are C03's business), or the initial contents */
            int64_t want = ref_final[k];
            if (PROP == 17) want = last_writer_task[k] >= 0 ? OBS_out[last_writer_task[k]][last_writer_param[k]] : 1000 * (int64_t)(k + 1);
            for (int j = 0; j < SH.nelems; j++) if (SH.final_[k][j] != want + j) {
                hx_fail(res, PROP == 17 ? "flush-wrong-value" : "wrong-final", "tile %d element %d on its owner rank %d is %lld after flush+wait; last writer in insertion order (task %d) produced %lld",
                        k, j, k % SH.nranks, (long long)SH.final_[k][j], last_writer_task[k], (long long)(want + j));
                break;
            }
        }
    }
    for (int k = 0; k < SH.nranks && !res->vclass; k++) if (!SH.rank_done[k]) hx_fail(res, "rank-not-finished", "rank %d did not reach the end of its program", k);
    if (res->vclass && !strncmp(res->vclass, "war-", 4) && WAR_R >= 0 && WAR_W >= 0) {
        /* shape of the write-after-read failure (known findings are keyed by it):
         *  remote-writer            the writer ran on another rank than the reader
         *  earlier-reader-completed an earlier reader of the same tile version had already completed when the
         *                           failing reader was inserted (the reader chain of the tile had been closed)
         *  open-chain               neither: reader and writer were linked behind a still pending predecessor */
        const char *tag = "open-chain";
        int rr = OBS[WAR_R].rank;
        if (OBS[WAR_W].count && OBS[WAR_W].rank != rr) tag = "remote-writer";
        else {
            for (int q = WAR_R - 1; q >= 0; q--) {
                dtd_task_desc_t *e = &SH.tasks[q];
                if (e->is_flush) continue;
                int uses = 0, wr = 0;
                for (int b = 0; b < e->nparams; b++) if (e->tile[b] == WAR_T) { uses = 1; if (writes(e->mode[b])) wr = 1; }
                if (!uses) continue;
                if (wr) break;                          /* an earlier version: stop */
                if (OBS[q].end && INS_BEGIN[rr][WAR_R] && OBS[q].end < INS_BEGIN[rr][WAR_R]) { tag = "earlier-reader-completed"; break; }
            }
        }
        size_t l = strlen(res->detail);
        snprintf(res->detail + l, sizeof(res->detail) - l, " [%s]", tag);
    }
}

static int plan_has_repeat(void)
{
    for (int i = 0; i < SH.ntasks; i++) {
        dtd_task_desc_t *d = &SH.tasks[i];
        if (d->is_flush) continue;
        for (int a = 0; a < d->nparams; a++) for (int b = a + 1; b < d->nparams; b++) if (d->tile[a] == d->tile[b]) return 1;
    }
    return 0;
}
static void annotate(const hx_plan_t *p, char *buf, size_t n)
{
    PROP = (int)hx_knob(p, "prop", 3);
    plan_to_shared(p);
    snprintf(buf, n, "[sched=%s threads=%d ranks=%d%s]", SCHEDS[hx_knob(p, "sched", 0) % NSCHED], SH.nthreads, SH.nranks,
             plan_has_repeat() ? " plan-has-task-using-one-tile-in-several-parameters" : "");
}
/* characterise a hang from the harness's own bookkeeping (world stopped) */
static void describe_abort(char *buf, size_t n)
{
    int done = 0, total = 0, starved = -1, blocked = 0;
    for (int i = 0; i < SH.ntasks; i++) {
        dtd_task_desc_t *d = &SH.tasks[i];
        if (d->is_flush) continue;
        total++;
        if (OBS[i].end) { done++; continue; }
        if (OBS[i].count) continue;     /* running */
        int ready = 1;
        for (int j = 0; j < i && ready; j++) {
            dtd_task_desc_t *e = &SH.tasks[j];
            if (e->is_flush || OBS[j].end) continue;
            for (int a = 0; a < d->nparams && ready; a++) for (int b = 0; b < e->nparams; b++)
                if (d->tile[a] == e->tile[b] && (writes(d->mode[a]) || writes(e->mode[b]))) { ready = 0; break; }
        }
        if (d->inserter >= 0 && !OBS[d->inserter].count) ready = 0;
        if (ready && starved < 0) starved = i; else if (!ready) blocked++;
    }
    if (starved >= 0)
        snprintf(buf, n, "%d of %d tasks done; task %d is data-ready (every earlier conflicting task finished) but never ran: ready-but-starved", done, total, starved);
    else
        snprintf(buf, n, "%d of %d tasks done; no data-ready task is waiting (%d wait for unfinished predecessors)", done, total, blocked);
}

static void tune(const hx_plan_t *p, sim_params_t *sp)
{
    sp->quantum_ns = 20;
    sp->max_steps = (uint64_t)hx_knob(p, "max_steps", 80000000);
}

static const hx_harness_t H = {
    .property = "C03", .name = "dtd", .opnames = opnames, .nopnames = OP_N,
    .est_steps = 2500000, .max_steps = 120000000, .gap_lo = 150, .gap_hi = 60000, .fork_per_run = 1, .gen = gen, .run = run, .init = init, .tune = tune, .describe_abort = describe_abort, .annotate = annotate,
    .probe_names = probe_names, .nprobes = PR_N,
};
int main(int argc, char **argv) { return hx_main(argc, argv, &H); }
