/* shared between the (rankified, instrumented) PTG driver and the (plain) PTG harness */
#ifndef PTG_COMMON_H
#define PTG_COMMON_H
#include <stdint.h>
#define PTG_NTILES 64
#define PTG_MAX_ELEMS 8
#define PTG_MAX_TP 24

/* driver actions (API histories, C06 / C15): a small program of steps executed by every rank */
enum { PA_NEW = 1,        /* a: taskpool slot            -> tp[a] = ptg_make(...)            */
       PA_ADD,            /* a: slot                      -> parsec_context_add_taskpool      */
       PA_START,          /*                              -> parsec_context_start             */
       PA_CTXWAIT,        /*                              -> parsec_context_wait              */
       PA_TPWAIT,         /* a: slot                      -> parsec_taskpool_wait             */
       PA_COMPOSE,        /* a: dst slot, b: first, c: n  -> tp[a] = compose(tp[b..b+c-1])    */
       PA_TEST,           /*                              -> parsec_context_test              */
       PA_FREE,           /* a: slot                      -> parsec_taskpool_free             */
       PA_CHAIN };        /* a: slot, b: slot             -> completion callback of tp[a] adds tp[b] to the context */
typedef struct ptg_action { int kind, a, b, c; } ptg_action_t;

typedef struct ptg_shared {
    int nranks, nthreads, nelems;
    int G[4];
    int nactions;
    ptg_action_t actions[128];
    /* results */
    int64_t final_[PTG_NTILES][PTG_MAX_ELEMS];
    int final_valid[PTG_NTILES];
    int rank_done[16];
} ptg_shared_t;

typedef struct ptg_rank_arg { ptg_shared_t *sh; int rank; } ptg_rank_arg_t;

/* harness callbacks (shared, uninstrumented) */
int  ptgh_body(int rank, int tpid, int cls, const int *params, void **data);
void ptgh_event(int rank, int kind, long a, long b);
enum { PE_ACTION_BEGIN = 1, PE_ACTION_END, PE_COMPLETE_CB, PE_INIT_FAILED = 99 };
#endif
