/* C14 harness: the funnelled MPI communication engine delivers every message exactly once and intact.
 * Real: parsec/parsec_mpi_funnelled.c + parsec_comm_engine.c (and what they use: mempool, lists, MCA
 * parameters), instrumented, one private copy per simulated rank; the driver (ce_driver.c) is the single
 * funnelled thread of its rank.  Simulated: thread scheduling, clock, MPI library + network (simmpi).
 *
 * Plan: knobs (ranks, user tags and their maximum lengths, the four request-window MCA parameters,
 * data-tag bound, network adversities) + ops, op thread = rank:
 *   am   a=peer|tag<<4            b=length  c=burst|stride<<8     send_am (burst: c&0xff messages in a row)
 *   put  a=peer|via<<4|nocheck<<5|slayout<<8|dlayout<<12|ldispl<<16|rcb<<20   b=bytes  c=layout seed
 *   get  (same)
 *   prog a=n                                                      n calls of progress
 *   wait a=ns                                                     simulated pause
 * `via`: the op's rank does not call put/get itself; it registers its buffer and sends a request AM (tag 0)
 * carrying its memory handle; the PEER calls put/get from inside the AM callback (the way remote_dep drives
 * the engine) or later from its progress loop if the engine cannot serve.
 * Every op is self-contained, every argument is taken modulo what is legal: any subset of ops is a plan.
 *
 * Oracle (all state on the harness side, fed by the driver's callbacks):
 *   AM    every delivery must match, byte for byte, a message that was sent to this (src, dst, tag) and
 *         was not delivered before; at the end every sent message was delivered.
 *   xfer  local and remote completion callbacks exactly once each, after the issue; at the completion on
 *         the destination side and again at the end the destination buffer equals
 *         sentinel image + source typemap bytes scattered through the destination typemap
 *         (typemaps computed here, not by simmpi); source buffers unchanged; the forwarded
 *         remote-callback bytes intact.
 *   live  simcore's deadlock / no-progress detection + describe_abort listing what is missing.
 * Delivery ORDER is not part of C14 (reported as a probe only).
 *
 * Client legality (see the comments at plan_to_shared): data tags of one (source, destination) flow come
 * from ONE counter (xmode), a data tag is not reused before the transfer that carried it is complete on
 * both sides (tagT), runs with gets or over-full puts keep runtime_comm_mpi_dynamic_recv_requests below
 * runtime_comm_mpi_dynamic_requests.  The knobs `xmode=3`, `recv_full=1`, `late_reg=1` lift one restriction
 * each; what happens then is described in the C14 report. */
#define _GNU_SOURCE
#include "../hx.h"
#include "../../sim/mpi/simmpi.h"
#include "ce_common.h"
#include <pthread.h>
#include <stdlib.h>
#include <string.h>
#include <stdio.h>
#include <unistd.h>

extern int hx_rank_count;
extern void *(*hx_rank_mains[])(void *);

enum { OP_AM, OP_PUT, OP_GET, OP_PROG, OP_WAIT, OP_N };
static const char *const opnames[] = {"am", "put", "get", "prog", "wait"};
enum { PR_POOL_OVERRUN, PR_WINDOW_ROTATES, PR_UNEXPECTED, PR_TS_PARTIAL, PR_TS_LAG, PR_LATE_SEND, PR_RNDV, PR_REORDER,
       PR_TAG_ROLLOVER, PR_DEFERRED, PR_IN_CALLBACK, PR_WAITED, PR_FULL_ISSUE, PR_AM_OOO, PR_BIG, PR_ZERO_XFER, PR_ZERO_AM,
       PR_DERIVED, PR_PUT, PR_GET, PR_LDISPL, PR_MAXLEN_AM, PR_N };
static const char *const probe_names[] = {
    "am_burst_larger_than_posted_pool", "more_ams_than_tested_window_lt_posted", "mpi_unexpected_message_matched", "testsome_partial", "testsome_lag",
    "late_send_completion", "rendezvous_send", "reorder_in_channel", "data_tag_rolled_over", "transfer_deferred_engine_full",
    "transfer_started_inside_am_callback", "plan_loop_waited_for_can_serve", "issued_while_engine_full", "am_delivered_out_of_send_order",
    "transfer_ge_1MiB", "transfer_0_bytes", "am_0_bytes", "derived_datatype", "put", "get", "nonzero_local_displacement", "am_of_maximum_length"};

static ce_shared_t SH;
static hx_result_t *RES;
static int XMODE, TAGT, POSTED_EFF, TESTED_EFF;
static int exp_am[CE_MAX_RANKS], got_am[CE_MAX_RANKS], exp_l[CE_MAX_RANKS], got_l[CE_MAX_RANKS], exp_r[CE_MAX_RANKS], got_r[CE_MAX_RANKS];
static int nalloc[CE_MAX_RANKS], alloc_of[CE_MAX_RANKS][CE_MAX_XFER];
static int arrived[2][CE_MAX_RANKS];
static int chan_max[CE_MAX_RANKS][CE_MAX_RANKS][CE_MAX_TAGS];
static int trace_on;

int ceh_failed(void) { return RES && RES->vclass != NULL; }

/* ------------------------------------------------------------------ byte streams */
static inline uint64_t mix64(uint64_t z)
{
    z += 0x9E3779B97F4A7C15ULL;
    z = (z ^ (z >> 30)) * 0xBF58476D1CE4E5B9ULL;
    z = (z ^ (z >> 27)) * 0x94D049BB133111EBULL;
    return z ^ (z >> 31);
}
static inline unsigned char stream_byte(uint64_t key, size_t i) { return (unsigned char)(mix64(key * 0x100000001b3ULL + (i >> 3)) >> (8 * (i & 7))); }
static void stream_fill(unsigned char *b, size_t n, uint64_t key)
{
    size_t i = 0;
    for (; i + 8 <= n; i += 8) { uint64_t w = mix64(key * 0x100000001b3ULL + (i >> 3)); memcpy(b + i, &w, 8); }
    for (; i < n; i++) b[i] = stream_byte(key, i);
}
#define KEY_SRC(id) (0x5000000ULL + (uint64_t)(id))
#define KEY_DST(id) (0xD000000ULL + (uint64_t)(id))
#define KEY_AM(id)  (0xA000000ULL + (uint64_t)(id))
#define KEY_RCB(id) (0xC000000ULL + (uint64_t)(id))

/* ------------------------------------------------------------------ layouts (reference typemap) */
typedef struct { size_t off, len; } run_t;
typedef struct { run_t *r; int n, cap; } runs_t;
static void runs_add(runs_t *v, size_t off, size_t len)
{
    if (!len) return;
    if (v->n == v->cap) { v->cap = v->cap ? 2 * v->cap : 32; v->r = realloc(v->r, sizeof(run_t) * (size_t)v->cap); }
    v->r[v->n].off = off; v->r[v->n].len = len; v->n++;
}
/* lower bound and extent of ONE instance, per the MPI rules for contiguous / vector / indexed of a basic type */
static void layout_box(const ce_layout_t *l, size_t *lb, size_t *extent)
{
    size_t e = (size_t)l->elem;
    *lb = 0; *extent = 0;
    switch (l->kind) {
    case CE_L_BYTES: *extent = 1; break;
    case CE_L_CONTIG: *extent = (size_t)l->count * e; break;
    case CE_L_VECTOR: if (l->count > 0 && l->blocklen > 0) *extent = ((size_t)(l->count - 1) * (size_t)l->stride + (size_t)l->blocklen) * e; break;
    default: {
        size_t lo = (size_t)-1, hi = 0;
        for (int i = 0; i < l->nblk; i++) {
            if (l->bl[i] <= 0) continue;
            size_t a = (size_t)l->disp[i] * e, b = a + (size_t)l->bl[i] * e;
            if (a < lo) lo = a;
            if (b > hi) hi = b;
        }
        if (hi) { *lb = lo; *extent = hi - lo; }
    } }
}
static void layout_runs(const ce_layout_t *l, runs_t *v)
{
    size_t e = (size_t)l->elem, lb, ext;
    layout_box(l, &lb, &ext);
    if (l->kind == CE_L_BYTES) { runs_add(v, 0, l->size); return; }
    for (int r = 0; r < l->reps; r++) {
        size_t base = (size_t)r * ext;
        switch (l->kind) {
        case CE_L_CONTIG: runs_add(v, base, (size_t)l->count * e); break;
        case CE_L_VECTOR: for (int j = 0; j < l->count; j++) runs_add(v, base + (size_t)j * (size_t)l->stride * e, (size_t)l->blocklen * e); break;
        default: for (int j = 0; j < l->nblk; j++) runs_add(v, base + (size_t)l->disp[j] * e, (size_t)l->bl[j] * e); break;
        }
    }
}
static void layout_finish(ce_layout_t *l)
{
    size_t lb, ext, sz = 0;
    runs_t v = {0};
    layout_runs(l, &v);
    for (int i = 0; i < v.n; i++) sz += v.r[i].len;
    free(v.r);
    layout_box(l, &lb, &ext);
    l->size = sz;
    l->span = l->kind == CE_L_BYTES ? sz : (l->reps > 0 && ext ? lb + (size_t)l->reps * ext : 0);
}
/* a layout of exactly n payload bytes */
static void layout_derive(ce_layout_t *l, int kind, size_t n, uint64_t *rs)
{
    memset(l, 0, sizeof(*l));
    if (n > (256u << 10) && kind == CE_L_INDEXED) kind = CE_L_VECTOR;
    l->kind = kind;
    l->elem = 1; l->reps = 1;
    if (kind == CE_L_BYTES) { l->reps = (int)n; l->size = l->span = n; return; }
    int ecand[3] = {1, 4, 8}, ne = 0, ok[3];
    for (int i = 0; i < 3; i++) if (n % (size_t)ecand[i] == 0) ok[ne++] = ecand[i];
    l->elem = ok[sim_splitmix(rs) % (uint64_t)ne];
    size_t m = n / (size_t)l->elem;
    int rep = 1 + (int)(sim_splitmix(rs) % 3);
    if (sim_splitmix(rs) % 100 < 50 || m % (size_t)rep) rep = 1;
    l->reps = rep;
    size_t m1 = m / (size_t)rep;
    switch (kind) {
    case CE_L_CONTIG: l->count = (int)m1; break;
    case CE_L_VECTOR: {
        if (!m1) { l->count = (int)(sim_splitmix(rs) % 2); l->blocklen = 0; l->stride = 1; break; }
        size_t cmax = m1 < 40 ? m1 : 40, c = 1 + sim_splitmix(rs) % cmax;
        while (m1 % c) c--;
        l->count = (int)c; l->blocklen = (int)(m1 / c);
        l->stride = l->blocklen + (int)(sim_splitmix(rs) % 4);
        break;
    }
    default: {
        if (!m1) { l->nblk = 0; break; }
        size_t kmax = m1 < 24 ? m1 : 24;
        int k = 1 + (int)(sim_splitmix(rs) % kmax);
        size_t rem = m1 - (size_t)k;
        int cur = (int)(sim_splitmix(rs) % 3);
        for (int i = 0; i < k; i++) {
            size_t add = i == k - 1 ? rem : sim_splitmix(rs) % (rem + 1);
            if (i != k - 1 && sim_splitmix(rs) % 100 < 60) add = add % 9;
            rem -= add;
            l->bl[i] = 1 + (int)add;
            l->disp[i] = cur;
            cur += l->bl[i] + (int)(sim_splitmix(rs) % 3);
        }
        l->nblk = k;
        if (sim_splitmix(rs) % 100 < 30)       /* typemap order != address order (legal: blocks do not overlap) */
            for (int i = k - 1; i > 0; i--) {
                int j = (int)(sim_splitmix(rs) % (uint64_t)(i + 1)), t;
                t = l->bl[i]; l->bl[i] = l->bl[j]; l->bl[j] = t;
                t = l->disp[i]; l->disp[i] = l->disp[j]; l->disp[j] = t;
            }
    } }
    layout_finish(l);
}

/* ------------------------------------------------------------------ plan -> shared */
static const int LDISPL[4] = {0, 0, 8, 200};
static const int TAGLEN[6] = {200, 1, 24, 4096, 20000, 65536};

static int eff_dynamic(long d) { return d > 0 ? (int)d : 30; }
/* dynamic_recv knob: n > 0 sets the parameter; 0 leaves the built-in default (15, which the engine caps to
 * `dynamic` with a warning); -1 sets it to 0 = "choose for me" (dynamic / 2, at least 1) */
static int eff_recv(long d, long r) { int D = eff_dynamic(d), R = r > 0 ? (int)r : r == 0 ? 15 : D / 2; if (R < 1) R = 1; if (R > D) R = D; return R; }

/* Legality rules applied here (a legal client of the engine; each is lifted by a knob for experiments):
 *  (a) all tags are registered before enable (late_reg=1 registers the last one afterwards)
 *  (b) one data flow, one tag counter.  put tags the flow initiator->partner from the initiator's counter, get
 *      tags the flow partner->initiator from the initiator's counter as well; the two ends of one flow would
 *      draw from two counters if one side put and the other side got over the same (source, destination) pair.
 *      xmode 0: only put; 1: only get; 2: the lower rank of a pair issues everything (put and get) between the
 *      two; 3: unrestricted.
 *  (c) tagT (runtime mpi_tag_ub) > 0: the initiator does not allocate data tag number n before its transfer
 *      number n - tagT is complete on both sides (ceh_may_initiate)
 *  (d) runs with gets, or with puts issued while the engine is full, keep dynamic_recv < dynamic (see gen) */
static void plan_to_shared(const hx_plan_t *p)
{
    for (int i = 0; i < SH.nxf; i++) { free(SH.xf[i].sbuf); free(SH.xf[i].dbuf); }
    memset(&SH, 0, sizeof(SH));
    int P = (int)hx_knob(p, "nranks", 2);
    if (P > hx_rank_count) P = hx_rank_count;
    if (P > CE_MAX_RANKS) P = CE_MAX_RANKS;
    if (P < 2) P = 2;
    SH.nranks = P;
    SH.ntags = (int)hx_knob(p, "ntags", 1);
    if (SH.ntags < 1) SH.ntags = 1;
    if (SH.ntags > CE_MAX_TAGS) SH.ntags = CE_MAX_TAGS;
    static const char *const ln[3] = {"len0", "len1", "len2"};
    for (int i = 0; i < SH.ntags; i++) { long v = hx_knob(p, ln[i], 200); SH.tag_len[i] = v < 0 ? 0 : v > 65536 ? 65536 : (int)v; }
    SH.idle_ns = (int)hx_knob(p, "idle_ns", 1000);
    SH.linger = (int)hx_knob(p, "linger", 2);
    SH.end_barrier = (int)hx_knob(p, "end_barrier", 1);
    SH.late_reg = (int)hx_knob(p, "late_reg", 0) && SH.ntags > 1;
    XMODE = (int)hx_knob(p, "xmode", 0) & 3;
    TAGT = (int)hx_knob(p, "tagT", 0);
    POSTED_EFF = hx_knob(p, "am_posted", 0) > 0 ? (int)hx_knob(p, "am_posted", 0) : 6;
    TESTED_EFF = hx_knob(p, "am_tested", 0) > 0 ? (int)hx_knob(p, "am_tested", 0) : (POSTED_EFF / 4 ? POSTED_EFF / 4 : 1);
    if (TESTED_EFF > POSTED_EFF) TESTED_EFF = POSTED_EFF;
    int via_ok = SH.tag_len[0] >= CE_REQ_HDR + CE_HANDLE_MAX;
    int nbig = 0;
    for (int i = 0; i < p->nops; i++) {
        const hx_op_t *o = &p->ops[i];
        int r = ((o->thr % P) + P) % P;
        if (SH.nops[r] >= CE_MAX_OPS) continue;
        ce_op_t *co = &SH.ops[r][SH.nops[r]];
        int peer = (r + 1 + (int)((unsigned long)o->a & 0xf) % (P - 1)) % P;
        switch (o->op) {
        case OP_AM: {
            int tag = (int)(((unsigned long)o->a >> 4) & 0xf) % SH.ntags;
            int burst = (int)((unsigned long)o->c & 0xff), stride = (int)(((unsigned long)o->c >> 8) & 0xffff);
            if (burst < 1) burst = 1;
            if (SH.nam + burst > CE_MAX_AM) burst = CE_MAX_AM - SH.nam;
            if (burst < 1) break;
            co->kind = CE_OP_AM; co->arg = SH.nam; co->n = burst;
            for (int k = 0; k < burst; k++) {
                ce_am_t *a = &SH.am[SH.nam];
                a->id = SH.nam++; a->src = r; a->dst = peer; a->tag = tag; a->req_xfer = -1;
                a->len = (int)(((unsigned long)o->b + (unsigned long)k * (unsigned long)stride) % (unsigned long)(SH.tag_len[tag] + 1));
            }
            SH.nops[r]++;
            break;
        }
        case OP_PUT: case OP_GET: {
            if (SH.nxf >= CE_MAX_XFER) break;
            ce_xfer_t *x = &SH.xf[SH.nxf];
            unsigned long a = (unsigned long)o->a;
            x->id = SH.nxf;
            x->kind = XMODE == 0 ? CE_PUT : XMODE == 1 ? CE_GET : o->op == OP_PUT ? CE_PUT : CE_GET;
            x->via_am = (int)((a >> 4) & 1) && via_ok;
            x->initiator = x->via_am ? peer : r;
            x->partner = x->via_am ? r : peer;
            if (XMODE == 2 && x->initiator > x->partner) {
                if (x->via_am || via_ok) { int t = x->initiator; x->initiator = x->partner; x->partner = t; x->via_am = !x->via_am; }
                else break;     /* cannot be expressed without a request AM: drop the op */
            }
            if (x->via_am && SH.nam >= CE_MAX_AM) break;
            x->nocheck = (int)((a >> 5) & 1);
            x->src_rank = x->kind == CE_PUT ? x->initiator : x->partner;
            x->dst_rank = x->kind == CE_PUT ? x->partner : x->initiator;
            size_t n = (size_t)((unsigned long)o->b % ((4u << 20) + 1));
            if (n > (256u << 10) && ++nbig > 2) n &= 0xffff;
            uint64_t rs = (uint64_t)o->c * 0x9E3779B97F4A7C15ULL + 12345;
            layout_derive(&x->sl, (int)((a >> 8) & 3), n, &rs);
            layout_derive(&x->dl, (int)((a >> 12) & 3), n, &rs);
            x->ldispl = LDISPL[(a >> 16) & 3];
            x->rcb_size = 4 + (int)((a >> 20) & 0xff) % (CE_RCB_MAX - 3);
            size_t sld = x->kind == CE_PUT ? (size_t)x->ldispl : 0, dld = x->kind == CE_GET ? (size_t)x->ldispl : 0;
            x->sbuf_len = 2 * CE_GUARD + sld + x->sl.span;
            x->dbuf_len = 2 * CE_GUARD + dld + x->dl.span;
            x->sbuf = malloc(x->sbuf_len);
            x->dbuf = malloc(x->dbuf_len);
            stream_fill(x->sbuf, x->sbuf_len, KEY_SRC(x->id));
            stream_fill(x->dbuf, x->dbuf_len, KEY_DST(x->id));
            x->smem = x->sbuf + CE_GUARD;       /* registered address; the data start ldispl bytes further on the initiator's side */
            x->dmem = x->dbuf + CE_GUARD;
            x->alloc_idx = -1;
            x->req_am = -1;
            SH.nxf++;
            if (x->via_am) {
                ce_am_t *am = &SH.am[SH.nam];
                am->id = SH.nam; am->src = r; am->dst = x->initiator; am->tag = 0; am->req_xfer = x->id;
                am->len = CE_REQ_HDR + CE_HANDLE_MAX;    /* fixed up when the handle size is known */
                x->req_am = am->id;
                co->kind = CE_OP_AM; co->arg = SH.nam; co->n = 1;
                SH.nam++;
            } else { co->kind = CE_OP_XFER; co->arg = x->id; co->n = 1; }
            SH.nops[r]++;
            break;
        }
        case OP_PROG: co->kind = CE_OP_PROGRESS; co->n = 1 + (int)((unsigned long)o->a % 16); SH.nops[r]++; break;
        case OP_WAIT: co->kind = CE_OP_DELAY; co->n = (int)((unsigned long)o->a % 2000000); SH.nops[r]++; break;
        default: break;
        }
    }
    memset(exp_am, 0, sizeof(exp_am)); memset(exp_l, 0, sizeof(exp_l)); memset(exp_r, 0, sizeof(exp_r));
    for (int i = 0; i < SH.nam; i++) exp_am[SH.am[i].dst]++;
    for (int i = 0; i < SH.nxf; i++) { exp_l[SH.xf[i].initiator]++; exp_r[SH.xf[i].partner]++; }
}

/* ------------------------------------------------------------------ generator */
static void gen(hx_plan_t *p, hx_rng_t *r)
{
    int maxP = hx_rank_count < CE_MAX_RANKS ? hx_rank_count : CE_MAX_RANKS;
    int P = hx_chance(r, 50) ? 2 : (int)hx_range(r, 2, maxP);
    hx_set_knob(p, "nranks", P);
    int ntags = (int)hx_range(r, 1, 3);
    hx_set_knob(p, "ntags", ntags);
    int via_ok = hx_chance(r, 75);
    hx_set_knob(p, "len0", via_ok ? TAGLEN[hx_chance(r, 60) ? 0 : 3 + hx_below(r, 3)] : TAGLEN[hx_below(r, 6)]);
    hx_set_knob(p, "len1", TAGLEN[hx_below(r, 6)]);
    hx_set_knob(p, "len2", TAGLEN[hx_below(r, 5)]);
    static const int posted[] = {1, 2, 5, 0, 3};
    int ap = posted[hx_below(r, 5)], ape = ap ? ap : 6;
    hx_set_knob(p, "am_posted", ap);
    int at = hx_chance(r, 35) ? 0 : hx_chance(r, 50) ? 1 : (int)hx_range(r, 1, ape);
    hx_set_knob(p, "am_tested", at);
    static const int dyn[] = {1, 2, 3, 5, 0, 8};
    long d = dyn[hx_below(r, 6)];
    long dr = hx_chance(r, 20) ? 0 : hx_chance(r, 20) ? -1 : hx_chance(r, 40) ? 1 : hx_range(r, 1, eff_dynamic(d));
    int xmode = hx_chance(r, 40) ? 0 : hx_chance(r, 45) ? 1 : 2;
    /* a few percent of the plans lift ONE client restriction and so walk into a recorded open finding (known_findings.json:
     * KF-CE-*; the plan tag added by annotate() keys the entry); everything else stays free of their shadow */
    int lift = (int)hx_below(r, 100);
    int lift_xmode = lift < 4, lift_recv = lift >= 4 && lift < 8, lift_late = lift >= 8 && lift < 12;
    if (hx_cli_knob("nolift", 0)) lift_xmode = lift_recv = lift_late = 0;
    if (lift_xmode) xmode = 3;
    if (hx_cli_knob("xmode", -1) >= 0) xmode = (int)hx_cli_knob("xmode", 0) & 3;
    int nocheck_pct = hx_chance(r, 40) ? (hx_chance(r, 50) ? 12 : 45) : 0;
    if ((xmode != 0 || nocheck_pct) && !hx_cli_knob("recv_full", 0) && !lift_recv) {
        /* Receives may take every dynamic slot of MPI_Testsome when dynamic_recv == dynamic; if the matching
         * sends are queued behind the peer's equally filled window nothing completes any more.  This needs a
         * get, or a put issued while the engine is full (nocheck); plain can_serve-gated puts are safe with any
         * setting.  Rule (d): otherwise keep one slot for sends (recv_full=1 lifts it). */
        if (eff_dynamic(d) < 2) d = 2;
        if (eff_recv(d, dr) >= eff_dynamic(d)) dr = eff_dynamic(d) - 1;
    }
    hx_set_knob(p, "dynamic", d);
    hx_set_knob(p, "dynamic_recv", dr);
    hx_set_knob(p, "xmode", xmode);
    static const int tt[] = {1, 2, 3, 5, 8};
    hx_set_knob(p, "tagT", hx_chance(r, 55) ? 0 : tt[hx_below(r, 5)]);
    hx_set_knob(p, "tag_ub", hx_chance(r, 50) ? 0 : 32767);
    hx_set_knob(p, "overtake", hx_chance(r, 75));
    static const int idle[] = {200, 1000, 5000};
    hx_set_knob(p, "idle_ns", idle[hx_below(r, 3)]);
    hx_set_knob(p, "linger", hx_below(r, 5));
    hx_set_knob(p, "end_barrier", hx_chance(r, 80));
    hx_set_knob(p, "late_reg", hx_cli_knob("late_reg", 0) || lift_late ? 1 : 0);
    hx_set_knob(p, "net_lat", hx_chance(r, 50) ? 1000 : hx_range(r, 100, 100000));
    hx_set_knob(p, "net_jit", hx_chance(r, 30) ? 0 : hx_range(r, 100, 200000));
    hx_set_knob(p, "net_heavy", hx_chance(r, 30) ? hx_range(r, 1, 15) : 0);
    static const long eag[] = {0, 64, 65536, 1 << 30};
    hx_set_knob(p, "net_eager", eag[hx_below(r, 4)]);
    hx_set_knob(p, "net_partial", hx_chance(r, 45) ? hx_range(r, 5, 70) : 0);
    hx_set_knob(p, "net_lag", hx_chance(r, 40) ? hx_range(r, 5, 50) : 0);
    hx_set_knob(p, "net_late", hx_chance(r, 35) ? hx_range(r, 5, 70) : 0);
    hx_set_knob(p, "net_slow", hx_chance(r, 15) ? (long)(hx_rand(r) & 0x7fffffff) : 0);
    int n = hx_chance(r, 70) ? (int)hx_range(r, 3, 30) : (int)hx_range(r, 30, 90);
    int am_pct = (int)hx_range(r, 20, 80);
    for (int i = 0; i < n; i++) {
        int thr = (int)hx_below(r, P);
        long peer = hx_below(r, 16);
        int q = (int)hx_below(r, 100);
        if (q < am_pct) {
            long burst = hx_chance(r, 65) ? 1 : hx_chance(r, 60) ? hx_range(r, 2, 8) : hx_range(r, 9, 30);
            long len = hx_chance(r, 15) ? 0 : hx_chance(r, 10) ? 65536 : hx_chance(r, 50) ? hx_range(r, 1, 64) : hx_range(r, 65, 70000);
            hx_add_op(p, thr, OP_AM, peer | (hx_below(r, 3) << 4), len, burst | ((hx_chance(r, 50) ? 0 : hx_range(r, 1, 999)) << 8));
        } else if (q < am_pct + (100 - am_pct) * 3 / 4) {
            long sz = hx_chance(r, 8) ? 0 : hx_chance(r, 45) ? hx_range(r, 1, 64) : hx_chance(r, 50) ? hx_range(r, 65, 4096)
                    : hx_chance(r, 70) ? hx_range(r, 4097, 262144) : hx_chance(r, 75) ? hx_range(r, 262145, 1 << 20) : hx_range(r, 1 << 20, 4 << 20);
            if (sz > (4 << 20)) sz = 4 << 20;
            long a = peer | ((via_ok && hx_chance(r, 50)) << 4) | ((nocheck_pct && hx_chance(r, nocheck_pct)) << 5) | (hx_below(r, 4) << 8) | (hx_below(r, 4) << 12) | (hx_below(r, 4) << 16) | (hx_below(r, 256) << 20);
            hx_add_op(p, thr, hx_chance(r, 50) ? OP_PUT : OP_GET, a, sz, (long)(hx_rand(r) & 0xffffff));
        } else if (hx_chance(r, 70)) hx_add_op(p, thr, OP_PROG, hx_range(r, 0, 7), 0, 0);
        else hx_add_op(p, thr, OP_WAIT, hx_chance(r, 70) ? hx_range(r, 100, 20000) : hx_range(r, 20000, 1000000), 0, 0);
    }
}

/* ------------------------------------------------------------------ driver callbacks */
void ceh_event(int rank, int kind, long a, long b)
{
    sim_hash_event(((uint64_t)rank << 56) ^ ((uint64_t)kind << 48) ^ ((uint64_t)a << 20) ^ (uint64_t)b);
    if (trace_on) fprintf(stderr, "[ce t=%llu] rank %d event %d a=%ld b=%ld\n", (unsigned long long)sim_now(), rank, kind, a, b);
    if (kind == CEE_INIT_FAILED) hx_fail(RES, "init-failed", "rank %d could not bring the engine up (step %ld, value %ld)", rank, a, b);
    else if (kind == CEE_API_ERROR) hx_fail(RES, "api-error", "rank %d: engine call %ld failed (arg %ld)", rank, a, b);
    else if (kind == CEE_PHASE) {
        if (a == 100) sim_probe(PR_FULL_ISSUE);
        else if (a == 101) sim_probe(PR_IN_CALLBACK);
        else if (a == 103) sim_probe(PR_DEFERRED);
        else if (a == 104) sim_probe(PR_WAITED);
    }
}

void ceh_arrive(int rank, int which) { arrived[which & 1][rank] = 1; }
int ceh_barrier_pred(void *which)
{
    if (ceh_failed()) return 1;
    int w = (int)(intptr_t)which & 1;
    for (int r = 0; r < SH.nranks; r++) if (!arrived[w][r]) return 0;
    return 1;
}

static void am_payload(const ce_am_t *a, unsigned char *b)
{
    stream_fill(b, (size_t)a->len, KEY_AM(a->id));
    if (a->len >= 4) { uint32_t id = (uint32_t)a->id; memcpy(b, &id, 4); }
    if (a->req_xfer >= 0) {
        uint32_t h[4] = {(uint32_t)a->id, CE_REQ_MAGIC, (uint32_t)a->req_xfer, 0};
        memcpy(b, h, CE_REQ_HDR);
        memcpy(b + CE_REQ_HDR, SH.xf[a->req_xfer].rhandle, (size_t)SH.handle_size);
    }
}

void ceh_am_fill(int rank, int am_id, void *buf)
{
    if (am_id < 0 || am_id >= SH.nam) return;
    ce_am_t *a = &SH.am[am_id];
    if (a->req_xfer >= 0) a->len = CE_REQ_HDR + SH.handle_size;
    am_payload(a, buf);
    a->sent++;
    a->t_sent = sim_stamp();
    if (!a->len) sim_probe(PR_ZERO_AM);
    if (a->len == SH.tag_len[a->tag]) sim_probe(PR_MAXLEN_AM);
    sim_hash_event(0xA100000000ULL ^ ((uint64_t)rank << 24) ^ (uint64_t)am_id);
    if (trace_on) fprintf(stderr, "[ce t=%llu] rank %d SEND am %d -> %d tag %d len %d%s\n", (unsigned long long)sim_now(), rank, am_id, a->dst, a->tag, a->len, a->req_xfer >= 0 ? " (request)" : "");
}

static int am_matches(const ce_am_t *a, const unsigned char *msg, size_t len)
{
    if ((size_t)a->len != len) return 0;
    unsigned char *ref = malloc(len ? len : 1);
    am_payload(a, ref);
    int ok = !memcmp(ref, msg, len);
    free(ref);
    return ok;
}

int ceh_am_deliver(int rank, int tagidx, long mpi_tag, int src, const void *msg, size_t len)
{
    sim_hash_event(0xA200000000ULL ^ ((uint64_t)rank << 40) ^ ((uint64_t)(unsigned)src << 32) ^ ((uint64_t)tagidx << 28) ^ (uint64_t)len);
    if (ceh_failed()) return -1;
    if (tagidx < 0 || tagidx >= SH.ntags || mpi_tag != CE_FIRST_TAG + tagidx) {
        hx_fail(RES, "am-misrouted", "rank %d: callback of user tag index %d invoked with tag %ld (src %d, %zu bytes)", rank, tagidx, mpi_tag, src, len);
        return -1;
    }
    if (src < 0 || src >= SH.nranks || src == rank) { hx_fail(RES, "am-not-sent", "rank %d tag %d: delivery of %zu bytes claims source %d", rank, tagidx, len, src); return -1; }
    if ((long)len > SH.tag_len[tagidx]) { hx_fail(RES, "am-corrupt", "rank %d tag %d: delivered length %zu exceeds the registered maximum %d", rank, tagidx, len, SH.tag_len[tagidx]); return -1; }
    ce_am_t *hit = NULL, *dup = NULL, *unsent = NULL, *named = NULL;
    if (len >= 4) {
        uint32_t id; memcpy(&id, msg, 4);
        if (id < (uint32_t)SH.nam) named = &SH.am[id];
    }
    for (int i = 0; i < SH.nam && !hit; i++) {
        ce_am_t *a = named ? named : &SH.am[i];
        if (a->src == src && a->dst == rank && a->tag == tagidx && am_matches(a, msg, len)) {
            if (!a->sent) unsent = a;
            else if (a->delivered >= a->sent) dup = a;
            else hit = a;
        }
        if (named) break;
    }
    if (!hit) {
        if (dup) hx_fail(RES, "am-duplicate", "rank %d tag %d: message %d from %d (%zu bytes) delivered a second time", rank, tagidx, dup->id, src, len);
        else if (unsent) hx_fail(RES, "am-not-sent", "rank %d tag %d: message %d from %d delivered before it was sent", rank, tagidx, unsent->id, src);
        else if (named && named->dst == rank && named->src == src && named->tag == tagidx)
            hx_fail(RES, "am-corrupt", "rank %d tag %d: message %d from %d arrived with %zu bytes, sent with %d, or with different bytes", rank, tagidx, named->id, src, len, named->len);
        else if (named) hx_fail(RES, "am-misrouted", "rank %d tag %d src %d: received message %d which was sent %d -> %d on tag %d", rank, tagidx, src, named->id, named->src, named->dst, named->tag);
        else hx_fail(RES, "am-not-sent", "rank %d tag %d: %zu bytes from %d match no message sent on this channel", rank, tagidx, len, src);
        return -1;
    }
    hit->delivered++;
    hit->t_deliv = sim_stamp();
    got_am[rank]++;
    if (hit->id < chan_max[src][rank][tagidx]) sim_probe(PR_AM_OOO);
    else chan_max[src][rank][tagidx] = hit->id;
    if (trace_on) fprintf(stderr, "[ce t=%llu] rank %d DELIVER am %d from %d tag %d len %zu\n", (unsigned long long)sim_now(), rank, hit->id, src, tagidx, len);
    if (hit->req_xfer >= 0) {
        ce_xfer_t *x = &SH.xf[hit->req_xfer];
        if (x->initiator != rank) { hx_fail(RES, "am-misrouted", "request for transfer %d reached rank %d, initiator is %d", x->id, rank, x->initiator); return -1; }
        return x->id;
    }
    return -1;
}

void ceh_handle(int rank, int xfer, const void *h, int size)
{
    if (xfer < 0 || xfer >= SH.nxf || size > CE_HANDLE_MAX) { hx_fail(RES, "init-failed", "rank %d: memory handle of %d bytes", rank, size); return; }
    memcpy(SH.xf[xfer].rhandle, h, (size_t)size);
    SH.xf[xfer].rhandle_valid = 1;
}

int ceh_may_initiate(int rank, int xfer)
{
    (void)xfer;
    if (ceh_failed() || TAGT <= 0) return 1;
    int n = nalloc[rank];
    if (n < TAGT) return 1;
    const ce_xfer_t *y = &SH.xf[alloc_of[rank][n - TAGT]];
    return y->lcb && y->rcb;
}

void ceh_issue(int rank, int xfer)
{
    ce_xfer_t *x = &SH.xf[xfer];
    if (!x->rhandle_valid && !ceh_failed()) hx_fail(RES, "harness-bug", "transfer %d issued without the partner's handle", xfer);
    if (x->initiator != rank && !ceh_failed()) hx_fail(RES, "harness-bug", "transfer %d issued by rank %d", xfer, rank);
    x->issued++;
    x->t_issue = sim_stamp();
    x->alloc_idx = nalloc[rank];
    alloc_of[rank][nalloc[rank]++] = xfer;
    if (TAGT > 0 && nalloc[rank] > TAGT) sim_probe(PR_TAG_ROLLOVER);
    sim_probe(x->kind == CE_PUT ? PR_PUT : PR_GET);
    if (!x->sl.size) sim_probe(PR_ZERO_XFER);
    if (x->sl.size >= (1u << 20)) sim_probe(PR_BIG);
    if (x->sl.kind >= CE_L_VECTOR || x->dl.kind >= CE_L_VECTOR) sim_probe(PR_DERIVED);
    if (x->ldispl) sim_probe(PR_LDISPL);
    sim_hash_event(0xB100000000ULL ^ ((uint64_t)rank << 24) ^ (uint64_t)xfer);
    if (trace_on) fprintf(stderr, "[ce t=%llu] rank %d ISSUE %s %d partner %d bytes %zu (tag alloc #%d)\n", (unsigned long long)sim_now(), rank, x->kind == CE_PUT ? "put" : "get", xfer, x->partner, x->sl.size, x->alloc_idx);
}

void ceh_rcb_fill(int xfer, void *buf)
{
    ce_xfer_t *x = &SH.xf[xfer];
    stream_fill(buf, (size_t)x->rcb_size, KEY_RCB(xfer));
    uint32_t id = (uint32_t)xfer;
    memcpy(buf, &id, 4);
}

/* destination buffer == sentinel image with the source's typemap bytes scattered through the destination typemap */
static int check_dst(const ce_xfer_t *x, const char *when)
{
    unsigned char *img = malloc(x->dbuf_len ? x->dbuf_len : 1), *inmap = NULL;
    stream_fill(img, x->dbuf_len, KEY_DST(x->id));
    runs_t sv = {0}, dv = {0};
    layout_runs(&x->sl, &sv);
    layout_runs(&x->dl, &dv);
    const unsigned char *sbase = x->smem + (x->kind == CE_PUT ? x->ldispl : 0);
    size_t dbase = (size_t)(x->dmem - x->dbuf) + (size_t)(x->kind == CE_GET ? x->ldispl : 0);
    int si = 0; size_t so = 0;
    for (int i = 0; i < dv.n; i++) {
        size_t done = 0;
        while (done < dv.r[i].len && si < sv.n) {
            size_t k = sv.r[si].len - so;
            if (k > dv.r[i].len - done) k = dv.r[i].len - done;
            /* the source bytes as they were filled (the source buffer itself is checked separately) */
            size_t soff = (size_t)(sbase - x->sbuf) + sv.r[si].off + so;
            for (size_t j = 0; j < k; j++) img[dbase + dv.r[i].off + done + j] = stream_byte(KEY_SRC(x->id), soff + j);
            done += k; so += k;
            if (so == sv.r[si].len) { si++; so = 0; }
        }
    }
    int ok = !memcmp(img, x->dbuf, x->dbuf_len);
    if (!ok && !ceh_failed()) {
        size_t at = 0;
        while (img[at] == x->dbuf[at]) at++;
        inmap = calloc(1, x->dbuf_len);
        for (int i = 0; i < dv.n; i++) memset(inmap + dbase + dv.r[i].off, 1, dv.r[i].len);
        long rel = (long)at - (long)dbase;
        if (inmap[at])
            hx_fail(RES, "xfer-data-wrong", "%s %d (%d -> %d, %zu bytes, layouts %d/%d): %s destination byte at offset %ld of the target area is 0x%02x, expected 0x%02x (%s)",
                    x->kind == CE_PUT ? "put" : "get", x->id, x->src_rank, x->dst_rank, x->sl.size, x->sl.kind, x->dl.kind, when, rel, x->dbuf[at], img[at],
                    x->dbuf[at] == stream_byte(KEY_DST(x->id), at) ? "still the sentinel: not written" : "foreign data");
        else
            hx_fail(RES, "xfer-outside-touched", "%s %d (%d -> %d, %zu bytes, layouts %d/%d): %s byte at offset %ld relative to the target area lies outside the destination typemap and was overwritten (0x%02x, sentinel 0x%02x)",
                    x->kind == CE_PUT ? "put" : "get", x->id, x->src_rank, x->dst_rank, x->sl.size, x->sl.kind, x->dl.kind, when, rel, x->dbuf[at], img[at]);
    }
    free(img); free(inmap); free(sv.r); free(dv.r);
    return ok;
}
static int check_src(const ce_xfer_t *x)
{
    unsigned char *img = malloc(x->sbuf_len ? x->sbuf_len : 1);
    stream_fill(img, x->sbuf_len, KEY_SRC(x->id));
    int ok = !memcmp(img, x->sbuf, x->sbuf_len);
    free(img);
    return ok;
}

void ceh_local_done(int rank, int xfer, int lreg_ok, long ldispl, long rdispl, long size, int remote)
{
    sim_hash_event(0xB200000000ULL ^ ((uint64_t)rank << 24) ^ (uint64_t)(unsigned)xfer);
    if (ceh_failed()) return;
    if (xfer < 0 || xfer >= SH.nxf) { hx_fail(RES, "xfer-unknown-completion", "rank %d: local completion callback with callback data %d", rank, xfer + 1); return; }
    ce_xfer_t *x = &SH.xf[xfer];
    if (trace_on) fprintf(stderr, "[ce t=%llu] rank %d LOCAL-DONE %d\n", (unsigned long long)sim_now(), rank, xfer);
    if (x->initiator != rank) { hx_fail(RES, "xfer-unknown-completion", "rank %d: local completion of transfer %d whose initiator is %d", rank, xfer, x->initiator); return; }
    if (!x->issued) { hx_fail(RES, "xfer-completion-before-issue", "transfer %d: local completion before it was issued", xfer); return; }
    if (x->lcb) { hx_fail(RES, "xfer-lcb-twice", "%s %d (%d <-> %d): local completion callback fired %d times", x->kind == CE_PUT ? "put" : "get", xfer, x->initiator, x->partner, x->lcb + 1); return; }
    x->lcb++;
    got_l[rank]++;
    if (!lreg_ok || ldispl != x->ldispl || rdispl != 0 || remote != x->partner)
        { hx_fail(RES, "xfer-cb-args", "%s %d: local completion callback got lreg %s, ldispl %ld (passed %d), rdispl %ld, remote %d (passed %d)", x->kind == CE_PUT ? "put" : "get", xfer, lreg_ok ? "ok" : "WRONG", ldispl, x->ldispl, rdispl, remote, x->partner); return; }
    (void)size;     /* put reports the handle's count, get the size argument: not specified, not checked */
    if (x->kind == CE_GET) check_dst(x, "at the local completion callback the");
}

int ceh_remote_done(int rank, const void *msg, long msg_size, int src, long mpi_tag)
{
    (void)msg_size; (void)mpi_tag;
    uint32_t id;
    memcpy(&id, msg, 4);
    sim_hash_event(0xB300000000ULL ^ ((uint64_t)rank << 24) ^ (uint64_t)id);
    if (ceh_failed()) return -1;
    if (id >= (uint32_t)SH.nxf) { hx_fail(RES, "xfer-cbdata-corrupt", "rank %d: remote completion callback data names transfer %u", rank, id); return -1; }
    ce_xfer_t *x = &SH.xf[id];
    if (trace_on) fprintf(stderr, "[ce t=%llu] rank %d REMOTE-DONE %u\n", (unsigned long long)sim_now(), rank, id);
    unsigned char ref[CE_RCB_MAX];
    ceh_rcb_fill((int)id, ref);
    if (memcmp(ref, msg, (size_t)x->rcb_size)) { hx_fail(RES, "xfer-cbdata-corrupt", "%s %d: the %d bytes of remote-callback data were altered on their way", x->kind == CE_PUT ? "put" : "get", x->id, x->rcb_size); return -1; }
    if (x->partner != rank) { hx_fail(RES, "xfer-unknown-completion", "rank %d: remote completion of transfer %d whose partner is %d", rank, x->id, x->partner); return -1; }
    if (!x->issued) { hx_fail(RES, "xfer-completion-before-issue", "transfer %d: remote completion before it was issued", x->id); return -1; }
    if (x->rcb) { hx_fail(RES, "xfer-rcb-twice", "%s %d (%d <-> %d): remote completion callback fired %d times", x->kind == CE_PUT ? "put" : "get", x->id, x->initiator, x->partner, x->rcb + 1); return -1; }
    x->rcb++;
    got_r[rank]++;
    /* the source rank reported to a put's remote callback comes from the receive status: well defined */
    if (x->kind == CE_PUT && src != x->initiator) { hx_fail(RES, "xfer-cb-args", "put %d: remote completion callback reports source %d, initiator is %d", x->id, src, x->initiator); return -1; }
    if (x->kind == CE_PUT) check_dst(x, "at the remote completion callback the");
    return (int)id;
}

int ceh_quiescent(int rank)
{
    if (ceh_failed()) return 1;
    return got_am[rank] >= exp_am[rank] && got_l[rank] >= exp_l[rank] && got_r[rank] >= exp_r[rank];
}

/* ------------------------------------------------------------------ run */
static void setenv_int(const char *k, long v) { char b[32]; snprintf(b, sizeof(b), "%ld", v); setenv(k, b, 1); }
static void env_knob(const hx_plan_t *p, const char *knob, const char *env)
{
    long v = hx_knob(p, knob, 0);
    if (v > 0) setenv_int(env, v); else if (v < 0) setenv_int(env, 0); else unsetenv(env);
}

static void init(void)
{
    setenv("HWLOC_SYNTHETIC", "pack:1 core:16 pu:1", 1);
    setenv("HWLOC_THISSYSTEM", "0", 1);
    char tmpl[] = "/tmp/verif_home_XXXXXX";
    char *d = hx_scratch_dir(tmpl);
    if (d) setenv("HOME", d, 1);
    extern char **environ;
    for (char **e = environ; *e;) {
        if (!strncmp(*e, "PARSEC_MCA_", 11)) { char nm[128]; snprintf(nm, sizeof(nm), "%.*s", (int)(strchr(*e, '=') - *e), *e); unsetenv(nm); e = environ; }
        else e++;
    }
}

static void *rank_tramp(void *a)
{
    ce_rank_arg_t *ra = a;
    sim_set_rank(ra->rank);
    return hx_rank_mains[ra->rank](a);
}

static void run(const hx_plan_t *p, hx_result_t *res)
{
    RES = res;
    trace_on = getenv("VERIF_MPI_TRACE") != NULL;
    plan_to_shared(p);
    memset(got_am, 0, sizeof(got_am)); memset(got_l, 0, sizeof(got_l)); memset(got_r, 0, sizeof(got_r));
    memset(nalloc, 0, sizeof(nalloc)); memset(arrived, 0, sizeof(arrived));
    for (int a = 0; a < CE_MAX_RANKS; a++) for (int b = 0; b < CE_MAX_RANKS; b++) for (int t = 0; t < CE_MAX_TAGS; t++) chan_max[a][b][t] = -1;
    env_knob(p, "am_posted", "PARSEC_MCA_runtime_comm_mpi_am_posted_requests");
    env_knob(p, "am_tested", "PARSEC_MCA_runtime_comm_mpi_am_tested_requests");
    env_knob(p, "dynamic", "PARSEC_MCA_runtime_comm_mpi_dynamic_requests");
    env_knob(p, "dynamic_recv", "PARSEC_MCA_runtime_comm_mpi_dynamic_recv_requests");
    env_knob(p, "tagT", "PARSEC_MCA_mpi_tag_ub");
    if (hx_knob(p, "overtake", 1)) unsetenv("PARSEC_MCA_runtime_comm_mpi_overtake"); else setenv_int("PARSEC_MCA_runtime_comm_mpi_overtake", 0);
    /* plan-level reach probes */
    {
        int cnt[CE_MAX_RANKS][CE_MAX_TAGS];
        memset(cnt, 0, sizeof(cnt));
        for (int i = 0; i < SH.nam; i++) cnt[SH.am[i].dst][SH.am[i].tag]++;
        for (int r = 0; r < SH.nranks; r++) for (int t = 0; t < SH.ntags; t++) if (TESTED_EFF < POSTED_EFF && cnt[r][t] > POSTED_EFF) sim_probe(PR_WINDOW_ROTATES);
        for (int r = 0; r < SH.nranks; r++) for (int k = 0; k < SH.nops[r]; k++) if (SH.ops[r][k].kind == CE_OP_AM && SH.ops[r][k].n > POSTED_EFF) sim_probe(PR_POOL_OVERRUN);
    }
    simmpi_cfg_t cfg;
    memset(&cfg, 0, sizeof(cfg));
    cfg.lat_base_ns = (uint64_t)hx_knob(p, "net_lat", 1000);
    cfg.lat_jitter_ns = (uint64_t)hx_knob(p, "net_jit", 1000);
    cfg.heavy_tail_pct = (int)hx_knob(p, "net_heavy", 0);
    cfg.eager_limit = hx_knob(p, "net_eager", 65536);
    cfg.testsome_partial_pct = (int)hx_knob(p, "net_partial", 0);
    cfg.testsome_lag_pct = (int)hx_knob(p, "net_lag", 0);
    cfg.testsome_lag_max = 3;
    cfg.late_send_pct = (int)hx_knob(p, "net_late", 0);
    cfg.slow_link_mask = (unsigned)hx_knob(p, "net_slow", 0);
    cfg.tag_ub = (int)hx_knob(p, "tag_ub", 0);
    if (cfg.tag_ub && cfg.tag_ub < 32767) cfg.tag_ub = 32767;
    simmpi_reset(SH.nranks, hx_current_seed(), &cfg);
    pthread_t pt[CE_MAX_RANKS];
    ce_rank_arg_t ra[CE_MAX_RANKS];
    for (int k = 0; k < SH.nranks; k++) { ra[k].sh = &SH; ra[k].rank = k; pthread_create(&pt[k], NULL, rank_tramp, &ra[k]); }
    for (int k = 0; k < SH.nranks; k++) pthread_join(pt[k], NULL);
    /* ---- end-of-run oracle ---- */
    const simmpi_stats_t *st = simmpi_stats();
    if (st->unexpected_matched) sim_probe(PR_UNEXPECTED);
    if (st->testsome_partial) sim_probe(PR_TS_PARTIAL);
    if (st->testsome_lag) sim_probe(PR_TS_LAG);
    if (st->late_send_completion) sim_probe(PR_LATE_SEND);
    if (st->rendezvous) sim_probe(PR_RNDV);
    if (st->reorder_in_channel) sim_probe(PR_REORDER);
    for (int i = 0; i < SH.nam && !res->vclass; i++) {
        ce_am_t *a = &SH.am[i];
        if (a->sent != 1) hx_fail(res, "harness-bug", "message %d sent %d times", i, a->sent);
        else if (a->delivered != 1) hx_fail(res, a->delivered ? "am-duplicate" : "am-lost", "message %d (%d -> %d, tag %d, %d bytes) delivered %d times", i, a->src, a->dst, a->tag, a->len, a->delivered);
        hx_hash(res, ((uint64_t)i << 40) ^ (a->t_deliv << 1) ^ (uint64_t)a->delivered);
    }
    for (int i = 0; i < SH.nxf && !res->vclass; i++) {
        ce_xfer_t *x = &SH.xf[i];
        if (x->issued != 1) hx_fail(res, "xfer-lost", "%s %d (%d <-> %d) was issued %d times", x->kind == CE_PUT ? "put" : "get", i, x->initiator, x->partner, x->issued);
        else if (x->lcb != 1 || x->rcb != 1) hx_fail(res, "xfer-lost", "%s %d (%d <-> %d, %zu bytes): local completion %d times, remote completion %d times", x->kind == CE_PUT ? "put" : "get", i, x->initiator, x->partner, x->sl.size, x->lcb, x->rcb);
        else if (check_dst(x, "at the end of the run the") && !check_src(x)) hx_fail(res, "xfer-src-modified", "%s %d: the source buffer on rank %d was modified", x->kind == CE_PUT ? "put" : "get", i, x->src_rank);
        hx_hash(res, ((uint64_t)i << 40) ^ (x->t_issue << 1));
    }
    for (int k = 0; k < SH.nranks && !res->vclass; k++) if (!SH.rank_done[k]) hx_fail(res, "rank-not-finished", "rank %d did not reach the end of its program", k);
    if (!res->vclass && st->truncations) hx_fail(res, "mpi-truncation", "%llu receives were shorter than the message matched to them", (unsigned long long)st->truncations);
    if (!res->vclass && simmpi_inflight()) hx_fail(res, "message-left-in-network", "%d MPI messages were never received", simmpi_inflight());
}

/* plan-derived shape tags (keys for known findings) */
static void annotate(const hx_plan_t *p, char *buf, size_t n)
{
    plan_to_shared(p);
    int both = 0, gets = 0, nochk = 0;
    for (int i = 0; i < SH.nxf; i++) for (int j = 0; j < SH.nxf; j++)
        if (SH.xf[i].src_rank == SH.xf[j].src_rank && SH.xf[i].dst_rank == SH.xf[j].dst_rank && SH.xf[i].initiator != SH.xf[j].initiator) both = 1;
    for (int i = 0; i < SH.nxf; i++) { if (SH.xf[i].kind == CE_GET) gets++; if (SH.xf[i].nocheck) nochk++; }
    long d = hx_knob(p, "dynamic", 0), dr = hx_knob(p, "dynamic_recv", 0);
    snprintf(buf, n, "[ranks=%d xmode=%d posted=%d tested=%d dynamic=%d recv=%d tagT=%d%s%s%s]", SH.nranks, XMODE, POSTED_EFF, TESTED_EFF, eff_dynamic(d), eff_recv(d, dr), TAGT,
             both ? " one-flow-tagged-by-both-ends" : "", (gets || nochk) && eff_recv(d, dr) >= eff_dynamic(d) ? " recv-share-equal-dynamic" : "", SH.late_reg ? " tag-registered-after-enable" : "");
}

static void describe_abort(char *buf, size_t n)
{
    size_t l = 0;
    int am_missing = 0, xf_missing = 0;
    buf[0] = 0;
    for (int r = 0; r < SH.nranks; r++)
        l += (size_t)snprintf(buf + l, l < n ? n - l : 0, "rank %d phase %d op %d/%d pending %d am %d/%d lcb %d/%d rcb %d/%d; ", r, SH.phase[r], SH.op_idx[r], SH.nops[r], SH.npending[r],
                              got_am[r], exp_am[r], got_l[r], exp_l[r], got_r[r], exp_r[r]);
    for (int i = 0; i < SH.nam; i++) if (SH.am[i].sent && !SH.am[i].delivered) {
        if (am_missing++ < 4 && l < n) l += (size_t)snprintf(buf + l, n - l, "am %d (%d->%d tag %d len %d%s) sent, not delivered; ", i, SH.am[i].src, SH.am[i].dst, SH.am[i].tag, SH.am[i].len, SH.am[i].req_xfer >= 0 ? " request" : "");
    }
    for (int i = 0; i < SH.nxf; i++) if (SH.xf[i].issued && !(SH.xf[i].lcb && SH.xf[i].rcb)) {
        const ce_xfer_t *x = &SH.xf[i];
        if (xf_missing++ < 4 && l < n) l += (size_t)snprintf(buf + l, n - l, "%s %d (initiator %d partner %d, %zu bytes) issued, local completion %d remote completion %d; ", x->kind == CE_PUT ? "put" : "get", i, x->initiator, x->partner, x->sl.size, x->lcb, x->rcb);
    }
    if (l < n) snprintf(buf + l, n - l, "%d messages and %d transfers incomplete, %d MPI messages in flight", am_missing, xf_missing, simmpi_inflight());
}

static void tune(const hx_plan_t *p, sim_params_t *sp)
{
    sp->quantum_ns = 20;
    sp->max_steps = (uint64_t)hx_knob(p, "max_steps", 3000000);
}

static const hx_harness_t H = {
    .property = "C14", .name = "ce", .opnames = opnames, .nopnames = OP_N,
    .est_steps = 300000, .max_steps = 3000000, .gap_lo = 40, .gap_hi = 20000, .fork_per_run = 1,
    .gen = gen, .run = run, .init = init, .tune = tune, .describe_abort = describe_abort, .annotate = annotate,
    .probe_names = probe_names, .nprobes = PR_N,
};
int main(int argc, char **argv) { return hx_main(argc, argv, &H); }
