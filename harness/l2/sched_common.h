/* shared between the (rankified, instrumented) scheduler driver and the (plain) scheduler harness (C08, C09).
 *
 * Division of labour: the DRIVER owns everything that has a PaRSEC type (context, execution streams, fake
 * parsec_task_t objects, the calls into the installed scheduler module / scheduling.c).  The HARNESS owns
 * the plan, the ownership discipline and the oracle.  A simulated client thread of the driver repeatedly asks
 * the harness for its next request (schedh_next), performs it, and reports invoke / return / every selected
 * task through the callbacks below.  The harness is not instrumented, so each callback is atomic. */
#ifndef SCHED_COMMON_H
#define SCHED_COMMON_H
#include <stdint.h>

#define SCH_MAX_STREAMS 16
#define SCH_COMM_THR    SCH_MAX_STREAMS       /* client index of the communication-thread-style client */
#define SCH_MAX_THR     (SCH_MAX_STREAMS + 1)
#define SCH_MAX_TASKS   1536
#define SCH_MAX_RING    64
#define SCH_NCLASSES    4                     /* fake task classes, see sched_driver.c */
#define SCH_DRAINER     (-1)                  /* `thr` of the final, quiescent drain (run by the rank's main thread) */

enum {
    SCH_API_MODULE = 0,     /* parsec_current_scheduler->module.schedule(target es, ring, distance)          */
    SCH_API_SCHEDULE,       /* __parsec_schedule(target es, ring, distance)                                  */
    SCH_API_VP,             /* __parsec_schedule_vp(own es, rings[vp], distance)   (next_task retention)     */
    SCH_API_VP_NULL,        /* __parsec_schedule_vp(NULL, rings[vp], distance)     (es taken from the TLS)   */
    SCH_API_N
};
enum { SCH_REQ_END = 0, SCH_REQ_SCHEDULE, SCH_REQ_SELECT, SCH_REQ_FLUSH, SCH_REQ_PAUSE };

typedef struct sched_req {
    int kind;
    /* SCHEDULE */
    int api;
    int target;                 /* flat stream index the ring is handed to (MODULE / SCHEDULE) */
    int distance;
    int n;                      /* number of tasks, in ring order */
    int ids[SCH_MAX_RING];
    int prio[SCH_MAX_RING];
    int cls[SCH_MAX_RING];      /* fake task class */
    int din[SCH_MAX_RING];      /* fake input-data identity (sched_ltq groups consecutive tasks sharing an input) */
    int vp[SCH_MAX_RING];       /* VP / VP_NULL: which per-VP ring the task goes to */
    /* SELECT */
    int count;                  /* number of attempts */
    int runtime_select;         /* 1: the way scheduling.c does (es->next_task first); 0: module.select directly */
    /* PAUSE */
    long pause_ns;
} sched_req_t;

typedef struct sched_shared {
    /* configuration (harness -> driver) */
    int nstreams, nvp;          /* total execution streams, virtual processes (streams are split evenly) */
    int ntasks;                 /* fake tasks to allocate */
    int nclients;               /* client threads to start */
    int client_thr[SCH_MAX_THR];        /* their client index: 0..nstreams-1 or SCH_COMM_THR */
    int client_stream[SCH_MAX_THR];     /* flat stream each adopts (-1: comm-thread-style private stream) */
    int ndrain;                 /* final drain: streams visited per round, in this order */
    int drain_stream[SCH_MAX_STREAMS];
    int drain_flush;            /* 1: call __parsec_schedule_flush_private before draining a stream */
    int drain_runtime_select;   /* 1: drain the way scheduling.c selects (next_task first) */
    /* facts (driver -> harness) */
    int got_nvp, got_streams;
    int stream_vp[SCH_MAX_STREAMS];     /* vp_id of flat stream i */
    int stream_th[SCH_MAX_STREAMS];     /* th_id of flat stream i */
    int sysq_distance[SCH_MAX_STREAMS]; /* distance value select reports for the system queue (local-queue modules), else -1 */
    char sched_name[16];
    int keep_highest;           /* value of parsec_runtime_keep_highest_priority_task as the runtime sees it */
    int done;
} sched_shared_t;

typedef struct sched_rank_arg { sched_shared_t *sh; int rank; } sched_rank_arg_t;

/* harness callbacks (shared, uninstrumented) */
void schedh_ready(void);                                /* runtime initialised, facts filled in */
int  schedh_next(int thr, sched_req_t *req);            /* next request of client thr; returns 0 at the end of its program */
/* next_id: task sitting in the client's es->next_task at that moment (-1 none, -2 not one of ours) */
void schedh_invoke(int thr, const sched_req_t *req, int next_id);      /* immediately before the call into real code */
void schedh_return(int thr, const sched_req_t *req, int rc, int next_id);
void schedh_select_invoke(int thr, int stream);
/* id: index of the returned task, -1 for NULL, -2 for a pointer that is none of our tasks */
void schedh_selected(int thr, int stream, int id, int distance, int from_next_task);
int  schedh_drain_flush(int stream);                     /* final drain: call __parsec_schedule_flush_private on this stream now? */
int  schedh_failed(void);                                /* 1 once a violation has been recorded: stop, skip the teardown */
void schedh_event(int kind, long a, long b);            /* 99: parsec_init failed; 98: unexpected scheduler installed */
#endif
