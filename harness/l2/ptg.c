/* PTG harness (C01, C02, C16; later C05, C06, C13, C15): whole runtime + real ptgpp-generated code,
 * 1..P simulated ranks; the reference (instance set, dependency function) is generated from the same
 * abstract program as the JDF (gen/ptg/gen.py -> PTG_REF).
 * knob `prop` selects which property's oracle classes are reported. */
#define _GNU_SOURCE
#include "../hx.h"
#include "../../sim/mpi/simmpi.h"
#include "ptg_common.h"
#include "ptg_ref.h"
#include "parsec/parsec_config.h"
#include "parsec/runtime.h"
#include "parsec/remote_dep.h"
#include <pthread.h>
#include <stdlib.h>
#include <string.h>
#include <stdio.h>
#include <unistd.h>

extern int hx_rank_count;
extern void *(*hx_rank_mains[])(void *);

enum { OP_NEW, OP_ADD, OP_START, OP_CTXWAIT, OP_TPWAIT, OP_COMPOSE, OP_TEST, OP_FREE, OP_CHAIN, OP_N };
static const char *const opnames[] = {"new", "add", "start", "ctxwait", "tpwait", "compose", "test", "free", "chain"};
enum { PR_AGAIN, PR_REMOTE, PR_MULTIRANK, PR_STARTUP_CHUNK1, PR_INDEXARRAY, PR_OVERLAP2, PR_N };
static const char *const probe_names[] = {"body_returned_AGAIN", "task_ran_on_nonzero_rank", "multi_rank_run", "startup_chunk_is_1", "index_array_deps",
                                          "two_tasks_overlapped"};
static const char *const SCHEDS[] = {"lfq", "ap", "gd", "ip", "lhq", "ll", "llp", "ltq", "pbq", "rnd", "spq"};
#define NSCHED 11

#define MAXI 4096
#define MAXD 65536

typedef struct { int flow, kind, inst, pflow, tile; } dep_t;
typedef struct {
    int cls, P[PTG_MAX_PARAMS], aff, prio;
    int in0, nin, out0, nout;       /* ranges in DEPS */
} inst_t;

static inst_t INST[MAXI];
static int NINST;
static dep_t DEPS[MAXD];
static int NDEPS;
static ptg_shared_t SH;
static hx_result_t *RES;
static int PROP, NTP;
static const hx_plan_t *PLAN;

/* ---- instance lookup ---- */
static int find_inst(int cls, const int *P)
{
    for (int i = 0; i < NINST; i++) {
        if (INST[i].cls != cls) continue;
        int ok = 1;
        for (int k = 0; k < PTG_REF.classes[cls].nparams; k++) if (INST[i].P[k] != P[k]) ok = 0;
        if (ok) return i;
    }
    return -1;
}
static void count_cb(void *u, int cls, const int *P, int aff, int prio) { (void)cls; (void)P; (void)aff; (void)prio; ++*(int *)u; }
static void inst_cb(void *u, int cls, const int *P, int aff, int prio)
{
    (void)u;
    if (NINST >= MAXI) return;
    inst_t *n = &INST[NINST++];
    memset(n, 0, sizeof(*n));
    n->cls = cls; n->aff = aff; n->prio = prio;
    memcpy(n->P, P, sizeof(n->P));
}
static int CUR_DIR;
static const char *INVALID;     /* generator/program validation failure (exit 2, never a violation) */
static void dep_cb(void *u, int flow, int dir, int kind, int cls, int dflow, const int *P, int tile)
{
    (void)u;
    if (dir != CUR_DIR || NDEPS >= MAXD) return;
    dep_t *d = &DEPS[NDEPS++];
    d->flow = flow; d->kind = kind; d->pflow = dflow; d->tile = tile; d->inst = -1;
    if (kind == PTG_K_TASK) {
        d->inst = find_inst(cls, P);
        if (d->inst < 0) INVALID = "dependency names a task instance outside the parameter space";
    }
}
static const char *inst_name(int i, char *buf, size_t n)
{
    const ptg_class_t *c = &PTG_REF.classes[INST[i].cls];
    int o = snprintf(buf, n, "%s(", c->name);
    for (int k = 0; k < c->nparams; k++) o += snprintf(buf + o, n - o, "%s%d", k ? "," : "", INST[i].P[k]);
    snprintf(buf + o, n - o, ")");
    return buf;
}

static void build_reference(void)
{
    NINST = NDEPS = 0;
    INVALID = NULL;
    for (int c = 0; c < PTG_REF.nclasses; c++) PTG_REF.classes[c].enumerate(SH.G, inst_cb, NULL);
    for (int i = 0; i < NINST; i++) {
        const ptg_class_t *c = &PTG_REF.classes[INST[i].cls];
        CUR_DIR = 0; INST[i].in0 = NDEPS; c->deps(SH.G, INST[i].P, dep_cb, NULL); INST[i].nin = NDEPS - INST[i].in0;
        CUR_DIR = 1; INST[i].out0 = NDEPS; c->deps(SH.G, INST[i].P, dep_cb, NULL); INST[i].nout = NDEPS - INST[i].out0;
    }
    if (INVALID) return;
    /* validation: data flows have exactly one active input alternative; every output dependency is
     * mirrored by the destination's input dependency and vice versa */
    for (int i = 0; i < NINST && !INVALID; i++) {
        const ptg_class_t *c = &PTG_REF.classes[INST[i].cls];
        for (int f = 0; f < c->nflows; f++) {
            int n = 0;
            for (int k = 0; k < INST[i].nin; k++) if (DEPS[INST[i].in0 + k].flow == f) n++;
            if (c->kinds[f] != PTG_CTL && n != 1) { INVALID = "a data flow has zero or several active input dependencies"; }
        }
        for (int k = 0; k < INST[i].nout && !INVALID; k++) {
            dep_t *o = &DEPS[INST[i].out0 + k];
            if (o->kind != PTG_K_TASK) continue;
            int found = 0;
            inst_t *d = &INST[o->inst];
            for (int q = 0; q < d->nin; q++) { dep_t *in = &DEPS[d->in0 + q]; if (in->flow == o->pflow && in->kind == PTG_K_TASK && in->inst == i && in->pflow == o->flow) found++; }
            if (found != 1) INVALID = "an output dependency is not mirrored by exactly one input dependency of its destination";
        }
        for (int k = 0; k < INST[i].nin && !INVALID; k++) {
            dep_t *in = &DEPS[INST[i].in0 + k];
            if (in->kind != PTG_K_TASK) continue;
            int found = 0;
            inst_t *s = &INST[in->inst];
            for (int q = 0; q < s->nout; q++) { dep_t *o = &DEPS[s->out0 + q]; if (o->flow == in->pflow && o->kind == PTG_K_TASK && o->inst == i && o->pflow == in->flow) found++; }
            if (found != 1) INVALID = "an input dependency is not mirrored by exactly one output dependency of its source";
        }
    }
}

/* ---- values ---- */
static int64_t hash_out(int tp, int inst, int flow)
{
    uint64_t s = (uint64_t)(tp + 1) * 0x9E3779B97F4A7C15ULL ^ (uint64_t)(INST[inst].cls + 1) * 0xC2B2AE3D27D4EB4FULL ^ (uint64_t)(flow + 1) * 0x165667B19E3779F9ULL;
    for (int k = 0; k < PTG_MAX_PARAMS; k++) s = s * 31 + (uint64_t)(INST[inst].P[k] + 7);
    return (int64_t)(sim_splitmix(&s) & 0xffffffffffffULL);
}
/* value an instance holds on a data flow once it ran: what it wrote, or (READ) what it received.
 * returns 0 and *known = 0 when it cannot be known from the program alone (collection contents when
 * several taskpools share the collection) */
static int64_t value_of(int tp, int inst, int flow, int *known, int depth);
static int64_t expected_in(int tp, int inst, int flow, int *known, int depth)
{
    *known = 0;
    if (depth > 64) return 0;
    for (int k = 0; k < INST[inst].nin; k++) {
        dep_t *d = &DEPS[INST[inst].in0 + k];
        if (d->flow != flow) continue;
        if (d->kind == PTG_K_COLL) { if (NTP == 1) { *known = 1; return 1000 * (int64_t)(d->tile + 1); } return 0; }
        if (d->kind == PTG_K_TASK) return value_of(tp, d->inst, d->pflow, known, depth + 1);
        return 0;
    }
    return 0;
}
static int64_t value_of(int tp, int inst, int flow, int *known, int depth)
{
    int kind = PTG_REF.classes[INST[inst].cls].kinds[flow];
    if (kind == PTG_RW || kind == PTG_WRITE) { *known = 1; return hash_out(tp, inst, flow); }
    return expected_in(tp, inst, flow, known, depth);
}

/* ---- observation ---- */
typedef struct { uint64_t begin, end; int rank, count, again, again_left; } obs_t;
static obs_t OBS[PTG_MAX_TP][MAXI];
static int RUNNING;
static uint64_t cb_stamp[PTG_MAX_TP]; static int cb_count[PTG_MAX_TP];
static uint64_t act_begin[16][128], act_end[16][128];
static int tp_slot_is_ptg[PTG_MAX_TP];
static int tp_empty[PTG_MAX_TP];      /* taskpool created with every global = 0: no task instance at all (only if the program really is empty then) */
static int tp_epoch[PTG_MAX_TP], tp_member_of[PTG_MAX_TP], epoch_wait_action[16], NEPOCH;

static int want(int p) { return PROP == p; }
static int cb_count_rank[16][PTG_MAX_TP];
static int ut_delivered[16], ut_sent[16];                 /* user-trigger notifications per destination / source */
static unsigned short ACT[MAXI][16];                      /* activations received per (producer instance, destination rank) */
static int act_garbage;
static const char *inst_name(int i, char *buf, size_t n);


void ptgh_event(int rank, int kind, long a, long b)
{
    sim_hash_event(((uint64_t)rank << 56) ^ ((uint64_t)kind << 48) ^ (uint64_t)a ^ ((uint64_t)b << 24));
    if (kind == PE_INIT_FAILED) hx_fail(RES, "init-failed", "parsec_init returned NULL on rank %d", rank);
    if (kind == PE_ACTION_BEGIN && a < 128) act_begin[rank][a] = sim_stamp();
    if (kind == PE_ACTION_END && a < 128) act_end[rank][a] = sim_stamp();
    if (kind == PE_COMPLETE_CB && a >= 0 && a < PTG_MAX_TP && rank == 0) { cb_count[a]++; cb_stamp[a] = sim_stamp(); }
    if (kind == PE_COMPLETE_CB && a >= 0 && a < PTG_MAX_TP && rank >= 0 && rank < 16) {
        cb_count_rank[rank][a]++;
        if (want(11) && tp_slot_is_ptg[a]) {
            /* C11 safety: when ANY rank declares termination, no task of the taskpool is pending anywhere
             * and no application message is in flight */
            char nm[96];
            for (int i = 0; i < NINST && !RES->vclass; i++)
                if (!OBS[a][i].end) hx_fail(RES, "terminated-with-task-pending", "rank %d declared taskpool %d terminated while %s had not %s", rank, (int)a, inst_name(i, nm, sizeof(nm)), OBS[a][i].count ? "finished" : "run");
            int fl = 0;
            for (int t = 0; t < 64; t++) if (t != PARSEC_TERMDET_FOURCOUNTER_MSG_TAG && t != PARSEC_TERMDET_USER_TRIGGER_MSG_TAG) fl += simmpi_inflight_tag(-1, t);
            if (fl && !RES->vclass) hx_fail(RES, "terminated-with-message-in-flight", "rank %d declared taskpool %d terminated while %d application message(s) were still in flight", rank, (int)a, fl);
        }
    }
    if (getenv("VERIF_MPI_TRACE")) fprintf(stderr, "[ptg t=%llu] rank %d event %d a=%ld b=%ld\n", (unsigned long long)sim_now(), rank, kind, a, b);
}

int ptgh_body(int rank, int tp, int cls, const int *P, void **data)
{
    char nm[96];
    if (tp < 0 || tp >= PTG_MAX_TP) { hx_fail(RES, "garbage-task", "body called with taskpool id %d", tp); return 0; }
    int i = find_inst(cls, P);
    if (i < 0) {
        hx_fail(RES, "extra-instance", "class %s ran with parameters (%d,%d,%d,%d) that are not in its parameter space", PTG_REF.classes[cls].name, P[0],
                PTG_REF.classes[cls].nparams > 1 ? P[1] : 0, PTG_REF.classes[cls].nparams > 2 ? P[2] : 0, PTG_REF.classes[cls].nparams > 3 ? P[3] : 0);
        return 0;
    }
    obs_t *o = &OBS[tp][i];
    const ptg_class_t *c = &PTG_REF.classes[cls];
    if (o->again_left > 0) {           /* C16: defer */
        o->again_left--; o->again++;
        sim_probe(PR_AGAIN);
        sim_hash_event(0xA6A1 ^ ((uint64_t)i << 16) ^ ((uint64_t)tp << 40));
        return 1;
    }
    o->count++;
    o->rank = rank;
    o->begin = sim_stamp();
    if (rank) sim_probe(PR_REMOTE);
    if (RUNNING++) sim_probe(PR_OVERLAP2);
    sim_hash_event(0xB0D1 ^ ((uint64_t)i << 16) ^ ((uint64_t)tp << 40) ^ ((uint64_t)rank << 56));
    if (o->count > 1) hx_fail(RES, "task-ran-twice", "taskpool %d: %s body completed %d times", tp, inst_name(i, nm, sizeof(nm)), o->count);
    /* dependencies: every predecessor finished before we began; data flows carry the named data */
    for (int k = 0; k < INST[i].nin; k++) {
        dep_t *d = &DEPS[INST[i].in0 + k];
        if (d->kind == PTG_K_TASK) {
            obs_t *po = &OBS[tp][d->inst];
            if ((want(2) || want(5) || want(11) || want(13)) && !(po->end && po->end < o->begin)) {
                char n2[96];
                hx_fail(RES, "ran-before-predecessor", "taskpool %d: %s began (stamp %llu) before its predecessor %s on flow %s finished (%s)", tp, inst_name(i, nm, sizeof(nm)),
                        (unsigned long long)o->begin, inst_name(d->inst, n2, sizeof(n2)), c->fnames[d->flow], po->end ? "it ended later" : "it has not ended");
            }
        }
        if (c->kinds[d->flow] == PTG_CTL) continue;
        int64_t *p = data[d->flow];
        if (d->kind == PTG_K_NULL) {
            if ((want(2) || want(5) || want(11) || want(13)) && p != NULL) hx_fail(RES, "wrong-input", "taskpool %d: %s flow %s should be NULL", tp, inst_name(i, nm, sizeof(nm)), c->fnames[d->flow]);
            continue;
        }
        if (!p) { if (want(2) || want(5) || want(11) || want(13)) hx_fail(RES, "null-data", "taskpool %d: %s flow %s has a NULL data pointer", tp, inst_name(i, nm, sizeof(nm)), c->fnames[d->flow]); continue; }
        if (d->kind == PTG_K_NEW) continue;
        int known = 0;
        int64_t want_v = expected_in(tp, i, d->flow, &known, 0);
        if (known && (want(2) || want(5) || want(11) || want(13))) {
            for (int j = 0; j < SH.nelems; j++) if (p[j] != want_v + j) {
                hx_fail(RES, "wrong-input", "taskpool %d: %s flow %s element %d is %lld, the program names data with value %lld", tp, inst_name(i, nm, sizeof(nm)), c->fnames[d->flow], j,
                        (long long)p[j], (long long)(want_v + j));
                break;
            }
        }
    }
    long delay = hx_knob(PLAN, "body_delay", 300);
    if (delay) sim_delay((uint64_t)(delay + (hash_out(tp, i, 5) % (delay + 1)))); else sim_yield();
    for (int f = 0; f < c->nflows; f++) {
        if (c->kinds[f] != PTG_RW && c->kinds[f] != PTG_WRITE) continue;
        int64_t *p = data[f];
        if (!p) continue;
        int64_t v = hash_out(tp, i, f);
        for (int j = 0; j < SH.nelems; j++) p[j] = v + j;
    }
    RUNNING--;
    o->end = sim_stamp();
    return 0;
}

/* ---- plan ---- */
static long gval(const hx_plan_t *p, int gi)
{
    char k[8]; snprintf(k, sizeof(k), "G%d", gi);
    return hx_knob(p, k, 2);
}
static void plan_to_shared(const hx_plan_t *p)
{
    memset(&SH, 0, sizeof(SH));
    SH.nranks = (int)hx_knob(p, "nranks", 1);
    if (SH.nranks > hx_rank_count) SH.nranks = hx_rank_count;
    if (SH.nranks < 1) SH.nranks = 1;
    SH.nthreads = (int)hx_knob(p, "nthreads", 2);
    SH.nelems = (int)hx_knob(p, "nelems", 2);
    if (SH.nelems > PTG_MAX_ELEMS) SH.nelems = PTG_MAX_ELEMS;
    for (int g = 0; g < 4; g++) { SH.G[g] = (int)gval(p, g); if (SH.G[g] < 1) SH.G[g] = 1; }
    /* token discipline for API histories: only legal call orders are kept */
    int exists[PTG_MAX_TP] = {0}, added[PTG_MAX_TP] = {0}, composed[PTG_MAX_TP] = {0}, chained_from[PTG_MAX_TP] = {0}, by_callback[PTG_MAX_TP] = {0};
    int started = 0, n = 0;
    NTP = 0;
    memset(tp_slot_is_ptg, 0, sizeof(tp_slot_is_ptg));
    memset(tp_empty, 0, sizeof(tp_empty));
    int empty_ok = 0;
    { static const int GZ[4] = {0, 0, 0, 0}; int cnt = 0; for (int c = 0; c < PTG_REF.nclasses; c++) PTG_REF.classes[c].enumerate(GZ, count_cb, &cnt); empty_ok = cnt == 0; }
    memset(tp_epoch, -1, sizeof(tp_epoch));
    memset(tp_member_of, -1, sizeof(tp_member_of));
    memset(epoch_wait_action, -1, sizeof(epoch_wait_action));
    NEPOCH = 0;
    for (int i = 0; i < p->nops && n < 120; i++) {
        const hx_op_t *o = &p->ops[i];
        int a = (int)(o->a % PTG_MAX_TP);
        ptg_action_t act = {0, a, (int)o->b, (int)o->c};
        switch (o->op) {
        case OP_NEW: if (exists[a]) continue; exists[a] = 1; tp_slot_is_ptg[a] = 1; NTP++; act.kind = PA_NEW; act.b = (o->b % 3 == 2) ? 2 : (empty_ok && (o->b % 3 == 1)); act.c = 0; tp_empty[a] = act.b; break;
        case OP_ADD: if (!exists[a] || added[a] || composed[a]) continue; added[a] = 1; tp_epoch[a] = NEPOCH; act.kind = PA_ADD; break;
        case OP_CHAIN: {
            int b = (int)(o->b % PTG_MAX_TP);
            if (!exists[a] || !exists[b] || a == b || added[a] == 0 || added[b] || composed[b] || chained_from[a] || !tp_slot_is_ptg[a] || !tp_slot_is_ptg[b] || started || tp_empty[a] == 2 /* it completed inside its add: too late to chain from it */) continue;
            added[b] = 1; by_callback[b] = 1; chained_from[a] = 1; tp_epoch[b] = NEPOCH; act.kind = PA_CHAIN; act.b = b;
            break;
        }
        case OP_START: if (started) continue; started = 1; act.kind = PA_START; break;
        case OP_CTXWAIT: if (!started) continue; started = 0; act.kind = PA_CTXWAIT; if (NEPOCH < 16) epoch_wait_action[NEPOCH] = n; NEPOCH++; break;
        case OP_TEST: if (!started) continue; act.kind = PA_TEST; break;
        case OP_TPWAIT: if (!exists[a] || !added[a] || !started || by_callback[a]) continue;   /* "the taskpool must be ready and registered with a started context": one that a callback will add later is not */ act.kind = PA_TPWAIT; break;
        case OP_COMPOSE: {
            int b = (int)(o->b % PTG_MAX_TP), c = (int)o->c;
            if (c < 1 || b + c > PTG_MAX_TP || exists[a]) continue;
            int ok = 1;
            for (int k = 0; k < c; k++) if (!exists[b + k] || added[b + k] || composed[b + k] || !tp_slot_is_ptg[b + k]) ok = 0;
            if (!ok) continue;
            for (int k = 0; k < c; k++) { composed[b + k] = 1; tp_member_of[b + k] = a; }
            exists[a] = 1; act.kind = PA_COMPOSE; act.b = b; act.c = c;
            break;
        }
        case OP_FREE: continue;     /* frees are appended below */
        default: continue;
        }
        SH.actions[n++] = act;
    }
    /* close the history: everything that exists gets added (unless part of a compound), the context is
     * started and waited, then everything is freed */
    int pending = started;
    for (int a = 0; a < PTG_MAX_TP; a++) if (exists[a] && added[a] && tp_epoch[a] >= NEPOCH) pending = 1;   /* added but not waited yet */
    for (int a = 0; a < PTG_MAX_TP; a++) if (exists[a] && !added[a] && !composed[a]) { SH.actions[n++] = (ptg_action_t){PA_ADD, a, 0, 0}; added[a] = 1; tp_epoch[a] = NEPOCH; pending = 1; }
    if (pending) {
        if (!started) SH.actions[n++] = (ptg_action_t){PA_START, 0, 0, 0};
        if (NEPOCH < 16) epoch_wait_action[NEPOCH] = n;
        NEPOCH++;
        SH.actions[n++] = (ptg_action_t){PA_CTXWAIT, 0, 0, 0};
    }
    /* members of a compound belong to the epoch of the compound */
    for (int a = 0; a < PTG_MAX_TP; a++) if (tp_member_of[a] >= 0) tp_epoch[a] = tp_epoch[tp_member_of[a]];
    for (int a = 0; a < PTG_MAX_TP; a++) if (exists[a]) SH.actions[n++] = (ptg_action_t){PA_FREE, a, 0, 0};
    SH.nactions = n;
}

static void gen(hx_plan_t *p, hx_rng_t *r)
{
    hx_set_knob(p, "prop", 1);
    int P = hx_chance(r, 50) ? 1 : (int)hx_range(r, 2, hx_rank_count > 1 ? hx_rank_count : 1);
    if (P > hx_rank_count) P = hx_rank_count;
    hx_set_knob(p, "nranks", P);
    hx_set_knob(p, "nthreads", hx_chance(r, 70) ? hx_range(r, 1, 4) : hx_range(r, 5, 8));
    hx_set_knob(p, "nelems", hx_range(r, 1, 4));
    hx_set_knob(p, "sched", hx_below(r, NSCHED));
    for (int g = 0; g < PTG_REF.nglobals; g++) {
        char k[8]; snprintf(k, sizeof(k), "G%d", g);
        const char *nm = PTG_REF.gnames[g];
        long v = !strcmp(nm, "N") ? hx_range(r, 1, 6) : !strcmp(nm, "M") ? hx_range(r, 1, 4) : !strcmp(nm, "R") ? hx_range(r, 0, 15) : hx_range(r, 1, 3);
        hx_set_knob(p, k, v);
    }
    static const int su[] = {0, 0, 1, 2, 7};
    hx_set_knob(p, "startup_iter", su[hx_below(r, 5)]);
    hx_set_knob(p, "startup_chunk", su[hx_below(r, 5)]);
    hx_set_knob(p, "keep_highest", hx_chance(r, 30));
    hx_set_knob(p, "again_pct", 0);
    hx_set_knob(p, "body_delay", hx_chance(r, 50) ? hx_range(r, 0, 500) : hx_range(r, 500, 60000));
    hx_set_knob(p, "net_lat", hx_chance(r, 50) ? 1000 : hx_range(r, 100, 200000));
    hx_set_knob(p, "net_jit", hx_chance(r, 30) ? 0 : hx_range(r, 100, 400000));
    hx_set_knob(p, "net_heavy", hx_chance(r, 30) ? hx_range(r, 1, 20) : 0);
    static const long eag[] = {0, 64, 65536, 1 << 30};
    hx_set_knob(p, "net_eager", eag[hx_below(r, 4)]);
    hx_set_knob(p, "net_partial", hx_chance(r, 40) ? hx_range(r, 5, 60) : 0);
    hx_set_knob(p, "net_lag", hx_chance(r, 40) ? hx_range(r, 5, 40) : 0);
    hx_set_knob(p, "net_late", hx_chance(r, 30) ? hx_range(r, 5, 60) : 0);
    static const int bc[] = {-1, 0, 1, 2};
    hx_set_knob(p, "coll_bcast", bc[hx_below(r, 4)]);
    hx_set_knob(p, "short_limit", hx_chance(r, 50) ? -1 : 0);
    hx_set_knob(p, "aggregate", hx_chance(r, 40) ? -1 : hx_chance(r, 50));
    hx_set_knob(p, "thread_multiple", hx_chance(r, 50) ? -1 : hx_chance(r, 50));
    hx_set_knob(p, "mpi_multiple", hx_chance(r, 50));
    /* histories: `--knob hist=` selects the family (0 single taskpool, 15 composition, 6 API history) */
    long hist = hx_cli_knob("hist", 0);
    if (hist == 15) {
        int k = hx_chance(r, 60) ? (int)hx_range(r, 1, 6) : (int)hx_range(r, 7, 20);
        int empties = hx_chance(r, 45);                 /* some members without any task: they complete inside parsec_context_add_taskpool */
        for (int i = 0; i < k; i++) hx_add_op(p, 0, OP_NEW, i, empties && hx_chance(r, 35) ? 1 + hx_chance(r, 50) : 0, 0);
        hx_add_op(p, 0, OP_COMPOSE, k, 0, k);
        int start_first = hx_chance(r, 50);             /* the compound is added to an already started context */
        if (start_first) hx_add_op(p, 0, OP_START, 0, 0, 0);
        hx_add_op(p, 0, OP_ADD, k, 0, 0);
        if (hx_chance(r, 30)) { hx_add_op(p, 0, OP_NEW, k + 1, 0, 0); hx_add_op(p, 0, OP_ADD, k + 1, 0, 0); }   /* an independent taskpool alongside */
        if (!start_first) hx_add_op(p, 0, OP_START, 0, 0, 0);
        hx_add_op(p, 0, OP_CTXWAIT, 0, 0, 0);
    } else if (hist == 6) {
        int slot = 0, epochs = (int)hx_range(r, 1, 4);
        for (int e = 0; e < epochs && slot < PTG_MAX_TP - 4; e++) {
            int n = (int)hx_range(r, 1, 3), first = slot;
            for (int i = 0; i < n; i++) hx_add_op(p, 0, OP_NEW, slot++, hx_chance(r, 15) ? 1 + hx_chance(r, 50) : 0, 0);      /* b = 1: a PTG taskpool without any task; 2: a map operator without tiles */
            int pre = (int)hx_below(r, n + 1);              /* how many are added before start */
            int chained = n >= 2 && hx_chance(r, 35);       /* last one is added by the completion callback of the first */
            for (int i = 0; i < pre; i++) if (!(chained && i == n - 1)) hx_add_op(p, 0, OP_ADD, first + i, 0, 0);
            if (chained) hx_add_op(p, 0, OP_CHAIN, first, first + n - 1, 0);
            hx_add_op(p, 0, OP_START, 0, 0, 0);
            for (int i = pre; i < n; i++) if (!(chained && i == n - 1)) { if (hx_chance(r, 30)) hx_add_op(p, 0, OP_TEST, 0, 0, 0); hx_add_op(p, 0, OP_ADD, first + i, 0, 0); }
            if (hx_chance(r, 40)) hx_add_op(p, 0, OP_TPWAIT, first + hx_below(r, n), 0, 0);
            if (hx_chance(r, 30)) hx_add_op(p, 0, OP_TEST, 0, 0, 0);
            hx_add_op(p, 0, OP_CTXWAIT, 0, 0, 0);
        }
    } else {
        hx_add_op(p, 0, OP_NEW, 0, 0, 0);
    }
}

static void setenv_int(const char *k, long v) { char b[32]; snprintf(b, sizeof(b), "%ld", v); setenv(k, b, 1); }
static void knob_env(const hx_plan_t *p, const char *knob, const char *env, long unset_if)
{
    long v = hx_knob(p, knob, unset_if);
    if (v == unset_if) unsetenv(env); else setenv_int(env, v);
}

static void init(void)
{
    setenv("HWLOC_SYNTHETIC", "pack:1 core:16 pu:1", 1);
    setenv("HWLOC_THISSYSTEM", "0", 1);
    char tmpl[] = "/tmp/verif_home_XXXXXX";
    char *d = hx_scratch_dir(tmpl);
    if (d) setenv("HOME", d, 1);
    extern char **environ;
    for (char **e = environ; *e;) {
        if (!strncmp(*e, "PARSEC_MCA_", 11)) { char nm[128]; snprintf(nm, sizeof(nm), "%.*s", (int)(strchr(*e, '=') - *e), *e); unsetenv(nm); e = environ; }
        else e++;
    }
}

/* observation tap on the simulated network (world stopped) */
static void net_tap(int ev, int src, int dst, int comm_id, int tag, const void *data, size_t nbytes, uint64_t seq)
{
    (void)comm_id; (void)seq;
    if (tag == PARSEC_TERMDET_USER_TRIGGER_MSG_TAG) {
        if (ev == SIMMPI_EV_DELIVER && dst >= 0 && dst < 16) ut_delivered[dst]++;
        if (ev == SIMMPI_EV_SEND && src >= 0 && src < 16) ut_sent[src]++;
    }
    if (tag == PARSEC_CE_REMOTE_DEP_ACTIVATE_TAG && ev == SIMMPI_EV_DELIVER && data && dst >= 0 && dst < 16) {
        /* a sequence of [remote_dep_wire_activate_t][length bytes of short data] */
        size_t pos = 0;
        while (pos + sizeof(remote_dep_wire_activate_t) <= nbytes) {
            remote_dep_wire_activate_t h;
            memcpy(&h, (const char *)data + pos, sizeof(h));
            pos += sizeof(h) + h.length;
            int cls = h.task_class_id;
            if (cls < 0 || cls >= PTG_REF.nclasses) { act_garbage++; break; }
            int P[PTG_MAX_PARAMS] = {0};
            for (int k = 0; k < PTG_REF.classes[cls].nparams; k++) P[k] = h.locals[PTG_REF.classes[cls].param_local_idx[k]].value;
            int i = find_inst(cls, P);
            if (i < 0) { act_garbage++; continue; }
            ACT[i][dst]++;
            if (getenv("VERIF_MPI_TRACE")) { char nm2[96]; fprintf(stderr, "[ptg t=%llu] ACTIVATION %d->%d of %s mask=0x%lx root=%u len=%u\n", (unsigned long long)sim_now(), src, dst, inst_name(i, nm2, sizeof(nm2)), (unsigned long)h.output_mask, h.root, h.length); }
        }
    }
}

static void *rank_tramp(void *a)
{
    ptg_rank_arg_t *ra = a;
    sim_set_rank(ra->rank);
    return hx_rank_mains[ra->rank](a);
}

static void run(const hx_plan_t *p, hx_result_t *res)
{
    RES = res;
    PLAN = p;
    PROP = (int)hx_knob(p, "prop", 1);
    plan_to_shared(p);
    build_reference();
    if (INVALID) { fprintf(stderr, "[ptg] INVALID PROGRAM %s: %s\n", PTG_REF.name, INVALID); fflush(stderr); _exit(2); }
    if (getenv("VERIF_DUMP_SHARED")) {   /* for tools/realrun: run the same plan on the real runtime */
        FILE *f = fopen(getenv("VERIF_DUMP_SHARED"), "wb");
        if (f) { fwrite(&SH, sizeof(SH), 1, f); fclose(f); }
    }
    memset(OBS, 0, sizeof(OBS));
    memset(cb_count, 0, sizeof(cb_count));
    memset(cb_stamp, 0, sizeof(cb_stamp));
    memset(act_begin, 0, sizeof(act_begin));
    memset(act_end, 0, sizeof(act_end));
    RUNNING = 0;
    long again = hx_knob(p, "again_pct", 0);
    for (int t = 0; t < PTG_MAX_TP; t++) for (int i = 0; i < NINST; i++)
        if (again && (hash_out(t, i, 3) % 100) < again) OBS[t][i].again_left = 1 + (int)(hash_out(t, i, 4) % 5);
    setenv("PARSEC_MCA_mca_sched", SCHEDS[hx_knob(p, "sched", 0) % NSCHED], 1);
    knob_env(p, "startup_iter", "PARSEC_MCA_task_startup_iter", 0);
    knob_env(p, "startup_chunk", "PARSEC_MCA_task_startup_chunk", 0);
    if (hx_knob(p, "startup_chunk", 0) == 1) sim_probe(PR_STARTUP_CHUNK1);
    knob_env(p, "keep_highest", "PARSEC_MCA_runtime_keep_highest_priority_task", 0);
    knob_env(p, "coll_bcast", "PARSEC_MCA_runtime_comm_coll_bcast", -1);
    knob_env(p, "short_limit", "PARSEC_MCA_runtime_comm_short_limit", -1);
    knob_env(p, "aggregate", "PARSEC_MCA_runtime_comm_aggregate", -1);
    knob_env(p, "thread_multiple", "PARSEC_MCA_runtime_comm_thread_multiple", -1);
    if (SH.nranks > 1) sim_probe(PR_MULTIRANK);
#ifdef PTG_INDEX_ARRAY
    sim_probe(PR_INDEXARRAY);
#endif
    simmpi_cfg_t cfg;
    memset(&cfg, 0, sizeof(cfg));
    cfg.lat_base_ns = (uint64_t)hx_knob(p, "net_lat", 1000);
    cfg.lat_jitter_ns = (uint64_t)hx_knob(p, "net_jit", 1000);
    cfg.heavy_tail_pct = (int)hx_knob(p, "net_heavy", 0);
    cfg.eager_limit = hx_knob(p, "net_eager", 65536);
    cfg.testsome_partial_pct = (int)hx_knob(p, "net_partial", 0);
    cfg.testsome_lag_pct = (int)hx_knob(p, "net_lag", 0);
    cfg.testsome_lag_max = 3;
    cfg.late_send_pct = (int)hx_knob(p, "net_late", 0);
    cfg.thread_level = hx_knob(p, "mpi_multiple", 0) ? MPI_THREAD_MULTIPLE : 0;      /* the library grants MPI_THREAD_MULTIPLE although the driver asks for SERIALIZED: PaRSEC then goes multi-threaded on MPI */
    simmpi_reset(SH.nranks, hx_current_seed(), &cfg);
    memset(cb_count_rank, 0, sizeof(cb_count_rank));
    memset(ut_delivered, 0, sizeof(ut_delivered));
    memset(ut_sent, 0, sizeof(ut_sent));
    memset(ACT, 0, sizeof(ACT));
    act_garbage = 0;
    simmpi_set_tap(net_tap);
    pthread_t pt[16];
    ptg_rank_arg_t ra[16];
    for (int k = 0; k < SH.nranks; k++) { ra[k].sh = &SH; ra[k].rank = k; pthread_create(&pt[k], NULL, rank_tramp, &ra[k]); }
    for (int k = 0; k < SH.nranks; k++) pthread_join(pt[k], NULL);
    /* ---- end-of-run oracles ---- */
    char nm[96];
    for (int t = 0; t < PTG_MAX_TP && !res->vclass; t++) {
        if (!tp_slot_is_ptg[t]) continue;
        for (int i = 0; i < NINST && !res->vclass; i++) {
            obs_t *o = &OBS[t][i];
            if (tp_empty[t]) { if (o->count) hx_fail(res, "garbage-task", "taskpool %d was created empty (all globals 0) but %s ran", t, inst_name(i, nm, sizeof(nm))); continue; }
            if (o->count != 1) hx_fail(res, o->count ? "task-ran-twice" : "task-lost", "taskpool %d: %s ran %d times (instance set of the program has it once)", t, inst_name(i, nm, sizeof(nm)), o->count);
            else if ((want(1) || want(5)) && o->rank != INST[i].aff % SH.nranks)
                hx_fail(res, "wrong-rank", "taskpool %d: %s ran on rank %d, its affinity A(%d) lives on rank %d", t, inst_name(i, nm, sizeof(nm)), o->rank, INST[i].aff, INST[i].aff % SH.nranks);
            else if (want(16) && o->again_left) hx_fail(res, "deferred-task-lost", "taskpool %d: %s still owes %d deferrals", t, inst_name(i, nm, sizeof(nm)), o->again_left);
            hx_hash(res, ((uint64_t)i << 32) ^ (uint64_t)o->rank ^ (o->begin << 8) ^ ((uint64_t)t << 56));
        }
    }
    if ((want(2) || want(5) || want(11) || want(13)) && NTP == 1 && !res->vclass) {
        /* final collection contents for tiles with exactly one write-back dependency */
        int wb_inst[PTG_NTILES], wb_flow[PTG_NTILES], wb_n[PTG_NTILES];
        memset(wb_n, 0, sizeof(wb_n));
        for (int i = 0; i < NINST; i++) for (int k = 0; k < INST[i].nout; k++) {
            dep_t *d = &DEPS[INST[i].out0 + k];
            if (d->kind == PTG_K_COLL && d->tile >= 0 && d->tile < PTG_NTILES) { wb_n[d->tile]++; wb_inst[d->tile] = i; wb_flow[d->tile] = d->flow; }
        }
        for (int t = 0; t < PTG_NTILES && !res->vclass; t++) {
            if (wb_n[t] != 1 || !SH.final_valid[t]) continue;
            int known = 0;
            int64_t v = value_of(0, wb_inst[t], wb_flow[t], &known, 0);
            if (!known) continue;
            for (int j = 0; j < SH.nelems; j++) if (SH.final_[t][j] != v + j) {
                hx_fail(res, "wrong-final", "A(%d) element %d is %lld at the end; %s writes back %lld", t, j, (long long)SH.final_[t][j], inst_name(wb_inst[t], nm, sizeof(nm)), (long long)(v + j));
                break;
            }
        }
    }
    if (want(11) && !res->vclass) {
        for (int t = 0; t < PTG_MAX_TP && !res->vclass; t++) if (tp_slot_is_ptg[t] && tp_member_of[t] < 0)
            for (int r = 0; r < SH.nranks && !res->vclass; r++)
                if (cb_count_rank[r][t] != 1) hx_fail(res, "termination-count", "rank %d detected the termination of taskpool %d %d times", r, t, cb_count_rank[r][t]);
    }
    if (want(12) && !res->vclass) {
        /* C12: the user trigger reaches every non-root rank exactly once and the root never; every rank terminates once */
        int root = (SH.G[1] % PTG_NTILES) % SH.nranks;      /* program utt: FIN runs where A(R) lives */
        for (int r = 0; r < SH.nranks && !res->vclass; r++) {
            int want_n = r == root ? 0 : 1;
            if (ut_delivered[r] != want_n) hx_fail(res, "trigger-delivery-count", "rank %d received %d termination notifications (root is rank %d of %d): expected %d", r, ut_delivered[r], root, SH.nranks, want_n);
            else if (cb_count_rank[r][0] != 1) hx_fail(res, "termination-count", "rank %d terminated the taskpool %d times", r, cb_count_rank[r][0]);
        }
    }
    if (want(13) && !res->vclass && NTP == 1) {
        /* C13: per (producer instance, destination rank) exactly one activation iff a successor lives there */
        if (act_garbage) hx_fail(res, "garbage-activation", "%d activation headers did not decode to a task instance of the program", act_garbage);
        for (int i = 0; i < NINST && !res->vclass; i++) {
            int need[16] = {0};
            int me = INST[i].aff % SH.nranks;
            for (int k = 0; k < INST[i].nout; k++) { dep_t *d = &DEPS[INST[i].out0 + k]; if (d->kind == PTG_K_TASK) { int r = INST[d->inst].aff % SH.nranks; if (r != me) need[r] = 1; } }
            for (int r = 0; r < SH.nranks && !res->vclass; r++)
                if (ACT[i][r] != need[r])
                    hx_fail(res, ACT[i][r] > need[r] ? "duplicate-activation" : "missing-activation", "rank %d received %d activation(s) of %s (which ran on rank %d); its successors on that rank call for %d",
                            r, ACT[i][r], inst_name(i, nm, sizeof(nm)), me, need[r]);
        }
    }
    if ((want(15) || want(6)) && !res->vclass) {
        uint64_t tmin[PTG_MAX_TP], tmax[PTG_MAX_TP];
        for (int t = 0; t < PTG_MAX_TP; t++) { tmin[t] = UINT64_MAX; tmax[t] = 0; if (tp_slot_is_ptg[t] && !tp_empty[t]) for (int i = 0; i < NINST; i++) { if (OBS[t][i].begin < tmin[t]) tmin[t] = OBS[t][i].begin; if (OBS[t][i].end > tmax[t]) tmax[t] = OBS[t][i].end; } }
        for (int ai = 0; ai < SH.nactions && !res->vclass; ai++) {
            ptg_action_t *a = &SH.actions[ai];
            if (a->kind == PA_COMPOSE && want(15)) {
                /* C15: members run strictly one after another; the compound's callback fires once, after the last */
                for (int k = 0, last = -1; k < a->c && !res->vclass; k++) {
                    if (tp_empty[a->b + k]) continue;           /* an empty member has no task to order */
                    if (last >= 0 && NINST && !(tmax[a->b + last] < tmin[a->b + k]))
                        hx_fail(res, "composed-overlap", "composed taskpool %d began (first task at stamp %llu) before its predecessor %d finished (last task ended at %llu)", a->b + k,
                                (unsigned long long)tmin[a->b + k], a->b + last, (unsigned long long)tmax[a->b + last]);
                    last = k;
                }
                int cbslot = a->a;      /* the callback is registered under the slot that gets added */
                if (!res->vclass && cb_count[cbslot] != 1) hx_fail(res, "callback-count", "completion callback of the compound %d ran %d times", a->a, cb_count[cbslot]);
                else if (!res->vclass && NINST) for (int k = 0; k < a->c && !res->vclass; k++) if (cb_stamp[cbslot] < tmax[a->b + k]) hx_fail(res, "callback-early", "completion callback of the compound %d ran before the last task of its last member ended", a->a);
            }
            if (a->kind == PA_TPWAIT && want(6) && tp_slot_is_ptg[a->a]) {
                if (NINST && !(tmax[a->a] < act_end[0][ai]))
                    hx_fail(res, "wait-returned-early", "parsec_taskpool_wait(%d) returned at stamp %llu but a task of it ended at %llu", a->a, (unsigned long long)act_end[0][ai], (unsigned long long)tmax[a->a]);
                else if (SH.nranks == 1 && tp_member_of[a->a] < 0 && cb_count[a->a] == 1 && !(cb_stamp[a->a] < act_end[0][ai]))
                    hx_fail(res, "wait-returned-early", "parsec_taskpool_wait(%d) returned at stamp %llu, before the completion callback of the taskpool ran (stamp %llu)", a->a,
                            (unsigned long long)act_end[0][ai], (unsigned long long)cb_stamp[a->a]);
            }
        }
        for (int e = 0; e < NEPOCH && e < 16 && want(6) && !res->vclass; e++) {
            int ai = epoch_wait_action[e];
            if (ai < 0) continue;
            for (int t = 0; t < PTG_MAX_TP && !res->vclass; t++) {
                if (!tp_slot_is_ptg[t] || tp_epoch[t] != e) continue;
                if (NINST && !(tmax[t] < act_end[0][ai]))
                    hx_fail(res, "wait-returned-early", "parsec_context_wait of epoch %d returned at stamp %llu but taskpool %d had a task ending at %llu", e, (unsigned long long)act_end[0][ai], t, (unsigned long long)tmax[t]);
                else if (NINST && tmin[t] < act_begin[0][0]) hx_fail(res, "garbage-task", "taskpool %d ran before the program started", t);
                else if (tp_member_of[t] < 0 && cb_count[t] != 1) hx_fail(res, "callback-count", "completion callback of taskpool %d (epoch %d) ran %d times", t, e, cb_count[t]);
                else if (tp_member_of[t] < 0 && NINST && !(cb_stamp[t] > tmax[t])) hx_fail(res, "callback-early", "completion callback of taskpool %d ran before its last task ended", t);
                else if (tp_member_of[t] < 0 && !(cb_stamp[t] < act_end[0][ai])) hx_fail(res, "wait-returned-early", "parsec_context_wait of epoch %d returned before the completion callback of taskpool %d ran", e, t);
            }
        }
    }
    for (int k = 0; k < SH.nranks && !res->vclass; k++) if (!SH.rank_done[k]) hx_fail(res, "rank-not-finished", "rank %d did not reach the end of its program", k);
}

static void annotate(const hx_plan_t *p, char *buf, size_t n)
{
    long nr = hx_knob(p, "nranks", 1);
    if (nr > hx_rank_count) nr = hx_rank_count;
    snprintf(buf, n, "[program=%s%s sched=%s threads=%ld ranks=%ld bcast=%ld]", PTG_REF.name,
#ifdef PTG_INDEX_ARRAY
             "/index-array",
#else
             "/hash-table",
#endif
             SCHEDS[hx_knob(p, "sched", 0) % NSCHED], hx_knob(p, "nthreads", 2), nr, hx_knob(p, "coll_bcast", -1));
}
static void describe_abort(char *buf, size_t n)
{
    int done = 0, total = 0;
    for (int t = 0; t < PTG_MAX_TP; t++) if (tp_slot_is_ptg[t]) for (int i = 0; i < NINST; i++) { total++; if (OBS[t][i].end) done++; }
    int o = snprintf(buf, n, "%d of %d task instances done", done, total);
    /* name the first instance that never ran although all its predecessors finished (a lost release) */
    char nm[96];
    for (int t = 0; t < PTG_MAX_TP && o < (int)n - 100; t++) if (tp_slot_is_ptg[t]) for (int i = 0; i < NINST; i++) {
        if (OBS[t][i].count || OBS[t][i].again) continue;
        int ready = 1;
        for (int k = 0; k < INST[i].nin; k++) { dep_t *d = &DEPS[INST[i].in0 + k]; if (d->kind == PTG_K_TASK && !OBS[t][d->inst].end) ready = 0; }
        if (ready) { snprintf(buf + o, n - o, "; %s (affinity rank %d) never ran although every predecessor finished", inst_name(i, nm, sizeof(nm)), INST[i].aff % (SH.nranks ? SH.nranks : 1)); return; }
    }
}
static void tune(const hx_plan_t *p, sim_params_t *sp)
{
    sp->quantum_ns = 20;
    sp->max_steps = (uint64_t)hx_knob(p, "max_steps", 100000000);
}

static const hx_harness_t H = {
    .property = "C01", .name = "ptg", .opnames = opnames, .nopnames = OP_N,
    .est_steps = 2500000, .max_steps = 100000000, .gap_lo = 150, .gap_hi = 60000, .fork_per_run = 1,
    .gen = gen, .run = run, .init = init, .tune = tune, .describe_abort = describe_abort, .annotate = annotate,
    .probe_names = probe_names, .nprobes = PR_N,
};
int main(int argc, char **argv) { return hx_main(argc, argv, &H); }
