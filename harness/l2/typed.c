/* C18 harness: typed PTG flows deliver correctly converted copies.
 *
 * Whole runtime + real ptgpp-generated code of the programs of gen/typed/gen.py on 1..4 simulated ranks.
 * The programs are table driven: the plan decides which consumer classes exist, for which tiles and on
 * which rank (see gen/typed/gen.py); the model below is derived from the same class table (typed_ref.c).
 *
 * Oracle (exactly what the property states, nothing more):
 *  (a) at the entry of a consumer body the elements SELECTED by the datatype in effect on its dependency
 *      (local form [type] when producer and consumer share a rank, remote form [type_remote] otherwise;
 *      full tile / lower / upper triangle, diagonal as the datatype says) equal the producer's data, as far
 *      as the producer's copy defines them (a forwarded triangle only defines its triangle).  Elements
 *      outside the selection are unspecified and never compared;
 *  (b) the conversion alters nobody else's data: consumers that write (scribble recognisable values over
 *      their whole private N x N copy) are never seen by siblings (entry check + the selected elements must
 *      not change while a reader's body runs), by the late reader R(k) of the original, nor in the
 *      collection tile at the end;
 *  (c) the same with consumers on other ranks.
 *
 * Legal-client discipline (DESIGN 3.6) -- a consumer only writes where PTG promises it a copy of its own:
 *  * consumers of one producer flow instance fall into copy classes: local consumers by the local type in
 *    effect (no type = the producer's own copy; one converted copy per distinct type is SHARED by design, see
 *    tests/collections/reshape/input_dep_single_copy_reshape.jdf), remote consumers by (rank, remote shape)
 *    (one received copy per rank and datatype).  A consumer writes only if it is alone in its class, the
 *    class is not the producer's own copy, its type cannot be the datatype of the producer's copy (same
 *    datatype = no conversion = the producer's copy), and -- remote -- all remote consumers of that flow
 *    instance live on ONE rank (a received copy may be forwarded down a broadcast tree by the runtime);
 *  * documented unsupported case (tests/collections/reshape/testing_remote_multiple_outs_same_pred_flow.c:
 *    "doesn't work with runtime_comm_short_limit != 0": one output flow sending several datatypes to
 *    successors on the same remote process inside short messages -- the receiver runs iterate_successors
 *    once, so one successor would see the other's data): whenever a plan has such a flow instance, short
 *    messages are switched off for the run (gen also produces conflict-free plans with short messages on).
 *
 * Plan shapes on which the UNCHANGED runtime fails (each reproduced on the real runtime with tools/realrun/build_typed.sh,
 * plans under findings/ptg_typed_*): they are recognised from the plan (analyse()), tagged in the annotation of every
 * violation ("shapes=+mixed-local-types" ...) and only generated on request (--knob shapes=<mask>, then in half of the
 * plans); otherwise the plan is normalised away from them (consumers switched off / broadcast topology replaced), also when
 * the minimiser edits a plan, so that a violation of an untagged plan is always news:
 *   1 mixed-local-types: one flow instance whose consumers on the producer's rank sit on output dependencies with differing
 *     [type = ..] (none counts): ptgpp's iterate_successors never resets data.data_future between the dependency groups and
 *     parsec_create_reshape_promise reuses the previous group's future -> the consumer's copy is packed/unpacked with the
 *     other group's datatypes (wrong elements); if a later group's type equals the datatype of the producer's copy, the
 *     fulfilled-promise branch triggers the earlier unfulfilled future with es == NULL -> SIGSEGV in parsec_local_reshape_cb;
 *   2 differing-dest-sets under the chain / default broadcast topology: KF-PTG-CHAIN-BCAST-DIFFERING-SETS (C13/C05);
 *   4 packed-reception-with-other-output: a rank receives from one flow instance an output unpacked with two datatypes
 *     (packed) and another output; when the packed one is released first the same fulfilled-promise branch crashes.
 */
#define _GNU_SOURCE
#include "../hx.h"
#include "../../sim/mpi/simmpi.h"
#include "typed_common.h"
#include <pthread.h>
#include <stdlib.h>
#include <string.h>
#include <stdio.h>
#include <unistd.h>

extern int hx_rank_count;
extern void *(*hx_rank_mains[])(void *);

enum { OP_CONS, OP_PLACE, OP_WR, OP_N };
static const char *const opnames[] = {"cons", "place", "wr"};
enum { PR_MULTIRANK, PR_LOCAL_RESHAPE, PR_REMOTE_TYPED, PR_REMOTE_UNTYPED, PR_CHAIN_LOCAL, PR_CHAIN_REMOTE, PR_WRITER_LOCAL, PR_WRITER_REMOTE, PR_SHARED_SAME_TYPE,
       PR_TWO_TYPES_ONE_RANK, PR_PACKED_RECEPTION, PR_SHORT_TYPED, PR_SHORT_FORCED_OFF, PR_FUNNELLED, PR_OVERLAP, PR_N };
static const char *const probe_names[] = {"multi_rank_run", "local_reshape_edge", "remote_typed_edge", "remote_untyped_edge", "chain_edge_local", "chain_edge_remote",
                                          "writer_scribbled_local_copy", "writer_scribbled_received_copy", "same_type_siblings_got_one_copy", "two_remote_types_to_one_rank",
                                          "packed_reception_candidate", "typed_remote_edge_with_short_messages", "two_remote_types_to_one_rank_hence_no_short_messages", "funnelled_reshape_run",
                                          "two_bodies_overlapped"};
static const char *const SCHEDS[] = {"lfq", "ap", "gd", "ip", "lhq", "ll", "llp", "ltq", "pbq", "rnd", "spq"};
#define NSCHED 11
static const char *const TNAME[] = {"DEFAULT", "FULL", "LOWER", "UPPER", "LOWER2", "UPPERX"};
enum { SH_FULL, SH_LOWER, SH_UPPER, SH_UPPERX };
static const int TSHAPE[] = {SH_FULL, SH_FULL, SH_LOWER, SH_UPPER, SH_LOWER, SH_UPPERX};

#define NE_MAX (TYPED_MAX_N * TYPED_MAX_N)

typedef struct {
    int exists, rank, parent_cls;
    int local;                  /* shares the rank of its producer instance */
    int teff;                   /* datatype in effect on the dependency (TT_NONE: none = the producer's copy) */
    uint64_t sel, known;        /* selected elements; elements of this task's copy that are defined after its body */
    int writer;                 /* scribbles over its copy */
    int key;                    /* copy class among the consumers of the producer instance */
    /* observation */
    int count;
    uint64_t begin, end;
    void *ptr;
} inst_t;

static typed_shared_t SH;
static const typed_prog_t *PG;
static struct { int en, lo, hi, shift, wr; } CFG[TYPED_MAX_CLS];
static inst_t I[TYPED_MAX_CLS][TYPED_MAX_NT];
static hx_result_t *RES;
static const hx_plan_t *PLAN;
static int N, NT, NE, NR, SHORT_CONFLICT, RUNNING;
/* plan shapes on which the unchanged runtime is known to fail (see registry.d/C18.py): computed from the plan, printed by
 * annotate() as tags so that a recorded finding can be keyed by them, generated only on request (knob `shapes`) */
enum { SHP_MIXLOCAL = 1,        /* one flow instance, consumers on the producer's rank, differing [type = ..] on the output dependencies (none counts) */
       SHP_DIFFDEST = 2,        /* one task instance whose outputs go to differing sets of remote ranks */
       SHP_PACKEDMIX = 4,
       SHP_MULTIOUT = 8 };      /* annotation only ("multiout=1"), never normalised away: one flow instance sends several outputs (distinct
                                 * (type, type_remote) on the producer's side) to one remote rank, so the receiver releases the dependencies of its
                                 * stand-in for the remote task several times through one repo entry (findings/typed/stale_future_two_outputs.plan) */     /* one flow instance sends to one remote rank (a) an output that is received there with two datatypes (packed
                                 * reception, converted per consumer) and (b) another output */
static int SHAPES, VICTIM_SHORT, VICTIM_MIX, VICTIM_PACKED;
static unsigned DROPPED;            /* classes switched off by the normalisation of the plan (shapes that were not asked for) */
static long EFF_BCAST, EFF_SHORT;   /* comm_coll_bcast / comm_short_limit in effect after normalisation */
static int64_t FINAL[TYPED_MAX_NT][NE_MAX];
static int final_valid[TYPED_MAX_NT];
static const char *INVALID;

/* ---- values: recognisable and unique ---- */
enum { VK_PROD = 1, VK_SCRIBBLE = 2, VK_INIT = 3 };
static int64_t mkval(int kind, int cls, int k, int i)
{
    uint64_t s = ((uint64_t)kind << 40) ^ ((uint64_t)cls << 32) ^ ((uint64_t)k << 16) ^ (uint64_t)i ^ 0xC18C18ULL;
    uint64_t h = sim_splitmix(&s);
    return (int64_t)(((uint64_t)kind << 60) | ((uint64_t)(cls & 0xff) << 52) | ((uint64_t)(k & 0xff) << 44) | ((uint64_t)(i & 0xff) << 36) | (h & 0xfffffffffULL));
}
static const char *describe_val(int64_t v, char *buf, size_t n)
{
    int kind = (int)(((uint64_t)v >> 60) & 0xf), cls = (int)(((uint64_t)v >> 52) & 0xff), k = (int)(((uint64_t)v >> 44) & 0xff), i = (int)(((uint64_t)v >> 36) & 0xff);
    if (kind >= VK_PROD && kind <= VK_INIT && cls < PG->nclasses && k < TYPED_MAX_NT && i < NE_MAX && v == mkval(kind, cls, k, i))
        snprintf(buf, n, "%s %s(%d) element (%d,%d)", kind == VK_PROD ? "the data written by producer" : kind == VK_SCRIBBLE ? "a value scribbled by writer" : "the initial content of the collection tile of",
                 PG->classes[cls].name, k, i % N, i / N);
    else snprintf(buf, n, "not a value any task of this run writes (0x%llx)", (unsigned long long)v);
    return buf;
}

static uint64_t sel_of(int t)
{
    uint64_t m = 0;
    int shape = t == TT_NONE ? SH_FULL : TSHAPE[t];
    for (int j = 0; j < N; j++) for (int i = 0; i < N; i++) {      /* column major: element (i,j) at j*N + i */
        int in = shape == SH_FULL || (shape == SH_LOWER && i >= j) || (shape == SH_UPPER && i <= j) || (shape == SH_UPPERX && i < j);
        if (in) m |= 1ULL << (j * N + i);
    }
    return m;
}
static const char *inst_name(int c, int k, char *buf, size_t n) { snprintf(buf, n, "%s(%d)", PG->classes[c].name, k); return buf; }

/* ---- plan -> configuration -> model ---- */
static void plan_to_shared(const hx_plan_t *p)
{
    memset(&SH, 0, sizeof(SH));
    memset(CFG, 0, sizeof(CFG));
    SH.prog = (int)(hx_knob(p, "prog", 0) % TYPED_NPROGS);
    if (SH.prog < 0) SH.prog = 0;
    PG = &TYPED_PROGS[SH.prog];
    NR = (int)hx_knob(p, "nranks", 1);
    if (NR > hx_rank_count) NR = hx_rank_count;
    if (NR > TYPED_MAX_RANKS) NR = TYPED_MAX_RANKS;
    if (NR < 1) NR = 1;
    N = (int)hx_knob(p, "N", 3);
    if (N < 2) N = 2;
    if (N > TYPED_MAX_N) N = TYPED_MAX_N;
    NT = (int)hx_knob(p, "NT", 2);
    if (NT < 1) NT = 1;
    if (NT > TYPED_MAX_NT) NT = TYPED_MAX_NT;
    NE = N * N;
    SH.nranks = NR; SH.n = N; SH.nt = NT;
    SH.nthreads = (int)hx_knob(p, "nthreads", 2);
    if (SH.nthreads < 1) SH.nthreads = 1;
    int nc = PG->nclasses, R = nc - 1;
    CFG[0].en = 1; CFG[0].lo = 0; CFG[0].hi = NT - 1;
    for (int i = 0; i < p->nops; i++) {
        const hx_op_t *o = &p->ops[i];
        int c = (int)(o->a % nc);
        if (c < 0) continue;
        if (o->op == OP_CONS && c > 0 && !CFG[c].en && !(DROPPED >> c & 1)) {
            int lo = (int)(o->b % NT), hi = (int)(o->c % NT);
            if (lo < 0 || hi < 0) continue;
            if (lo > hi) { int t = lo; lo = hi; hi = t; }
            CFG[c].en = 1; CFG[c].lo = lo; CFG[c].hi = hi;
        } else if (o->op == OP_PLACE && c > 0 && o->b >= 0) CFG[c].shift = (int)(o->b % NT);
        else if (o->op == OP_WR && c > 0 && c < R) CFG[c].wr = 1;
    }
    /* a chain consumer exists where the task it consumes from exists (classes are listed parents first) */
    for (int c = 1; c < R; c++) {
        int par = PG->classes[c].parent;
        if (!CFG[c].en || par == 0) continue;
        if (!CFG[par].en) { CFG[c].en = 0; continue; }
        if (CFG[c].lo < CFG[par].lo) CFG[c].lo = CFG[par].lo;
        if (CFG[c].hi > CFG[par].hi) CFG[c].hi = CFG[par].hi;
        if (CFG[c].lo > CFG[c].hi) CFG[c].en = 0;
    }
    for (int c = 0; c < nc; c++) {
        int *t = &SH.tab[TQ_STRIDE * c];
        t[TQ_LO] = CFG[c].en ? CFG[c].lo : 0;
        t[TQ_HI] = CFG[c].en ? CFG[c].hi : -1;
        t[TQ_SHIFT] = CFG[c].shift;
    }
}

static int is_data_consumer_of(int c, int par) { return PG->classes[c].role != 0 && PG->classes[c].parent == par && (PG->classes[c].role == 1 || par == 0); }

/* datatypes the copy held by an instance of class c may carry (bit set over TT_*): a dependency declaring one
 * of them converts nothing and hands out that very copy */
static unsigned copy_types_of(int c)
{
    const typed_class_t *d = &PG->classes[c];
    unsigned m = 1u << TT_DEFAULT;
    if (d->role == 0) { if (PG->producer_kind == TPK_NEW) m |= 1u << PG->new_type; return m; }
    if (d->otl != TT_NONE) m |= 1u << d->otl;
    if (d->itl != TT_NONE) m |= 1u << d->itl;
    if (d->otr != TT_NONE) m |= 1u << d->otr;
    if (d->itr != TT_NONE) m |= 1u << d->itr;
    return m | copy_types_of(d->parent);
}

static void build_model(void)
{
    int nc = PG->nclasses, R = nc - 1;
    memset(I, 0, sizeof(I));
    INVALID = NULL;
    SHORT_CONFLICT = 0;
    /* table sanity (the generator checks the same rules) */
    for (int c = 1; c < R; c++) {
        const typed_class_t *d = &PG->classes[c];
        if (d->parent < 0 || d->parent >= c) INVALID = "class table: parents must precede their consumers";
        else if (d->parent != 0 && PG->classes[d->parent].parent != 0) INVALID = "class table: two levels only";
        else if (d->otl != TT_NONE && d->itl != TT_NONE && TSHAPE[d->otl] != TSHAPE[d->itl]) INVALID = "class table: local types of one dependency differ in shape";
        else if (d->otr != TT_NONE && d->itr != TT_NONE && TSHAPE[d->otr] != TSHAPE[d->itr]) INVALID = "class table: remote types of one dependency differ in shape";
        else if (d->parent != 0 && (d->otr == TT_NONE || d->itr == TT_NONE)) INVALID = "class table: chain dependencies must declare type_remote";
    }
    if (INVALID) return;
    for (int c = 0; c < nc; c++) for (int k = 0; k < NT; k++) {
        inst_t *n = &I[c][k];
        const typed_class_t *d = &PG->classes[c];
        if (!CFG[c].en || k < CFG[c].lo || k > CFG[c].hi) continue;
        n->exists = 1;
        n->rank = (c == 0 ? k : (k + CFG[c].shift) % NT) % NR;
        n->parent_cls = d->role == 0 ? -1 : d->parent;
        n->teff = TT_NONE;
        n->sel = n->known = sel_of(TT_NONE);
        if (d->role == 0) continue;
        inst_t *par = &I[n->parent_cls][k];
        if (!par->exists) { INVALID = "consumer instance without producer instance"; return; }
        n->local = par->rank == n->rank;
        if (n->local) n->teff = d->otl != TT_NONE ? d->otl : d->itl;
        else n->teff = d->otr != TT_NONE ? d->otr : d->itr != TT_NONE ? d->itr : TT_DEFAULT;
        n->sel = sel_of(n->teff);
        n->key = n->local ? (n->teff == TT_NONE ? 0 : 1 + n->teff) : 100 + 10 * n->rank + TSHAPE[n->teff];
    }
    /* writers, then what every copy defines after its task ran (parents first) */
    for (int c = 1; c < R; c++) for (int k = 0; k < NT; k++) {
        inst_t *n = &I[c][k];
        const typed_class_t *d = &PG->classes[c];
        if (!n->exists) continue;
        int par = n->parent_cls, alone = 1, remote_ranks = 0;
        for (int s = 1; s < nc; s++) {
            if (!I[s][k].exists || !is_data_consumer_of(s, par)) continue;
            if (s != c && I[s][k].key == n->key) alone = 0;
            if (!I[s][k].local) remote_ranks |= 1 << I[s][k].rank;
        }
        int ok = d->access == TACC_RW && CFG[c].wr && alone;
        if (n->local) ok = ok && n->teff != TT_NONE && !(copy_types_of(par) & (1u << n->teff));
        else ok = ok && (remote_ranks & (remote_ranks - 1)) == 0;
        n->writer = ok;
        n->known = n->writer ? sel_of(TT_NONE) : (n->sel & I[par][k].known);
    }
    /* the documented unsupported case: one flow instance sending two datatypes to one remote rank in short messages */
    VICTIM_SHORT = VICTIM_MIX = VICTIM_PACKED = -1;
    SHAPES = 0;
    for (int par = 0; par < R; par++) for (int k = 0; k < NT; k++) {
        if (!I[par][k].exists) continue;
        for (int r = 0; r < NR; r++) {
            int first = -2;
            for (int s = 1; s < nc; s++) {
                if (!I[s][k].exists || !is_data_consumer_of(s, par) || I[s][k].local || I[s][k].rank != r) continue;
                int t = PG->classes[s].otr;      /* what the producer's side sends with (TT_NONE: the datatype of its copy) */
                if (first == -2) first = t; else if (first != t) { SHORT_CONFLICT = 1; VICTIM_SHORT = s; }
            }
        }
        /* shape: packed reception next to another output of the same flow instance on one rank */
        for (int r = 0; r < NR; r++) {
            int ngroups = 0, packed_group = -1, g_otl[TYPED_MAX_CLS], g_otr[TYPED_MAX_CLS], g_itr[TYPED_MAX_CLS], g_last[TYPED_MAX_CLS];
            for (int s = 1; s < nc; s++) {
                if (!I[s][k].exists || !is_data_consumer_of(s, par) || I[s][k].local || I[s][k].rank != r) continue;
                const typed_class_t *d = &PG->classes[s];
                int g;
                for (g = 0; g < ngroups; g++) if (g_otl[g] == d->otl && g_otr[g] == d->otr) break;
                if (g == ngroups) { g_otl[g] = d->otl; g_otr[g] = d->otr; g_itr[g] = d->itr; ngroups++; }
                else if (g_itr[g] != d->itr) packed_group = g;
                g_last[g] = s;
            }
            if (ngroups > 1) SHAPES |= SHP_MULTIOUT;
            if (packed_group >= 0 && ngroups > 1) {
                /* the normalisation keeps the packed reception and removes a consumer of another output */
                SHAPES |= SHP_PACKEDMIX;
                for (int g = 0; g < ngroups; g++) if (g != packed_group) VICTIM_PACKED = g_last[g];
            }
        }
        /* shape: local consumers of one flow instance under differing local output types */
        int first = -2;
        for (int s = 1; s < nc; s++) {
            if (!I[s][k].exists || !is_data_consumer_of(s, par) || !I[s][k].local) continue;
            int t = PG->classes[s].otl;
            if (first == -2) first = t; else if (first != t) { SHAPES |= SHP_MIXLOCAL; VICTIM_MIX = s; }
        }
        /* shape: the outputs of one task instance (one per distinct (flow, type, type_remote) of the producer's side, the control
         * flow to R(k) included) reach differing sets of remote ranks */
        int nsets = 0, sets[TYPED_MAX_CLS + 1];
        for (int s = 1; s < nc; s++) {
            if (!I[s][k].exists || PG->classes[s].role == 0) continue;
            int is_data = is_data_consumer_of(s, par), is_ctl = s == R && par != 0;
            if (!is_data && !is_ctl) continue;
            int set = 0;
            for (int q = 1; q < nc; q++) {
                if (!I[q][k].exists || I[q][k].rank == I[par][k].rank) continue;
                int same_out = is_ctl ? q == R : (is_data_consumer_of(q, par) && PG->classes[q].otl == PG->classes[s].otl && PG->classes[q].otr == PG->classes[s].otr);
                if (same_out) set |= 1 << I[q][k].rank;
            }
            if (set) sets[nsets++] = set;
        }
        for (int a = 1; a < nsets; a++) if (sets[a] != sets[0]) SHAPES |= SHP_DIFFDEST;
    }
}

/* ---- observation ---- */
static int64_t expected_of(int c, int k, int i)       /* value of element i of the copy held by c(k) after its body, where known */
{
    inst_t *n = &I[c][k];
    if (PG->classes[c].role == 0) return mkval(VK_PROD, 0, k, i);
    if (n->writer) return mkval(VK_SCRIBBLE, c, k, i);
    return expected_of(n->parent_cls, k, i);
}
static const char *edge_text(int c, int k, char *buf, size_t n)
{
    inst_t *in = &I[c][k];
    char a[32];
    snprintf(buf, n, "%s on rank %d <- %s on rank %d, %s datatype in effect: %s", inst_name(c, k, a, sizeof(a)), in->rank, PG->classes[in->parent_cls].name, I[in->parent_cls][k].rank,
             in->local ? "local" : "remote", in->teff == TT_NONE ? "none (the producer's copy)" : TNAME[in->teff]);
    return buf;
}
/* selected elements of the copy `p` seen by c(k) against its producer's data; returns 0 when fine */
static int check_selected(int c, int k, const int64_t *p, const char *when)
{
    inst_t *n = &I[c][k];
    inst_t *par = &I[n->parent_cls][k];
    char e[200], v1[120];
    for (int i = 0; i < NE; i++) {
        if (!((n->sel & par->known) >> i & 1)) continue;
        int64_t want = expected_of(n->parent_cls, k, i);
        if (p[i] == want) continue;
        uint64_t u = (uint64_t)p[i];
        int kind = (int)(u >> 60), wc = (int)((u >> 52) & 0xff), wk = (int)((u >> 44) & 0xff), wi = (int)((u >> 36) & 0xff);
        int genuine = wc < PG->nclasses && wk < TYPED_MAX_NT && wi < NE_MAX && p[i] == mkval(kind, wc, wk, wi);
        /* a scribbled value of somebody who is not this task's producer: a sibling's (or stranger's) private writes leaked */
        int foreign_scribble = genuine && kind == VK_SCRIBBLE && !(wc == n->parent_cls && wk == k);
        const char *cls = foreign_scribble ? "other-consumers-write-visible" : PG->classes[c].role == 2 ? "producer-data-altered" : "selected-data-wrong";
        hx_fail(RES, cls, "%s: selected element (%d,%d) %s is %s; the producer's data there is 0x%llx [%s]", when, i % N, i / N,
                PG->classes[c].role == 2 ? "of the original read by the late reader" : "of the consumer's copy", describe_val(p[i], v1, sizeof(v1)), (unsigned long long)want, edge_text(c, k, e, sizeof(e)));
        return 1;
    }
    return 0;
}

static void body_delay(int c, int k, int phase)
{
    long d = hx_knob(PLAN, "body_delay", 300);
    if (d) sim_delay((uint64_t)(d + (mkval(7, c, k, phase) & 0xffff) % (d + 1))); else sim_yield();
}

void typedh_event(int rank, int kind, long a, long b)
{
    sim_hash_event(((uint64_t)rank << 56) ^ ((uint64_t)kind << 48) ^ (uint64_t)a ^ ((uint64_t)b << 24));
    if (kind == TE_INIT_FAILED) hx_fail(RES, "init-failed", "parsec_init returned NULL on rank %d", rank);
    if (getenv("VERIF_MPI_TRACE")) fprintf(stderr, "[typed t=%llu] rank %d event %d\n", (unsigned long long)sim_now(), rank, kind);
}

void typedh_tile(int rank, int k, int when, void *ptr)
{
    int64_t *p = ptr;
    (void)rank;
    if (k < 0 || k >= NT || !p) return;
    if (when == 0) { for (int i = 0; i < NE; i++) p[i] = mkval(VK_INIT, 0, k, i); return; }
    memcpy(FINAL[k], p, sizeof(int64_t) * (size_t)NE);
    final_valid[k] = 1;
}

void typedh_body(int rank, int prog, int c, int k, void *ptr)
{
    char nm[32], e[200], v1[120];
    int64_t *p = ptr;
    if (prog != SH.prog || c < 0 || c >= PG->nclasses || k < 0 || k >= NT || !I[c][k].exists) {
        hx_fail(RES, "extra-instance", "a task of class %d ran with k = %d (program %d): not an instance of the program of this run", c, k, prog);
        return;
    }
    inst_t *n = &I[c][k];
    const typed_class_t *d = &PG->classes[c];
    n->count++;
    n->begin = sim_stamp();
    n->ptr = ptr;
    sim_hash_event(0xB0D1 ^ ((uint64_t)c << 16) ^ ((uint64_t)k << 24) ^ ((uint64_t)rank << 56));
    if (getenv("VERIF_MPI_TRACE")) fprintf(stderr, "[typed t=%llu] rank %d BODY %s ptr %p%s\n", (unsigned long long)sim_now(), rank, inst_name(c, k, nm, sizeof(nm)), ptr, n->writer ? " (writer)" : "");
    if (RUNNING++) sim_probe(PR_OVERLAP);
    if (n->count > 1) hx_fail(RES, "task-ran-twice", "%s body ran %d times", inst_name(c, k, nm, sizeof(nm)), n->count);
    else if (rank != n->rank) hx_fail(RES, "wrong-rank", "%s ran on rank %d, its affinity lives on rank %d", inst_name(c, k, nm, sizeof(nm)), rank, n->rank);
    else if (!p) hx_fail(RES, "null-data", "%s has a NULL data pointer on its data flow", inst_name(c, k, nm, sizeof(nm)));
    if (RES->vclass) { RUNNING--; n->end = sim_stamp(); return; }
    if (d->role == 0) {
        /* producer: (collection tile: must still hold its initial content) unique values over the whole tile */
        if (PG->producer_kind == TPK_DESC)
            for (int i = 0; i < NE; i++) if (p[i] != mkval(VK_INIT, 0, k, i)) {
                hx_fail(RES, "producer-data-altered", "the collection tile A(%d,0) element (%d,%d) is %s before its producer ran", k, i % N, i / N, describe_val(p[i], v1, sizeof(v1)));
                break;
            }
        body_delay(c, k, 0);
        for (int i = 0; i < NE; i++) p[i] = mkval(VK_PROD, 0, k, i);
        body_delay(c, k, 1);
    } else {
        inst_t *par = &I[n->parent_cls][k];
        if (!(par->end && par->count == 1)) hx_fail(RES, "ran-before-producer", "%s began before its producer %s finished", inst_name(c, k, nm, sizeof(nm)), PG->classes[n->parent_cls].name);
        if (d->role == 2)       /* the late reader is gated by a control flow from every consumer of its tile */
            for (int s = 1; s < PG->nclasses - 1 && !RES->vclass; s++)
                if (I[s][k].exists && !I[s][k].end) hx_fail(RES, "late-reader-early", "R(%d) began before %s(%d) finished", k, PG->classes[s].name, k);
        /* probes */
        if (d->role == 1) {
            if (n->local && n->teff != TT_NONE) sim_probe(n->parent_cls == 0 ? PR_LOCAL_RESHAPE : PR_CHAIN_LOCAL);
            if (!n->local) {
                sim_probe(n->parent_cls == 0 ? ((d->otr != TT_NONE || d->itr != TT_NONE) ? PR_REMOTE_TYPED : PR_REMOTE_UNTYPED) : PR_CHAIN_REMOTE);
                if ((d->otr != TT_NONE || d->itr != TT_NONE) && EFF_SHORT != 0) sim_probe(PR_SHORT_TYPED);
            }
            for (int s = 1; s < PG->nclasses - 1; s++)
                if (s != c && I[s][k].exists && is_data_consumer_of(s, n->parent_cls) && I[s][k].key == n->key && I[s][k].count && I[s][k].ptr == ptr && n->teff != TT_NONE) sim_probe(PR_SHARED_SAME_TYPE);
        }
        if (!RES->vclass && !check_selected(c, k, p, "at the entry of the body")) {
            body_delay(c, k, 0);
            if (n->writer) {
                sim_probe(n->local ? PR_WRITER_LOCAL : PR_WRITER_REMOTE);
                for (int i = 0; i < NE / 2; i++) p[i] = mkval(VK_SCRIBBLE, c, k, i);
                body_delay(c, k, 1);
                for (int i = NE / 2; i < NE; i++) p[i] = mkval(VK_SCRIBBLE, c, k, i);
                body_delay(c, k, 2);
                for (int i = 0; i < NE; i++) if (p[i] != mkval(VK_SCRIBBLE, c, k, i)) {
                    hx_fail(RES, "copy-changed-under-writer", "element (%d,%d) of the private copy of writer %s became %s while its body ran [%s]", i % N, i / N, inst_name(c, k, nm, sizeof(nm)),
                            describe_val(p[i], v1, sizeof(v1)), edge_text(c, k, e, sizeof(e)));
                    break;
                }
            } else {
                check_selected(c, k, p, "while the body ran (the copy changed under its reader)");
                if (!RES->vclass) { body_delay(c, k, 1); check_selected(c, k, p, "at the end of the body (the copy changed under its reader)"); }
            }
        }
    }
    RUNNING--;
    n->end = sim_stamp();
}

/* ---- generation ---- */
static void build_model(void);
/* plan -> normalised configuration + model.  Plans are normalised, not rejected (the minimiser deletes ops and resets knobs):
 *  - shapes on which the unchanged runtime is known to fail and that the plan does not ask for (knob `shapes`) are removed:
 *    consumers are switched off until no flow instance has local consumers under differing local types; the chain / default
 *    broadcast topology is replaced by star / binomial when a task's outputs go to differing rank sets;
 *  - the documented unsupported case switches short messages off. */
static void analyse(const hx_plan_t *p)
{
    long allow = hx_knob(p, "shapes", 0);
    DROPPED = 0;
    for (int guard = 0; guard < 64; guard++) {
        plan_to_shared(p);
        build_model();
        if (INVALID) return;
        if ((SHAPES & SHP_MIXLOCAL) && !(allow & SHP_MIXLOCAL) && VICTIM_MIX > 0) { DROPPED |= 1u << VICTIM_MIX; continue; }
        if ((SHAPES & SHP_PACKEDMIX) && !(allow & SHP_PACKEDMIX) && VICTIM_PACKED > 0) { DROPPED |= 1u << VICTIM_PACKED; continue; }
        break;
    }
    EFF_BCAST = hx_knob(p, "coll_bcast", -1);
    if ((SHAPES & SHP_DIFFDEST) && !(allow & SHP_DIFFDEST) && (EFF_BCAST == -1 || EFF_BCAST == 1)) EFF_BCAST = EFF_BCAST == 1 ? 0 : 2;
    EFF_SHORT = hx_knob(p, "short_limit", -1);
    if (SHORT_CONFLICT && EFF_SHORT != 0) EFF_SHORT = 0;
}
static void drop_class(hx_plan_t *p, int cls, int nc)
{
    for (int i = 0; i < p->nops; i++) if (p->ops[i].op == OP_CONS && (int)(p->ops[i].a % nc) == cls) {
        memmove(&p->ops[i], &p->ops[i + 1], sizeof(hx_op_t) * (size_t)(p->nops - i - 1));
        p->nops--;
        return;
    }
}

static void gen(hx_plan_t *p, hx_rng_t *r)
{
    int prog = (int)hx_below(r, TYPED_NPROGS);
    const typed_prog_t *pg = &TYPED_PROGS[prog];
    hx_set_knob(p, "prog", prog);
    int P = hx_chance(r, 25) ? 1 : (int)hx_range(r, 2, hx_rank_count > 1 ? hx_rank_count : 1);
    if (P > hx_rank_count) P = hx_rank_count;
    hx_set_knob(p, "nranks", P);
    hx_set_knob(p, "nthreads", hx_range(r, 1, 4));
    hx_set_knob(p, "N", hx_range(r, 2, TYPED_MAX_N));
    int nt = hx_chance(r, 60) ? (int)hx_range(r, 1, 3) : (int)hx_range(r, 4, 6);
    hx_set_knob(p, "NT", nt);
    hx_set_knob(p, "sched", hx_below(r, NSCHED));
    hx_set_knob(p, "body_delay", hx_chance(r, 50) ? hx_range(r, 0, 500) : hx_range(r, 500, 60000));
    hx_set_knob(p, "net_lat", hx_chance(r, 50) ? 1000 : hx_range(r, 100, 200000));
    hx_set_knob(p, "net_jit", hx_chance(r, 30) ? 0 : hx_range(r, 100, 400000));
    hx_set_knob(p, "net_heavy", hx_chance(r, 30) ? hx_range(r, 1, 20) : 0);
    static const long eag[] = {0, 64, 65536, 1 << 30};
    hx_set_knob(p, "net_eager", eag[hx_below(r, 4)]);
    hx_set_knob(p, "net_partial", hx_chance(r, 40) ? hx_range(r, 5, 60) : 0);
    hx_set_knob(p, "net_lag", hx_chance(r, 40) ? hx_range(r, 5, 40) : 0);
    hx_set_knob(p, "net_late", hx_chance(r, 30) ? hx_range(r, 5, 60) : 0);
    static const int bc[] = {-1, 0, 1, 2};
    hx_set_knob(p, "coll_bcast", bc[hx_below(r, 4)]);
    static const long sl[] = {-1, -1, 0, 0, 100, 300};      /* default (1 KiB), off, below / above most tile sizes */
    long shortl = sl[hx_below(r, 6)];
    hx_set_knob(p, "short_limit", shortl);
    hx_set_knob(p, "aggregate", hx_chance(r, 30) ? 0 : -1);
    hx_set_knob(p, "thread_multiple", hx_chance(r, 45) ? 0 : hx_chance(r, 30) ? 1 : -1);    /* 0: reshapes are shifted to the communication thread */
    hx_set_knob(p, "mpi_multiple", hx_chance(r, 60));     /* MPI provides MPI_THREAD_MULTIPLE: with thread_multiple != 0 workers call MPI themselves */
    /* which consumers exist, for which tiles, where; who writes */
    int nc = pg->nclasses, R = nc - 1;
    int density = (int)hx_range(r, 25, 85);
    /* in a third of the multi-rank plans the two classes that share the sender's (type, type_remote) but receive with
     * different datatypes are placed together (packed reception + per-consumer reshape on the receiver) */
    int pk_a = -1, pk_b = -1, pk_shift = 0;
    if (P > 1 && nt > 1 && hx_chance(r, 33)) {
        for (int a = 1; a < R && pk_a < 0; a++) for (int b = a + 1; b < R; b++) {
            const typed_class_t *x = &pg->classes[a], *y = &pg->classes[b];
            if (x->parent == 0 && y->parent == 0 && x->otl == y->otl && x->otr == y->otr && x->itr != y->itr) { pk_a = a; pk_b = b; break; }
        }
        pk_shift = (int)hx_range(r, 1, nt - 1);
    }
    for (int c = 1; c <= R; c++) {
        int par = pg->classes[c].parent;
        int forced = c == pk_a || c == pk_b;
        if (!forced && !hx_chance(r, c == R ? 60 : par == 0 ? density : 60)) continue;
        int lo = 0, hi = nt - 1;
        if (!forced && hx_chance(r, 35)) { lo = (int)hx_below(r, nt); hi = (int)hx_range(r, lo, nt - 1); }
        hx_add_op(p, 0, OP_CONS, c, lo, hi);
        if (forced) hx_add_op(p, 0, OP_PLACE, c, pk_shift, 0);
        else if (hx_chance(r, 70)) hx_add_op(p, 0, OP_PLACE, c, hx_below(r, nt), 0);
        if (pg->classes[c].access == TACC_RW && hx_chance(r, 75)) hx_add_op(p, 0, OP_WR, c, 0, 0);
    }
    /* shapes on which the unchanged runtime is known to fail are produced on request only: --knob shapes=<mask>
     * (then in half of the plans); analyse() removes what was not asked for, the plan is made to say so */
    /* shapes 1 (mixed local types) and 4 (packed reception next to another output) are ordinary plans since the
     * fix: commits e541dd0 / 95e4216 in /repo; shape 2 is the open finding KF-PTG-CHAIN-BCAST-DIFFERING-SETS and is kept rare */
    long allow = hx_cli_knob("shapes", -1);
    if (allow < 0) allow = 5 | (hx_chance(r, 15) ? 2 : 0);
    else if (allow && hx_chance(r, 50)) allow = 0;
    hx_set_knob(p, "shapes", allow);
    analyse(p);
    for (int c = 1; c < nc; c++) if (DROPPED >> c & 1) drop_class(p, c, nc);
    /* keep away from the documented unsupported case: either no short messages, or no flow instance that sends
     * two datatypes to one remote rank (consumers are dropped until that holds) */
    analyse(p);
    if (shortl != 0 && SHORT_CONFLICT) {
        if (hx_chance(r, 50)) hx_set_knob(p, "short_limit", 0);
        else for (int guard = 0; guard < 64 && SHORT_CONFLICT && VICTIM_SHORT > 0; guard++) { drop_class(p, VICTIM_SHORT, nc); analyse(p); }
        analyse(p);
        if (SHORT_CONFLICT) hx_set_knob(p, "short_limit", 0);
    }
    analyse(p);
    for (int c = 1; c < nc; c++) if (DROPPED >> c & 1) drop_class(p, c, nc);
    analyse(p);
    hx_set_knob(p, "coll_bcast", EFF_BCAST);
    hx_set_knob(p, "short_limit", EFF_SHORT);
}

static void setenv_int(const char *k, long v) { char b[32]; snprintf(b, sizeof(b), "%ld", v); setenv(k, b, 1); }
static void knob_env(const hx_plan_t *p, const char *knob, const char *env, long unset_if)
{
    long v = hx_knob(p, knob, unset_if);
    if (v == unset_if) unsetenv(env); else setenv_int(env, v);
}

static void init(void)
{
    setenv("HWLOC_SYNTHETIC", "pack:1 core:16 pu:1", 1);
    setenv("HWLOC_THISSYSTEM", "0", 1);
    char tmpl[] = "/tmp/verif_home_XXXXXX";
    char *d = hx_scratch_dir(tmpl);
    if (d) setenv("HOME", d, 1);
    extern char **environ;
    for (char **e = environ; *e;) {
        if (!strncmp(*e, "PARSEC_MCA_", 11)) { char nm[128]; snprintf(nm, sizeof(nm), "%.*s", (int)(strchr(*e, '=') - *e), *e); unsetenv(nm); e = environ; }
        else e++;
    }
}

static void *rank_tramp(void *a)
{
    typed_rank_arg_t *ra = a;
    sim_set_rank(ra->rank);
    return hx_rank_mains[ra->rank](a);
}

static void run(const hx_plan_t *p, hx_result_t *res)
{
    RES = res;
    PLAN = p;
    analyse(p);
    if (INVALID) { fprintf(stderr, "[typed] INVALID PROGRAM %s: %s\n", PG->name, INVALID); fflush(stderr); _exit(2); }
    if (getenv("VERIF_DUMP_SHARED")) {   /* for a real-runtime reproduction of the same plan */
        FILE *f = fopen(getenv("VERIF_DUMP_SHARED"), "wb");
        if (f) { fwrite(&SH, sizeof(SH), 1, f); fclose(f); }
    }
    memset(FINAL, 0, sizeof(FINAL));
    memset(final_valid, 0, sizeof(final_valid));
    RUNNING = 0;
    setenv("PARSEC_MCA_mca_sched", SCHEDS[hx_knob(p, "sched", 0) % NSCHED], 1);
    if (EFF_BCAST == -1) unsetenv("PARSEC_MCA_runtime_comm_coll_bcast"); else setenv_int("PARSEC_MCA_runtime_comm_coll_bcast", EFF_BCAST);
    long shortl = EFF_SHORT;
    if (SHORT_CONFLICT) sim_probe(PR_SHORT_FORCED_OFF);     /* the documented unsupported case (see the head of this file): this plan runs without short messages */
    if (shortl == -1) unsetenv("PARSEC_MCA_runtime_comm_short_limit"); else setenv_int("PARSEC_MCA_runtime_comm_short_limit", shortl);
    knob_env(p, "aggregate", "PARSEC_MCA_runtime_comm_aggregate", -1);
    knob_env(p, "thread_multiple", "PARSEC_MCA_runtime_comm_thread_multiple", -1);
    if (hx_knob(p, "thread_multiple", -1) == 0) sim_probe(PR_FUNNELLED);
    if (NR > 1) sim_probe(PR_MULTIRANK);
    for (int par = 0; par < PG->nclasses - 1; par++) for (int k = 0; k < NT; k++) for (int rk = 0; rk < NR; rk++) {
        int types = 0, ng = 0, g_otl[TYPED_MAX_CLS], g_otr[TYPED_MAX_CLS], g_itr[TYPED_MAX_CLS];
        for (int s = 1; s < PG->nclasses; s++) {
            if (!I[s][k].exists || !is_data_consumer_of(s, par) || I[s][k].local || I[s][k].rank != rk) continue;
            const typed_class_t *d = &PG->classes[s];
            types |= 1 << (d->otr + 1);
            /* same (type, type_remote) on the producer's side = one message; another reception datatype = packed reception */
            int g;
            for (g = 0; g < ng; g++) if (g_otl[g] == d->otl && g_otr[g] == d->otr) break;
            if (g == ng) { g_otl[g] = d->otl; g_otr[g] = d->otr; g_itr[g] = d->itr; ng++; }
            else if (g_itr[g] != d->itr) sim_probe(PR_PACKED_RECEPTION);
        }
        if (types & (types - 1)) sim_probe(PR_TWO_TYPES_ONE_RANK);
    }
    simmpi_cfg_t cfg;
    memset(&cfg, 0, sizeof(cfg));
    cfg.lat_base_ns = (uint64_t)hx_knob(p, "net_lat", 1000);
    cfg.lat_jitter_ns = (uint64_t)hx_knob(p, "net_jit", 1000);
    cfg.heavy_tail_pct = (int)hx_knob(p, "net_heavy", 0);
    cfg.eager_limit = hx_knob(p, "net_eager", 65536);
    cfg.testsome_partial_pct = (int)hx_knob(p, "net_partial", 0);
    cfg.testsome_lag_pct = (int)hx_knob(p, "net_lag", 0);
    cfg.testsome_lag_max = 3;
    cfg.late_send_pct = (int)hx_knob(p, "net_late", 0);
    cfg.thread_level = hx_knob(p, "mpi_multiple", 0) ? 3 /* MPI_THREAD_MULTIPLE */ : 0;      /* the library grants MPI_THREAD_MULTIPLE although the driver asks for SERIALIZED: PaRSEC then goes multi-threaded on MPI */
    simmpi_reset(NR, hx_current_seed(), &cfg);
    pthread_t pt[16];
    typed_rank_arg_t ra[16];
    for (int k = 0; k < NR; k++) { ra[k].sh = &SH; ra[k].rank = k; pthread_create(&pt[k], NULL, rank_tramp, &ra[k]); }
    for (int k = 0; k < NR; k++) pthread_join(pt[k], NULL);
    /* ---- end-of-run oracles ---- */
    char nm[32], v1[120];
    for (int c = 0; c < PG->nclasses && !res->vclass; c++) for (int k = 0; k < NT && !res->vclass; k++) {
        inst_t *n = &I[c][k];
        if (!n->exists) continue;
        if (n->count != 1) hx_fail(res, n->count ? "task-ran-twice" : "task-lost", "%s ran %d times", inst_name(c, k, nm, sizeof(nm)), n->count);
        hx_hash(res, ((uint64_t)c << 40) ^ ((uint64_t)k << 32) ^ (uint64_t)n->rank ^ (n->begin << 8));
    }
    for (int k = 0; k < NT && !res->vclass; k++) {
        if (!final_valid[k]) { hx_fail(res, "rank-not-finished", "the owner of tile %d did not report it at the end", k); break; }
        /* nobody but the producer (program tdesc) may have written the collection tile */
        int kind = PG->producer_kind == TPK_DESC ? VK_PROD : VK_INIT;
        for (int i = 0; i < NE; i++) if (FINAL[k][i] != mkval(kind, 0, k, i)) {
            hx_fail(res, "producer-data-altered", "collection tile A(%d,0) element (%d,%d) is %s at the end; %s", k, i % N, i / N, describe_val(FINAL[k][i], v1, sizeof(v1)),
                    PG->producer_kind == TPK_DESC ? "only its producer writes it" : "no task of this program writes the collection");
            break;
        }
    }
    if (!res->vclass && simmpi_stats()->truncations)
        hx_fail(res, "datatype-truncation", "%llu message(s) or local copies were larger than the datatype they were received with", (unsigned long long)simmpi_stats()->truncations);
    for (int k = 0; k < NR && !res->vclass; k++) if (!SH.rank_done[k]) hx_fail(res, "rank-not-finished", "rank %d did not reach the end of its program", k);
}

static void annotate(const hx_plan_t *p, char *buf, size_t n)
{
    long nr = hx_knob(p, "nranks", 1);
    if (nr > hx_rank_count) nr = hx_rank_count;
    analyse(p);
    long bc = EFF_BCAST;
    snprintf(buf, n, "[program=%s sched=%s threads=%ld ranks=%ld N=%ld NT=%ld short=%ld mt=%ld bcast=%ld shapes=%s%s%s%s multiout=%d]", TYPED_PROGS[hx_knob(p, "prog", 0) % TYPED_NPROGS].name,
             SCHEDS[hx_knob(p, "sched", 0) % NSCHED], hx_knob(p, "nthreads", 2), nr, hx_knob(p, "N", 3), hx_knob(p, "NT", 2), EFF_SHORT, hx_knob(p, "thread_multiple", -1), bc,
             (SHAPES & SHP_MIXLOCAL) ? "+mixed-local-types" : "", ((SHAPES & SHP_DIFFDEST) && bc != 0 && bc != 2) ? "+differing-dest-sets-chain" : "",
             (SHAPES & SHP_PACKEDMIX) ? "+packed-reception-with-other-output" : "",
             ((SHAPES & (SHP_MIXLOCAL | SHP_PACKEDMIX)) || ((SHAPES & SHP_DIFFDEST) && bc != 0 && bc != 2)) ? "" : "none", (SHAPES & SHP_MULTIOUT) ? 1 : 0);
}
static void describe_abort(char *buf, size_t n)
{
    int done = 0, total = 0;
    if (!PG) { snprintf(buf, n, "no program"); return; }
    for (int c = 0; c < PG->nclasses; c++) for (int k = 0; k < NT; k++) if (I[c][k].exists) { total++; if (I[c][k].end) done++; }
    int o = snprintf(buf, n, "%d of %d task instances done", done, total);
    char nm[32];
    for (int c = 1; c < PG->nclasses - 1 && o < (int)n - 120; c++) for (int k = 0; k < NT; k++) {
        inst_t *in = &I[c][k];
        if (!in->exists || in->count || !I[in->parent_cls][k].end) continue;
        snprintf(buf + o, n - o, "; %s (rank %d, %s dependency, datatype in effect %s) never ran although its producer %s finished", inst_name(c, k, nm, sizeof(nm)), in->rank,
                 in->local ? "local" : "remote", in->teff == TT_NONE ? "none" : TNAME[in->teff], PG->classes[in->parent_cls].name);
        return;
    }
}
static void tune(const hx_plan_t *p, sim_params_t *sp)
{
    sp->quantum_ns = 20;
    sp->max_steps = (uint64_t)hx_knob(p, "max_steps", 100000000);
}

static const hx_harness_t H = {
    .property = "C18", .name = "typed", .opnames = opnames, .nopnames = OP_N,
    .est_steps = 2500000, .max_steps = 100000000, .gap_lo = 150, .gap_hi = 60000, .fork_per_run = 1,
    .gen = gen, .run = run, .init = init, .tune = tune, .describe_abort = describe_abort, .annotate = annotate,
    .probe_names = probe_names, .nprobes = PR_N,
};
int main(int argc, char **argv) { return hx_main(argc, argv, &H); }
