/* Matrix-collection harness (C21 redistribute, C22 apply / map_operator / reductions): whole runtime,
 * 1..P simulated ranks, reference model computed by the harness.
 * Real: everything in libparsec (redistribute*.jdf + wrapper, apply.jdf + wrapper, map_operator.c,
 *       reduce*.jdf + wrapper, the matrix collections, scheduler modules, remote_dep, comm engine).
 * Simulated: thread scheduling, clock, MPI network (simmpi).
 * knob `prop` (21 or 22) selects the workload family; `red` (bit mask, C22) selects which reductions are
 * generated: 1 = the reduce.jdf tree, 2 = parsec_reduce_col_New, 4 = parsec_reduce_row_New; `mapempty=0`
 * drops map_operator calls on matrices of which some rank owns no tile.
 *
 * What the oracles can and cannot say about this tree (see also registry.d/C22.py):
 *  - redistribute_internal.h fixes DTYPE to double, so C21 only uses PARSEC_MATRIX_DOUBLE; sym_two_dim_block_cyclic is
 *    refused by redistribute (unsupported dtype) and therefore only used for C22's apply; the symmetric distribution that
 *    redistribute supports is SBC (1-3 ranks).
 *  - parsec_redistribute_Destruct / parsec_reduce_{col,row}_Destruct are declared in matrix.h but defined nowhere: the
 *    "New" variants are released with parsec_taskpool_free (the class destructors free the arenas).
 *  - the reductions are stubs (BODYs only printf, the operator is never invoked; reduce_{col,row}_New index src and dest
 *    out of range for every shape; reduce.jdf reads descA(2p,0) on the rank of descA(p,0) and descA(MT,0) when MT is even).
 *    By default only the reduce.jdf tree is generated, in the one shape whose references are all legal (MT odd, tile column
 *    0 on one rank, as in tests/collections/reduce.c); it has no operator, so its oracle is completion + no collateral
 *    write.  `--knob red=6` generates the column/row reductions with the oracle C22 states (operator applied, result ==
 *    sequential fold): classes reduce-operator-never-called / reduce-wrong-result / crash.
 *  - parsec_map_operator never terminates on a rank that owns no tile: reported as no-progress with the tag
 *    [map-operator-on-tileless-rank] in the detail. */
#define _GNU_SOURCE
#include "../hx.h"
#include "../../sim/mpi/simmpi.h"
#include "mat_common.h"
#include <pthread.h>
#include <stdlib.h>
#include <string.h>
#include <stdio.h>
#include <unistd.h>

extern int hx_rank_count;
extern void *(*hx_rank_mains[])(void *);

enum { OP_REDIST, OP_APPLY, OP_MAP, OP_REDUCE, OP_N };
static const char *const opnames[] = {"redist", "apply", "map", "reduce"};
enum { PR_MULTIRANK, PR_GENERAL, PR_RESHUFFLE, PR_REMOTE_COPY, PR_PARTIAL_LAST, PR_TILES_DIFFER, PR_UNALIGNED, PR_SBC, PR_TAB, PR_REFUSED, PR_TWO_OPS,
       PR_APPLY_UPPER, PR_APPLY_LOWER, PR_APPLY_FULL, PR_APPLY_SYM, PR_MAP, PR_MAP_DEST, PR_EMPTY_RANK, PR_REDUCE, PR_NONSQUARE, PR_N };
static const char *const probe_names[] = {"multi_rank_run", "redistribute_general_path(New variant)", "redistribute_reshuffle_path(New variant)", "window_tile_moves_between_ranks",
                                          "window_ends_inside_a_tile", "source_target_tile_sizes_differ", "displacement_not_tile_aligned", "sbc_matrix", "tabular_matrix",
                                          "redistribute_refused(unstored_region)", "two_operations_in_one_run",
                                          "apply_upper", "apply_lower", "apply_full", "apply_on_symmetric_storage", "map_operator", "map_operator_with_dest", "rank_without_local_tiles",
                                          "reduction_run", "nonsquare_tile_grid"};

static const char *const SCHEDS[] = {"lfq", "ap", "gd", "ip", "lhq", "ll", "llp", "ltq", "pbq", "rnd", "spq"};
#define NSCHED 11
#define D MAT_MAX_DIM
#define T MAT_MAX_TILES

static mat_shared_t SH;
static hx_result_t *RES;
static int PROP;

/* ---- geometry + model ---- */
typedef struct { int lmt, lnt, Mp, Np; } geom_t;
static geom_t GE[2];
static const mat_desc_t *DESC[2];
static double INIT[2][D][D];
static double MODEL[MAT_MAX_OPS][2][D][D];        /* expected contents after operation k */
static int EXPECT_OK[MAT_MAX_OPS];                /* the call must succeed (1) / must be refused (0) */
static unsigned char REGION[MAT_MAX_OPS][T][T];   /* C22: tiles the operator must visit */
static unsigned char DONTCARE[MAT_MAX_OPS][2][T][T]; /* tiles whose contents after op k are unspecified */
/* ---- observation ---- */
static double SNAP[MAT_MAX_OPS][2][D][D];
static unsigned char SNAPN[MAT_MAX_OPS][2][T][T];
static void *PTR[2][T][T];
static int OWNER[2][T][T], FILLN[2][T][T];
static int CNT[MAT_MAX_OPS][T][T];                /* operator invocations per tile */
static int REDUCE_CALLS[MAT_MAX_OPS];
static int CUR_OP[16], OP_STATE[16];              /* per rank: op index, 0 idle 1 running */
static long RC[MAT_MAX_OPS][16];
static int RC_SET[MAT_MAX_OPS][16];
static int PATH[MAT_MAX_OPS];
static double VEC0[MAT_MAX_OPS][64];
static int VEC0_OK[MAT_MAX_OPS];

static int elsize(int mtype) { return mtype == MTY_INT ? 4 : 8; }
static double rd(const void *p, int mtype, int idx) { return mtype == MTY_INT ? (double)((const int32_t *)p)[idx] : ((const double *)p)[idx]; }
static void wr(void *p, int mtype, int idx, double v) { if (mtype == MTY_INT) ((int32_t *)p)[idx] = (int32_t)v; else ((double *)p)[idx] = v; }
static int stored(const mat_desc_t *d, int m, int n)
{
    if (d->dist != MD_SBC && d->dist != MD_SYM) return 1;
    return d->uplo == MU_LOWER ? m >= n : n >= m;
}
static double init_val(int which, int i, int j) { double v = 1000.0 * i + j + 1; return which == 1 ? -v : v; }   /* A: unique positive values; B: unique negative sentinels */
static double delta_of(int op) { return 100000.0 * (op + 1); }
static int in_region(int uplo, int m, int n) { return uplo == MU_FULL || (uplo == MU_UPPER ? n >= m : m >= n); }

static int sbc_region_stored(const mat_desc_t *d, int sr, int sc, int di, int dj)
{
    if (d->dist != MD_SBC) return 1;
    int ms = di / d->mb, me = (di + sr - 1) / d->mb, ns = dj / d->nb, ne = (dj + sc - 1) / d->nb;
    return d->uplo == MU_LOWER ? ms >= ne : ns >= me;
}

static void build_model(void)
{
    for (int w = 0; w < 2; w++) {
        const mat_desc_t *d = w ? &SH.B : &SH.A;
        DESC[w] = d;
        GE[w].lmt = (d->M + d->mb - 1) / d->mb;
        GE[w].lnt = (d->N + d->nb - 1) / d->nb;
        GE[w].Mp = GE[w].lmt * d->mb;
        GE[w].Np = GE[w].lnt * d->nb;
        for (int i = 0; i < D; i++) for (int j = 0; j < D; j++) INIT[w][i][j] = init_val(w, i, j);
    }
    memset(REGION, 0, sizeof(REGION));
    memset(DONTCARE, 0, sizeof(DONTCARE));
    for (int k = 0; k < SH.nops; k++) {
        const mat_op_t *o = &SH.ops[k];
        memcpy(MODEL[k], k ? MODEL[k - 1] : INIT, sizeof(MODEL[k]));
        if (k) memcpy(DONTCARE[k], DONTCARE[k - 1], sizeof(DONTCARE[k]));
        EXPECT_OK[k] = 1;
        const mat_desc_t *a = &SH.A;
        switch (o->kind) {
        case MO_REDIST:
            EXPECT_OK[k] = sbc_region_stored(&SH.A, o->size_row, o->size_col, o->disi_Y, o->disj_Y) && sbc_region_stored(&SH.B, o->size_row, o->size_col, o->disi_T, o->disj_T);
            if (EXPECT_OK[k])
                for (int i = 0; i < o->size_row; i++) for (int j = 0; j < o->size_col; j++)
                    MODEL[k][1][o->disi_T + i][o->disj_T + j] = MODEL[k][0][o->disi_Y + i][o->disj_Y + j];
            break;
        case MO_APPLY:
            for (int m = 0; m < GE[0].lmt; m++) for (int n = 0; n < GE[0].lnt; n++) {
                if (!in_region(o->uplo, m, n)) continue;
                REGION[k][m][n] = 1;
                for (int i = 0; i < a->mb; i++) for (int j = 0; j < a->nb; j++) MODEL[k][0][m * a->mb + i][n * a->nb + j] += delta_of(k);
            }
            break;
        case MO_MAP:
            for (int m = 0; m < GE[0].lmt; m++) for (int n = 0; n < GE[0].lnt; n++) {
                REGION[k][m][n] = 1;
                if (o->destmode == 2) DONTCARE[k][1][m][n] = DONTCARE[k][0][m][n];
                for (int i = 0; i < a->mb; i++) for (int j = 0; j < a->nb; j++) {
                    int I = m * a->mb + i, J = n * a->nb + j;
                    if (o->destmode == 1) MODEL[k][0][I][J] += delta_of(k);
                    else if (o->destmode == 2) MODEL[k][1][I][J] = MODEL[k][0][I][J] + delta_of(k);
                }
            }
            break;
        case MO_REDUCE:
            DONTCARE[k][1][0][0] = 1;       /* reduce.jdf writes its (operator-less) result tile to R(0,0) */
            break;
        default: break;
        }
    }
}

/* ---- callbacks from the drivers ---- */
void math_event(int rank, int kind, long a, long b)
{
    sim_hash_event(((uint64_t)rank << 56) ^ ((uint64_t)kind << 48) ^ ((uint64_t)a << 8) ^ (uint64_t)(b & 0xff));
    if (getenv("VERIF_MPI_TRACE")) fprintf(stderr, "[mat t=%llu] rank %d event %d a=%ld b=%ld\n", (unsigned long long)sim_now(), rank, kind, a, b);
    if (rank < 0 || rank >= 16) return;
    switch (kind) {
    case ME_OP_BEGIN: CUR_OP[rank] = (int)a; OP_STATE[rank] = 1; break;
    case ME_OP_END:
        OP_STATE[rank] = 0;
        if (a >= 0 && a < MAT_MAX_OPS) { RC[a][rank] = b; RC_SET[a][rank] = 1; }
        break;
    case ME_PATH:
        if (a >= 0 && a < MAT_MAX_OPS) PATH[a] = (int)b;
        sim_probe(b == 2 ? PR_RESHUFFLE : PR_GENERAL);
        break;
    case ME_INIT_FAILED: hx_fail(RES, "init-failed", "parsec_init returned NULL on rank %d", rank); break;
    case ME_MATRIX_FAILED: hx_fail(RES, "init-failed", "matrix descriptor initialisation failed on rank %d", rank); break;
    }
}
void math_fill(int rank, int which, int m, int n, void *ptr, int ld)
{
    if (which < 0 || which > 1 || m < 0 || n < 0 || m >= T || n >= T) return;
    const mat_desc_t *d = DESC[which];
    if (!ptr) { hx_fail(RES, "null-tile", "rank %d: local tile (%d,%d) of matrix %c has no host copy", rank, m, n, "AB"[which]); return; }
    if (FILLN[which][m][n]++) hx_fail(RES, "tile-owned-twice", "tile (%d,%d) of matrix %c is local on ranks %d and %d", m, n, "AB"[which], OWNER[which][m][n], rank);
    PTR[which][m][n] = ptr;
    OWNER[which][m][n] = rank;
    for (int j = 0; j < d->nb; j++) for (int i = 0; i < d->mb; i++) wr(ptr, d->mtype, j * ld + i, INIT[which][m * d->mb + i][n * d->nb + j]);
}
void math_publish(int rank, int op, int which, int m, int n, const void *ptr, int ld)
{
    (void)rank;
    if (op < 0 || op >= MAT_MAX_OPS) return;
    if (which == 2) {   /* entry 0 of the reduction result vector */
        const mat_desc_t *d = DESC[0];
        for (int e = 0; e < d->mb * d->nb && e < 64; e++) VEC0[op][e] = rd(ptr, d->mtype, e);
        VEC0_OK[op] = 1;
        return;
    }
    if (which < 0 || which > 1 || m < 0 || n < 0 || m >= T || n >= T || !ptr) return;
    const mat_desc_t *d = DESC[which];
    SNAPN[op][which][m][n]++;
    for (int j = 0; j < d->nb; j++) for (int i = 0; i < d->mb; i++) SNAP[op][which][m * d->mb + i][n * d->nb + j] = rd(ptr, d->mtype, j * ld + i);
}
static int op_of_cookie(int rank, long cookie, const char *who)
{
    long k = cookie - MAT_COOKIE(0);
    if (k < 0 || k >= SH.nops) { hx_fail(RES, "operator-args-corrupted", "rank %d: %s operator received op_args that do not point to the value the caller gave (%ld)", rank, who, cookie); return -1; }
    if (!OP_STATE[rank] || CUR_OP[rank] != k) { hx_fail(RES, "operator-outside-call", "rank %d: %s operator of operation %ld invoked while the rank is %s operation %d", rank, who, k, OP_STATE[rank] ? "inside" : "after", CUR_OP[rank]); return -1; }
    return (int)k;
}
static int visit(int rank, int k, const char *who, int m, int n)
{
    if (m < 0 || n < 0 || m >= GE[0].lmt || n >= GE[0].lnt) { hx_fail(RES, "operator-outside-matrix", "%s operator of operation %d called on tile (%d,%d) of a %dx%d-tile matrix (rank %d)", who, k, m, n, GE[0].lmt, GE[0].lnt, rank); return 0; }
    if (!REGION[k][m][n]) { hx_fail(RES, "operator-outside-region", "%s operator of operation %d called on tile (%d,%d), which is outside the requested region (rank %d)", who, k, m, n, rank); return 0; }
    if (++CNT[k][m][n] > 1) { hx_fail(RES, "operator-twice", "%s operator of operation %d called %d times on tile (%d,%d) (rank %d)", who, k, CNT[k][m][n], m, n, rank); return 0; }
    if (!FILLN[0][m][n] || OWNER[0][m][n] != rank) { hx_fail(RES, "operator-wrong-rank", "%s operator of operation %d called on rank %d for tile (%d,%d) that lives on rank %d", who, k, rank, m, n, FILLN[0][m][n] ? OWNER[0][m][n] : -1); return 0; }
    sim_hash_event(0xA0000000ULL ^ ((uint64_t)k << 24) ^ ((uint64_t)m << 12) ^ (uint64_t)n);
    return 1;
}
void math_apply_op(int rank, long cookie, const void *desc_seen, int desc_ok, int uplo_arg, int m, int n, void *tile)
{
    (void)desc_seen;
    int k = op_of_cookie(rank, cookie, "apply");
    if (k < 0) return;
    const mat_op_t *o = &SH.ops[k];
    const mat_desc_t *d = DESC[0];
    if (!visit(rank, k, "apply", m, n)) return;
    if (!desc_ok) { hx_fail(RES, "operator-wrong-argument", "apply operator of operation %d, tile (%d,%d): descriptor argument is not the matrix given to parsec_apply", k, m, n); return; }
    if (tile != PTR[0][m][n]) { hx_fail(RES, "operator-wrong-tile", "apply operator of operation %d was given %p for tile (%d,%d), which lives at %p", k, tile, m, n, PTR[0][m][n]); return; }
    int want = m == n ? o->uplo : MU_FULL;
    if (uplo_arg != want) { hx_fail(RES, "operator-wrong-argument", "apply operator of operation %d, tile (%d,%d): uplo argument %d, expected %d (0 full, 1 upper, 2 lower)", k, m, n, uplo_arg, want); return; }
    for (int e = 0; e < d->mb * d->nb; e++) wr(tile, d->mtype, e, rd(tile, d->mtype, e) + delta_of(k));
}
void math_map_op(int rank, long cookie, int m, int n, const void *src, void *dst)
{
    int k = op_of_cookie(rank, cookie, "map");
    if (k < 0) return;
    const mat_op_t *o = &SH.ops[k];
    const mat_desc_t *d = DESC[0];
    if (!visit(rank, k, "map", m, n)) return;
    if (src != PTR[0][m][n]) { hx_fail(RES, "operator-wrong-tile", "map operator of operation %d was given source %p for tile (%d,%d), which lives at %p", k, src, m, n, PTR[0][m][n]); return; }
    void *wantd = o->destmode == 0 ? NULL : o->destmode == 1 ? PTR[0][m][n] : PTR[1][m][n];
    if (dst != wantd) { hx_fail(RES, "operator-wrong-tile", "map operator of operation %d was given destination %p for tile (%d,%d), expected %p (dest mode %d)", k, dst, m, n, wantd, o->destmode); return; }
    if (dst) for (int e = 0; e < d->mb * d->nb; e++) wr(dst, d->mtype, e, rd(src, d->mtype, e) + delta_of(k));
}
void math_reduce_op(int rank, long cookie, const void *src, void *dst)
{
    int k = op_of_cookie(rank, cookie, "reduce");
    if (k < 0) return;
    const mat_desc_t *d = DESC[0];
    REDUCE_CALLS[k]++;
    if (!src || !dst) return;
    for (int e = 0; e < d->mb * d->nb; e++) {
        double a = rd(src, d->mtype, e), b = rd(dst, d->mtype, e);
        wr(dst, d->mtype, e, SH.ops[k].redop ? (a > b ? a : b) : a + b);
    }
}

/* which rank owns tile (m,n) according to the documented distribution (2D block cyclic, tabular): only used to
 * recognise plans in which some rank owns no tile (knob mapempty, abort description), never as an oracle */
static int model_owner(const mat_desc_t *d, int nranks, int m, int n)
{
    if (d->dist == MD_2DBC) return (((m / d->kp) % d->P + d->ip) % d->P) * d->Q + ((n / d->kq) % d->Q + d->jq) % d->Q;
    if (d->dist == MD_TAB) {
        int lmt = (d->M + d->mb - 1) / d->mb;
        uint64_t s = 0x7ab1e000ULL + d->seed;
        uint64_t v = 0;
        for (int p = 0; p <= n * lmt + m; p++) v = sim_splitmix(&s);
        return (int)(v % (uint64_t)nranks);
    }
    return -1;
}
static int some_rank_without_tiles(const mat_desc_t *d, int nranks)
{
    int have[16] = {0}, lmt = (d->M + d->mb - 1) / d->mb, lnt = (d->N + d->nb - 1) / d->nb;
    for (int m = 0; m < lmt; m++) for (int n = 0; n < lnt; n++) { int r = model_owner(d, nranks, m, n); if (r >= 0 && r < 16) have[r] = 1; }
    for (int r = 0; r < nranks; r++) if (!have[r]) return 1;
    return 0;
}

/* ---- plan <-> shared ---- */
static int clampi(long v, int lo, int hi) { return v < lo ? lo : v > hi ? hi : (int)v; }
static void decode_desc(const hx_plan_t *p, const char *pre, mat_desc_t *d, int nranks, int allow_sym)
{
    char k[32];
    snprintf(k, sizeof(k), "%s_shape", pre);
    long s = hx_knob(p, k, 4 | (4 << 8) | (2 << 16) | (2 << 24));
    d->M = clampi(s & 0xff, 1, 16); d->N = clampi((s >> 8) & 0xff, 1, 16);
    d->mb = clampi((s >> 16) & 0xff, 1, 6); d->nb = clampi((s >> 24) & 0xff, 1, 6);
    snprintf(k, sizeof(k), "%s_grid", pre);
    long g = hx_knob(p, k, 1 | (1 << 4) | (1 << 8));
    int P = clampi(g & 0xf, 1, nranks);
    while (nranks % P) P--;
    d->P = P; d->Q = nranks / P;
    d->kp = clampi((g >> 4) & 0xf, 1, 4); d->kq = clampi((g >> 8) & 0xf, 1, 4);
    d->ip = (int)((g >> 12) & 0xf) % d->P; d->jq = (int)((g >> 16) & 0xf) % d->Q;
    d->uplo = ((g >> 20) & 0xf) == MU_UPPER ? MU_UPPER : MU_LOWER;
    d->dist = (int)((g >> 24) & 0xf);
    if (d->dist > MD_SYM) d->dist = MD_2DBC;
    if (d->dist == MD_SYM && !allow_sym) d->dist = MD_2DBC;
    if (d->dist == MD_SBC) {
        /* parsec_matrix_sbc_init needs nodes == r(r-1)/2 or (r even) r*r/2 */
        if (nranks == 1 || nranks == 2) d->r = 2; else if (nranks == 3) d->r = 3; else d->dist = MD_2DBC;
    }
    if (d->dist != MD_2DBC) { d->kp = d->kq = 1; d->ip = d->jq = 0; }
    if (d->dist == MD_SYM) { d->N = d->M; d->nb = d->mb; }     /* symmetric storage describes a square matrix (its tile counting assumes lmt == lnt) */
    snprintf(k, sizeof(k), "%s_seed", pre);
    d->seed = (unsigned)hx_knob(p, k, 1);
}
static long pack_shape(int M, int N, int mb, int nb) { return M | (N << 8) | (mb << 16) | ((long)nb << 24); }
static long pack_grid(int dist, int P, int kp, int kq, int ip, int jq, int uplo) { return P | (kp << 4) | (kq << 8) | (ip << 12) | (jq << 16) | (uplo << 20) | ((long)dist << 24); }

static void plan_to_shared(const hx_plan_t *p)
{
    memset(&SH, 0, sizeof(SH));
    PROP = (int)hx_knob(p, "prop", 21);
    SH.prop = PROP;
    SH.nranks = clampi(hx_knob(p, "nranks", 1), 1, hx_rank_count < MAT_MAX_RANKS ? hx_rank_count : MAT_MAX_RANKS);
    SH.nthreads = clampi(hx_knob(p, "nthreads", 2), 1, 8);
    SH.barrier = (int)hx_knob(p, "barrier", 0) ? 1 : 0;
    decode_desc(p, "a", &SH.A, SH.nranks, PROP == 22);
    if (PROP == 21) {
        decode_desc(p, "b", &SH.B, SH.nranks, 0);
        SH.A.mtype = SH.B.mtype = MTY_DOUBLE;   /* redistribute_internal.h fixes DTYPE to double */
    } else {
        SH.A.mtype = hx_knob(p, "type", 0) ? MTY_INT : MTY_DOUBLE;
        SH.B = SH.A;                            /* same shape and distribution ("aligned") */
    }
    int lmt = (SH.A.M + SH.A.mb - 1) / SH.A.mb;
    long red = hx_knob(p, "red", 1);
    for (int i = 0; i < p->nops && SH.nops < MAT_MAX_OPS; i++) {
        const hx_op_t *o = &p->ops[i];
        mat_op_t *m = &SH.ops[SH.nops];
        memset(m, 0, sizeof(*m));
        m->variant = (int)(o->c & 1);
        if (PROP == 21) {
            if (o->op != OP_REDIST) continue;
            m->kind = MO_REDIST;
            const mat_desc_t *y = &SH.A, *t = &SH.B;
            /* window inside both matrices; bit 2 of c: bounds are the stored (padded) extents lmt*mb, which the
             * API accepts, instead of M x N */
            int pad = (int)((o->c >> 2) & 1);
            int YM = pad ? ((y->M + y->mb - 1) / y->mb) * y->mb : y->M, YN = pad ? ((y->N + y->nb - 1) / y->nb) * y->nb : y->N;
            int TM = pad ? ((t->M + t->mb - 1) / t->mb) * t->mb : t->M, TN = pad ? ((t->N + t->nb - 1) / t->nb) * t->nb : t->N;
            int maxr = YM < TM ? YM : TM, maxc = YN < TN ? YN : TN;
            m->size_row = 1 + (int)((o->a & 0xff) % maxr);
            m->size_col = 1 + (int)(((o->a >> 8) & 0xff) % maxc);
            m->disi_Y = (int)((o->b & 0xff) % (YM - m->size_row + 1));
            m->disj_Y = (int)(((o->b >> 8) & 0xff) % (YN - m->size_col + 1));
            m->disi_T = (int)(((o->b >> 16) & 0xff) % (TM - m->size_row + 1));
            m->disj_T = (int)(((o->b >> 24) & 0xff) % (TN - m->size_col + 1));
            /* snap displacements to tile boundaries (keeps them legal: rounds down): bit 1 of c = all four, bits 4..7 = one each */
            int snapm = ((o->c >> 1) & 1) ? 15 : (int)((o->c >> 4) & 15);
            if (snapm & 1) m->disi_Y -= m->disi_Y % y->mb;
            if (snapm & 2) m->disj_Y -= m->disj_Y % y->nb;
            if (snapm & 4) m->disi_T -= m->disi_T % t->mb;
            if (snapm & 8) m->disj_T -= m->disj_T % t->nb;
        } else {
            int sym = SH.A.dist == MD_SYM || SH.A.dist == MD_SBC;
            if (o->op == OP_APPLY) {
                m->kind = MO_APPLY;
                m->uplo = (int)(o->a % 3);
                if (sym) m->uplo = SH.A.uplo;        /* only the stored triangle may be referenced */
            } else if (o->op == OP_MAP) {
                if (sym) continue;                   /* map_operator walks the full tile grid */
                /* knob mapempty=0: skip plans that run into the known defect "parsec_map_operator never terminates on a rank that owns no tile" */
                if (!hx_knob(p, "mapempty", 1) && some_rank_without_tiles(&SH.A, SH.nranks)) continue;
                m->kind = MO_MAP;
                m->destmode = (int)(o->a % 3);
            } else if (o->op == OP_REDUCE) {
                if (sym) continue;
                int kind = (int)(o->a % 3);
                if (!((red >> kind) & 1)) continue;
                m->kind = kind == 0 ? MO_REDUCE : kind == 1 ? MO_REDUCE_COL : MO_REDUCE_ROW;
                m->redop = (int)(o->b & 1);
                /* reduce.jdf references descA(2p,0) for p up to MT/2: only an odd MT keeps every reference inside the matrix */
                if (m->kind == MO_REDUCE && !(lmt & 1)) continue;
                /* ... and reduce(l,p), placed on descA(p,0), reads descA(2p,0) and descA(2p+1,0) directly: legal only when tile column 0 lives on one rank
                 * (tests/collections/reduce.c uses a 1 x world grid) */
                if (m->kind == MO_REDUCE && SH.nranks > 1 && !(SH.A.dist == MD_2DBC && SH.A.P == 1)) continue;
                if (m->kind != MO_REDUCE && SH.A.dist != MD_2DBC) continue;
            } else continue;
        }
        SH.nops++;
    }
}

static void gen_desc(hx_rng_t *r, int nranks, int allow_sbc, int allow_sym, int *M, int *N, int *mb, int *nb, long *grid)
{
    *mb = (int)hx_range(r, 1, 5); *nb = (int)hx_range(r, 1, 5);
    int mt = hx_chance(r, 70) ? (int)hx_range(r, 1, 4) : (int)hx_range(r, 5, 6), nt = hx_chance(r, 70) ? (int)hx_range(r, 1, 4) : (int)hx_range(r, 5, 6);
    *M = mt * *mb - (hx_chance(r, 50) ? (int)hx_below(r, *mb) : 0);
    *N = nt * *nb - (hx_chance(r, 50) ? (int)hx_below(r, *nb) : 0);
    if (*M > 12) *M = 12;
    if (*N > 12) *N = 12;
    int q = (int)hx_below(r, 100);
    int dist = MD_2DBC;
    if (q < 20 && allow_sbc && nranks <= 3) dist = MD_SBC;
    else if (q < 38) dist = MD_TAB;
    else if (q < 58 && allow_sym) dist = MD_SYM;
    int P = 1 + (int)hx_below(r, nranks);
    while (nranks % P) P--;
    int Q = nranks / P;
    int kp = hx_chance(r, 65) ? 1 : (int)hx_range(r, 2, 3), kq = hx_chance(r, 65) ? 1 : (int)hx_range(r, 2, 3);
    *grid = pack_grid(dist, P, kp, kq, (int)hx_below(r, P), (int)hx_below(r, Q), hx_chance(r, 50) ? MU_UPPER : MU_LOWER);
}

static void gen(hx_plan_t *p, hx_rng_t *r)
{
    int prop = (int)hx_cli_knob("prop", 21);
    hx_set_knob(p, "prop", prop);
    int P = hx_chance(r, 35) ? 1 : (int)hx_range(r, 2, hx_rank_count > 1 ? hx_rank_count : 1);
    if (hx_cli_knob("nranks", 0) > 0) P = (int)hx_cli_knob("nranks", 0);
    if (P > hx_rank_count) P = hx_rank_count;
    hx_set_knob(p, "nranks", P);
    hx_set_knob(p, "nthreads", hx_range(r, 1, 4));
    hx_set_knob(p, "sched", hx_below(r, NSCHED));
    hx_set_knob(p, "barrier", hx_chance(r, 40));
    hx_set_knob(p, "net_lat", hx_chance(r, 50) ? 1000 : hx_range(r, 100, 200000));
    hx_set_knob(p, "net_jit", hx_chance(r, 30) ? 0 : hx_range(r, 100, 400000));
    hx_set_knob(p, "net_heavy", hx_chance(r, 30) ? hx_range(r, 1, 20) : 0);
    static const long eag[] = {0, 64, 65536, 1 << 30};
    hx_set_knob(p, "net_eager", eag[hx_below(r, 4)]);
    hx_set_knob(p, "net_partial", hx_chance(r, 40) ? hx_range(r, 5, 60) : 0);
    hx_set_knob(p, "net_lag", hx_chance(r, 40) ? hx_range(r, 5, 40) : 0);
    hx_set_knob(p, "net_late", hx_chance(r, 30) ? hx_range(r, 5, 60) : 0);
    static const int bc[] = {-1, 0, 1, 2};
    hx_set_knob(p, "coll_bcast", bc[hx_below(r, 4)]);
    hx_set_knob(p, "short_limit", hx_chance(r, 50) ? -1 : 0);
    hx_set_knob(p, "aggregate", hx_chance(r, 30) ? 0 : -1);
    hx_set_knob(p, "thread_multiple", hx_chance(r, 50) ? -1 : hx_chance(r, 50));
    hx_set_knob(p, "mpi_multiple", hx_chance(r, 50));
    int M, N, mb, nb;
    long grid;
    if (prop == 21) {
        gen_desc(r, P, 1, 0, &M, &N, &mb, &nb, &grid);
        hx_set_knob(p, "a_shape", pack_shape(M, N, mb, nb));
        hx_set_knob(p, "a_grid", grid);
        hx_set_knob(p, "a_seed", hx_below(r, 1000));
        int M2, N2, mb2, nb2;
        long grid2;
        gen_desc(r, P, 1, 0, &M2, &N2, &mb2, &nb2, &grid2);
        int same_tiles = hx_chance(r, 45);
        if (same_tiles) {
            /* same tile sizes: the optimised "reshuffle" path becomes reachable */
            int mt2 = (M2 + mb2 - 1) / mb2, nt2 = (N2 + nb2 - 1) / nb2;
            mb2 = mb; nb2 = nb;
            M2 = mt2 * mb2 - (hx_chance(r, 50) ? (int)hx_below(r, mb2) : 0); if (M2 > 12) M2 = 12;
            N2 = nt2 * nb2 - (hx_chance(r, 50) ? (int)hx_below(r, nb2) : 0); if (N2 > 12) N2 = 12;
        }
        hx_set_knob(p, "b_shape", pack_shape(M2, N2, mb2, nb2));
        hx_set_knob(p, "b_grid", grid2);
        hx_set_knob(p, "b_seed", hx_below(r, 1000));
        mat_desc_t dy, dt;
        decode_desc(p, "a", &dy, P, 0);
        decode_desc(p, "b", &dt, P, 0);
        int nops = hx_chance(r, 70) ? 1 : 2;
        for (int i = 0; i < nops; i++) {
            int pad = hx_chance(r, 10);
            int YM = pad ? ((M + mb - 1) / mb) * mb : M, YN = pad ? ((N + nb - 1) / nb) * nb : N;
            int TM = pad ? ((M2 + mb2 - 1) / mb2) * mb2 : M2, TN = pad ? ((N2 + nb2 - 1) / nb2) * nb2 : N2;
            int maxr = YM < TM ? YM : TM, maxc = YN < TN ? YN : TN;
            /* with equal tile sizes: all four displacements aligned (reshuffle path), or all but one or two (general path next to the
             * selection boundary), or unconstrained */
            int snap = 0;
            if (same_tiles) { int q = (int)hx_below(r, 100); snap = q < 50 ? 15 : q < 85 ? (int)(15 & ~(1 << hx_below(r, 4)) & ~(hx_chance(r, 30) ? 1 << hx_below(r, 4) : 0)) : 0; }
            else if (hx_chance(r, 10)) snap = 15;
            /* an SBC matrix only stores one triangle: retry until the window references stored tiles only (a refused
             * call is kept in 1 plan out of 10 of those that never fit) */
            int sr = 1, sc = 1, dyi = 0, dyj = 0, dti = 0, dtj = 0;
            for (int tries = 0; tries < 40; tries++) {
                /* bias towards large windows (several tiles) but keep small ones */
                sr = hx_chance(r, 50) ? (int)hx_range(r, (maxr + 1) / 2, maxr) : (int)hx_range(r, 1, maxr);
                sc = hx_chance(r, 50) ? (int)hx_range(r, (maxc + 1) / 2, maxc) : (int)hx_range(r, 1, maxc);
                dyi = (int)hx_below(r, YM - sr + 1); dyj = (int)hx_below(r, YN - sc + 1);
                dti = (int)hx_below(r, TM - sr + 1); dtj = (int)hx_below(r, TN - sc + 1);
                int a0 = dyi, a1 = dyj, a2 = dti, a3 = dtj;
                if (snap & 1) a0 -= a0 % mb;
                if (snap & 2) a1 -= a1 % nb;
                if (snap & 4) a2 -= a2 % mb2;
                if (snap & 8) a3 -= a3 % nb2;
                if (sbc_region_stored(&dy, sr, sc, a0, a1) && sbc_region_stored(&dt, sr, sc, a2, a3)) break;
                if (tries == 0 && hx_chance(r, 15)) break;
            }
            long a = (sr - 1) | ((sc - 1) << 8);
            long b = dyi | (dyj << 8) | (dti << 16) | ((long)dtj << 24);
            long c = hx_below(r, 2) | (pad << 2) | (snap << 4);
            hx_add_op(p, 0, OP_REDIST, a, b, c);
        }
    } else {
        long red = hx_cli_knob("red", 7);
        hx_set_knob(p, "red", red);
        hx_set_knob(p, "mapempty", hx_cli_knob("mapempty", 1));
        gen_desc(r, P, 1, 1, &M, &N, &mb, &nb, &grid);
        hx_set_knob(p, "a_shape", pack_shape(M, N, mb, nb));
        hx_set_knob(p, "a_grid", grid);
        hx_set_knob(p, "a_seed", hx_below(r, 1000));
        hx_set_knob(p, "type", hx_chance(r, 50));
        int nops = (int)hx_range(r, 1, 3);
        for (int i = 0; i < nops; i++) {
            int q = (int)hx_below(r, 100);
            if (q < 55) hx_add_op(p, 0, OP_APPLY, hx_below(r, 3), 0, hx_below(r, 2));
            else if (q < 88 || !red) hx_add_op(p, 0, OP_MAP, hx_below(r, 3), 0, 0);
            else {
                int kinds[3], nk = 0;
                for (int k = 0; k < 3; k++) if ((red >> k) & 1) kinds[nk++] = k;
                int kd = kinds[hx_below(r, nk)];
                /* the column / row reductions of this tree are stubs (known finding KF-REDUCE-STUBS): keep them rare so that they shadow few plans */
                if (kd != 0 && (red & 1) && !hx_cli_knob("red_often", 0) && !hx_chance(r, 30)) kd = 0;
                hx_add_op(p, 0, OP_REDUCE, kd, hx_below(r, 2), 0);
            }
        }
    }
}

static void setenv_int(const char *k, long v) { char b[32]; snprintf(b, sizeof(b), "%ld", v); setenv(k, b, 1); }
static void knob_env(const hx_plan_t *p, const char *knob, const char *env, long unset_if)
{
    long v = hx_knob(p, knob, unset_if);
    if (v == unset_if) unsetenv(env); else setenv_int(env, v);
}

static void init(void)
{
    setenv("HWLOC_SYNTHETIC", "pack:1 core:16 pu:1", 1);
    setenv("HWLOC_THISSYSTEM", "0", 1);
    char tmpl[] = "/tmp/verif_home_XXXXXX";
    char *d = hx_scratch_dir(tmpl);
    if (d) setenv("HOME", d, 1);
    extern char **environ;
    for (char **e = environ; *e;) {
        if (!strncmp(*e, "PARSEC_MCA_", 11)) { char nm[128]; snprintf(nm, sizeof(nm), "%.*s", (int)(strchr(*e, '=') - *e), *e); unsetenv(nm); e = environ; }
        else e++;
    }
}

static void *rank_tramp(void *a)
{
    mat_rank_arg_t *ra = a;
    sim_set_rank(ra->rank);
    return hx_rank_mains[ra->rank](a);
}

static const char *dist_name(int d) { return d == MD_2DBC ? "2dbc" : d == MD_SBC ? "sbc" : d == MD_TAB ? "tabular" : "sym2dbc"; }
static int desc_str(char *b, size_t n, const mat_desc_t *d)
{
    if (d->dist == MD_2DBC) return snprintf(b, n, "2dbc %dx%d tiles %dx%d grid %dx%d k%d,%d o%d,%d", d->M, d->N, d->mb, d->nb, d->P, d->Q, d->kp, d->kq, d->ip, d->jq);
    if (d->dist == MD_SYM) return snprintf(b, n, "sym2dbc-%s %dx%d tiles %dx%d grid %dx%d", d->uplo == MU_UPPER ? "upper" : "lower", d->M, d->N, d->mb, d->nb, d->P, d->Q);
    if (d->dist == MD_SBC) return snprintf(b, n, "sbc-%s %dx%d tiles %dx%d r=%d", d->uplo == MU_UPPER ? "upper" : "lower", d->M, d->N, d->mb, d->nb, d->r);
    return snprintf(b, n, "tabular %dx%d tiles %dx%d seed %u", d->M, d->N, d->mb, d->nb, d->seed);
}

static int reshuffle_expected(const mat_op_t *o)
{
    const mat_desc_t *y = &SH.A, *t = &SH.B;
    return y->mb == t->mb && y->nb == t->nb && o->disi_Y % y->mb == 0 && o->disj_Y % y->nb == 0 && o->disi_T % t->mb == 0 && o->disj_T % t->nb == 0;
}

static void compare_matrix(hx_result_t *res, int k, int w, const char *what)
{
    const mat_desc_t *d = DESC[w];
    const mat_op_t *o = &SH.ops[k];
    for (int m = 0; m < GE[w].lmt && !res->vclass; m++) for (int n = 0; n < GE[w].lnt && !res->vclass; n++) {
        if (!stored(d, m, n)) continue;
        if (SNAPN[k][w][m][n] != 1) { hx_fail(res, "tile-not-published", "operation %d: tile (%d,%d) of %s was published %d times (expected once, by its owner)", k, m, n, what, SNAPN[k][w][m][n]); return; }
        if (DONTCARE[k][w][m][n]) continue;
        for (int i = 0; i < d->mb && !res->vclass; i++) for (int j = 0; j < d->nb && !res->vclass; j++) {
            int I = m * d->mb + i, J = n * d->nb + j;
            double got = SNAP[k][w][I][J], want = MODEL[k][w][I][J];
            if (got == want) continue;
            if (o->kind == MO_REDIST && w == 1) {
                int inwin = I >= o->disi_T && I < o->disi_T + o->size_row && J >= o->disj_T && J < o->disj_T + o->size_col;
                int padding = I >= d->M || J >= d->N;
                const char *path = reshuffle_expected(o) ? "reshuffle" : "general";
                if (inwin)
                    hx_fail(res, got == INIT[1][I][J] || (k && got == MODEL[k - 1][1][I][J]) ? "window-element-not-copied" : "window-element-wrong",
                            "operation %d (%s path, window %dx%d from (%d,%d) to (%d,%d)): target(%d,%d) [tile (%d,%d)] is %.0f, the source element (%d,%d) holds %.0f", k, path, o->size_row, o->size_col,
                            o->disi_Y, o->disj_Y, o->disi_T, o->disj_T, I, J, m, n, got, I - o->disi_T + o->disi_Y, J - o->disj_T + o->disj_Y, want);
                else
                    hx_fail(res, padding ? "outside-window-padding-overwritten" : "outside-window-overwritten",
                            "operation %d (%s path, window %dx%d from (%d,%d) to (%d,%d)): target(%d,%d) [tile (%d,%d)%s] is outside the window but changed from %.0f to %.0f", k, path, o->size_row, o->size_col,
                            o->disi_Y, o->disj_Y, o->disi_T, o->disj_T, I, J, m, n, padding ? ", tile padding beyond the matrix" : "", want, got);
            } else if (o->kind == MO_REDIST) {
                hx_fail(res, "source-modified", "operation %d: source(%d,%d) changed from %.0f to %.0f", k, I, J, want, got);
            } else {
                hx_fail(res, "wrong-contents", "operation %d (%s): %s(%d,%d) [tile (%d,%d)] is %.0f, expected %.0f", k, opnames[o->kind == MO_APPLY ? OP_APPLY : o->kind == MO_MAP ? OP_MAP : OP_REDUCE], what, I, J, m, n, got, want);
            }
        }
    }
}

static void run(const hx_plan_t *p, hx_result_t *res)
{
    RES = res;
    plan_to_shared(p);
    build_model();
    if (getenv("VERIF_DUMP_SHARED")) {   /* for a real-runtime reproduction: same mat_shared_t, real MPI */
        FILE *f = fopen(getenv("VERIF_DUMP_SHARED"), "wb");
        if (f) { fwrite(&SH, sizeof(SH), 1, f); fclose(f); }
    }
    memset(SNAP, 0, sizeof(SNAP)); memset(SNAPN, 0, sizeof(SNAPN)); memset(PTR, 0, sizeof(PTR)); memset(OWNER, 0, sizeof(OWNER));
    memset(FILLN, 0, sizeof(FILLN)); memset(CNT, 0, sizeof(CNT)); memset(REDUCE_CALLS, 0, sizeof(REDUCE_CALLS)); memset(CUR_OP, 0, sizeof(CUR_OP));
    memset(OP_STATE, 0, sizeof(OP_STATE)); memset(RC, 0, sizeof(RC)); memset(RC_SET, 0, sizeof(RC_SET)); memset(PATH, 0, sizeof(PATH)); memset(VEC0_OK, 0, sizeof(VEC0_OK));
    for (int k = 0; k < 16; k++) CUR_OP[k] = -1;
    setenv("PARSEC_MCA_mca_sched", SCHEDS[hx_knob(p, "sched", 0) % NSCHED], 1);
    knob_env(p, "coll_bcast", "PARSEC_MCA_runtime_comm_coll_bcast", -1);
    knob_env(p, "short_limit", "PARSEC_MCA_runtime_comm_short_limit", -1);
    knob_env(p, "aggregate", "PARSEC_MCA_runtime_comm_aggregate", -1);
    knob_env(p, "thread_multiple", "PARSEC_MCA_runtime_comm_thread_multiple", -1);
    /* static probes (shape of the workload) */
    if (SH.nranks > 1) sim_probe(PR_MULTIRANK);
    if (SH.nops > 1) sim_probe(PR_TWO_OPS);
    if (SH.A.dist == MD_SBC || (PROP == 21 && SH.B.dist == MD_SBC)) sim_probe(PR_SBC);
    if (SH.A.dist == MD_TAB || (PROP == 21 && SH.B.dist == MD_TAB)) sim_probe(PR_TAB);
    if (GE[0].lmt != GE[0].lnt) sim_probe(PR_NONSQUARE);
    for (int k = 0; k < SH.nops; k++) {
        const mat_op_t *o = &SH.ops[k];
        if (o->kind == MO_REDIST) {
            if (SH.A.mb != SH.B.mb || SH.A.nb != SH.B.nb) sim_probe(PR_TILES_DIFFER);
            if (o->disi_Y % SH.A.mb || o->disj_Y % SH.A.nb || o->disi_T % SH.B.mb || o->disj_T % SH.B.nb) sim_probe(PR_UNALIGNED);
            if ((o->disi_T + o->size_row) % SH.B.mb || (o->disj_T + o->size_col) % SH.B.nb) sim_probe(PR_PARTIAL_LAST);
            if (!EXPECT_OK[k]) sim_probe(PR_REFUSED);
        } else if (o->kind == MO_APPLY) {
            sim_probe(o->uplo == MU_UPPER ? PR_APPLY_UPPER : o->uplo == MU_LOWER ? PR_APPLY_LOWER : PR_APPLY_FULL);
            if (SH.A.dist == MD_SYM || SH.A.dist == MD_SBC) sim_probe(PR_APPLY_SYM);
        } else if (o->kind == MO_MAP) { sim_probe(PR_MAP); if (o->destmode) sim_probe(PR_MAP_DEST); }
        else sim_probe(PR_REDUCE);
    }
    simmpi_cfg_t cfg;
    memset(&cfg, 0, sizeof(cfg));
    cfg.lat_base_ns = (uint64_t)hx_knob(p, "net_lat", 1000);
    cfg.lat_jitter_ns = (uint64_t)hx_knob(p, "net_jit", 1000);
    cfg.heavy_tail_pct = (int)hx_knob(p, "net_heavy", 0);
    cfg.eager_limit = hx_knob(p, "net_eager", 65536);
    cfg.testsome_partial_pct = (int)hx_knob(p, "net_partial", 0);
    cfg.testsome_lag_pct = (int)hx_knob(p, "net_lag", 0);
    cfg.testsome_lag_max = 3;
    cfg.late_send_pct = (int)hx_knob(p, "net_late", 0);
    cfg.thread_level = hx_knob(p, "mpi_multiple", 0) ? 3 /* MPI_THREAD_MULTIPLE */ : 0;      /* the library grants MPI_THREAD_MULTIPLE although the driver asks for SERIALIZED: PaRSEC then goes multi-threaded on MPI */
    simmpi_reset(SH.nranks, hx_current_seed(), &cfg);
    pthread_t pt[16];
    mat_rank_arg_t ra[16];
    for (int k = 0; k < SH.nranks; k++) { ra[k].sh = &SH; ra[k].rank = k; pthread_create(&pt[k], NULL, rank_tramp, &ra[k]); }
    for (int k = 0; k < SH.nranks; k++) pthread_join(pt[k], NULL);

    /* ---- end-of-run oracles ---- */
    for (int k = 0; k < SH.nranks && !res->vclass; k++) if (!SH.rank_done[k]) hx_fail(res, "rank-not-finished", "rank %d did not reach the end of its program", k);
    /* every stored tile lives on exactly one rank */
    for (int w = 0; w < 2 && !res->vclass; w++) {
        int have[16] = {0};
        for (int m = 0; m < GE[w].lmt && !res->vclass; m++) for (int n = 0; n < GE[w].lnt && !res->vclass; n++) {
            if (!stored(DESC[w], m, n)) continue;
            if (FILLN[w][m][n] != 1) hx_fail(res, "tile-without-owner", "tile (%d,%d) of matrix %c is local on %d ranks", m, n, "AB"[w], FILLN[w][m][n]);
            else { have[OWNER[w][m][n]]++; if (w == 1 && PROP == 21) for (int k = 0; k < SH.nops; k++) { const mat_op_t *o = &SH.ops[k];
                /* probe: does some element of the window move between ranks? (owner of a target tile in the window != owner of a source tile it reads) */
                if (o->kind != MO_REDIST || !EXPECT_OK[k]) continue;
                int i0 = m * SH.B.mb, j0 = n * SH.B.nb;
                if (i0 + SH.B.mb <= o->disi_T || i0 >= o->disi_T + o->size_row || j0 + SH.B.nb <= o->disj_T || j0 >= o->disj_T + o->size_col) continue;
                int I = i0 > o->disi_T ? i0 : o->disi_T, J = j0 > o->disj_T ? j0 : o->disj_T;
                int ym = (I - o->disi_T + o->disi_Y) / SH.A.mb, yn = (J - o->disj_T + o->disj_Y) / SH.A.nb;
                if (FILLN[0][ym][yn] == 1 && OWNER[0][ym][yn] != OWNER[1][m][n]) sim_probe(PR_REMOTE_COPY);
            } }
        }
        if (w == 0) for (int k = 0; k < SH.nranks; k++) if (!have[k]) { sim_probe(PR_EMPTY_RANK); break; }
    }
    for (int k = 0; k < SH.nops && !res->vclass; k++) {
        const mat_op_t *o = &SH.ops[k];
        /* return codes: identical on every rank, success iff the model says the call is legal */
        for (int r = 0; r < SH.nranks && !res->vclass; r++) {
            if (!RC_SET[k][r]) { hx_fail(res, "rank-not-finished", "rank %d never returned from operation %d", r, k); break; }
            int ok = RC[k][r] >= 0;
            if (ok != EXPECT_OK[k])
                hx_fail(res, ok ? "illegal-call-accepted" : "legal-call-refused", "operation %d (%s) returned %ld on rank %d; the reference model says the call %s", k,
                        o->kind == MO_REDIST ? "redistribute" : "operator", RC[k][r], r, EXPECT_OK[k] ? "is legal" : "references tiles an SBC matrix does not store");
        }
        if (res->vclass) break;
        if (o->kind == MO_APPLY || o->kind == MO_MAP)
            for (int m = 0; m < GE[0].lmt && !res->vclass; m++) for (int n = 0; n < GE[0].lnt && !res->vclass; n++)
                if (REGION[k][m][n] && CNT[k][m][n] != 1)
                    hx_fail(res, CNT[k][m][n] ? "operator-twice" : "operator-missed-tile", "operation %d (%s%s): the operator ran %d times on tile (%d,%d) of the %dx%d-tile matrix (owner rank %d)", k,
                            o->kind == MO_APPLY ? "apply " : "map_operator", o->kind == MO_APPLY ? (o->uplo == MU_FULL ? "full" : o->uplo == MU_UPPER ? "upper" : "lower") : "", CNT[k][m][n], m, n,
                            GE[0].lmt, GE[0].lnt, OWNER[0][m][n]);
        if (res->vclass) break;
        compare_matrix(res, k, 0, PROP == 21 ? "source" : "A");
        if (!res->vclass) compare_matrix(res, k, 1, PROP == 21 ? "target" : "B");
        if (!res->vclass && (o->kind == MO_REDUCE_COL || o->kind == MO_REDUCE_ROW)) {
            /* C22 as stated: every tile combined once, result == sequential fold with the (commutative, associative) operator.
             * Entry 0 of the result vector = fold of column 0 (reduce_col) / row 0 (reduce_row). */
            const mat_desc_t *d = DESC[0];
            int cnt = o->kind == MO_REDUCE_COL ? GE[0].lmt : GE[0].lnt;
            if (REDUCE_CALLS[k] == 0 && cnt > 1) hx_fail(res, "reduce-operator-never-called", "operation %d (%s): the reduction completed on every rank without ever invoking the operator (%d tiles to combine)", k, o->kind == MO_REDUCE_COL ? "reduce_col" : "reduce_row", cnt);
            else if (!VEC0_OK[k]) hx_fail(res, "reduce-wrong-result", "operation %d: no rank published the result entry 0", k);
            else for (int e = 0; e < d->mb * d->nb && e < 64 && !res->vclass; e++) {
                int i = e % d->mb, j = e / d->mb;
                double f = 0;
                for (int q = 0; q < cnt; q++) {
                    double v = o->kind == MO_REDUCE_COL ? MODEL[k][0][q * d->mb + i][j] : MODEL[k][0][i][q * d->nb + j];
                    f = q == 0 ? v : o->redop ? (v > f ? v : f) : f + v;
                }
                if (VEC0[k][e] != f) hx_fail(res, "reduce-wrong-result", "operation %d (%s, %s): element %d of result entry 0 is %.0f, the sequential fold gives %.0f", k, o->kind == MO_REDUCE_COL ? "reduce_col" : "reduce_row", o->redop ? "max" : "sum", e, VEC0[k][e], f);
            }
        }
        for (int m = 0; m < GE[1].lmt; m++) for (int n = 0; n < GE[1].lnt; n++) hx_hash(res, ((uint64_t)k << 48) ^ ((uint64_t)m << 40) ^ ((uint64_t)n << 32) ^ (uint64_t)(int64_t)SNAP[k][1][m * DESC[1]->mb][n * DESC[1]->nb]);
    }
}

static void annotate(const hx_plan_t *p, char *buf, size_t n)
{
    plan_to_shared(p);
    char a[96], b[96];
    desc_str(a, sizeof(a), &SH.A);
    desc_str(b, sizeof(b), &SH.B);
    if (PROP == 21) snprintf(buf, n, "[Y=%s; T=%s; ranks=%d threads=%d sched=%s]", a, b, SH.nranks, SH.nthreads, SCHEDS[hx_knob(p, "sched", 0) % NSCHED]);
    else {
        int colrow = 0;
        for (int i = 0; i < p->nops; i++) if (p->ops[i].op == OP_REDUCE && (p->ops[i].a % 3) != 0) colrow = 1;
        snprintf(buf, n, "[A=%s %s; ranks=%d threads=%d sched=%s%s]", a, SH.A.mtype == MTY_INT ? "int" : "double", SH.nranks, SH.nthreads, SCHEDS[hx_knob(p, "sched", 0) % NSCHED],
                 colrow ? " plan-has-column-or-row-reduction" : "");
    }
    (void)dist_name;
}
/* characterise a hang from the harness's own bookkeeping (world stopped) */
static void describe_abort(char *buf, size_t n)
{
    size_t l = 0;
    for (int r = 0; r < SH.nranks && l < n; r++) {
        if (SH.rank_done[r]) l += snprintf(buf + l, n - l, "rank %d finished; ", r);
        else if (CUR_OP[r] < 0) l += snprintf(buf + l, n - l, "rank %d before its first operation; ", r);
        else {
            static const char *const kn[] = {"redistribute", "apply", "map_operator", "reduce", "reduce_col", "reduce_row"};
            int tiles = 0;
            for (int m = 0; m < GE[0].lmt; m++) for (int q = 0; q < GE[0].lnt; q++) if (FILLN[0][m][q] && OWNER[0][m][q] == r) tiles++;
            l += snprintf(buf + l, n - l, "rank %d %s operation %d (%s)%s; ", r, OP_STATE[r] ? "inside" : "after", CUR_OP[r], kn[SH.ops[CUR_OP[r]].kind],
                          OP_STATE[r] && !tiles ? (SH.ops[CUR_OP[r]].kind == MO_MAP ? " and owns no tile of the matrix [map-operator-on-tileless-rank]" : " and owns no tile of the matrix") : "");
        }
    }
    for (int k = 0; k < SH.nops && l < n; k++) {
        const mat_op_t *o = &SH.ops[k];
        if (o->kind != MO_APPLY && o->kind != MO_MAP) continue;
        int done = 0, total = 0;
        for (int m = 0; m < GE[0].lmt; m++) for (int q = 0; q < GE[0].lnt; q++) if (REGION[k][m][q]) { total++; if (CNT[k][m][q]) done++; }
        l += snprintf(buf + l, n - l, "operation %d: operator ran on %d of %d tiles; ", k, done, total);
    }
}

static void tune(const hx_plan_t *p, sim_params_t *sp)
{
    sp->quantum_ns = 20;
    /* complete runs need 3e4..5e6 scheduling points; PCT runs in which a spinning thread outranks the thread it waits for only
     * finish in the fair tail, so start the tail early and keep a long fair phase for the no-progress verdict */
    sp->max_steps = (uint64_t)hx_knob(p, "max_steps", 48000000);
    sp->tail_after = (uint64_t)hx_knob(p, "tail_after", 12000000);
}

static const hx_harness_t H = {
    .property = "C21", .name = "mat", .opnames = opnames, .nopnames = OP_N,
    .est_steps = 600000, .max_steps = 48000000, .gap_lo = 150, .gap_hi = 60000, .fork_per_run = 1,
    .gen = gen, .run = run, .init = init, .tune = tune, .describe_abort = describe_abort, .annotate = annotate,
    .probe_names = probe_names, .nprobes = PR_N,
};
int main(int argc, char **argv) { return hx_main(argc, argv, &H); }
