/* typed-flow PTG driver (C18): one copy per simulated rank, rankified with libparsec and the ptgpp-generated
 * code of the programs of gen/typed/gen.py.  Creates the collection (block-cyclic matrix of NT tiles of N x N
 * 8-byte elements, tile k on rank k % nranks) and the arena datatypes exactly as tests/collections/reshape
 * does (parsec_matrix_adt_define_rect / _lower / _upper -> parsec_matrix_define_triangle), runs one taskpool
 * and reports the collection tiles before and after.  No logic of its own. */
#include "parsec/runtime.h"
#include "parsec/data_dist/matrix/two_dim_rectangle_cyclic.h"
#include "parsec/data_dist/matrix/matrix.h"
#include "parsec/data_internal.h"
#include "parsec/parsec_internal.h"
#include "parsec/arena.h"
#include <mpi.h>
#include <stdlib.h>
#include <string.h>
#include <stdio.h>
#include "sim/core/sim.h"
#include "harness/l2/typed_common.h"
#include "typed_gen.h"

static typed_shared_t *SH;
static int MYRANK;

void *rank_main(void *arg)
{
    typed_rank_arg_t *ra = arg;
    SH = ra->sh;
    MYRANK = ra->rank;
    sim_set_rank(MYRANK);
    int prov, world, rank;
    MPI_Init_thread(NULL, NULL, MPI_THREAD_MULTIPLE, &prov);
    MPI_Comm_size(MPI_COMM_WORLD, &world);
    MPI_Comm_rank(MPI_COMM_WORLD, &rank);
    parsec_context_t *ctx = parsec_init(SH->nthreads, NULL, NULL);
    if (!ctx) { typedh_event(MYRANK, TE_INIT_FAILED, 0, 0); return NULL; }
    int n = SH->n, nt = SH->nt;

    /* the collection: nt x 1 tiles of n x n, rows of tiles dealt round-robin to the ranks */
    parsec_matrix_block_cyclic_t *m = calloc(1, sizeof(*m));
    parsec_matrix_block_cyclic_init(m, PARSEC_MATRIX_DOUBLE, PARSEC_MATRIX_TILE, rank, n, n, nt * n, n, 0, 0, nt * n, n, world, 1, 1, 1, 0, 0);
    m->mat = parsec_data_allocate((size_t)m->super.nb_local_tiles * (size_t)m->super.bsiz * sizeof(double));
    parsec_data_collection_t *DC = &m->super.super;
    parsec_data_collection_set_key(DC, "A");
    for (int k = 0; k < nt; k++) if ((int)DC->rank_of(DC, k, 0) == rank) {
        parsec_data_t *dt = DC->data_of(DC, k, 0);
        typedh_tile(MYRANK, k, 0, PARSEC_DATA_COPY_GET_PTR(parsec_data_get_copy(dt, 0)));      /* the harness fills in the initial contents */
    }

    /* arena datatypes, as DO_INI_DATATYPES of tests/collections/reshape/common.h */
    parsec_arena_datatype_t adts[TT_N];
    for (int t = 0; t < TT_N; t++) PARSEC_OBJ_CONSTRUCT(&adts[t], parsec_arena_datatype_t);
    parsec_matrix_adt_define_rect(&adts[TT_DEFAULT], parsec_datatype_double_t, n, n, n);
    parsec_matrix_adt_define_rect(&adts[TT_FULL], parsec_datatype_double_t, n, n, n);
    parsec_matrix_adt_define_lower(&adts[TT_LOWER], parsec_datatype_double_t, 1, n);
    parsec_matrix_adt_define_upper(&adts[TT_UPPER], parsec_datatype_double_t, 1, n);
    parsec_matrix_adt_define_lower(&adts[TT_LOWER2], parsec_datatype_double_t, 1, n);
    parsec_matrix_adt_define_upper(&adts[TT_UPPERX], parsec_datatype_double_t, 0, n);

    parsec_taskpool_t *tp = TYPED_MAKE(SH->prog, DC, SH->tab, nt, adts);
    typedh_event(MYRANK, TE_START, 0, 0);
    parsec_context_add_taskpool(ctx, tp);
    parsec_context_start(ctx);
    parsec_context_wait(ctx);
    typedh_event(MYRANK, TE_WAITED, 0, 0);
    parsec_taskpool_free(tp);

    for (int k = 0; k < nt; k++) if ((int)DC->rank_of(DC, k, 0) == rank) {
        parsec_data_t *dt = DC->data_of(DC, k, 0);
        typedh_tile(MYRANK, k, 1, PARSEC_DATA_COPY_GET_PTR(parsec_data_get_copy(dt, 0)));
    }
    for (int t = 0; t < TT_N; t++) parsec_matrix_arena_datatype_destruct_free_type(&adts[t]);
    parsec_data_free(m->mat);
    parsec_tiled_matrix_destroy(&m->super);
    free(m);
    parsec_fini(&ctx);
    MPI_Finalize();
    SH->rank_done[MYRANK] = 1;
    return NULL;
}
