/* shared between the (rankified, instrumented) comm-engine driver and the (plain) C14 harness */
#ifndef CE_COMMON_H
#define CE_COMMON_H
#include <stdint.h>
#include <stddef.h>

#define CE_MAX_RANKS    4
#define CE_MAX_TAGS     3
#define CE_FIRST_TAG    9       /* == PARSEC_CE_REMOTE_DEP_MAX_CTRL_TAG: first tag the runtime does not reserve */
#define CE_MAX_AM       3072
#define CE_MAX_XFER     96
#define CE_MAX_OPS      512     /* per rank */
#define CE_MAX_BLK      48      /* blocks of an indexed layout */
#define CE_HANDLE_MAX   128     /* >= sizeof(mpi_funnelled_mem_reg_handle_t) */
#define CE_REQ_HDR      16      /* request AM: [am id][magic][xfer id][0] then the requester's memory handle */
#define CE_REQ_MAGIC    0x21514552u
#define CE_RCB_MAX      200     /* bytes of remote-callback data forwarded by put/get */
#define CE_GUARD        256     /* sentinel bytes before and after every data area */

enum { CE_OP_AM = 0, CE_OP_XFER = 1, CE_OP_PROGRESS = 2, CE_OP_DELAY = 3 };
enum { CE_PUT = 0, CE_GET = 1 };
enum { CE_L_BYTES = 0, CE_L_CONTIG = 1, CE_L_VECTOR = 2, CE_L_INDEXED = 3 };

/* memory layout of one side of a transfer; the driver builds the MPI datatype from it, the harness
 * computes the typemap by itself (the oracle does not use simmpi's datatype engine) */
typedef struct ce_layout {
    int kind;
    int elem;                   /* 1 / 4 / 8 bytes: MPI_BYTE / MPI_INT / MPI_DOUBLE */
    int count, blocklen, stride;/* contiguous: count; vector: count blocks of blocklen every stride (elements) */
    int nblk, bl[CE_MAX_BLK], disp[CE_MAX_BLK];   /* indexed (elements) */
    int reps;                   /* the count given to mem_register (instances of the datatype) */
    size_t size;                /* payload bytes (all instances) */
    size_t span;                /* bytes from the registered address that belong to the layout's bounding box */
} ce_layout_t;

typedef struct ce_am {
    int id, src, dst, tag;      /* tag: index of the user tag */
    int len;
    int req_xfer;               /* >= 0: this AM asks dst to start that transfer */
    /* run time */
    int sent, delivered;
    uint64_t t_sent, t_deliv;
} ce_am_t;

typedef struct ce_xfer {
    int id, kind;               /* CE_PUT / CE_GET */
    int initiator, partner;     /* who calls put/get, who owns the remote handle */
    int src_rank, dst_rank;     /* direction of the data */
    int via_am;                 /* 1: partner first sends a request AM (with its handle) and the initiator starts
                                 *    the transfer from the AM callback (or later, if the engine cannot serve) */
    int req_am;
    int nocheck;                /* issue without consulting can_serve (as remote_dep does for the 2nd.. flow of one GET) */
    ce_layout_t sl, dl;         /* layout on the data source / destination */
    int ldispl;                 /* local displacement the initiator passes */
    int rcb_size;
    /* buffers (owned by the harness) */
    unsigned char *sbuf, *dbuf; size_t sbuf_len, dbuf_len;
    unsigned char *smem, *dmem; /* addresses to register */
    /* run time */
    unsigned char rhandle[CE_HANDLE_MAX];   /* copy of the partner's handle, as it would travel on the wire */
    int rhandle_valid;
    int alloc_idx;              /* index of this transfer among the data-tag allocations of its initiator */
    int issued, lcb, rcb;
    uint64_t t_issue;
} ce_xfer_t;

typedef struct ce_op { int kind, arg, n; } ce_op_t;

typedef struct ce_shared {
    int nranks, ntags;
    int tag_len[CE_MAX_TAGS];   /* registered maximum length of every user tag */
    int nam; ce_am_t am[CE_MAX_AM];
    int nxf; ce_xfer_t xf[CE_MAX_XFER];
    int nops[CE_MAX_RANKS]; ce_op_t ops[CE_MAX_RANKS][CE_MAX_OPS];
    int idle_ns;                /* first back-off after an idle progress call (doubles up to 1 ms) */
    int linger;                 /* progress calls after everything expected has arrived */
    int end_barrier;
    int late_reg;               /* 1: the last user tag is registered AFTER enable (+ a second enable) */
    int handle_size;
    uintptr_t rcb_fn[CE_MAX_RANKS];     /* address of every rank's remote-completion callback (r_tag of put/get) */
    /* progress report of the drivers (for describe_abort) */
    int phase[CE_MAX_RANKS], op_idx[CE_MAX_RANKS], npending[CE_MAX_RANKS];
    int rank_done[CE_MAX_RANKS];
} ce_shared_t;

typedef struct ce_rank_arg { ce_shared_t *sh; int rank; } ce_rank_arg_t;

/* ---- harness callbacks (shared, uninstrumented: each one is a single atomic step) ---- */
enum { CEE_INIT_FAILED = 99, CEE_PHASE = 1, CEE_API_ERROR = 2 };
void ceh_event(int rank, int kind, long a, long b);
/* writes the payload of AM `am_id` (request AMs: the header; the driver appends its handle) and records the send */
void ceh_am_fill(int rank, int am_id, void *buf);
/* AM callback: returns the transfer to start (request AM) or -1 */
int  ceh_am_deliver(int rank, int tagidx, long mpi_tag, int src, const void *msg, size_t len);
/* a rank publishes the handle it registered as the remote side of transfer `xfer` */
void ceh_handle(int rank, int xfer, const void *h, int size);
/* data-tag discipline: may `rank` allocate one more data tag now? */
int  ceh_may_initiate(int rank, int xfer);
void ceh_issue(int rank, int xfer);
void ceh_rcb_fill(int xfer, void *buf);
void ceh_local_done(int rank, int xfer, int lreg_ok, long ldispl, long rdispl, long size, int remote);
/* returns the transfer id (the driver then releases its handle) or -1 */
int  ceh_remote_done(int rank, const void *msg, long msg_size, int src, long mpi_tag);
/* 1 when `rank` has received every AM and completion it is owed (or the run already failed) */
int  ceh_quiescent(int rank);
int  ceh_failed(void);
/* harness-side rendez-vous (stands for the MPI_Barrier of tests/dsl/dtd/dtd_test_ce.c; kept on the harness
 * side so that a run that already failed can never end as a "deadlock" inside a barrier) */
void ceh_arrive(int rank, int which);
int  ceh_barrier_pred(void *which);
#endif
