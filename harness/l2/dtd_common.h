/* shared between the (rankified, instrumented) DTD driver and the (plain) DTD harness */
#ifndef DTD_COMMON_H
#define DTD_COMMON_H
#include <stdint.h>
#define DTD_MAX_TILES 16
#define DTD_MAX_PARAMS 4
#define DTD_MAX_TASKS 256
#define DTD_MAX_ELEMS 8

enum { M_IN = 0, M_OUT = 1, M_INOUT = 2 };

typedef struct dtd_task_desc {
    int id;
    int nparams;
    int tile[DTD_MAX_PARAMS];
    int mode[DTD_MAX_PARAMS];
    int affinity;           /* index of the parameter carrying PARSEC_AFFINITY, -1 none */
    int delay;              /* simulated ns of body stretch */
    int priority;
    int inserter;           /* -1: inserted by the main thread; >=0: inserted from the body of that task */
    int is_flush;           /* 1: flush of tile[0]; 2: flush_all */
} dtd_task_desc_t;

typedef struct dtd_shared {
    int nranks, nthreads, ntiles, nelems;
    int ntasks;
    dtd_task_desc_t tasks[DTD_MAX_TASKS];
    int window, threshold;
    int wait_between;       /* call taskpool_wait every this many insertions (0: never) */
    /* results */
    int64_t final_[DTD_MAX_TILES][DTD_MAX_ELEMS];
    int final_valid[DTD_MAX_TILES];
    int rank_done[16];
} dtd_shared_t;

typedef struct dtd_rank_arg { dtd_shared_t *sh; int rank; } dtd_rank_arg_t;

/* harness callbacks (shared, uninstrumented) */
int  dtdh_body(int rank, int task_id, int nparams, int64_t **ptrs);
void dtdh_event(int rank, int kind, long a, long b);
#endif
