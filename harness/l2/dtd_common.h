/* shared between the (rankified, instrumented) DTD driver and the (plain) DTD harness */
#ifndef DTD_COMMON_H
#define DTD_COMMON_H
#include <stdint.h>
#define DTD_MAX_TILES 16
#define DTD_MAX_PARAMS 4
#define DTD_MAX_TASKS 256
#define DTD_MAX_ELEMS 8

enum { M_IN = 0, M_OUT = 1, M_INOUT = 2 };

typedef struct dtd_task_desc {
    int id;
    int nparams;
    int tile[DTD_MAX_PARAMS];
    int mode[DTD_MAX_PARAMS];
    int affinity;           /* index of the parameter carrying PARSEC_AFFINITY, -1 none */
    int delay;              /* simulated ns of body stretch */
    int priority;
    int inserter;           /* -1: inserted by the main thread; >=0: inserted from the body of that task */
    int is_flush;           /* 1: flush of tile[0]; 2: flush_all; 3: parsec_taskpool_wait */
} dtd_task_desc_t;

typedef struct dtd_shared {
    int nranks, nthreads, ntiles, nelems;
    int ntasks;
    dtd_task_desc_t tasks[DTD_MAX_TASKS];
    int window, threshold;
    int wait_between;       /* call taskpool_wait every this many insertions (0: never) */
    /* results */
    int64_t final_[DTD_MAX_TILES][DTD_MAX_ELEMS];
    int final_valid[DTD_MAX_TILES];
    int rank_done[16];
} dtd_shared_t;

typedef struct dtd_rank_arg { dtd_shared_t *sh; int rank; } dtd_rank_arg_t;

/* harness callbacks (shared, uninstrumented) */
int  dtdh_body(int rank, int task_id, int nparams, int64_t **ptrs);
/* dtdh_event kinds (a, b):
 *   1  insertion of task a begins            2  insertion of task a returned
 *   3  a mid-program parsec_taskpool_wait returned (a = plan index)
 *   4  the final parsec_taskpool_wait returned     5  parsec_context_wait returned
 *   6  the body of task a is about to run; b = address of the runtime's task object (never hashed)
 *   7  owner copy right after a parsec_taskpool_wait returned: a = (first plan index NOT before that wait) << 8 | tile,
 *      b = address of the tile's elements on this (owning) rank; sent for every locally owned tile BEFORE event 3 / 4
 *   8  insertion of the flush / flush_all at plan index a begins     10  ... returned
 *   9  the body of task a was started from INSIDE a nested insertion (tasks inserting tasks: the nested
 *      parsec_dtd_insert_task hit a window stop and executes other tasks before returning)
 *  11  a task of the DTD taskpool enters prepare_input (b = address of its task object, never hashed; PINS callback)
 *  12  a task of the DTD taskpool starts executing (b likewise; covers the runtime's own fake / flush tasks too)
 *  13  a local copy of the communication engine is about to be held up (knob copy_stall)
 *  99  parsec_init failed
 * (the driver is also linked by tools/realrun, whose dtdh_event ignores what it does not know: new observations are
 *  new kinds of this callback, and dtd_shared_t keeps its layout: the findings/NAME.shared.bin files are dumps of it) */
void dtdh_event(int rank, int kind, long a, long b);
#endif
