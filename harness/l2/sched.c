/* Scheduler harness (C08, C09): the 11 scheduler modules driven directly on real execution streams.
 *
 * Real: parsec_init/parsec_fini, scheduling.c (__parsec_schedule, __parsec_schedule_vp, __parsec_schedule_flush_private),
 *       the installed module (mca/sched/<name>), hbbuffer.c, maxheap.c, class/lifo.h, list.h, dequeue.h, mempool.c.
 * Simulated: thread scheduling, clock, MPI (single rank, unused), hwloc topology (synthetic).
 * Not started: the context (parsec_context_start is never called): PaRSEC's workers stay parked, the client
 * threads of sched_driver.c adopt their execution streams (see the comment at the top of sched_driver.c).
 *
 * knob `prop` selects the oracle:
 *  8  conservation: every task handed to the scheduler is returned by a selection exactly once, on a stream of the
 *     virtual process it was handed to (all modules keep their structures per VP; __parsec_schedule_vp's per-VP rings).
 *  9  priority order (ap, ip, spq): concurrent fill by 1-4 clients, then ONE stream per VP drains with nobody else
 *     active; each returned task must be a maximal pending task in the order the module documents:
 *       ap   priority descending; equal priorities in scheduling order (list.h: chain_sorted inserts "before the first
 *            strictly smaller", the whole ring under the list lock); the distance hint is ignored ((void)distance)
 *       spq  smaller distance list first (sched.h, "schedEx1"); inside a list as ap
 *       ip   priority ascending (pop_back of the same sorted list).  No tie rule is promised for ip and none is
 *            checked (the code gives LIFO among equals).  ip only sorts rings scheduled with distance 0; a ring
 *            scheduled with distance > 0 is chained at the BACK of the list, i.e. at the end pop_back selects from:
 *            it is returned first whatever its priority.  That contradicts both "returns the lowest first" and the
 *            fairness rule of sched.h; the default workload therefore gives ip distance 0 only and the knob
 *            `ip_dist=1` enables the full quantifier (violation class `inverse-priority-broken-by-distance`).
 *     "scheduling order" of two tasks = ring order inside one schedule call, the order of the calls when their
 *     [invoke,return] stamp intervals do not overlap; overlapping calls may tie either way.
 *
 * Legal-client discipline (what the runtime itself does, nothing more):
 *  - one client per adopted stream; select / __parsec_schedule_vp(es) / flush_private only on the client's own stream;
 *  - schedule(target, ...) targets the client's own stream or stream 0 of a VP (the shared target __parsec_schedule_vp
 *    uses from any thread, including the communication thread); sched_llp relies on exactly that (single_writer);
 *  - the communication-thread-style client only calls __parsec_schedule_vp and never selects;
 *  - a client only schedules tasks it owns (fresh ones, or tasks a selection returned to it).
 *
 * KNOWN DEFECT kept out of the default workload (knob `flush_multi=1` brings it in): __parsec_schedule_vp() retains the head
 * of the local ring in es->next_task and removes it from the ring with parsec_list_item_ring_chop(), which (outside
 * PARSEC_DEBUG_PARANOID) leaves the removed item's list_next/list_prev pointing at its former neighbours.
 * __parsec_schedule_flush_private() passes that item to __parsec_schedule() as if it were a ring: the module walks / chops a
 * "ring" made of stale pointers into tasks that are already linked in its own structures (ap/ip/spq/rnd: endless loop or a
 * corrupted list in parsec_list_nolock_chain_sorted; other modules: tasks duplicated or lost).  Only rings of >= 2 tasks for
 * the local VP are affected (a single task stays a proper singleton), so by default the harness only flushes a retained
 * task that was alone in its ring; every violation reached after such a flush carries the tag
 * [after-flush-of-retained-task-chopped-off-a-multi-task-ring]. */
#define _GNU_SOURCE
#include "../hx.h"
#include "../../sim/mpi/simmpi.h"
#include "sched_common.h"
#include <pthread.h>
#include <stdlib.h>
#include <string.h>
#include <stdio.h>
#include <unistd.h>

extern int hx_rank_count;
extern void *(*hx_rank_mains[])(void *);

enum { OP_SCHED, OP_SELECT, OP_RESCHED, OP_FLUSH, OP_PAUSE, OP_N };
static const char *const opnames[] = {"sched", "select", "resched", "flush", "pause"};

/* reach probes.  The binary serves two properties; each gets its own probe table (chosen in main() from `--knob prop=`)
 * so that a probe of the other property does not show up as "never fired".  All of them are computed from what the
 * module reports (the distance returned by select) and from the stamp intervals of the calls -- nothing in /repo is hooked:
 *  - system queue: select of lfq/lhq/ltq/pbq reports distance 1+nb_hierarch_queues for a task popped from the system queue;
 *    if that task was scheduled with distance 0 it got there through the overflow push of parsec_hbbuffer_push_all(_by_priority)
 *  - ltq steal: distance >= 2 (a neighbour's buffer) or the system queue: both go through heap_split_and_steal(); "split" when the
 *    task was scheduled in a ring of >= 3 (such a ring makes heaps of >= 3 nodes unless every pair of neighbours shares no input)
 *  - llp multi-writer: two schedule calls that both end in stream 0 of a VP, from different threads, with overlapping
 *    [invoke,return] intervals -- the precondition of the "items were added in between" path of lifo_chain_sorted (the path
 *    itself is not observable from outside) */
enum { PR_SYSQ, PR_OVERFLOW, PR_LHQ_PARENT, PR_LLP_OVERLAP, PR_LTQ_STEAL, PR_LTQ_BIGHEAP, PR_LIFO_STEAL, PR_RETAINED, PR_NEXT_TAKEN, PR_FLUSHED,
       PR_OTHER_VP, PR_COMM, PR_FOREIGN0, PR_RESCHED, PR_TWO_VP, PR_TIE_OVERLAP, PR_DIST_LISTS, PR_SELECT_RACE, PR_N };
static const char *const probe_all[PR_N] = {
    "task_selected_from_system_queue", "hbbuffer_overflow_to_parent(dist0_task_from_sysq)", "lhq_task_found_in_parent_level_buffer",
    "llp_overlapping_writers_on_stream0(multi_writer_merge_precondition)", "ltq_steal_from_neighbour_or_sysq_heap", "ltq_steal_from_heap_of_3plus(split)",
    "lifo_steal_from_other_stream", "next_task_retained", "next_task_taken_by_select", "next_task_flushed_to_scheduler",
    "ring_for_other_vp", "comm_thread_submission", "foreign_submission_to_stream0", "again_style_reschedule", "two_vp_run",
    "equal_priority_pair_from_overlapping_calls_at_drain", "spq_two_or_more_distance_lists_at_drain", "select_returned_null_while_tasks_pending"};
static const int probes_c08[] = {PR_SYSQ, PR_OVERFLOW, PR_LHQ_PARENT, PR_LLP_OVERLAP, PR_LTQ_STEAL, PR_LTQ_BIGHEAP, PR_LIFO_STEAL, PR_RETAINED, PR_NEXT_TAKEN, PR_FLUSHED,
                                 PR_OTHER_VP, PR_COMM, PR_FOREIGN0, PR_RESCHED, PR_TWO_VP, PR_SELECT_RACE, -1};
static const int probes_c09[] = {PR_FOREIGN0, PR_RESCHED, PR_TWO_VP, PR_TIE_OVERLAP, PR_DIST_LISTS, PR_SELECT_RACE, -1};
static int probe_id[PR_N];                  /* logical probe -> id in the active table, -1: not part of it */
static const char *probe_names[PR_N];
static int nprobes;
static void probe(int x) { if (probe_id[x] >= 0) sim_probe(probe_id[x]); }
static void probes_select(int prop)
{
    const int *t = prop == 9 ? probes_c09 : probes_c08;
    for (int i = 0; i < PR_N; i++) probe_id[i] = -1;
    nprobes = 0;
    for (int i = 0; t[i] >= 0; i++) { probe_id[t[i]] = nprobes; probe_names[nprobes++] = probe_all[t[i]]; }
}

static const char *const SCHEDS[] = {"lfq", "ap", "gd", "ip", "lhq", "ll", "llp", "ltq", "pbq", "rnd", "spq"};
#define NSCHED 11
enum { S_LFQ, S_AP, S_GD, S_IP, S_LHQ, S_LL, S_LLP, S_LTQ, S_PBQ, S_RND, S_SPQ };

static sched_shared_t SH;
static hx_result_t *RES;
static const hx_plan_t *PLAN;
static int PROP, SCHED, IP_DIST, FLUSH_MULTI;
static int flushed_multi;      /* a retained task that came out of a ring of >= 2 tasks was flushed (see KNOWN DEFECT below) */

/* ---- bookkeeping ---- */
enum { T_FREE = 0, T_OWNED, T_PREPARED, T_PENDING };
typedef struct {
    int state, owner;           /* owner: client index while OWNED/PREPARED */
    int vp;                     /* VP it was handed to (PENDING) */
    int prio, dist, call, pos;  /* of the last schedule */
    int via_flush;              /* last hand-over was __parsec_schedule_flush_private */
    int nsched, nsel;
} tinfo_t;
static tinfo_t TI[SCH_MAX_TASKS];
typedef struct { uint64_t inv, ret; int thr, api, target, distance, n, nown; } call_t;
#define MAX_CALLS (2 * HX_MAX_OPS + 64)
static call_t CALLS[MAX_CALLS];
static int ncalls;
static int fresh_next;

typedef struct {
    int used, stream, pc;
    int owned[SCH_MAX_TASKS], nowned;
    int want_resched, resched_id, resched_dist;     /* AGAIN-style: select one, hand it back at distance+1 */
    int cur_call;
    int done;
} client_t;
static client_t CL[SCH_MAX_THR];
static int retained[SCH_MAX_STREAMS];       /* es->next_task as reported by the driver */
static int retained_multi[SCH_MAX_STREAMS]; /* ... and whether it was chopped off a ring of >= 2 tasks */
static int npending_vp[2];

static int client_of_thr(int thr) { return thr == SCH_COMM_THR ? SCH_COMM_THR : thr % SH.nstreams; }
static int op_client(const hx_op_t *o) { return o->thr >= SCH_COMM_THR ? SCH_COMM_THR : (o->thr < 0 ? 0 : o->thr % SH.nstreams); }
static uint64_t mixh(uint64_t a, uint64_t b) { uint64_t s = a * 0x9E3779B97F4A7C15ULL ^ (b + 0x632BE59BD9B4E019ULL); return sim_splitmix(&s); }
static int is_local_queue_sched(void) { return SCHED == S_LFQ || SCHED == S_LHQ || SCHED == S_LTQ || SCHED == S_PBQ; }

int schedh_failed(void) { return RES && RES->vclass != NULL; }

void schedh_event(int kind, long a, long b)
{
    (void)a; (void)b;
    if (kind == 99) hx_fail(RES, "init-failed", "parsec_init returned NULL");
    if (kind == 98) hx_fail(RES, "init-failed", "no scheduler installed after parsec_init");
}

void schedh_ready(void)
{
    if (SH.got_streams != SH.nstreams || SH.got_nvp != SH.nvp || strcmp(SH.sched_name, SCHEDS[SCHED]))
        hx_fail(RES, "config-mismatch", "asked for sched=%s streams=%d vp=%d, runtime has sched=%s streams=%d vp=%d", SCHEDS[SCHED], SH.nstreams, SH.nvp,
                SH.sched_name, SH.got_streams, SH.got_nvp);
    if (SH.nvp > 1) probe(PR_TWO_VP);
}

/* ---- the clients' programs ---- */
static int take_task(client_t *c, int ci, int reuse)
{
    int id = -1;
    if (reuse && c->nowned) id = c->owned[--c->nowned];
    else if (fresh_next < SH.ntasks) id = fresh_next++;
    else if (c->nowned) id = c->owned[--c->nowned];
    if (id >= 0) { TI[id].state = T_PREPARED; TI[id].owner = ci; }
    return id;
}

static int demote(int prio) { return prio == 0 ? -1 /* SET_LOWEST_PRIORITY: 0xffffffff */ : prio / 10; }

int schedh_next(int thr, sched_req_t *rq)
{
    int ci = client_of_thr(thr);
    client_t *c = &CL[ci];
    memset(rq, 0, sizeof(*rq));
    if (schedh_failed()) { c->done = 1; return 0; }
    int comm = ci == SCH_COMM_THR;
    if (c->resched_id >= 0) {
        /* second half of an AGAIN-style reschedule: what __parsec_task_progress does on PARSEC_HOOK_RETURN_AGAIN */
        int id = c->resched_id;
        c->resched_id = -1;
        rq->kind = SCH_REQ_SCHEDULE;
        rq->api = SCH_API_SCHEDULE;
        rq->target = c->stream;
        rq->distance = c->resched_dist + 1;
        if (PROP == 9 && SCHED == S_IP && !IP_DIST) rq->distance = 0;
        rq->n = 1;
        rq->ids[0] = id;
        rq->prio[0] = demote(TI[id].prio);
        rq->cls[0] = (int)(mixh((uint64_t)id, 3) & 1);
        rq->din[0] = (int)(mixh((uint64_t)id, 5) % 3);
        TI[id].state = T_PREPARED;
        TI[id].owner = ci;
        probe(PR_RESCHED);
        return 1;
    }
    while (c->pc < PLAN->nops) {
        const hx_op_t *o = &PLAN->ops[c->pc++];
        if (op_client(o) != ci) continue;
        switch (o->op) {
        case OP_SCHED: {
            int n = (int)(o->a & 63) + 1;
            int reuse = (int)(o->a >> 8) & 1, sorted = (int)(o->a >> 9) & 1, api = (int)((o->a >> 10) & 7) % SCH_API_N, tsel = (int)(o->a >> 13) & 7;
            int span = (int)((o->a >> 16) & 0xff);
            int base = (int)((o->a >> 24) & 0xff) - 8;
            if (span < 1) span = 1;
            int dist = (int)o->c;
            if (dist < 0) dist = 0;
            if (dist > 40) dist = 40;
            if (comm) api = (api & 1) ? SCH_API_VP_NULL : SCH_API_VP;
            if (PROP == 9) api = api & 1;                                    /* MODULE or SCHEDULE */
            if (PROP == 9 && SCHED == S_IP && !IP_DIST) dist = 0;
            rq->kind = SCH_REQ_SCHEDULE;
            rq->api = api;
            rq->distance = dist;
            rq->target = (tsel == 0 || tsel > SH.nvp) ? c->stream : -1;
            if (rq->target < 0) for (int s = 0; s < SH.nstreams; s++) if (SH.stream_vp[s] == (tsel - 1) % SH.nvp && SH.stream_th[s] == 0) { rq->target = s; break; }
            if (rq->target < 0) rq->target = c->stream;
            int k = 0;
            for (int i = 0; i < n; i++) {
                int id = take_task(c, ci, reuse);
                if (id < 0) break;
                uint64_t h = mixh((uint64_t)o->b, (uint64_t)i);
                rq->ids[k] = id;
                rq->prio[k] = base + (int)(h % (uint64_t)span);
                rq->cls[k] = (h >> 20) % 10 < 7 ? (int)((h >> 24) & 1) : 2 + (int)((h >> 24) & 1);
                rq->din[k] = (int)((h >> 32) % 3);
                rq->vp[k] = (int)((h >> 40) % (uint64_t)SH.nvp);
                k++;
            }
            if (!k) continue;
            if (sorted) {       /* what release_deps hands over: descending priority (stable insertion sort) */
                for (int i = 1; i < k; i++) for (int j = i; j > 0 && rq->prio[j - 1] < rq->prio[j]; j--) {
#define SW(f) do { int t_ = rq->f[j]; rq->f[j] = rq->f[j - 1]; rq->f[j - 1] = t_; } while (0)
                    SW(ids); SW(prio); SW(cls); SW(din); SW(vp);
                }
            }
            rq->n = k;
            return 1;
        }
        case OP_SELECT:
            if (comm) continue;
            rq->kind = SCH_REQ_SELECT;
            rq->count = (int)(o->a & 127) + 1;
            rq->runtime_select = PROP == 9 ? 0 : (int)(o->b & 1);
            return 1;
        case OP_RESCHED:
            if (comm) continue;
            rq->kind = SCH_REQ_SELECT;
            rq->count = 1;
            rq->runtime_select = 1;
            c->want_resched = 1;
            return 1;
        case OP_FLUSH:
            if (comm || PROP == 9) continue;
            if (retained_multi[c->stream] && !FLUSH_MULTI) continue;       /* KNOWN DEFECT, see header */
            rq->kind = SCH_REQ_FLUSH;
            rq->target = c->stream;
            return 1;
        case OP_PAUSE:
            rq->kind = SCH_REQ_PAUSE;
            rq->pause_ns = o->a & 0xfffff;
            return 1;
        default: continue;
        }
    }
    c->done = 1;
    return 0;
}

static int vp_of_stream(int s) { return s >= 0 && s < SH.nstreams ? SH.stream_vp[s] : 0; }

void schedh_invoke(int thr, const sched_req_t *rq, int next_id)
{
    int ci = thr == SCH_DRAINER ? -1 : client_of_thr(thr);
    if (ncalls >= MAX_CALLS) { RES->discard = 1; RES->discard_why = "too-many-calls"; return; }
    int cidx = ncalls++;
    call_t *cl = &CALLS[cidx];
    memset(cl, 0, sizeof(*cl));
    cl->thr = thr; cl->api = rq->api; cl->target = rq->target; cl->distance = rq->distance; cl->n = rq->n;
    if (ci >= 0) CL[ci].cur_call = cidx;
    if (rq->kind == SCH_REQ_FLUSH) {
        cl->api = -1;
        if (next_id >= 0) {
            /* the retained task is handed to the scheduler of the stream at distance 0 */
            tinfo_t *t = &TI[next_id];
            t->dist = 0; t->call = cidx; t->pos = 0; t->via_flush = 1;
            probe(PR_FLUSHED);
            int s = ci >= 0 ? CL[ci].stream : rq->target;
            if (s >= 0 && s < SCH_MAX_STREAMS && retained[s] == next_id && retained_multi[s]) flushed_multi = 1;
        }
        sim_hash_event(0xF1000000ULL ^ (uint64_t)(thr + 2) << 32 ^ (uint64_t)(next_id + 2));
        cl->inv = sim_stamp();
        return;
    }
    int own_stream = ci >= 0 ? CL[ci].stream : -1;
    int comm = ci == SCH_COMM_THR;
    int posvp[2] = {0, 0};
    int per_vp = rq->api == SCH_API_VP || rq->api == SCH_API_VP_NULL;
    if (comm) probe(PR_COMM);
    if (!per_vp && rq->target != own_stream) probe(PR_FOREIGN0);
    for (int i = 0; i < rq->n; i++) {
        int id = rq->ids[i];
        tinfo_t *t = &TI[id];
        if (t->state != T_PREPARED || t->owner != ci) { hx_fail(RES, "harness-bug", "client %d schedules task %d it does not own (state %d owner %d)", ci, id, t->state, t->owner); return; }
        int vp = per_vp ? rq->vp[i] % SH.nvp : vp_of_stream(rq->target);
        t->state = T_PENDING;
        t->vp = vp;
        t->prio = rq->prio[i];
        t->dist = rq->distance;
        t->call = cidx;
        t->pos = posvp[vp]++;
        t->via_flush = 0;
        t->nsched++;
        npending_vp[vp]++;
        if (vp == vp_of_stream(own_stream)) cl->nown++;
        if (per_vp && !comm && vp != vp_of_stream(own_stream)) probe(PR_OTHER_VP);
        if (per_vp && comm && vp != 0) probe(PR_OTHER_VP);
    }
    (void)next_id;
    sim_hash_event(0x5C000000ULL ^ (uint64_t)(thr + 2) << 40 ^ (uint64_t)rq->api << 36 ^ (uint64_t)rq->distance << 24 ^ (uint64_t)rq->n << 12 ^ (uint64_t)(rq->n ? rq->ids[0] : 0));
    cl->inv = sim_stamp();
}

void schedh_return(int thr, const sched_req_t *rq, int rc, int next_id)
{
    int ci = thr == SCH_DRAINER ? -1 : client_of_thr(thr);
    int cidx = ci >= 0 ? CL[ci].cur_call : ncalls - 1;
    if (cidx >= 0 && cidx < MAX_CALLS) CALLS[cidx].ret = sim_stamp();
    if (rc != 0) hx_fail(RES, "schedule-error", "%s returned %d", rq->kind == SCH_REQ_FLUSH ? "__parsec_schedule_flush_private" : "schedule", rc);
    int s = ci >= 0 ? CL[ci].stream : rq->target;
    if (s >= 0 && s < SCH_MAX_STREAMS && ci != SCH_COMM_THR) {
        if (next_id >= 0 && retained[s] != next_id) { probe(PR_RETAINED); retained_multi[s] = cidx >= 0 && CALLS[cidx].nown > 1; }
        if (next_id < 0) retained_multi[s] = 0;
        retained[s] = next_id;
    }
    /* llp: two writers on stream 0 whose calls overlapped (the multi-writer path of lifo_chain_sorted needs that) */
    if (SCHED == S_LLP && rq->kind == SCH_REQ_SCHEDULE && cidx >= 0) {
        call_t *a = &CALLS[cidx];
        for (int j = 0; j < ncalls; j++) {
            call_t *b = &CALLS[j];
            if (j == cidx || b->api < 0 || b->thr == a->thr || !b->inv) continue;
            int at = a->api >= SCH_API_VP ? -2 : a->target, bt = b->api >= SCH_API_VP ? -2 : b->target;
            /* both end on stream 0 of some VP: direct target with th 0, or any per-VP call */
            int a0 = at == -2 || (at >= 0 && SH.stream_th[at] == 0), b0 = bt == -2 || (bt >= 0 && SH.stream_th[bt] == 0);
            if (!a0 || !b0) continue;
            uint64_t bret = b->ret ? b->ret : UINT64_MAX;
            if (b->inv < a->ret && a->inv < bret) {
                probe(PR_LLP_OVERLAP);
                
            }
        }
    }
}

void schedh_select_invoke(int thr, int stream) { (void)thr; (void)stream; }

int schedh_drain_flush(int stream)
{
    if (!SH.drain_flush) return 0;
    if (stream >= 0 && stream < SCH_MAX_STREAMS && retained_multi[stream] && !FLUSH_MULTI) return 0;   /* KNOWN DEFECT, see header */
    return 1;
}

/* C09: is pending task p strictly before returned task r in the order the module documents? */
static int strictly_before(const tinfo_t *p, const tinfo_t *r, int *tie_overlap)
{
    if (SCHED == S_IP) return p->prio < r->prio;
    if (SCHED == S_SPQ && p->dist != r->dist) return p->dist < r->dist;
    if (p->prio != r->prio) return p->prio > r->prio;
    if (p->call == r->call) return p->pos < r->pos;
    if (CALLS[p->call].ret && CALLS[p->call].ret < CALLS[r->call].inv) return 1;
    if (!(CALLS[r->call].ret && CALLS[r->call].ret < CALLS[p->call].inv)) *tie_overlap = 1;
    return 0;
}

void schedh_selected(int thr, int stream, int id, int distance, int from_next)
{
    int ci = thr == SCH_DRAINER ? -1 : client_of_thr(thr);
    client_t *c = ci >= 0 ? &CL[ci] : NULL;
    int want_resched = c ? c->want_resched : 0;
    if (c) c->want_resched = 0;
    int vp = vp_of_stream(stream);
    hx_hash(RES, ((uint64_t)(thr + 2) << 48) ^ ((uint64_t)(stream + 1) << 40) ^ ((uint64_t)(id + 3) << 16) ^ (uint64_t)(id >= 0 ? (distance & 0xffff) : 0));
    sim_hash_event(0x5E000000ULL ^ (uint64_t)(thr + 2) << 40 ^ (uint64_t)(id + 3));
    if (id == -1) {
        if (npending_vp[vp] > 0) probe(PR_SELECT_RACE);
        if (PROP == 9 && thr == SCH_DRAINER && npending_vp[vp] > 0) {
            int ex = -1;
            for (int i = 0; i < SH.ntasks; i++) if (TI[i].state == T_PENDING && TI[i].vp == vp) { ex = i; break; }
            hx_fail(RES, "pending-task-not-returned", "quiescent select on stream %d (vp %d) returned NULL while %d tasks of that vp are pending, e.g. task %d (priority %d, distance %d)",
                    stream, vp, npending_vp[vp], ex, ex >= 0 ? TI[ex].prio : 0, ex >= 0 ? TI[ex].dist : 0);
        }
        return;
    }
    if (id == -2 || id >= SH.ntasks) { hx_fail(RES, "garbage-task", "select on stream %d returned a pointer that is none of the scheduled tasks", stream); return; }
    tinfo_t *t = &TI[id];
    if (t->state != T_PENDING) {
        hx_fail(RES, "duplicate-task", "select on stream %d returned task %d which is not pending (scheduled %d times, already selected %d times; held by client %d)", stream, id, t->nsched, t->nsel, t->owner);
        return;
    }
    if (t->vp != vp) {
        hx_fail(RES, "wrong-vp", "task %d was handed to vp %d (call %d, api %d) but select on stream %d of vp %d returned it", id, t->vp, t->call, CALLS[t->call].api, stream, vp);
        return;
    }
    if (PROP == 9 && thr == SCH_DRAINER) {
        int ndist = 0, seen[64] = {0};
        for (int i = 0; i < SH.ntasks && !RES->vclass; i++) {
            tinfo_t *p = &TI[i];
            if (i == id || p->state != T_PENDING || p->vp != vp) continue;
            if (p->dist < 64 && !seen[p->dist]) { seen[p->dist] = 1; ndist++; }
            int tie = 0;
            if (strictly_before(p, t, &tie)) {
                int bydist = SCHED == S_IP && (p->dist > 0 || t->dist > 0);
                hx_fail(RES, bydist ? "inverse-priority-broken-by-distance" : SCHED == S_SPQ && p->dist != t->dist ? "distance-order" : p->prio != t->prio ? "priority-order" : "tie-order",
                        "%s: quiescent select on stream %d returned task %d (priority %d, distance %d, call %d [%llu,%llu] ring position %d) while task %d (priority %d, distance %d, call %d [%llu,%llu] ring position %d) was pending",
                        SCHEDS[SCHED], stream, id, t->prio, t->dist, t->call, (unsigned long long)CALLS[t->call].inv, (unsigned long long)CALLS[t->call].ret, t->pos,
                        i, p->prio, p->dist, p->call, (unsigned long long)CALLS[p->call].inv, (unsigned long long)CALLS[p->call].ret, p->pos);
            }
            if (tie) probe(PR_TIE_OVERLAP);
        }
        if (t->dist < 64 && !seen[t->dist]) ndist++;
        if (SCHED == S_SPQ && ndist >= 2) probe(PR_DIST_LISTS);
        if (RES->vclass) return;
    }
    /* reach probes from what select reports */
    if (from_next) probe(PR_NEXT_TAKEN);
    else {
        int sq = stream >= 0 && stream < SCH_MAX_STREAMS ? SH.sysq_distance[stream] : -1;
        if (is_local_queue_sched() && sq >= 0 && distance == sq) {
            probe(PR_SYSQ);
            if (t->dist == 0) probe(PR_OVERFLOW);
            if (SCHED == S_LTQ) probe(PR_LTQ_STEAL);
        } else if (SCHED == S_LHQ && distance >= 2) probe(PR_LHQ_PARENT);
        else if (SCHED == S_LTQ && distance >= 2) { probe(PR_LTQ_STEAL); if (CALLS[t->call].n >= 3) probe(PR_LTQ_BIGHEAP); }
        else if ((SCHED == S_LL || SCHED == S_LLP) && distance > 0) probe(PR_LIFO_STEAL);
    }
    if (stream >= 0 && stream < SCH_MAX_STREAMS && from_next) { retained[stream] = -1; retained_multi[stream] = 0; }
    t->state = T_OWNED;
    t->owner = ci;
    t->nsel++;
    npending_vp[vp]--;
    if (c) {
        if (want_resched) { c->resched_id = id; c->resched_dist = distance < 0 ? 0 : distance; }
        else c->owned[c->nowned++] = id;
    }
}

/* ---- plan generation ---- */
static void gen(hx_plan_t *p, hx_rng_t *r)
{
    int prop = (int)hx_cli_knob("prop", 8);
    hx_set_knob(p, "prop", prop);
    int sched;
    if (prop == 9) { static const int s9[] = {S_AP, S_IP, S_SPQ, S_AP, S_SPQ}; sched = s9[hx_below(r, 5)]; }
    else sched = (int)hx_below(r, NSCHED);
    sched = (int)hx_cli_knob("sched", sched);
    hx_set_knob(p, "sched", sched);
    /* topology: one VP (flat map) with 1-16 streams, or two VPs (vpmap hwloc over a 2-package synthetic machine) */
    int nvp = hx_chance(r, prop == 9 ? 25 : 40) ? 2 : 1;
    int nstreams, cpp = 16;
    if (nvp == 2) { cpp = hx_chance(r, 70) ? (int)hx_range(r, 1, 3) : (int)hx_range(r, 4, 8); nstreams = cpp + (int)hx_range(r, 1, cpp); }
    else nstreams = hx_chance(r, 60) ? (int)hx_range(r, 1, 4) : hx_chance(r, 60) ? (int)hx_range(r, 5, 8) : (int)hx_range(r, 9, 16);
    hx_set_knob(p, "nvp", nvp);
    hx_set_knob(p, "cpp", cpp);
    hx_set_knob(p, "nstreams", nstreams);
    hx_set_knob(p, "topo", nvp == 1 ? hx_below(r, 6) : 0);
    hx_set_knob(p, "keep", hx_chance(r, 70));
    hx_set_knob(p, "rot", hx_below(r, nstreams));
    hx_set_knob(p, "drain_flush", hx_chance(r, 50));
    hx_set_knob(p, "drain_rt", hx_chance(r, 60));
    hx_set_knob(p, "drain_seed", hx_below(r, 1 << 16));
    hx_set_knob(p, "ip_dist", hx_cli_knob("ip_dist", 1));
    hx_set_knob(p, "flush_multi", hx_cli_knob("flush_multi", 1));
    int nthr = prop == 9 ? (int)hx_range(r, 1, 4) : (hx_chance(r, 75) ? (int)hx_range(r, 1, 4) : (int)hx_range(r, 5, 16));
    if (nthr > nstreams) nthr = nstreams;
    int comm = prop == 8 && hx_chance(r, 35);
    int nops = prop == 9 ? (int)hx_range(r, 2, 14) : (int)hx_range(r, 3, 40);
    int kdist = hx_chance(r, 50) ? 0 : hx_chance(r, 70) ? 2 : hx_chance(r, 70) ? 5 : 20;
    int bigrings = hx_chance(r, 35);
    /* priorities: few values (many ties) most of the time */
    int span = hx_chance(r, 60) ? (int)hx_range(r, 1, 4) : hx_chance(r, 60) ? (int)hx_range(r, 5, 12) : 200;
    int base = hx_chance(r, 30) ? (int)hx_range(r, 0, 7) : 8;      /* stored as base+8-8: values below 8 give negative priorities */
    for (int i = 0; i < nops; i++) {
        int thr = (comm && hx_chance(r, 20)) ? SCH_COMM_THR : (int)hx_below(r, nthr);
        int q = (int)hx_below(r, 100);
        int p_sched = prop == 9 ? 70 : 50, p_sel = prop == 9 ? 78 : 78, p_res = prop == 9 ? 94 : 88, p_flush = prop == 9 ? 94 : 95;
        if (i == 0 || q < p_sched || thr == SCH_COMM_THR) {
            int n = hx_chance(r, 55) ? (int)hx_range(r, 1, 4) : (bigrings || hx_chance(r, 15)) ? (int)hx_range(r, 9, 64) : (int)hx_range(r, 5, 12);
            int api;
            if (prop == 9) api = (int)hx_below(r, 2);
            else { int a = (int)hx_below(r, 100); api = a < 25 ? SCH_API_MODULE : a < 50 ? SCH_API_SCHEDULE : a < 85 ? SCH_API_VP : SCH_API_VP_NULL; }
            int tsel = hx_chance(r, 55) ? 0 : 1 + (int)hx_below(r, nvp);
            long a = (n - 1) | ((long)hx_chance(r, 40) << 8) | ((long)hx_chance(r, 60) << 9) | ((long)api << 10) | ((long)tsel << 13) | ((long)span << 16) | ((long)base << 24);
            long dist = (kdist && hx_chance(r, 45)) ? hx_range(r, 1, kdist) : 0;
            hx_add_op(p, thr, OP_SCHED, a, (long)(hx_rand(r) & 0x7fffffff), dist);
        } else if (q < p_sel) hx_add_op(p, thr, OP_SELECT, hx_chance(r, 60) ? hx_range(r, 0, 3) : hx_range(r, 4, 40), hx_below(r, 2), 0);
        else if (q < p_res) hx_add_op(p, thr, OP_RESCHED, 0, 0, 0);
        else if (q < p_flush) hx_add_op(p, thr, OP_FLUSH, 0, 0, 0);
        else hx_add_op(p, thr, OP_PAUSE, hx_chance(r, 50) ? 0 : hx_range(r, 100, 20000), 0, 0);
    }
}

static void setenv_int(const char *k, long v) { char b[32]; snprintf(b, sizeof(b), "%ld", v); setenv(k, b, 1); }

static void init(void)
{
    setenv("HWLOC_SYNTHETIC", "pack:1 core:16 pu:1", 1);
    setenv("HWLOC_THISSYSTEM", "0", 1);
    char tmpl[] = "/tmp/verif_home_XXXXXX";
    char *d = hx_scratch_dir(tmpl);
    if (d) setenv("HOME", d, 1);
    extern char **environ;
    for (char **e = environ; *e;) {
        if (!strncmp(*e, "PARSEC_MCA_", 11)) { char nm[128]; snprintf(nm, sizeof(nm), "%.*s", (int)(strchr(*e, '=') - *e), *e); unsetenv(nm); e = environ; }
        else e++;
    }
}

/* knobs -> SH (also used by annotate in the parent process) */
static void plan_to_shared(const hx_plan_t *p)
{
    memset(&SH, 0, sizeof(SH));
    PROP = (int)hx_knob(p, "prop", 8);
    SCHED = (int)(hx_knob(p, "sched", 0) % NSCHED);
    if (SCHED < 0) SCHED = 0;
    IP_DIST = (int)hx_knob(p, "ip_dist", 0);
    FLUSH_MULTI = (int)hx_knob(p, "flush_multi", 0);
    int nvp = (int)hx_knob(p, "nvp", 1), cpp = (int)hx_knob(p, "cpp", 16), ns = (int)hx_knob(p, "nstreams", 2);
    if (nvp < 1) nvp = 1;
    if (nvp > 2) nvp = 2;
    if (ns < 1) ns = 1;
    if (ns > SCH_MAX_STREAMS) ns = SCH_MAX_STREAMS;
    if (nvp == 2) {
        if (cpp < 1) cpp = 1;
        if (cpp > 8) cpp = 8;
        if (ns <= cpp) ns = cpp + 1;
        if (ns > 2 * cpp) ns = 2 * cpp;
    }
    SH.nvp = nvp;
    SH.nstreams = ns;
    for (int s = 0; s < ns; s++) { SH.stream_vp[s] = nvp == 2 && s >= cpp; SH.stream_th[s] = nvp == 2 && s >= cpp ? s - cpp : s; }   /* overwritten with the runtime's facts */
    /* clients */
    int rot = (int)hx_knob(p, "rot", 0);
    int seen[SCH_MAX_THR] = {0};
    for (int i = 0; i < p->nops; i++) seen[op_client(&p->ops[i])] = 1;
    for (int ci = 0; ci < SCH_MAX_THR; ci++) if (seen[ci]) {
        SH.client_thr[SH.nclients] = ci;
        SH.client_stream[SH.nclients] = ci == SCH_COMM_THR ? -1 : (ci + (rot < 0 ? 0 : rot)) % ns;
        SH.nclients++;
    }
    long need = 0;
    for (int i = 0; i < p->nops; i++) if (p->ops[i].op == OP_SCHED) need += (p->ops[i].a & 63) + 1;
    if (need > SCH_MAX_TASKS) need = SCH_MAX_TASKS;
    if (need < 1) need = 1;
    SH.ntasks = (int)need;
    /* drain */
    unsigned ds = (unsigned)hx_knob(p, "drain_seed", 0);
    if (PROP == 9) {
        int first[2] = {0, nvp == 2 ? cpp : 0}, cnt[2] = {nvp == 2 ? cpp : ns, nvp == 2 ? ns - cpp : 0};
        for (int v = 0; v < nvp; v++) SH.drain_stream[SH.ndrain++] = first[v] + (int)((ds >> (4 * v)) % (unsigned)cnt[v]);
        SH.drain_flush = 0;
        SH.drain_runtime_select = 0;
    } else {
        int start = (int)(ds % (unsigned)ns), dir = (ds >> 8) & 1;
        for (int k = 0; k < ns; k++) SH.drain_stream[SH.ndrain++] = (start + (dir ? ns - k : k)) % ns;
        SH.drain_flush = (int)hx_knob(p, "drain_flush", 0) != 0;
        SH.drain_runtime_select = (int)hx_knob(p, "drain_rt", 1) != 0;
        if (!SH.drain_flush && !SH.drain_runtime_select) SH.drain_runtime_select = 1;     /* somebody has to empty next_task */
    }
}

static void *rank_tramp(void *a)
{
    sched_rank_arg_t *ra = a;
    sim_set_rank(ra->rank);
    return hx_rank_mains[ra->rank](a);
}

static void run(const hx_plan_t *p, hx_result_t *res)
{
    RES = res;
    PLAN = p;
    plan_to_shared(p);
    memset(TI, 0, sizeof(TI));
    memset(CALLS, 0, sizeof(CALLS));
    memset(CL, 0, sizeof(CL));
    ncalls = 0;
    fresh_next = 0;
    npending_vp[0] = npending_vp[1] = 0;
    for (int s = 0; s < SCH_MAX_STREAMS; s++) { retained[s] = -1; retained_multi[s] = 0; }
    flushed_multi = 0;
    for (int ci = 0; ci < SCH_MAX_THR; ci++) { CL[ci].resched_id = -1; CL[ci].stream = -1; CL[ci].cur_call = -1; }
    for (int k = 0; k < SH.nclients; k++) { CL[SH.client_thr[k]].used = 1; CL[SH.client_thr[k]].stream = SH.client_stream[k]; }
    setenv("PARSEC_MCA_mca_sched", SCHEDS[SCHED], 1);
    setenv_int("PARSEC_MCA_runtime_keep_highest_priority_task", hx_knob(p, "keep", 1) != 0);
    if (SH.nvp == 2) {
        char topo[64];
        snprintf(topo, sizeof(topo), "pack:2 core:%d pu:1", (int)hx_knob(p, "cpp", 8) < 1 ? 1 : (int)hx_knob(p, "cpp", 8) > 8 ? 8 : (int)hx_knob(p, "cpp", 8));
        setenv("HWLOC_SYNTHETIC", topo, 1);
        setenv("PARSEC_MCA_runtime_vpmap", "hwloc", 1);
    } else {
        static const char *const topos[] = {"pack:1 core:16 pu:1", "pack:2 core:8 pu:1", "pack:4 core:4 pu:1"};
        setenv("HWLOC_SYNTHETIC", topos[(unsigned)hx_knob(p, "topo", 0) % 3], 1);
        if (hx_knob(p, "topo", 0) >= 3) setenv("PARSEC_MCA_runtime_vpmap", "flat", 1); else unsetenv("PARSEC_MCA_runtime_vpmap");
    }
    simmpi_cfg_t cfg;
    memset(&cfg, 0, sizeof(cfg));
    cfg.lat_base_ns = 1000;
    cfg.eager_limit = 65536;
    simmpi_reset(1, hx_current_seed(), &cfg);
    pthread_t pt;
    sched_rank_arg_t ra = {&SH, 0};
    pthread_create(&pt, NULL, rank_tramp, &ra);
    pthread_join(pt, NULL);
    /* ---- end-of-run oracle: nothing may still be pending ---- */
    int lost = 0, first = -1;
    for (int i = 0; i < SH.ntasks; i++) if (TI[i].state == T_PENDING) { if (first < 0) first = i; lost++; }
    if (lost && !res->vclass) {
        tinfo_t *t = &TI[first];
        hx_fail(res, PROP == 9 ? "pending-task-not-returned" : "lost-task",
                "%d task(s) never returned although every stream answered NULL twice in a row with nobody else active; e.g. task %d (priority %d) handed to vp %d with distance %d by %s (call %d, api %d, target stream %d, ring of %d, position %d)",
                lost, first, t->prio, t->vp, t->dist, t->via_flush ? "__parsec_schedule_flush_private" : "schedule", t->call, CALLS[t->call].api, CALLS[t->call].target, CALLS[t->call].n, t->pos);
    }
    if (!res->vclass && !SH.done) hx_fail(res, "rank-not-finished", "the driver did not reach the end of its program");
    if (res->vclass && flushed_multi) { size_t l = strlen(res->detail); snprintf(res->detail + l, sizeof(res->detail) - l, " [after-flush-of-retained-task-chopped-off-a-multi-task-ring]"); }
    uint64_t ns = 0, nl = 0;
    for (int i = 0; i < SH.ntasks; i++) { ns += (uint64_t)TI[i].nsched; nl += (uint64_t)TI[i].nsel; }
    hx_hash(res, ns << 32 ^ nl);
}

static void annotate(const hx_plan_t *p, char *buf, size_t n)
{
    plan_to_shared(p);
    snprintf(buf, n, "[sched=%s streams=%d vp=%d keep=%d clients=%d%s]", SCHEDS[SCHED], SH.nstreams, SH.nvp, (int)hx_knob(p, "keep", 1), SH.nclients, FLUSH_MULTI ? " flush_multi=1" : "");
}

static void describe_abort(char *buf, size_t n)
{
    int pend = 0, running = 0;
    for (int i = 0; i < SH.ntasks; i++) pend += TI[i].state == T_PENDING;
    for (int ci = 0; ci < SCH_MAX_THR; ci++) if (CL[ci].used && !CL[ci].done) running++;
    snprintf(buf, n, "sched=%s: %d client(s) still inside their program, %d tasks pending, %d schedule/flush calls made%s", SCHEDS[SCHED], running, pend, ncalls,
             flushed_multi ? " [after-flush-of-retained-task-chopped-off-a-multi-task-ring]" : "");
}

static void tune(const hx_plan_t *p, sim_params_t *sp)
{
    sp->quantum_ns = 20;
    sp->max_steps = (uint64_t)hx_knob(p, "max_steps", 60000000);
}

static hx_harness_t H = {
    .property = "C08", .name = "sched", .opnames = opnames, .nopnames = OP_N,
    .est_steps = 50000, .max_steps = 60000000, .gap_lo = 25, .gap_hi = 10000, .fork_per_run = 1, .gen = gen, .run = run, .init = init, .tune = tune,
    .describe_abort = describe_abort, .annotate = annotate,
};
int main(int argc, char **argv)
{
    int prop = 8;
    for (int i = 1; i + 1 < argc; i++) if (!strcmp(argv[i], "--knob") && !strncmp(argv[i + 1], "prop=", 5)) prop = atoi(argv[i + 1] + 5);
    probes_select(prop);
    H.property = prop == 9 ? "C09" : "C08";
    H.probe_names = probe_names;
    H.nprobes = nprobes;
    return hx_main(argc, argv, &H);
}
