/* shared between the (rankified, instrumented) matrix-collection driver and the (plain) harness
 * (C21 redistribute, C22 apply / map_operator / reductions) */
#ifndef MAT_COMMON_H
#define MAT_COMMON_H
#include <stdint.h>
#define MAT_MAX_OPS 4
#define MAT_MAX_TILES 16    /* tiles per dimension */
#define MAT_MAX_DIM 32      /* elements per dimension, padding of the last tile included */
#define MAT_MAX_RANKS 8

enum { MD_2DBC = 0,     /* parsec_matrix_block_cyclic (tile storage), P x Q grid, kp/kq cyclicity, ip/jq origin */
       MD_SBC = 1,      /* parsec_matrix_sbc (symmetric block cyclic, one triangle stored) */
       MD_TAB = 2,      /* parsec_matrix_tabular with a table derived from `seed` */
       MD_SYM = 3 };    /* parsec_matrix_sym_block_cyclic (C22 apply only: redistribute does not support it) */
enum { MTY_DOUBLE = 0, MTY_INT = 1 };
enum { MU_FULL = 0, MU_UPPER = 1, MU_LOWER = 2 };

typedef struct mat_desc {
    int dist, mtype;
    int M, N, mb, nb;
    int P, Q, kp, kq, ip, jq;   /* MD_2DBC, MD_SYM (P, Q only) */
    int r, uplo;                /* MD_SBC (r, uplo), MD_SYM (uplo): MU_UPPER / MU_LOWER */
    unsigned seed;              /* MD_TAB */
} mat_desc_t;

enum { MO_REDIST = 0, MO_APPLY, MO_MAP, MO_REDUCE, MO_REDUCE_COL, MO_REDUCE_ROW };
typedef struct mat_op {
    int kind;
    int variant;        /* 0: blocking convenience call; 1: _New + add_taskpool/start/wait + free */
    int size_row, size_col, disi_Y, disj_Y, disi_T, disj_T;     /* MO_REDIST */
    int uplo;           /* MO_APPLY: MU_* */
    int destmode;       /* MO_MAP: 0 dest NULL, 1 dest == src, 2 dest = the aligned second matrix */
    int redop;          /* reductions: 0 sum, 1 max */
} mat_op_t;

typedef struct mat_shared {
    int prop, nranks, nthreads, barrier;
    mat_desc_t A, B;    /* C21: A = source (Y), B = target (T).  C22: A = the matrix, B = same shape and distribution */
    int nops;
    mat_op_t ops[MAT_MAX_OPS];
    int rank_done[16];
} mat_shared_t;

typedef struct mat_rank_arg { mat_shared_t *sh; int rank; } mat_rank_arg_t;

/* harness callbacks (shared, uninstrumented => atomic with respect to the simulation) */
enum { ME_OP_BEGIN = 1, ME_OP_END, ME_PATH, ME_MATRIX_FAILED = 98, ME_INIT_FAILED = 99 };
void math_event(int rank, int kind, long a, long b);
/* fill: the harness writes the initial contents of local tile (m, n) of matrix `which` (0 = A, 1 = B) and
 * remembers where it lives; publish: the harness reads the tile after operation `op` */
void math_fill(int rank, int which, int m, int n, void *ptr, int ld);
void math_publish(int rank, int op, int which, int m, int n, const void *ptr, int ld);
/* operators (called from the driver's operator functions, i.e. from inside PaRSEC task bodies) */
void math_apply_op(int rank, long cookie, const void *desc_seen, int desc_ok, int uplo_arg, int m, int n, void *tile);
void math_map_op(int rank, long cookie, int m, int n, const void *src, void *dst);
void math_reduce_op(int rank, long cookie, const void *src, void *dst);
#define MAT_COOKIE(op) (0x5eed0000L + (op))
#endif
