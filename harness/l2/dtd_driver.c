/* DTD driver: one copy per simulated rank (rankified together with libparsec). Instrumented. */
#include "parsec/runtime.h"
#include "parsec/interfaces/dtd/insert_function.h"
#include "parsec/data_dist/matrix/two_dim_rectangle_cyclic.h"
#include "parsec/data_dist/matrix/matrix.h"
#include "parsec/arena.h"
#include "parsec/data_internal.h"
#include <mpi.h>
#include <stdlib.h>
#include <string.h>
#include <stdio.h>
#include "sim/core/sim.h"
#include "harness/l2/dtd_common.h"

static dtd_shared_t *SH;
static int MYRANK;
static int TILE_FULL;
static parsec_taskpool_t *TP;
static parsec_data_collection_t *DC;

static void insert_desc(const dtd_task_desc_t *d);

static int body_common(parsec_execution_stream_t *es, parsec_task_t *t)
{
    (void)es;
    int id = -1;
    int64_t *p[DTD_MAX_PARAMS] = {0, 0, 0, 0};
    parsec_dtd_unpack_args(t, &id, &p[0], &p[1], &p[2], &p[3]);
    const dtd_task_desc_t *d = &SH->tasks[id];
    int rc = dtdh_body(MYRANK, id, d->nparams, p);
    (void)rc;
    /* tasks inserting tasks */
    for (int i = 0; i < SH->ntasks; i++)
        if (SH->tasks[i].inserter == id) insert_desc(&SH->tasks[i]);
    return PARSEC_HOOK_RETURN_DONE;
}
/* one function per signature (DTD keys task classes by function pointer + flow count and
 * fixes the flow access modes at class creation) */
#define B(n) static int body_##n(parsec_execution_stream_t *es, parsec_task_t *t) { return body_common(es, t); }
#define B10(x) B(x##0) B(x##1) B(x##2) B(x##3) B(x##4) B(x##5) B(x##6) B(x##7) B(x##8) B(x##9)
B10() B10(1) B10(2) B10(3) B10(4) B10(5) B10(6) B10(7) B10(8) B10(9) B10(10) B10(11)
#define R(n) body_##n,
#define R10(x) R(x##0) R(x##1) R(x##2) R(x##3) R(x##4) R(x##5) R(x##6) R(x##7) R(x##8) R(x##9)
static parsec_dtd_funcptr_t *const bodies[120] = { R10() R10(1) R10(2) R10(3) R10(4) R10(5) R10(6) R10(7) R10(8) R10(9) R10(10) R10(11) };

static int sig_of(const dtd_task_desc_t *d)
{
    /* 3 + 9 + 27 + 81 = 120 signatures */
    static const int base[5] = {0, 0, 3, 12, 39};
    int s = 0;
    for (int i = 0; i < d->nparams; i++) s = s * 3 + d->mode[i];
    return base[d->nparams] + s;
}
static int flag_of(const dtd_task_desc_t *d, int i)
{
    int f = d->mode[i] == M_IN ? PARSEC_INPUT : d->mode[i] == M_OUT ? PARSEC_OUTPUT : PARSEC_INOUT;
    f |= TILE_FULL;
    if (d->affinity == i) f |= PARSEC_AFFINITY;
    return f;
}
#define TILE(i) PARSEC_DTD_TILE_OF_KEY(DC, DC->data_key(DC, d->tile[i], 0))
static void insert_desc(const dtd_task_desc_t *d)
{
    if (d->is_flush == 2) { parsec_dtd_data_flush_all(TP, DC); return; }
    if (d->is_flush == 1) { parsec_dtd_data_flush(TP, TILE(0)); return; }
    if (d->is_flush == 3) { parsec_taskpool_wait(TP); dtdh_event(MYRANK, 3, d->id, 0); return; }
    if (d->is_flush || d->nparams < 1) return;
    parsec_dtd_funcptr_t *fn = bodies[sig_of(d)];
    int id = d->id;
    dtdh_event(MYRANK, 1, id, 0);
    switch (d->nparams) {
    case 1:
        parsec_dtd_insert_task(TP, fn, d->priority, PARSEC_DEV_CPU, "t1", sizeof(int), &id, PARSEC_VALUE,
                               PASSED_BY_REF, TILE(0), flag_of(d, 0), PARSEC_DTD_ARG_END);
        break;
    case 2:
        parsec_dtd_insert_task(TP, fn, d->priority, PARSEC_DEV_CPU, "t2", sizeof(int), &id, PARSEC_VALUE,
                               PASSED_BY_REF, TILE(0), flag_of(d, 0), PASSED_BY_REF, TILE(1), flag_of(d, 1), PARSEC_DTD_ARG_END);
        break;
    case 3:
        parsec_dtd_insert_task(TP, fn, d->priority, PARSEC_DEV_CPU, "t3", sizeof(int), &id, PARSEC_VALUE,
                               PASSED_BY_REF, TILE(0), flag_of(d, 0), PASSED_BY_REF, TILE(1), flag_of(d, 1),
                               PASSED_BY_REF, TILE(2), flag_of(d, 2), PARSEC_DTD_ARG_END);
        break;
    default:
        parsec_dtd_insert_task(TP, fn, d->priority, PARSEC_DEV_CPU, "t4", sizeof(int), &id, PARSEC_VALUE,
                               PASSED_BY_REF, TILE(0), flag_of(d, 0), PASSED_BY_REF, TILE(1), flag_of(d, 1),
                               PASSED_BY_REF, TILE(2), flag_of(d, 2), PASSED_BY_REF, TILE(3), flag_of(d, 3), PARSEC_DTD_ARG_END);
        break;
    }
    dtdh_event(MYRANK, 2, id, 0);
}

void *rank_main(void *arg)
{
    dtd_rank_arg_t *ra = arg;
    SH = ra->sh;
    MYRANK = ra->rank;
    sim_set_rank(MYRANK);
    int prov, world, rank;
    MPI_Init_thread(NULL, NULL, MPI_THREAD_SERIALIZED, &prov);
    MPI_Comm_size(MPI_COMM_WORLD, &world);
    MPI_Comm_rank(MPI_COMM_WORLD, &rank);
    parsec_context_t *ctx = parsec_init(SH->nthreads, NULL, NULL);
    if (!ctx) { dtdh_event(MYRANK, 99, 0, 0); return NULL; }
    int ne = SH->nelems, nt = SH->ntiles;
    parsec_matrix_block_cyclic_t *m = calloc(1, sizeof(*m));
    parsec_matrix_block_cyclic_init(m, PARSEC_MATRIX_DOUBLE, PARSEC_MATRIX_TILE, rank, ne, 1, nt * ne, 1, 0, 0, nt * ne, 1, world, 1, 1, 1, 0, 0);
    m->mat = parsec_data_allocate((size_t)m->super.nb_local_tiles * (size_t)m->super.bsiz * sizeof(double));
    DC = &m->super.super;
    parsec_data_collection_set_key(DC, "A");
    /* initial contents: tile k element j = 1000*(k+1) + j */
    for (int k = 0; k < nt; k++) if ((int)DC->rank_of(DC, k, 0) == rank) {
        parsec_data_t *dt = DC->data_of(DC, k, 0);
        int64_t *ptr = PARSEC_DATA_COPY_GET_PTR(parsec_data_get_copy(dt, 0));
        for (int j = 0; j < ne; j++) ptr[j] = 1000 * (int64_t)(k + 1) + j;
    }
    parsec_dtd_data_collection_init(DC);
    TP = parsec_dtd_taskpool_new();
    parsec_arena_datatype_t *adt = parsec_matrix_adt_new_rect(parsec_datatype_double_t, ne, 1, ne);
    parsec_dtd_attach_arena_datatype(ctx, adt, &TILE_FULL);
    parsec_context_add_taskpool(ctx, TP);
    parsec_context_start(ctx);
    int since = 0;
    for (int i = 0; i < SH->ntasks; i++) {
        const dtd_task_desc_t *d = &SH->tasks[i];
        if (d->inserter >= 0) continue;
        insert_desc(d);
        if (SH->wait_between && ++since >= SH->wait_between && !d->is_flush) { since = 0; parsec_taskpool_wait(TP); dtdh_event(MYRANK, 3, i, 0); }
    }
    parsec_taskpool_wait(TP);
    dtdh_event(MYRANK, 4, 0, 0);
    parsec_context_wait(ctx);
    dtdh_event(MYRANK, 5, 0, 0);
    for (int k = 0; k < nt; k++) if ((int)DC->rank_of(DC, k, 0) == rank) {
        parsec_data_t *dt = DC->data_of(DC, k, 0);
        int64_t *ptr = PARSEC_DATA_COPY_GET_PTR(parsec_data_get_copy(dt, 0));
        for (int j = 0; j < ne; j++) SH->final_[k][j] = ptr[j];
        SH->final_valid[k] = 1;
    }
    parsec_taskpool_free(TP);
    parsec_dtd_data_collection_fini(DC);
    parsec_dtd_free_arena_datatype(ctx, TILE_FULL);
    parsec_data_free(m->mat);
    parsec_tiled_matrix_destroy(&m->super);
    free(m);
    parsec_fini(&ctx);
    MPI_Finalize();
    SH->rank_done[MYRANK] = 1;
    return NULL;
}
