/* DTD driver: one copy per simulated rank (rankified together with libparsec). Instrumented. */
#include "parsec/runtime.h"
#include "parsec/interfaces/dtd/insert_function.h"
#include "parsec/data_dist/matrix/two_dim_rectangle_cyclic.h"
#include "parsec/data_dist/matrix/matrix.h"
#include "parsec/arena.h"
#include "parsec/data_internal.h"
#include "parsec/parsec_comm_engine.h"
#include "parsec/execution_stream.h"
#include "parsec/mca/pins/pins.h"
#include <mpi.h>
#include <stdlib.h>
#include <string.h>
#include <stdio.h>
#include "sim/core/sim.h"
#include "harness/l2/dtd_common.h"

static dtd_shared_t *SH;
static int MYRANK;
static int TILE_FULL;
static parsec_taskpool_t *TP;
static parsec_data_collection_t *DC;

static void insert_desc(const dtd_task_desc_t *d);
static __thread int in_nested_insert;     /* this thread is inside an insertion issued from a task body */

/* adversity (knob copy_stall, environment VERIF_DTD_COPY_STALL_NS set by the harness): the thread that executes
 * a local copy / reshape command of the communication engine (the communication thread between dequeuing a
 * DEP_MEMCPY command and executing it; a worker when there is no communication thread) is held up for that many
 * simulated ns right before the copy is made.  A slow copy is something any machine may show; nothing else changes. */
static parsec_ce_reshape_fn_t real_reshape;
static uint64_t copy_stall_ns;
static int stalled_reshape(parsec_comm_engine_t *ce, parsec_execution_stream_t *es, parsec_data_copy_t *dst, int64_t displ_dst,
                           parsec_datatype_t layout_dst, uint64_t count_dst, parsec_data_copy_t *src, int64_t displ_src,
                           parsec_datatype_t layout_src, uint64_t count_src)
{
#if defined(PARSEC_VERIF_SIM)
    if (copy_stall_ns) { dtdh_event(MYRANK, 13, 0, 0); sim_delay(copy_stall_ns); }
#endif
    return real_reshape(ce, es, dst, displ_dst, layout_dst, count_dst, src, displ_src, layout_src, count_src);
}
static void install_copy_stall(void)
{
    if (!copy_stall_ns) return;
    parsec_ce_reshape_fn_t cur = parsec_ce.reshape;
    if (cur && cur != stalled_reshape) { real_reshape = cur; parsec_ce.reshape = stalled_reshape; }
}

/* observation through PaRSEC's own instrumentation interface (PINS): every time a task of our taskpool enters
 * prepare_input (event 11) and every time one starts executing (event 12).  A task that keeps entering prepare_input
 * without ever executing is being sent back by the write-after-read gate (AGAIN): the harness needs that to tell the
 * known retry livelock from other hangs. */
#if defined(PARSEC_PROF_PINS)
static parsec_pins_next_callback_t pins_prep_next[64], pins_exec_next[64];
static void pins_prep_cb(parsec_execution_stream_t *es, parsec_task_t *task, parsec_pins_next_callback_t *data)
{
    (void)es; (void)data;
    if (task && task->taskpool == TP) dtdh_event(MYRANK, 11, 0, (long)(intptr_t)task);
}
static void pins_exec_cb(parsec_execution_stream_t *es, parsec_task_t *task, parsec_pins_next_callback_t *data)
{
    (void)es; (void)data;
    if (task && task->taskpool == TP) dtdh_event(MYRANK, 12, 0, (long)(intptr_t)task);
}
static void install_pins(parsec_context_t *ctx)
{
    int n = 0;
    parsec_pins_enable_mask |= PARSEC_PINS_FLAG_MASK(PREPARE_INPUT_BEGIN) | PARSEC_PINS_FLAG_MASK(EXEC_BEGIN);
    for (int v = 0; v < ctx->nb_vp; v++)
        for (int e = 0; e < ctx->virtual_processes[v]->nb_cores && n < 64; e++, n++) {
            parsec_execution_stream_t *es = ctx->virtual_processes[v]->execution_streams[e];
            if (!es) continue;
            parsec_pins_register_callback(es, PREPARE_INPUT_BEGIN, pins_prep_cb, &pins_prep_next[n]);
            parsec_pins_register_callback(es, EXEC_BEGIN, pins_exec_cb, &pins_exec_next[n]);
        }
}
#else
static void install_pins(parsec_context_t *ctx) { (void)ctx; }
#endif

/* the owner's copy of every locally owned tile, as it is when parsec_taskpool_wait has just returned */
static void publish_after_wait(int first_index_after)
{
    for (int k = 0; k < SH->ntiles; k++) if ((int)DC->rank_of(DC, k, 0) == MYRANK) {
        parsec_data_t *dt = DC->data_of(DC, k, 0);
        int64_t *ptr = PARSEC_DATA_COPY_GET_PTR(parsec_data_get_copy(dt, 0));
        dtdh_event(MYRANK, 7, ((long)first_index_after << 8) | k, (long)(intptr_t)ptr);
    }
}

static int body_common(parsec_execution_stream_t *es, parsec_task_t *t)
{
    (void)es;
    int id = -1;
    int64_t *p[DTD_MAX_PARAMS] = {0, 0, 0, 0};
    parsec_dtd_unpack_args(t, &id, &p[0], &p[1], &p[2], &p[3]);
    const dtd_task_desc_t *d = &SH->tasks[id];
    if (in_nested_insert) dtdh_event(MYRANK, 9, id, 0);
    dtdh_event(MYRANK, 6, id, (long)(intptr_t)t);
    int rc = dtdh_body(MYRANK, id, d->nparams, p);
    (void)rc;
    /* tasks inserting tasks */
    for (int i = 0; i < SH->ntasks; i++)
        if (SH->tasks[i].inserter == id) { in_nested_insert++; insert_desc(&SH->tasks[i]); in_nested_insert--; }
    return PARSEC_HOOK_RETURN_DONE;
}
/* one function per signature (DTD keys task classes by function pointer + flow count and
 * fixes the flow access modes at class creation) */
#define B(n) static int body_##n(parsec_execution_stream_t *es, parsec_task_t *t) { return body_common(es, t); }
#define B10(x) B(x##0) B(x##1) B(x##2) B(x##3) B(x##4) B(x##5) B(x##6) B(x##7) B(x##8) B(x##9)
B10() B10(1) B10(2) B10(3) B10(4) B10(5) B10(6) B10(7) B10(8) B10(9) B10(10) B10(11)
#define R(n) body_##n,
#define R10(x) R(x##0) R(x##1) R(x##2) R(x##3) R(x##4) R(x##5) R(x##6) R(x##7) R(x##8) R(x##9)
static parsec_dtd_funcptr_t *const bodies[120] = { R10() R10(1) R10(2) R10(3) R10(4) R10(5) R10(6) R10(7) R10(8) R10(9) R10(10) R10(11) };

static int sig_of(const dtd_task_desc_t *d)
{
    /* 3 + 9 + 27 + 81 = 120 signatures */
    static const int base[5] = {0, 0, 3, 12, 39};
    int s = 0;
    for (int i = 0; i < d->nparams; i++) s = s * 3 + d->mode[i];
    return base[d->nparams] + s;
}
static int flag_of(const dtd_task_desc_t *d, int i)
{
    int f = d->mode[i] == M_IN ? PARSEC_INPUT : d->mode[i] == M_OUT ? PARSEC_OUTPUT : PARSEC_INOUT;
    f |= TILE_FULL;
    if (d->affinity == i) f |= PARSEC_AFFINITY;
    return f;
}
#define TILE(i) PARSEC_DTD_TILE_OF_KEY(DC, DC->data_key(DC, d->tile[i], 0))
static void insert_desc(const dtd_task_desc_t *d)
{
    if (d->is_flush == 2) { install_copy_stall(); dtdh_event(MYRANK, 8, d->id, 0); parsec_dtd_data_flush_all(TP, DC); dtdh_event(MYRANK, 10, d->id, 0); return; }
    if (d->is_flush == 1) { install_copy_stall(); dtdh_event(MYRANK, 8, d->id, 0); parsec_dtd_data_flush(TP, TILE(0)); dtdh_event(MYRANK, 10, d->id, 0); return; }
    if (d->is_flush == 3) { parsec_taskpool_wait(TP); publish_after_wait(d->id); dtdh_event(MYRANK, 3, d->id, 0); return; }
    if (d->is_flush || d->nparams < 1) return;
    parsec_dtd_funcptr_t *fn = bodies[sig_of(d)];
    int id = d->id;
    dtdh_event(MYRANK, 1, id, 0);
    switch (d->nparams) {
    case 1:
        parsec_dtd_insert_task(TP, fn, d->priority, PARSEC_DEV_CPU, "t1", sizeof(int), &id, PARSEC_VALUE,
                               PASSED_BY_REF, TILE(0), flag_of(d, 0), PARSEC_DTD_ARG_END);
        break;
    case 2:
        parsec_dtd_insert_task(TP, fn, d->priority, PARSEC_DEV_CPU, "t2", sizeof(int), &id, PARSEC_VALUE,
                               PASSED_BY_REF, TILE(0), flag_of(d, 0), PASSED_BY_REF, TILE(1), flag_of(d, 1), PARSEC_DTD_ARG_END);
        break;
    case 3:
        parsec_dtd_insert_task(TP, fn, d->priority, PARSEC_DEV_CPU, "t3", sizeof(int), &id, PARSEC_VALUE,
                               PASSED_BY_REF, TILE(0), flag_of(d, 0), PASSED_BY_REF, TILE(1), flag_of(d, 1),
                               PASSED_BY_REF, TILE(2), flag_of(d, 2), PARSEC_DTD_ARG_END);
        break;
    default:
        parsec_dtd_insert_task(TP, fn, d->priority, PARSEC_DEV_CPU, "t4", sizeof(int), &id, PARSEC_VALUE,
                               PASSED_BY_REF, TILE(0), flag_of(d, 0), PASSED_BY_REF, TILE(1), flag_of(d, 1),
                               PASSED_BY_REF, TILE(2), flag_of(d, 2), PASSED_BY_REF, TILE(3), flag_of(d, 3), PARSEC_DTD_ARG_END);
        break;
    }
    dtdh_event(MYRANK, 2, id, 0);
}

void *rank_main(void *arg)
{
    dtd_rank_arg_t *ra = arg;
    SH = ra->sh;
    MYRANK = ra->rank;
    sim_set_rank(MYRANK);
    int prov, world, rank;
    MPI_Init_thread(NULL, NULL, MPI_THREAD_SERIALIZED, &prov);
    MPI_Comm_size(MPI_COMM_WORLD, &world);
    MPI_Comm_rank(MPI_COMM_WORLD, &rank);
    parsec_context_t *ctx = parsec_init(SH->nthreads, NULL, NULL);
    if (!ctx) { dtdh_event(MYRANK, 99, 0, 0); return NULL; }
    copy_stall_ns = getenv("VERIF_DTD_COPY_STALL_NS") ? strtoull(getenv("VERIF_DTD_COPY_STALL_NS"), NULL, 10) : 0;
    install_copy_stall();
    install_pins(ctx);
    int ne = SH->nelems, nt = SH->ntiles;
    parsec_matrix_block_cyclic_t *m = calloc(1, sizeof(*m));
    parsec_matrix_block_cyclic_init(m, PARSEC_MATRIX_DOUBLE, PARSEC_MATRIX_TILE, rank, ne, 1, nt * ne, 1, 0, 0, nt * ne, 1, world, 1, 1, 1, 0, 0);
    m->mat = parsec_data_allocate((size_t)m->super.nb_local_tiles * (size_t)m->super.bsiz * sizeof(double));
    DC = &m->super.super;
    parsec_data_collection_set_key(DC, "A");
    /* initial contents: tile k element j = 1000*(k+1) + j */
    for (int k = 0; k < nt; k++) if ((int)DC->rank_of(DC, k, 0) == rank) {
        parsec_data_t *dt = DC->data_of(DC, k, 0);
        int64_t *ptr = PARSEC_DATA_COPY_GET_PTR(parsec_data_get_copy(dt, 0));
        for (int j = 0; j < ne; j++) ptr[j] = 1000 * (int64_t)(k + 1) + j;
    }
    parsec_dtd_data_collection_init(DC);
    TP = parsec_dtd_taskpool_new();
    parsec_arena_datatype_t *adt = parsec_matrix_adt_new_rect(parsec_datatype_double_t, ne, 1, ne);
    parsec_dtd_attach_arena_datatype(ctx, adt, &TILE_FULL);
    parsec_context_add_taskpool(ctx, TP);
    parsec_context_start(ctx);
    install_copy_stall();
    int since = 0;
    for (int i = 0; i < SH->ntasks; i++) {
        const dtd_task_desc_t *d = &SH->tasks[i];
        if (d->inserter >= 0) continue;
        insert_desc(d);
        if (SH->wait_between && ++since >= SH->wait_between && !d->is_flush) { since = 0; parsec_taskpool_wait(TP); publish_after_wait(i + 1); dtdh_event(MYRANK, 3, i, 0); }
    }
    parsec_taskpool_wait(TP);
    publish_after_wait(SH->ntasks);
    dtdh_event(MYRANK, 4, 0, 0);
    parsec_context_wait(ctx);
    dtdh_event(MYRANK, 5, 0, 0);
    for (int k = 0; k < nt; k++) if ((int)DC->rank_of(DC, k, 0) == rank) {
        parsec_data_t *dt = DC->data_of(DC, k, 0);
        int64_t *ptr = PARSEC_DATA_COPY_GET_PTR(parsec_data_get_copy(dt, 0));
        for (int j = 0; j < ne; j++) SH->final_[k][j] = ptr[j];
        SH->final_valid[k] = 1;
    }
    parsec_taskpool_free(TP);
    parsec_dtd_data_collection_fini(DC);
    parsec_dtd_free_arena_datatype(ctx, TILE_FULL);
    parsec_data_free(m->mat);
    parsec_tiled_matrix_destroy(&m->super);
    free(m);
    parsec_fini(&ctx);
    MPI_Finalize();
    SH->rank_done[MYRANK] = 1;
    return NULL;
}
