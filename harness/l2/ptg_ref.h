/* interface between a generated PTG reference (gen/ptg/gen.py) and the PTG harness */
#ifndef PTG_REF_H
#define PTG_REF_H
#include <stddef.h>
#define PTG_MAX_PARAMS 4
#define PTG_MAX_FLOWS 6
enum { PTG_RW = 1, PTG_READ, PTG_WRITE, PTG_CTL };
enum { PTG_K_COLL = 1, PTG_K_TASK, PTG_K_NEW, PTG_K_NULL };
typedef void (*ptg_inst_cb)(void *u, int cls, const int *params, int aff_tile, int prio);
/* dir 0 = input dependency, 1 = output dependency */
typedef void (*ptg_dep_cb)(void *u, int flow, int dir, int kind, int cls, int dflow, const int *params, int tile);
typedef struct ptg_class {
    const char *name;
    int nparams, nflows;
    int kinds[PTG_MAX_FLOWS];
    const char *fnames[PTG_MAX_FLOWS];
    void (*enumerate)(const int *G, ptg_inst_cb cb, void *u);
    void (*deps)(const int *G, const int *P, ptg_dep_cb cb, void *u);
    int param_local_idx[PTG_MAX_PARAMS];   /* position of each parameter among the task's locals (wire format) */
} ptg_class_t;
typedef struct ptg_ref {
    const char *name;
    int nglobals;
    const char *gnames[4];
    int nclasses;
    const ptg_class_t *classes;
} ptg_ref_t;
extern const ptg_ref_t PTG_REF;
#endif
