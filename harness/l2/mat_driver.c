/* Matrix-collection driver (C21, C22): one copy per simulated rank (rankified together with libparsec).
 * Instrumented.  Only calls public entry points of the code under test: parsec_redistribute(_New),
 * parsec_apply(_New/_Destruct), parsec_map_operator_New, parsec_reduce_new (generated constructor, used the
 * way tests/collections/reduce.c uses it), parsec_reduce_col_New / parsec_reduce_row_New. */
#include "parsec/runtime.h"
#include "parsec/data_dist/matrix/matrix.h"
#include "parsec/data_dist/matrix/two_dim_rectangle_cyclic.h"
#include "parsec/data_dist/matrix/sym_two_dim_rectangle_cyclic.h"
#include "parsec/data_dist/matrix/sbc.h"
#include "parsec/data_dist/matrix/two_dim_tabular.h"
#include "parsec/data_dist/matrix/vector_two_dim_cyclic.h"
#include "parsec/data_dist/matrix/reduce.h"
#include "parsec/data_internal.h"
#include "parsec/parsec_internal.h"
#include "parsec/arena.h"
#include "parsec/datatype.h"
#include <mpi.h>
#include <stdarg.h>
#include <stdlib.h>
#include <string.h>
#include <stdio.h>
#include "sim/core/sim.h"
#include "harness/l2/mat_common.h"

static mat_shared_t *SH;
static int MYRANK;

typedef struct dmat {
    const mat_desc_t *d;
    parsec_tiled_matrix_t *desc;
    union {
        parsec_matrix_block_cyclic_t bc;
        parsec_matrix_sbc_t sbc;
        parsec_matrix_tabular_t tab;
        parsec_matrix_sym_block_cyclic_t sym;
    } u;
    void *mat;
} dmat_t;
static dmat_t MA, MB;

static parsec_matrix_type_t mtype_of(int t) { return t == MTY_INT ? PARSEC_MATRIX_INTEGER : PARSEC_MATRIX_DOUBLE; }
static parsec_matrix_uplo_t uplo_of(int u) { return u == MU_UPPER ? PARSEC_MATRIX_UPPER : u == MU_LOWER ? PARSEC_MATRIX_LOWER : PARSEC_MATRIX_FULL; }
static int mu_of(int uplo) { return uplo == PARSEC_MATRIX_FULL ? MU_FULL : uplo == PARSEC_MATRIX_UPPER ? MU_UPPER : uplo == PARSEC_MATRIX_LOWER ? MU_LOWER : -1; }

static void *alloc_tiles(const parsec_tiled_matrix_t *t)
{
    size_t bytes = (size_t)t->nb_local_tiles * (size_t)t->bsiz * (size_t)parsec_datadist_getsizeoftype(t->mtype);
    return bytes ? parsec_data_allocate(bytes) : NULL;
}

static int make_matrix(dmat_t *x, const mat_desc_t *d, int rank, int world, const char *name)
{
    memset(x, 0, sizeof(*x));
    x->d = d;
    switch (d->dist) {
    case MD_2DBC:
        parsec_matrix_block_cyclic_init(&x->u.bc, mtype_of(d->mtype), PARSEC_MATRIX_TILE, rank, d->mb, d->nb, d->M, d->N, 0, 0, d->M, d->N,
                                        d->P, d->Q, d->kp, d->kq, d->ip, d->jq);
        x->desc = &x->u.bc.super;
        x->u.bc.mat = x->mat = alloc_tiles(x->desc);
        break;
    case MD_SYM:
        parsec_matrix_sym_block_cyclic_init(&x->u.sym, mtype_of(d->mtype), rank, d->mb, d->nb, d->M, d->N, 0, 0, d->M, d->N, d->P, d->Q, uplo_of(d->uplo));
        x->desc = &x->u.sym.super;
        x->u.sym.mat = x->mat = alloc_tiles(x->desc);
        break;
    case MD_SBC:
        if (PARSEC_SUCCESS != parsec_matrix_sbc_init(&x->u.sbc, mtype_of(d->mtype), rank, d->mb, d->nb, d->M, d->N, 0, 0, d->M, d->N, world, d->r, uplo_of(d->uplo))) return -1;
        x->desc = &x->u.sbc.super;
        x->u.sbc.mat = x->mat = alloc_tiles(x->desc);
        break;
    case MD_TAB: {
        parsec_matrix_tabular_init(&x->u.tab, mtype_of(d->mtype), (unsigned)world, (unsigned)rank, (unsigned)d->mb, (unsigned)d->nb, (unsigned)d->M, (unsigned)d->N, 0, 0,
                                   (unsigned)d->M, (unsigned)d->N, NULL);
        x->desc = &x->u.tab.super;
        int nt = x->desc->lmt * x->desc->lnt;
        parsec_two_dim_td_table_t *tb = malloc(sizeof(*tb) + (size_t)(nt > 1 ? nt - 1 : 0) * sizeof(parsec_two_dim_td_table_elem_t));
        tb->nbelem = nt;
        uint64_t s = 0x7ab1e000ULL + d->seed;
        for (int p = 0; p < nt; p++) {          /* same table on every rank: a pure function of the plan */
            tb->elems[p].rank = (uint32_t)(sim_splitmix(&s) % (uint64_t)world);
            tb->elems[p].vpid = 0;
            tb->elems[p].pos = -1;
            tb->elems[p].data = NULL;
        }
        parsec_matrix_tabular_set_table(&x->u.tab, tb);     /* allocates the local tiles */
        break;
    }
    default: return -1;
    }
    parsec_data_collection_set_key(&x->desc->super, name);
    return 0;
}
static void free_matrix(dmat_t *x)
{
    if (!x->desc) return;
    if (x->d->dist == MD_TAB) { parsec_matrix_tabular_destroy(&x->u.tab); return; }
    if (x->mat) parsec_data_free(x->mat);
    parsec_tiled_matrix_destroy(x->desc);
}
static int stored(const mat_desc_t *d, int m, int n)
{
    if (d->dist != MD_SBC && d->dist != MD_SYM) return 1;
    return d->uplo == MU_LOWER ? m >= n : n >= m;
}
typedef void (*tile_fn)(int which, int m, int n, void *ptr, int ld, long arg);
static void each_local_tile(dmat_t *x, int which, tile_fn fn, long arg)
{
    parsec_data_collection_t *dc = &x->desc->super;
    for (int n = 0; n < x->desc->lnt; n++) for (int m = 0; m < x->desc->lmt; m++) {
        if (!stored(x->d, m, n)) continue;
        if ((int)dc->rank_of(dc, m, n) != MYRANK) continue;
        parsec_data_t *dt = dc->data_of(dc, m, n);
        parsec_data_copy_t *cp = parsec_data_get_copy(dt, 0);
        fn(which, m, n, cp ? PARSEC_DATA_COPY_GET_PTR(cp) : NULL, x->desc->mb, arg);
    }
}
static void fill_cb(int which, int m, int n, void *ptr, int ld, long arg) { (void)arg; math_fill(MYRANK, which, m, n, ptr, ld); }
static void publish_cb(int which, int m, int n, void *ptr, int ld, long arg) { math_publish(MYRANK, (int)arg, which, m, n, ptr, ld); }

/* ---- operators handed to PaRSEC ---- */
static int apply_operator(struct parsec_execution_stream_s *es, const parsec_tiled_matrix_t *desc, void *data, int uplo, int m, int n, void *args)
{
    (void)es;
    long cookie = args ? *(long *)args : -1;
    math_apply_op(MYRANK, cookie, desc, desc == MA.desc, mu_of(uplo), m, n, data);
    return 0;
}
static int map_operator(struct parsec_execution_stream_s *es, const void *src, void *dst, void *op_data, ...)
{
    (void)es;
    va_list ap;
    va_start(ap, op_data);
    int m = va_arg(ap, int);
    int n = va_arg(ap, int);
    va_end(ap);
    math_map_op(MYRANK, op_data ? *(long *)op_data : -1, m, n, src, dst);
    return 0;
}
static int reduce_operator(struct parsec_execution_stream_s *es, const void *src, void *dst, void *op_data, ...)
{
    (void)es;
    math_reduce_op(MYRANK, op_data ? *(long *)op_data : -1, src, dst);
    return 0;
}

static int run_taskpool(parsec_context_t *ctx, parsec_taskpool_t *tp)
{
    int rc = parsec_context_add_taskpool(ctx, tp);
    if (rc < 0) return rc;
    rc = parsec_context_start(ctx);
    if (rc < 0) return rc;
    return parsec_context_wait(ctx);
}

static long COOKIES[MAT_MAX_OPS];

static int do_op(parsec_context_t *ctx, int i, const mat_op_t *o)
{
    int rc = 0;
    COOKIES[i] = MAT_COOKIE(i);
    switch (o->kind) {
    case MO_REDIST:
        if (o->variant == 0) {
            rc = parsec_redistribute(ctx, MA.desc, MB.desc, o->size_row, o->size_col, o->disi_Y, o->disj_Y, o->disi_T, o->disj_T);
        } else {
            parsec_taskpool_t *tp = parsec_redistribute_New(MA.desc, MB.desc, o->size_row, o->size_col, o->disi_Y, o->disj_Y, o->disi_T, o->disj_T);
            if (!tp) { rc = PARSEC_ERR_NOT_SUPPORTED; break; }
            math_event(MYRANK, ME_PATH, i, tp->taskpool_name && !strcmp(tp->taskpool_name, "redistribute_reshuffle") ? 2 : 1);
            rc = run_taskpool(ctx, tp);
            parsec_taskpool_free(tp);
        }
        break;
    case MO_APPLY:
        if (o->variant == 0) {
            rc = parsec_apply(ctx, uplo_of(o->uplo), MA.desc, apply_operator, &COOKIES[i]);
        } else {
            parsec_taskpool_t *tp = parsec_apply_New(uplo_of(o->uplo), MA.desc, apply_operator, &COOKIES[i]);
            if (!tp) { rc = PARSEC_ERROR; break; }
            rc = run_taskpool(ctx, tp);
            parsec_apply_Destruct(tp);
        }
        break;
    case MO_MAP: {
        parsec_tiled_matrix_t *dest = o->destmode == 0 ? NULL : o->destmode == 1 ? MA.desc : MB.desc;
        parsec_taskpool_t *tp = parsec_map_operator_New(MA.desc, dest, map_operator, &COOKIES[i]);
        if (!tp) { rc = PARSEC_ERROR; break; }
        rc = run_taskpool(ctx, tp);
        parsec_taskpool_free(tp);
        break;
    }
    case MO_REDUCE: {
        /* exactly the call sequence of tests/collections/reduce.c (the constructor takes no operator) */
        parsec_datatype_t oldtype, newtype;
        parsec_translate_matrix_type(MA.desc->mtype, &oldtype);
        parsec_reduce_taskpool_t *tp = parsec_reduce_new(MA.desc, MB.desc, NULL);
        if (!tp) { rc = PARSEC_ERROR; break; }
        parsec_type_create_contiguous(MA.desc->mb * MA.desc->nb, oldtype, &newtype);
        parsec_arena_datatype_set_type(&tp->arenas_datatypes[PARSEC_reduce_DEFAULT_ADT_IDX],
                                       (size_t)MA.desc->mb * MA.desc->nb * parsec_datadist_getsizeoftype(MA.desc->mtype), PARSEC_ARENA_ALIGNMENT_SSE, newtype);
        rc = run_taskpool(ctx, &tp->super);
        PARSEC_OBJ_DESTRUCT(&tp->arenas_datatypes[PARSEC_reduce_DEFAULT_ADT_IDX]);
        parsec_taskpool_free(&tp->super);
        parsec_type_free(&newtype);
        break;
    }
    case MO_REDUCE_COL:
    case MO_REDUCE_ROW: {
        /* dest is indexed with ONE coordinate by the JDFs (dest(col) / dest(column)): a vector collection whose
         * tiles hold mb*nb elements */
        parsec_vector_two_dim_cyclic_t v;
        int tl = MA.desc->mb * MA.desc->nb, cnt = (MA.desc->lmt > MA.desc->lnt ? MA.desc->lmt : MA.desc->lnt) + 1;
        parsec_vector_two_dim_cyclic_init(&v, MA.desc->mtype, PARSEC_VECTOR_DISTRIB_COL, MYRANK, tl, tl * cnt, 0, tl * cnt, MA.d->P, MA.d->Q);
        v.mat = alloc_tiles(&v.super);
        if (v.mat) memset(v.mat, 0, (size_t)v.super.nb_local_tiles * v.super.bsiz * parsec_datadist_getsizeoftype(v.super.mtype));
        parsec_data_collection_set_key(&v.super.super, "V");
        parsec_taskpool_t *tp = o->kind == MO_REDUCE_COL ? parsec_reduce_col_New(MA.desc, &v.super, reduce_operator, &COOKIES[i])
                                                         : parsec_reduce_row_New(MA.desc, &v.super, reduce_operator, &COOKIES[i]);
        if (!tp) { rc = PARSEC_ERROR; }
        else { rc = run_taskpool(ctx, tp); parsec_taskpool_free(tp); }
        /* publish entry 0 of the vector as "matrix 1, tile (0,0)" when it is local */
        if ((int)v.super.super.rank_of(&v.super.super, 0) == MYRANK) {
            parsec_data_t *dt = v.super.super.data_of(&v.super.super, 0);
            math_publish(MYRANK, i, 2, 0, 0, PARSEC_DATA_COPY_GET_PTR(parsec_data_get_copy(dt, 0)), MA.desc->mb);
        }
        if (v.mat) parsec_data_free(v.mat);
        parsec_tiled_matrix_destroy(&v.super);
        break;
    }
    }
    return rc;
}

void *rank_main(void *arg)
{
    mat_rank_arg_t *ra = arg;
    SH = ra->sh;
    MYRANK = ra->rank;
    sim_set_rank(MYRANK);
    int prov, world, rank;
    MPI_Init_thread(NULL, NULL, MPI_THREAD_SERIALIZED, &prov);
    MPI_Comm_size(MPI_COMM_WORLD, &world);
    MPI_Comm_rank(MPI_COMM_WORLD, &rank);
    parsec_context_t *ctx = parsec_init(SH->nthreads, NULL, NULL);
    if (!ctx) { math_event(MYRANK, ME_INIT_FAILED, 0, 0); return NULL; }
    if (make_matrix(&MA, &SH->A, rank, world, "A") || make_matrix(&MB, &SH->B, rank, world, "B")) {
        math_event(MYRANK, ME_MATRIX_FAILED, 0, 0);
        return NULL;
    }
    each_local_tile(&MA, 0, fill_cb, 0);
    each_local_tile(&MB, 1, fill_cb, 0);
    for (int i = 0; i < SH->nops; i++) {
        const mat_op_t *o = &SH->ops[i];
        math_event(MYRANK, ME_OP_BEGIN, i, o->kind);
        int rc = do_op(ctx, i, o);
        math_event(MYRANK, ME_OP_END, i, rc);
        each_local_tile(&MA, 0, publish_cb, i);
        each_local_tile(&MB, 1, publish_cb, i);
        if (SH->barrier) MPI_Barrier(MPI_COMM_WORLD);
    }
    free_matrix(&MB);
    free_matrix(&MA);
    parsec_fini(&ctx);
    MPI_Finalize();
    SH->rank_done[MYRANK] = 1;
    return NULL;
}
