/* PTG driver: one copy per simulated rank (rankified with libparsec and the generated PTG code). */
#include "parsec/runtime.h"
#include "parsec/data_dist/matrix/two_dim_rectangle_cyclic.h"
#include "parsec/data_dist/matrix/matrix.h"
#include "parsec/data_internal.h"
#include "parsec/parsec_internal.h"
#include <mpi.h>
#include <stdlib.h>
#include <string.h>
#include <stdio.h>
#include "sim/core/sim.h"
#include "harness/l2/ptg_common.h"

parsec_taskpool_t *ptg_make(parsec_data_collection_t *A, int tpid, const int *G, int nelems);

static ptg_shared_t *SH;
static int MYRANK;

static parsec_context_t *CTX;
static parsec_taskpool_t *TPS[PTG_MAX_TP];
static int chain_next[PTG_MAX_TP];
static int on_complete(parsec_taskpool_t *tp, void *data)
{
    (void)tp;
    int slot = (int)(intptr_t)data;
    ptgh_event(MYRANK, PE_COMPLETE_CB, slot, 0);
    if (slot >= 0 && slot < PTG_MAX_TP && chain_next[slot] >= 0) {
        int b = chain_next[slot];
        chain_next[slot] = -1;
        parsec_context_add_taskpool(CTX, TPS[b]);       /* a taskpool added from a completion callback */
    }
    return 0;
}

/* the smallest legal taskpool of a user-defined DSL: no task class, no task, no pending action (what
 * parsec_map_operator_New builds for a rank that owns no tile).  It is complete as soon as it is enabled. */
static void null_startup(parsec_context_t *context, parsec_taskpool_t *tp, parsec_task_t **startup_list)
{
    (void)context; (void)tp;
    *startup_list = NULL;
}
static parsec_taskpool_t *null_taskpool_new(void)
{
    parsec_taskpool_t *tp = PARSEC_OBJ_NEW(parsec_taskpool_t);
    tp->taskpool_name = strdup("null");
    tp->taskpool_type = PARSEC_TASKPOOL_TYPE_PTG;
    tp->nb_tasks = 0;
    tp->nb_pending_actions = 0;
    tp->startup_hook = null_startup;
    tp->nb_task_classes = 0;
    tp->devices_index_mask = PARSEC_DEVICES_ALL;
    tp->update_nb_runtime_task = parsec_add_fetch_runtime_task;
    (void)parsec_taskpool_reserve_id(tp);
    return tp;
}

void *rank_main(void *arg)
{
    ptg_rank_arg_t *ra = arg;
    SH = ra->sh;
    MYRANK = ra->rank;
    sim_set_rank(MYRANK);
    int prov, world, rank;
    MPI_Init_thread(NULL, NULL, MPI_THREAD_SERIALIZED, &prov);
    MPI_Comm_size(MPI_COMM_WORLD, &world);
    MPI_Comm_rank(MPI_COMM_WORLD, &rank);
    parsec_context_t *ctx = parsec_init(SH->nthreads, NULL, NULL);
    if (!ctx) { ptgh_event(MYRANK, PE_INIT_FAILED, 0, 0); return NULL; }
    int ne = SH->nelems, nt = PTG_NTILES;
    parsec_matrix_block_cyclic_t *m = calloc(1, sizeof(*m));
    parsec_matrix_block_cyclic_init(m, PARSEC_MATRIX_DOUBLE, PARSEC_MATRIX_TILE, rank, ne, 1, nt * ne, 1, 0, 0, nt * ne, 1, world, 1, 1, 1, 0, 0);
    m->mat = parsec_data_allocate((size_t)m->super.nb_local_tiles * (size_t)m->super.bsiz * sizeof(double));
    parsec_data_collection_t *DC = &m->super.super;
    parsec_data_collection_set_key(DC, "A");
    for (int k = 0; k < nt; k++) if ((int)DC->rank_of(DC, k, 0) == rank) {
        parsec_data_t *dt = DC->data_of(DC, k, 0);
        int64_t *ptr = PARSEC_DATA_COPY_GET_PTR(parsec_data_get_copy(dt, 0));
        for (int j = 0; j < ne; j++) ptr[j] = 1000 * (int64_t)(k + 1) + j;
    }
    parsec_taskpool_t **tp = TPS;
    CTX = ctx;
    memset(TPS, 0, sizeof(TPS));
    for (int i = 0; i < PTG_MAX_TP; i++) chain_next[i] = -1;
    for (int i = 0; i < SH->nactions; i++) {
        ptg_action_t *a = &SH->actions[i];
        ptgh_event(MYRANK, PE_ACTION_BEGIN, i, a->kind);
        switch (a->kind) {
        case PA_NEW:
            if (a->b == 2) tp[a->a] = null_taskpool_new();     /* b = 2: a taskpool of a minimal user DSL that has nothing to do: terminates inside parsec_context_add_taskpool */
            else { static const int GZ[4] = {0, 0, 0, 0}; tp[a->a] = ptg_make(DC, a->a, a->b ? GZ : SH->G, ne); }     /* b = 1: every global 0, no task instance */
            break;
        case PA_ADD:
            /* members of a compound must not carry a completion callback of their own (compound.c
             * installs its own); directly added taskpools get theirs here */
            if (tp[a->a]->on_complete == NULL) parsec_taskpool_set_complete_callback(tp[a->a], on_complete, (void *)(intptr_t)a->a);
            parsec_context_add_taskpool(ctx, tp[a->a]);
            break;
        case PA_START: parsec_context_start(ctx); break;
        case PA_CTXWAIT: parsec_context_wait(ctx); break;
        case PA_TPWAIT: parsec_taskpool_wait(tp[a->a]); break;
        case PA_TEST: (void)parsec_context_test(ctx); break;
        case PA_COMPOSE: {
            parsec_taskpool_t *c = tp[a->b];
            for (int k = 1; k < a->c; k++) c = parsec_compose(c, tp[a->b + k]);
            tp[a->a] = c;
            if (a->c > 1) parsec_taskpool_set_complete_callback(c, on_complete, (void *)(intptr_t)a->a);
            break;
        }
        case PA_CHAIN:
            chain_next[a->a] = a->b;
            parsec_taskpool_set_complete_callback(tp[a->b], on_complete, (void *)(intptr_t)a->b);
            break;
        case PA_FREE:
            if (tp[a->a]) {
                parsec_taskpool_t *victim = tp[a->a];
                parsec_taskpool_free(victim);
                for (int k = 0; k < PTG_MAX_TP; k++) if (tp[k] == victim) tp[k] = NULL;     /* a 1-element composition aliases its member */
            }
            break;
        }
        ptgh_event(MYRANK, PE_ACTION_END, i, a->kind);
    }
    for (int k = 0; k < nt; k++) if ((int)DC->rank_of(DC, k, 0) == rank) {
        parsec_data_t *dt = DC->data_of(DC, k, 0);
        int64_t *ptr = PARSEC_DATA_COPY_GET_PTR(parsec_data_get_copy(dt, 0));
        for (int j = 0; j < ne; j++) SH->final_[k][j] = ptr[j];
        SH->final_valid[k] = 1;
    }
    parsec_data_free(m->mat);
    parsec_tiled_matrix_destroy(&m->super);
    free(m);
    parsec_fini(&ctx);
    MPI_Finalize();
    SH->rank_done[MYRANK] = 1;
    return NULL;
}
