/* Scheduler driver (C08, C09): one copy per simulated rank (a single rank is used), rankified together with
 * libparsec.  Instrumented.  Free of policy: every decision comes from the harness (sched.c) through the
 * callbacks of sched_common.h.
 *
 * How the scheduler gets installed without starting the context
 * --------------------------------------------------------------
 * Nothing special is needed, parsec_init() does all of it (parsec/parsec.c):
 *   - parsec_init() calls parsec_set_scheduler(context): the component named by the MCA parameter mca_sched
 *     (environment variable PARSEC_MCA_mca_sched, set by the harness) is opened and module.install() runs;
 *   - every execution stream is created by its own thread in __parsec_thread_init(), which calls
 *     module.flow_init(es, per-VP barrier) right after the per-VP start-up barrier, i.e. all streams of a VP
 *     run flow_init together, exactly as sched.h describes;
 *   - the worker threads then enter __parsec_context_wait(), pass the "everybody is bound" barrier with the
 *     thread that called parsec_init() and park in the context barrier (a pthread mutex/condvar barrier: they
 *     are BLOCKED, they do not spin) until parsec_context_start() -- which this driver never calls -- or
 *     parsec_fini(), which wakes them with __parsec_internal_finalization_in_progress set so that they leave.
 * So after parsec_init() returns, parsec_current_scheduler is installed and every es->scheduler_object is
 * initialised.  init -> fini without a start is a legal life cycle (parsec_init itself uses it for --help).
 *
 * Client threads are created here with pthread_create (=> simulated threads).  Each ADOPTS one real execution
 * stream: es = context->virtual_processes[v]->execution_streams[i], published as the thread's stream with
 * parsec_set_my_execution_stream(es) -- the accessor the runtime itself uses (comm thread, remote_dep_mpi.c) --
 * because __parsec_schedule() hands parsec_my_execution_stream() to PINS and __parsec_schedule_vp(NULL,..)
 * takes the stream from there.  PaRSEC's own owner of that stream is parked for the whole run, so the stream
 * still has exactly one user.  At most one client adopts a given stream.  The communication-thread-style
 * client uses a private stream initialised the way remote_dep_mpi.c initialises parsec_comm_es
 * (th_id 0, VP 0, scheduler_object NULL, next_task poisoned).
 *
 * __parsec_get_next_task() is `static inline` in scheduling.c; drv_get_next_task() below is a literal copy
 * (next_task first, reported distance 1; otherwise module.select). */
#include "parsec/runtime.h"
#include "parsec/parsec_internal.h"
#include "parsec/scheduling.h"
#include "parsec/execution_stream.h"
#include "parsec/mempool.h"
#include "parsec/class/dequeue.h"
#include "parsec/class/lifo.h"
#include "parsec/mca/sched/sched.h"
#include "parsec/mca/sched/sched_local_queues_utils.h"
#include <mpi.h>
#include <pthread.h>
#include <stdlib.h>
#include <string.h>
#include <stdio.h>
#include "sim/core/sim.h"
#include "harness/l2/sched_common.h"

static sched_shared_t *SH;
static parsec_context_t *CTX;
static parsec_execution_stream_t *ES[SCH_MAX_STREAMS];
static parsec_task_t **TASKS;
typedef struct { parsec_task_t *p; int id; } pmap_t;
static pmap_t *PMAP;                /* sorted by pointer: returned task -> index, without touching the pointee */

/* fake task classes: only the fields a scheduler module reads (sched_gd: flags, sched_ltq: nb_flows) */
static parsec_task_class_t CLASSES[SCH_NCLASSES] = {
    { .name = "fake_f1",    .flags = 0,                         .task_class_id = 0, .nb_flows = 1 },
    { .name = "fake_f2",    .flags = 0,                         .task_class_id = 1, .nb_flows = 2 },
    { .name = "fake_hp_f0", .flags = PARSEC_HIGH_PRIORITY_TASK, .task_class_id = 2, .nb_flows = 0 },
    { .name = "fake_hp_f1", .flags = PARSEC_HIGH_PRIORITY_TASK, .task_class_id = 3, .nb_flows = 1 },
};

static int pmap_cmp(const void *a, const void *b)
{
    uintptr_t x = (uintptr_t)((const pmap_t *)a)->p, y = (uintptr_t)((const pmap_t *)b)->p;
    return x < y ? -1 : x > y;
}
static int task_id(const parsec_task_t *t)
{
    if (!t) return -1;
    int lo = 0, hi = SH->ntasks - 1;
    while (lo <= hi) {
        int m = (lo + hi) / 2;
        if (PMAP[m].p == t) return PMAP[m].id;
        if ((uintptr_t)PMAP[m].p < (uintptr_t)t) lo = m + 1; else hi = m - 1;
    }
    return -2;
}
static int next_id_of(parsec_execution_stream_t *es)
{
    if (NULL == es->scheduler_object) return -1;        /* comm-thread-style stream: next_task is a poison value */
    return task_id(es->next_task);
}

/* literal copy of scheduling.c:__parsec_get_next_task (static inline there) */
static parsec_task_t *drv_get_next_task(parsec_execution_stream_t *es, int *distance, int *from_next)
{
    parsec_task_t *task;
    *from_next = 0;
    if (NULL == (task = es->next_task)) {
        task = parsec_current_scheduler->module.select(es, distance);
    } else {
        es->next_task = NULL;
        *distance = 1;
        *from_next = 1;
    }
    return task;
}

static int do_select(int thr, int stream, parsec_execution_stream_t *es, int runtime_select)
{
    int32_t distance = -12345;
    int from_next = 0;
    parsec_task_t *t;
    schedh_select_invoke(thr, stream);
    if (runtime_select) t = drv_get_next_task(es, &distance, &from_next);
    else t = parsec_current_scheduler->module.select(es, &distance);
    int id = task_id(t);
    schedh_selected(thr, stream, id, distance, from_next);
    return id;
}

static void do_schedule(int thr, parsec_execution_stream_t *es, const sched_req_t *rq)
{
    parsec_task_t *rings[SCH_MAX_STREAMS];
    memset(rings, 0, sizeof(rings));
    int per_vp = rq->api == SCH_API_VP || rq->api == SCH_API_VP_NULL;
    for (int i = 0; i < rq->n; i++) {
        parsec_task_t *t = TASKS[rq->ids[i]];
        t->priority = rq->prio[i];
        t->task_class = &CLASSES[rq->cls[i] % SCH_NCLASSES];
        t->status = PARSEC_TASK_STATUS_NONE;
        /* never dereferenced by a scheduler, only compared (sched_ltq) */
        t->data[0].data_in = (parsec_data_copy_t *)(uintptr_t)(0x100000 + 64 * (rq->din[i] & 7));
        t->data[1].data_in = (parsec_data_copy_t *)(uintptr_t)(0x40000000 + 64 * (uintptr_t)rq->ids[i]);
        PARSEC_LIST_ITEM_SINGLETON(t);
        int v = per_vp ? rq->vp[i] % CTX->nb_vp : 0;
        if (rings[v]) parsec_list_item_ring_push(&rings[v]->super, &t->super);
        else rings[v] = t;
    }
    int rc = 0;
    schedh_invoke(thr, rq, next_id_of(es));
    switch (rq->api) {
    case SCH_API_MODULE:   rc = parsec_current_scheduler->module.schedule(ES[rq->target], rings[0], rq->distance); break;
    case SCH_API_SCHEDULE: rc = __parsec_schedule(ES[rq->target], rings[0], rq->distance); break;
    case SCH_API_VP:       rc = __parsec_schedule_vp(es, rings, rq->distance); break;
    default:               rc = __parsec_schedule_vp(NULL, rings, rq->distance); break;
    }
    schedh_return(thr, rq, rc, next_id_of(es));
}

static void *client_main(void *arg)
{
    int ci = (int)(intptr_t)arg;
    int thr = SH->client_thr[ci];
    int stream = SH->client_stream[ci];
    parsec_execution_stream_t comm_es;
    parsec_execution_stream_t *es;
    if (stream < 0) {
        /* mirrors remote_dep_mpi.c (initialisation of parsec_comm_es) */
        memset(&comm_es, 0, sizeof(comm_es));
        comm_es.th_id = 0;
        comm_es.virtual_process = CTX->virtual_processes[0];
        comm_es.rand_seed = 0;
        comm_es.scheduler_object = NULL;
        comm_es.core_id = -1;
        comm_es.socket_id = -1;
        comm_es.next_task = (parsec_task_t *)0xdeadbeef;
        es = &comm_es;
    } else es = ES[stream];
    parsec_set_my_execution_stream(es);
    sched_req_t rq;
    while (schedh_next(thr, &rq)) {
        switch (rq.kind) {
        case SCH_REQ_SCHEDULE:
            if (rq.n > 0) do_schedule(thr, es, &rq);
            break;
        case SCH_REQ_SELECT:
            if (NULL == es->scheduler_object) break;        /* the communication thread never selects */
            for (int k = 0; k < rq.count; k++) if (do_select(thr, stream, es, rq.runtime_select) < 0) break;
            break;
        case SCH_REQ_FLUSH:
            if (NULL == es->scheduler_object) break;
            schedh_invoke(thr, &rq, next_id_of(es));
            {
                int rc = __parsec_schedule_flush_private(es);
                schedh_return(thr, &rq, rc, next_id_of(es));
            }
            break;
        case SCH_REQ_PAUSE:
            if (rq.pause_ns > 0) sim_delay((uint64_t)rq.pause_ns); else sim_yield();
            break;
        default: break;
        }
    }
    return NULL;
}

void *rank_main(void *arg)
{
    sched_rank_arg_t *ra = arg;
    SH = ra->sh;
    sim_set_rank(ra->rank);
    int prov;
    MPI_Init_thread(NULL, NULL, MPI_THREAD_SERIALIZED, &prov);
    CTX = parsec_init(SH->nstreams, NULL, NULL);
    if (!CTX) { schedh_event(99, 0, 0); return NULL; }
    /* facts */
    int n = 0;
    SH->got_nvp = CTX->nb_vp;
    for (int v = 0; v < CTX->nb_vp; v++) {
        parsec_vp_t *vp = CTX->virtual_processes[v];
        for (int i = 0; i < vp->nb_cores && n < SCH_MAX_STREAMS; i++, n++) {
            ES[n] = vp->execution_streams[i];
            SH->stream_vp[n] = vp->vp_id;
            SH->stream_th[n] = ES[n]->th_id;
            SH->sysq_distance[n] = -1;
        }
    }
    SH->got_streams = n;
    SH->keep_highest = parsec_runtime_keep_highest_priority_task;
    if (NULL == parsec_current_scheduler) { schedh_event(98, 0, 0); return NULL; }
    const char *nm = parsec_current_scheduler->component->base_version.mca_component_name;
    snprintf(SH->sched_name, sizeof(SH->sched_name), "%s", nm);
    if (!strcmp(nm, "lfq") || !strcmp(nm, "lhq") || !strcmp(nm, "ltq") || !strcmp(nm, "pbq"))
        for (int i = 0; i < n; i++) SH->sysq_distance[i] = 1 + PARSEC_MCA_SCHED_LOCAL_QUEUES_OBJECT(ES[i])->nb_hierarch_queues;
    /* fake tasks: real parsec_task_t objects from the runtime's own task mempool (what PTG does) */
    TASKS = calloc((size_t)SH->ntasks + 1, sizeof(*TASKS));
    PMAP = calloc((size_t)SH->ntasks + 1, sizeof(*PMAP));
    for (int i = 0; i < SH->ntasks; i++) {
        parsec_task_t *t = (parsec_task_t *)parsec_thread_mempool_allocate(ES[0]->context_mempool);
        t->taskpool = NULL;
        t->task_class = &CLASSES[0];
        t->priority = 0;
        t->locals[0].value = i;
        memset(t->data, 0, sizeof(t->data));
        TASKS[i] = t;
        PMAP[i].p = t;
        PMAP[i].id = i;
    }
    qsort(PMAP, (size_t)SH->ntasks, sizeof(*PMAP), pmap_cmp);
    schedh_ready();
    if (!schedh_failed()) {
        pthread_t pt[SCH_MAX_THR];
        for (int c = 0; c < SH->nclients; c++) pthread_create(&pt[c], NULL, client_main, (void *)(intptr_t)c);
        for (int c = 0; c < SH->nclients; c++) pthread_join(pt[c], NULL);
    }
    /* quiescent drain: nobody else touches the scheduler any more; this thread borrows the streams one at a time */
    int empty_rounds = 0;
    while (empty_rounds < 2 && !schedh_failed()) {
        int got = 0;
        for (int k = 0; k < SH->ndrain && !schedh_failed(); k++) {
            int s = SH->drain_stream[k];
            parsec_execution_stream_t *es = ES[s];
            parsec_set_my_execution_stream(es);
            if (NULL != es->next_task && schedh_drain_flush(s)) {
                sched_req_t rq;
                memset(&rq, 0, sizeof(rq));
                rq.kind = SCH_REQ_FLUSH;
                rq.target = s;
                schedh_invoke(SCH_DRAINER, &rq, next_id_of(es));
                int rc = __parsec_schedule_flush_private(es);
                schedh_return(SCH_DRAINER, &rq, rc, next_id_of(es));
            }
            /* a retained task that was not flushed is taken the way the runtime takes it */
            while (!schedh_failed() && do_select(SCH_DRAINER, s, es, SH->drain_runtime_select || NULL != es->next_task) >= 0) got++;
        }
        empty_rounds = got ? 0 : empty_rounds + 1;
    }
    parsec_set_my_execution_stream(ES[0]);
    if (schedh_failed()) return NULL;   /* the structures may be damaged: keep the verdict, skip the teardown (forked child) */
    for (int i = 0; i < SH->ntasks; i++) parsec_thread_mempool_free(TASKS[i]->mempool_owner, TASKS[i]);
    free(TASKS);
    free(PMAP);
    parsec_fini(&CTX);
    MPI_Finalize();
    SH->done = 1;
    return NULL;
}
