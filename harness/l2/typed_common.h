/* shared between the (rankified, instrumented) typed-flow PTG driver, the generated JDF programs and the
 * (plain) harness typed.c -- property C18 "Typed PTG flows deliver correctly converted copies" */
#ifndef TYPED_COMMON_H
#define TYPED_COMMON_H
#include <stdint.h>

#define TYPED_MAX_N    6        /* tiles are N x N elements of 8 bytes, column major, N = 2..6 */
#define TYPED_MAX_NT   8        /* tiles of the collection = instances per task class */
#define TYPED_MAX_CLS  24       /* task classes of one program (P, R and the consumers) */
#define TYPED_MAX_RANKS 4

/* datatypes the driver creates (arena + MPI datatype each, the way tests/collections/reshape does) */
enum { TT_NONE = -1,
       TT_DEFAULT = 0,          /* full tile: the DEFAULT arena of the taskpool                               */
       TT_FULL,                 /* full tile again, but a datatype of its own (another handle: forces a copy) */
       TT_LOWER,                /* lower triangle, diagonal included                                          */
       TT_UPPER,                /* upper triangle, diagonal included                                          */
       TT_LOWER2,               /* same shape as TT_LOWER, a datatype of its own                              */
       TT_UPPERX,               /* upper triangle, diagonal excluded                                          */
       TT_N };

/* per-class table handed to the generated code (global TAB of the JDF): TAB[4*cls + ...] */
enum { TQ_LO = 0, TQ_HI, TQ_SHIFT, TQ_SPARE, TQ_STRIDE };

enum { TACC_READ = 0, TACC_RW = 1 };
enum { TPK_DESC = 0,            /* producer P(k): RW A <- A(k, 0): its copy is the collection's tile        */
       TPK_NEW  = 1 };          /* producer P(k): WRITE A <- NEW [type = T]                                  */

/* description of one task class of a generated program (emitted by gen/typed/gen.py into typed_ref.c;
 * the JDF text is emitted from the same table) */
typedef struct typed_class {
    const char *name;
    int role;                   /* 0 producer P, 1 consumer, 2 late reader R */
    int parent;                 /* consumers: class index of the task whose flow they consume */
    int access;                 /* TACC_* of the consumer's flow */
    int otl, otr;               /* [type = ..] / [type_remote = ..] on the producer's output dependency (TT_NONE: not declared) */
    int itl, itr;               /* the same on the consumer's input dependency */
} typed_class_t;

typedef struct typed_prog {
    const char *name;
    int producer_kind;          /* TPK_* */
    int new_type;               /* TPK_NEW: datatype of the NEW copy */
    int nclasses;
    const typed_class_t *classes;   /* [0] = P, [nclasses-1] = R */
} typed_prog_t;

extern const typed_prog_t TYPED_PROGS[];
extern const int TYPED_NPROGS;

typedef struct typed_shared {
    int prog, nranks, nthreads, n, nt;
    int tab[TYPED_MAX_CLS * TQ_STRIDE];
    int rank_done[16];
} typed_shared_t;

typedef struct typed_rank_arg { typed_shared_t *sh; int rank; } typed_rank_arg_t;

/* harness callbacks (shared, uninstrumented).  `ptr` is the N x N tile the task sees on its data flow. */
void typedh_body(int rank, int prog, int cls, int k, void *ptr);
void typedh_tile(int rank, int k, int when, void *ptr);    /* collection tile A(k,0) reported by its owner: when = 0 before, 1 after the taskpool */
void typedh_event(int rank, int kind, long a, long b);
enum { TE_INIT_FAILED = 99, TE_START = 1, TE_WAITED = 2 };
#endif
