/* instrumented shim for C29.  The future implementations are out of line (parsec_future.c,
 * parsec_datacopy_future.c, instrumented inside libparsec_b.a) and are reached through the
 * function-pointer macros of parsec_future.h; object creation / retain / release are the inline
 * macros of parsec_object.h.  One non-inline function per macro, no logic. */
#include "parsec/parsec_config.h"
#include "parsec/class/parsec_future.h"

parsec_base_future_t *shim_fut_new_base(void) { return PARSEC_OBJ_NEW(parsec_base_future_t); }
parsec_countable_future_t *shim_fut_new_countable(void) { return PARSEC_OBJ_NEW(parsec_countable_future_t); }
parsec_datacopy_future_t *shim_fut_new_datacopy(void) { return PARSEC_OBJ_NEW(parsec_datacopy_future_t); }

void shim_fut_init_base(parsec_base_future_t *f, parsec_future_cb_fulfill cb) { parsec_future_init(f, cb); }
void shim_fut_init_countable(parsec_countable_future_t *f, parsec_future_cb_fulfill cb, int count) { parsec_future_init(f, cb, count); }
void shim_fut_init_datacopy(parsec_datacopy_future_t *f, parsec_future_cb_fulfill cb, void *fulfill_in,
                            parsec_future_cb_match match, void *match_in, parsec_future_cb_cleanup cleanup)
{
    parsec_future_init(f, cb, fulfill_in, match, match_in, cleanup);
}

int shim_fut_is_ready(void *f) { return parsec_future_is_ready(f); }
void shim_fut_set(void *f, void *data) { parsec_future_set(f, data); }
void *shim_fut_get(void *f) { return parsec_future_get(f); }
void *shim_fut_get_or_trigger(void *f, parsec_future_cb_nested setup_nested, void *spec, void *es, void *task)
{
    return parsec_future_get_or_trigger(f, setup_nested, spec, es, task);
}

void shim_fut_retain(void *f) { PARSEC_OBJ_RETAIN(f); }
int shim_fut_release(void *f)
{
    parsec_object_t *o = (parsec_object_t *)f;
    PARSEC_OBJ_RELEASE(o);
    return o == NULL;
}
