/* instrumented shim: one non-inline function per inline LIFO operation */
#include "parsec/parsec_config.h"
#include "parsec/class/lifo.h"
void shim_lifo_push(parsec_lifo_t *l, parsec_list_item_t *i) { parsec_lifo_push(l, i); }
void shim_lifo_chain(parsec_lifo_t *l, parsec_list_item_t *r) { parsec_lifo_chain(l, r); }
parsec_list_item_t *shim_lifo_pop(parsec_lifo_t *l) { return parsec_lifo_pop(l); }
parsec_list_item_t *shim_lifo_try_pop(parsec_lifo_t *l) { return parsec_lifo_try_pop(l); }
int shim_lifo_is_empty(parsec_lifo_t *l) { return parsec_lifo_is_empty(l); }
void shim_lifo_nolock_push(parsec_lifo_t *l, parsec_list_item_t *i) { parsec_lifo_nolock_push(l, i); }
parsec_list_item_t *shim_lifo_nolock_pop(parsec_lifo_t *l) { return parsec_lifo_nolock_pop(l); }
