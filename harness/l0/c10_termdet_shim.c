/* instrumented shim for C10: the calls a PaRSEC client makes on the termination-detection module
 * attached to a taskpool (tp->tdm.module->xxx(tp, ...)), one non-inline function per call.  No logic. */
#include "parsec/parsec_config.h"
#include "parsec/parsec_internal.h"
#include "parsec/mca/termdet/termdet.h"
#include "parsec/mca/termdet/local/termdet_local.h"

/* what parsec_termdet_open_module(tp, "local") ends up doing, minus the MCA repository lookup */
void shim_td_open_local(parsec_taskpool_t *tp) { tp->tdm.module = &parsec_termdet_local_module.module; }
void shim_td_monitor(parsec_taskpool_t *tp, parsec_termdet_termination_detected_function_t cb) { tp->tdm.module->monitor_taskpool(tp, cb); }
void shim_td_unmonitor(parsec_taskpool_t *tp) { tp->tdm.module->unmonitor_taskpool(tp); }
int shim_td_state(parsec_taskpool_t *tp) { return (int)tp->tdm.module->taskpool_state(tp); }
int shim_td_ready(parsec_taskpool_t *tp) { return tp->tdm.module->taskpool_ready(tp); }
int shim_td_addto_tasks(parsec_taskpool_t *tp, int v) { return tp->tdm.module->taskpool_addto_nb_tasks(tp, v); }
int shim_td_addto_actions(parsec_taskpool_t *tp, int v) { return tp->tdm.module->taskpool_addto_runtime_actions(tp, v); }
int shim_td_set_tasks(parsec_taskpool_t *tp, int v) { return tp->tdm.module->taskpool_set_nb_tasks(tp, v); }
int shim_td_set_actions(parsec_taskpool_t *tp, int v) { return tp->tdm.module->taskpool_set_runtime_actions(tp, v); }
