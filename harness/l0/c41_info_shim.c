/* C41 shim.  parsec/class/info.c is out of line (the list.h inlines it uses are compiled into it)
 * and parsec_rwlock.c too; both are instrumented by the pipeline, so nothing is wrapped here.
 * The file is kept because the l0() registry helper expects a shim. */
#include "parsec/parsec_config.h"
#include "parsec/class/info.h"
int c41_info_shim_unused;
