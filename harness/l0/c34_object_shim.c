/* instrumented shim for C34: one non-inline function per inline operation / macro of
 * parsec/class/parsec_object.h.  BUILDING_PARSEC is defined by the build, so parsec_obj_update is
 * the inline atomic version of the header.  No logic here. */
#include "parsec/parsec_config.h"
#include "parsec/class/parsec_object.h"

/* PARSEC_OBJ_NEW(type) == (type *)parsec_obj_new(PARSEC_OBJ_CLASS(type)) */
parsec_object_t *shim_obj_new(parsec_class_t *cls) { return parsec_obj_new(cls); }

/* PARSEC_OBJ_CONSTRUCT(obj, type) on caller-provided storage: release function = parsec_obj_destruct */
void shim_obj_construct(parsec_object_t *obj, parsec_class_t *cls) { PARSEC_OBJ_CONSTRUCT_INTERNAL(obj, cls); }

void shim_obj_retain(parsec_object_t *obj) { PARSEC_OBJ_RETAIN(obj); }

/* returns 1 when the macro nulled the pointer, i.e. this call saw the count drop to zero */
int shim_obj_release(parsec_object_t *obj)
{
    PARSEC_OBJ_RELEASE(obj);
    return obj == NULL;
}

/* explicit finalisation of an object with scoped lifetime (no reference counting involved) */
void shim_obj_destruct(parsec_object_t *obj) { PARSEC_OBJ_DESTRUCT(obj); }

int shim_obj_refcount(parsec_object_t *obj) { return obj->obj_reference_count; }
