/* instrumented shim for C42: one call-through per tracing entry point (the variadic / callback-taking ones need a
 * fixed call site), and the info-writer callback used with the *_info_fn variants.  No logic. */
#include "parsec/parsec_config.h"
#include "parsec/profiling.h"
#include <string.h>
#include <stdint.h>

/* payload byte i of the info blob with seed s (also called by the harness to compute the expected bytes).
 * Client code, not PaRSEC code: not instrumented (a 4 KB blob would otherwise cost 4000 scheduling points). */
__attribute__((no_sanitize_thread)) unsigned char c42_payload_byte(uint64_t s, size_t i)
{
    uint64_t x = s + 0x9E3779B97F4A7C15ULL * (uint64_t)(i / 8 + 1);
    x ^= x >> 30; x *= 0xBF58476D1CE4E5B9ULL; x ^= x >> 27; x *= 0x94D049BB133111EBULL; x ^= x >> 31;
    return (unsigned char)(x >> (8 * (i % 8)));
}
__attribute__((no_sanitize_thread)) void c42_payload_fill(unsigned char *d, uint64_t s, size_t size)
{
    for (size_t i = 0; i < size; i += 8) {
        uint64_t x = s + 0x9E3779B97F4A7C15ULL * (uint64_t)(i / 8 + 1);
        x ^= x >> 30; x *= 0xBF58476D1CE4E5B9ULL; x ^= x >> 27; x *= 0x94D049BB133111EBULL; x ^= x >> 31;
        for (size_t j = 0; j < 8 && i + j < size; j++) d[i + j] = (unsigned char)(x >> (8 * j));
    }
}
/* parsec_profiling_info_fn_t: writes exactly the `size` bytes the dictionary entry reserved */
__attribute__((no_sanitize_thread)) static void *c42_info_fn(void *dst, const void *data, size_t size)
{
    c42_payload_fill(dst, *(const uint64_t *)data, size);
    return dst;
}

parsec_profiling_stream_t *shim_stream_init(size_t length, int idx) { return parsec_profiling_stream_init(length, "c42 stream %d", idx); }
int shim_trace(parsec_profiling_stream_t *s, int key, uint64_t eid, uint32_t tpid, const void *info, uint16_t flags)
{ return parsec_profiling_trace_flags(s, key, eid, tpid, info, flags); }
int shim_trace_fn(parsec_profiling_stream_t *s, int key, uint64_t eid, uint32_t tpid, const uint64_t *seed, uint16_t flags)
{ return parsec_profiling_trace_flags_info_fn(s, key, eid, tpid, c42_info_fn, seed, flags); }
int shim_ts_trace(int key, uint64_t eid, uint32_t tpid, const void *info, uint16_t flags)
{ return parsec_profiling_ts_trace_flags_info_fn(key, eid, tpid, memcpy, info, flags); }
int shim_ts_trace_fn(int key, uint64_t eid, uint32_t tpid, const uint64_t *seed, uint16_t flags)
{ return parsec_profiling_ts_trace_flags_info_fn(key, eid, tpid, c42_info_fn, seed, flags); }
