/* instrumented shim for C07: the pieces that ptgpp-generated code contributes around the dependency
 * tracking of parsec.c -- inline-expression callbacks (dependency guards, control-gather count),
 * make_key and the key functions of the dependency hash table, construction of the successor task
 * descriptor, and the call sites (through the task-class function pointers, as
 * parsec_release_local_OUT_dependencies and the generated release_deps do).  No oracle logic. */
#include "parsec/parsec_config.h"
#include "parsec/parsec_internal.h"
#include "parsec/execution_stream.h"
#include "parsec/mempool.h"
#include "parsec/class/parsec_hash_table.h"
#include "parsec/remote_dep.h"
#include <string.h>
#include <stdio.h>

/* must match the definition in c07_deps.c */
typedef struct c07_tp_s {
    parsec_taskpool_t super;
    int salt[MAX_PARAM_COUNT]; /* per-flow guard salt ("globals" of the generated taskpool) */
    int gsalt;                 /* control-gather salt */
    int p0min, p1min, n0;      /* parameter ranges: k in p0min.., m in p1min..; n0 = extent of k */
    int khash;                 /* key-hash variant of the dependency hash table */
} c07_tp_t;

/* guards: (k + m + salt[j]) odd */
#define COND(j) \
    int32_t c07_cond_##j(const parsec_taskpool_t *tp, const parsec_assignment_t *l) \
    { return ((l[0].value + l[1].value + ((const c07_tp_t *)tp)->salt[j]) & 1); }
COND(0) COND(1) COND(2) COND(3) COND(4) COND(5) COND(6) COND(7)
/* the exclusive alternatives of guard j: its negation, and (negation && k-bit) */
#define NCOND(j) \
    int32_t c07_ncond_##j(const parsec_taskpool_t *tp, const parsec_assignment_t *l) { return !c07_cond_##j(tp, l); } \
    int32_t c07_xcond_##j(const parsec_taskpool_t *tp, const parsec_assignment_t *l) \
    { return !c07_cond_##j(tp, l) && ((l[0].value ^ (((const c07_tp_t *)tp)->salt[j] >> 1)) & 1); }
NCOND(0) NCOND(1) NCOND(2) NCOND(3) NCOND(4) NCOND(5) NCOND(6) NCOND(7)

/* number of control messages gathered on a CTL flow: 1..3 */
int32_t c07_gather_nb(const parsec_taskpool_t *tp, const parsec_assignment_t *l)
{
    int v = (l[0].value + ((const c07_tp_t *)tp)->gsalt) % 3;
    return 1 + (v < 0 ? v + 3 : v);
}

parsec_key_t c07_make_key(const parsec_taskpool_t *tp, const parsec_assignment_t *l)
{
    const c07_tp_t *t = (const c07_tp_t *)tp;
    return (parsec_key_t)((uint64_t)(l[0].value - t->p0min) + (uint64_t)t->n0 * (uint64_t)(l[1].value - t->p1min));
}

int c07_key_equal(parsec_key_t a, parsec_key_t b, void *ud) { (void)ud; return a == b; }
char *c07_key_print(char *buf, size_t n, parsec_key_t k, void *ud) { (void)ud; snprintf(buf, n, "%lu", (unsigned long)k); return buf; }
uint64_t c07_key_hash(parsec_key_t k, void *ud)
{
    const c07_tp_t *t = (const c07_tp_t *)ud;
    switch (t->khash) {
    case 1: return (uint64_t)k % 3;      /* many distinct keys with equal 64-bit hash */
    case 2: return 7;                    /* everything collides */
    default: return (uint64_t)k;
    }
}

/* the successor descriptor a releasing task builds on its stack (generated iterate_successors) */
void c07_build_nc(parsec_task_t *nc, parsec_taskpool_t *tp, const parsec_task_class_t *tc, int k, int m, int prio)
{
    nc->taskpool = tp;
    nc->task_class = tc;
    nc->priority = prio;
    nc->locals[0].value = k;
    nc->locals[1].value = m;
}

parsec_dependency_t *c07_find_deps(parsec_execution_stream_t *es, const parsec_task_t *task)
{
    return task->task_class->find_deps(task->taskpool, es, task);
}

int c07_update_deps(const parsec_task_t *task, parsec_dependency_t *deps, const parsec_task_t *origin,
                    const parsec_flow_t *origin_flow, const parsec_flow_t *dest_flow)
{
    return task->task_class->update_deps(origin->taskpool, task, deps, origin, origin_flow, dest_flow);
}

int c07_release_local(parsec_execution_stream_t *es, const parsec_task_t *origin, const parsec_flow_t *origin_flow,
                      const parsec_task_t *task, const parsec_flow_t *dest_flow, parsec_task_t **pready_ring,
                      parsec_data_copy_t *target_dc)
{
    parsec_dep_data_description_t data;
    memset(&data, 0, sizeof(data));
    data.data = target_dc;
    return parsec_release_local_OUT_dependencies(es, origin, origin_flow, task, dest_flow, &data, pready_ring, NULL, target_dc, NULL);
}

/* what the generated release_task hook does with the hashed dependency once the task has run */
void c07_release_hashed_dep(const parsec_task_t *task)
{
    parsec_hash_table_t *ht = (parsec_hash_table_t *)task->taskpool->dependencies_array[task->task_class->task_class_id];
    parsec_key_t key = task->task_class->make_key(task->taskpool, task->locals);
    parsec_hashable_dependency_t *hash_dep = (parsec_hashable_dependency_t *)parsec_hash_table_remove(ht, key);
    parsec_thread_mempool_free(hash_dep->mempool_owner, hash_dep);
}
