/* C37: taskpool identifiers resolve to the registered taskpool (DESIGN 4, C37).
 *
 * Real code (instrumented, unmodified): parsec/parsec.c -- parsec_taskpool_reserve_id, parsec_taskpool_register,
 * parsec_taskpool_unregister, parsec_taskpool_lookup, parsec_taskpool_sync_ids(_context), the taskpool_array growth
 * and the spin lock that protects them (parsec/sys/atomic.h).  The executable is built like a runtime-level harness
 * (build_ranked): 4 private copies of libparsec + the driver c37_tpid_shim.c, so each simulated rank has its own
 * registry statics.  No parsec_init: the registry needs none (static initialisers).  Every run is a forked child
 * (the registry can only be emptied by parsec_fini), so a run always starts from the pristine statics.
 * Simulated: thread interleaving (2-4 sim-threads per rank for the component part), the MPI library (simmpi:
 * MPI_Initialized, MPI_Allreduce over MPI_COMM_WORLD), P = 1..4 ranks.
 *
 * Plan: ops of one epoch run concurrently on all threads of all ranks; a "sync" op line is an epoch boundary at which
 * every rank calls parsec_taskpool_sync_ids() once (thread 0 of the rank; the other threads of the rank do lookups
 * meanwhile, as the communication thread may) and then reserves one more identifier.
 *
 * Legal-client discipline: identifiers only come from reserve_id (nobody in PaRSEC assigns taskpool_id by hand);
 * a taskpool is registered / unregistered only by the thread that reserved it, register only when not registered,
 * unregister only when registered (re-registration after unregistration is what a re-enqueued DTD taskpool does);
 * any thread looks up any identifier (identifiers travel in messages), including ones never handed out.
 * sync_ids is collective.  In a "quiet" sync epoch nobody reserves meanwhile and the *next* identifiers of the ranks are
 * compared; in a "busy" sync epoch (half of them) the other threads of the rank also reserve / register / unregister
 * while thread 0 is inside parsec_taskpool_sync_ids (the registry lock is taken by sync_ids for exactly that case: a
 * DTD taskpool may be created by another thread): the "next identifier" comparison is then not defined and skipped,
 * while distinctness, linearizability and the final sweep still judge everything that happened during the sync.
 *
 * Oracle:
 *  - every identifier returned by reserve_id on a rank is different from all identifiers returned before on that
 *    rank ("duplicate-id"), and is what reserve_id stored in the taskpool ("bad-return");
 *  - a lookup returns NULL or one of this rank's taskpools ("garbage-lookup"), and never a taskpool that carries
 *    another identifier ("wrong-taskpool");
 *  - per (rank, identifier) the history of register / unregister / lookup calls (invoke/return stamps) must be
 *    linearizable (WGL, oracle/lin.h) against a one-slot register {none | taskpool}, ending in the state the owner
 *    left it in ("non-linearizable").  Linearizability is local, so checking every identifier's sub-history is the
 *    same as checking the whole history against the map model, without the 64-operation limit;
 *  - at the end (quiescent) every identifier from 1 to the largest ever handed out, plus a few above, is looked up:
 *    registered ones must resolve to their taskpool, all others to NULL ("lost-registration", "stale-registration").
 *    This is what checks that growth across several doublings keeps everything;
 *  - after a sync epoch the identifiers reserved next by the ranks must all be equal ("sync-mismatch"); that they
 *    are new on each rank is the duplicate-id check.
 *
 * Identifier 0: reserve_id never hands it out, and parsec_taskpool_lookup(0) reads taskpool_array[0], which no code
 * ever initialises (garbage after the first reservation, a NULL-array dereference before it) although runtime.h
 * promises NULL for an identifier without taskpool.  No PaRSEC component sends identifier 0, so the default workload
 * stays away from it (the property speaks of identifiers of taskpools); `--knob id0=1` (C37_KNOBS="id0=1" ./check C37)
 * includes it in the lookups and the final sweep and reports the behaviour as garbage-lookup / crash.
 */
#include "../hx.h"
#include "../../oracle/lin.h"
#include "../../sim/mpi/simmpi.h"
#include <stdlib.h>
#include <string.h>
#include <malloc.h>

extern int hx_rank_count;
extern void *(*hx_rank_mains[])(void *);

/* duplicated in c37_tpid_shim.c -- keep both in sync */
typedef struct c37_api {
    void *(*tp_new)(void);
    void (*tp_free)(void *tp);
    long (*tp_id)(void *tp);
    int (*reserve)(void *tp);
    int (*reg)(void *tp);
    void (*unreg)(void *tp);
    void *(*lookup)(unsigned id);
    void (*sync)(void);
    void (*mpi_init)(void);
} c37_api_t;

enum { OP_RESERVE, OP_REGISTER, OP_UNREGISTER, OP_LOOKUP, OP_SYNC, OP_N };
static const char *const opnames[] = {"reserve", "register", "unregister", "lookup", "sync"};
enum { PR_GROW3, PR_GROW6, PR_LOOKUP_HIT, PR_LOOKUP_UNREG, PR_LOOKUP_BEYOND, PR_LOOKUP_OVERLAP_WRITE, PR_REREGISTER, PR_SYNC_RAISED, PR_SYNC_GREW,
       PR_SYNC_BYSTANDER, PR_MULTIRANK, PR_NO_MPI, PR_SYNC_BUSY, PR_N };
static const char *const probe_names[] = {"ids_beyond_8_three_doublings", "ids_beyond_64_six_doublings", "lookup_returned_registered_taskpool",
    "lookup_of_reserved_unregistered_id", "lookup_beyond_last_reserved_id", "lookup_overlapping_register_or_unregister", "reregistered_after_unregister",
    "sync_raised_a_ranks_next_id", "sync_jumped_over_a_doubling", "lookup_while_rank_is_in_sync", "several_ranks", "sync_without_mpi", "registry_mutated_while_rank_is_in_sync"};

#define MAXR 4
#define MAXT 8
#define MAXID 2048
#define MAXTP 1024
#define MAXH 2048
enum { H_REG, H_UNREG, H_LOOKUP };
typedef struct { void *tp; int id, owner, registered, nreg; } tprec_t;
typedef struct { int rank, id, kind, thr; long val; uint64_t inv, ret; } hrec_t;

typedef struct {
    const hx_plan_t *plan;
    hx_result_t *res;
    int P, NT, T[MAXR], tbase[MAXR], rank_of[MAXT], local_of[MAXT];
    int mpi, id0;
    c37_api_t api[MAXR];
    tprec_t tps[MAXR][MAXTP];
    int ntp[MAXR];
    short id2tp[MAXR][MAXID];       /* identifier -> taskpool index + 1 (0: never handed out on this rank) */
    int maxid[MAXR];
    hrec_t hist[MAXH];
    int nhist, overflow, out_of_range;
    int lo, hi;                     /* op index range of the current epoch */
    int sync_a, sync_b, sync_busy, busy_reserved, in_sync[MAXR];
    int hot[MAXR][8], nhot[MAXR];   /* taskpools most recently reserved / registered / unregistered on the rank */
    long sync_nid[MAXR];
} ctx_t;
static ctx_t C;

static hrec_t *rec(ctx_t *c, int rank, int id, int kind, int thr, long val)
{
    static hrec_t dummy;
    if (c->nhist >= MAXH) { c->overflow = 1; return &dummy; }
    hrec_t *h = &c->hist[c->nhist++];
    *h = (hrec_t){rank, id, kind, thr, val, 0, 0};
    return h;
}

static void touch(ctx_t *c, int k, int i) { c->hot[k][c->nhot[k]++ % 8] = i; }

/* one reservation by thread g on rank k; returns the taskpool index or -1 */
static int do_reserve(ctx_t *c, int g, int k)
{
    hx_result_t *res = c->res;
    if (c->ntp[k] >= MAXTP) return -1;
    void *tp = c->api[k].tp_new();
    int r = c->api[k].reserve(tp);
    long id = c->api[k].tp_id(tp);
    if ((long)r != id) { hx_fail(res, "bad-return", "rank %d: reserve_id returned %d but stored identifier %ld in the taskpool", k, r, id); return -1; }
    if (id < 0 || id >= MAXID) { c->out_of_range = 1; return -1; }     /* cannot be tracked: the run is discarded, not judged */
    if (c->id2tp[k][id]) {
        hx_fail(res, "duplicate-id", "rank %d: reserve_id gave identifier %ld to thread %d, but it had already given it to taskpool #%d (thread %d)",
                k, id, g, c->id2tp[k][id] - 1, c->tps[k][c->id2tp[k][id] - 1].owner);
        return -1;
    }
    int i = c->ntp[k]++;
    c->tps[k][i] = (tprec_t){tp, (int)id, g, 0, 0};
    c->id2tp[k][id] = (short)(i + 1);
    if (id > c->maxid[k]) c->maxid[k] = (int)id;
    touch(c, k, i);
    if (id > 8) sim_probe(PR_GROW3);
    if (id > 64) sim_probe(PR_GROW6);
    return i;
}

static void do_lookup(ctx_t *c, int g, int k, int id)
{
    hx_result_t *res = c->res;
    hrec_t *h = rec(c, k, id, H_LOOKUP, g, 0);
    h->inv = sim_stamp();
    void *p = c->api[k].lookup((unsigned)id);
    h->ret = sim_stamp();
    if (!p) {
        if (id < MAXID && c->id2tp[k][id]) sim_probe(PR_LOOKUP_UNREG);
        else if (id > c->maxid[k]) sim_probe(PR_LOOKUP_BEYOND);
        return;
    }
    int f = -1;
    for (int i = 0; i < c->ntp[k]; i++) if (c->tps[k][i].tp == p) { f = i; break; }
    if (f < 0) { hx_fail(res, "garbage-lookup", "rank %d: lookup(%d) returned %p, which is neither NULL nor a taskpool of this rank", k, id, p); return; }
    if (c->tps[k][f].id != id) { hx_fail(res, "wrong-taskpool", "rank %d: lookup(%d) returned the taskpool that holds identifier %d", k, id, c->tps[k][f].id); return; }
    h->val = f + 1;
    sim_probe(PR_LOOKUP_HIT);
}

static int pick_lookup_id(ctx_t *c, int k, long a, long b)
{
    int id;
    int nh = c->nhot[k] < 8 ? c->nhot[k] : 8;
    if (b % 4 >= 2 && nh) id = c->tps[k][c->hot[k][a % nh]].id;           /* an identifier in flux right now */
    else if (b % 4 == 1 && c->ntp[k]) id = c->tps[k][a % c->ntp[k]].id;   /* an identifier somebody holds */
    else id = (int)(a % (c->maxid[k] + 4));                               /* anything, also never handed out / beyond the array */
    if (id == 0 && !c->id0) id = c->maxid[k] + 1;
    return id;
}

static void worker_op(ctx_t *c, int g, int k, const hx_op_t *o);

static void worker(int g, void *arg)
{
    ctx_t *c = arg;
    hx_result_t *res = c->res;
    int k = c->rank_of[g];
    sim_set_rank(k);
    for (int n = c->lo; n < c->hi; n++) {
        const hx_op_t *o = &c->plan->ops[n];
        if (o->thr % c->NT != g) continue;
        if (res->vclass || c->overflow || c->out_of_range) return;
        worker_op(c, g, k, o);
    }
}

static void worker_op(ctx_t *c, int g, int k, const hx_op_t *o)
{
    hx_result_t *res = c->res;
    {
        switch (o->op) {
        case OP_RESERVE: {
            int cnt = (int)(o->a % 256) + 1;
            for (int j = 0; j < cnt && !res->vclass && !c->out_of_range; j++) if (do_reserve(c, g, k) < 0) break;
            break;
        }
        case OP_REGISTER: {
            int cand[MAXTP], nc = 0;
            for (int i = 0; i < c->ntp[k]; i++) if (c->tps[k][i].owner == g && !c->tps[k][i].registered) cand[nc++] = i;
            if (!nc) break;
            /* prefer the most recent ones (the interesting end of the array) two times out of three */
            int i = (o->b % 3) ? cand[nc - 1 - (int)(o->a % (nc < 3 ? nc : 3))] : cand[o->a % nc];
            tprec_t *t = &c->tps[k][i];
            if (t->nreg) sim_probe(PR_REREGISTER);
            hrec_t *h = rec(c, k, t->id, H_REG, g, i + 1);
            touch(c, k, i);
            h->inv = sim_stamp();
            (void)c->api[k].reg(t->tp);
            h->ret = sim_stamp();
            t->registered = 1; t->nreg++;
            break;
        }
        case OP_UNREGISTER: {
            int cand[MAXTP], nc = 0;
            for (int i = 0; i < c->ntp[k]; i++) if (c->tps[k][i].owner == g && c->tps[k][i].registered) cand[nc++] = i;
            if (!nc) break;
            int i = (o->b % 3) ? cand[nc - 1 - (int)(o->a % (nc < 3 ? nc : 3))] : cand[o->a % nc];
            tprec_t *t = &c->tps[k][i];
            touch(c, k, i);
            hrec_t *h = rec(c, k, t->id, H_UNREG, g, 0);
            h->inv = sim_stamp();
            c->api[k].unreg(t->tp);
            h->ret = sim_stamp();
            t->registered = 0;
            break;
        }
        case OP_LOOKUP:
            do_lookup(c, g, k, pick_lookup_id(c, k, o->a, o->b));
            break;
        default: break;
        }
    }
}

static void sync_worker(int g, void *arg)
{
    ctx_t *c = arg;
    int k = c->rank_of[g];
    sim_set_rank(k);
    if (c->local_of[g] != 0 && c->sync_busy) {
        /* busy bystander: mutate the registry while thread 0 of the rank is inside sync_ids */
        for (int j = 0; j < 2 + c->sync_a && !c->res->vclass && !c->overflow && !c->out_of_range; j++) {
            unsigned long x = (unsigned long)c->sync_b * 2654435761UL + 97UL * j + 13UL * g;
            hx_op_t o = {0};
            o.thr = g; o.a = (long)(x >> 3) % 1000; o.b = (long)(x >> 13) % 1000;
            switch (x % 5) {
            case 0: case 1: o.op = OP_RESERVE; o.a = (x >> 5) % 7 == 0 ? (long)(x >> 8) % 40 : 0; c->busy_reserved = 1; break;
            case 2: o.op = OP_REGISTER; break;
            case 3: o.op = OP_UNREGISTER; break;
            default: o.op = OP_LOOKUP; o.a = (long)(x % 100000); break;
            }
            if (c->in_sync[k]) sim_probe(PR_SYNC_BUSY);
            worker_op(c, g, k, &o);
        }
        return;
    }
    if (c->local_of[g] == 0) {
        c->in_sync[k] = 1;
        c->api[k].sync();
        c->in_sync[k] = 0;
        if (c->res->vclass) return;
        int i = do_reserve(c, g, k);
        c->sync_nid[k] = i >= 0 ? c->tps[k][i].id : -1;
    } else {
        for (int j = 0; j < c->sync_a && !c->res->vclass && !c->overflow; j++) {
            if (c->in_sync[k]) sim_probe(PR_SYNC_BYSTANDER);
            do_lookup(c, g, k, pick_lookup_id(c, k, c->sync_b + 7 * j + g, c->sync_b + j));
        }
    }
}

/* ---- sequential model of one identifier: a one-slot register ---- */
typedef struct { long cur; } slot_t;
static long final_val;
static void m_init(void *st, void *ctx) { (void)ctx; ((slot_t *)st)->cur = 0; }
static int m_apply(void *st, const lin_op_t *op, void *ctx)
{
    (void)ctx;
    slot_t *s = st;
    switch (op->op) {
    case H_REG: s->cur = op->arg[0]; return 1;
    case H_UNREG: s->cur = 0; return 1;
    case H_LOOKUP: return op->res == s->cur;
    }
    return 0;
}
static uint64_t m_hash(const void *st, void *ctx) { (void)ctx; return (uint64_t)((const slot_t *)st)->cur * 0x9E3779B97F4A7C15ULL + 1; }
static int m_final(const void *st, void *ctx) { (void)ctx; return ((const slot_t *)st)->cur == final_val; }
static const lin_model_t model = {sizeof(slot_t), m_init, m_apply, m_hash};

static void check_histories(ctx_t *c)
{
    hx_result_t *res = c->res;
    static unsigned char done[MAXH];
    memset(done, 0, sizeof(done));
    for (int i = 0; i < c->nhist && !res->vclass && !res->discard; i++) {
        if (done[i]) continue;
        lin_op_t ops[LIN_MAX_OPS];
        int n = 0, nl = 0, too_long = 0;
        int k = c->hist[i].rank, id = c->hist[i].id;
        for (int j = i; j < c->nhist; j++) {
            hrec_t *h = &c->hist[j];
            if (h->rank != k || h->id != id) continue;
            done[j] = 1;
            if (n >= LIN_MAX_OPS) { too_long = 1; continue; }
            lin_op_t *o = &ops[n++];
            memset(o, 0, sizeof(*o));
            o->thr = h->thr; o->op = h->kind; o->inv = h->inv; o->ret = h->ret; o->arg[0] = h->val; o->narg = 1; o->res = h->kind == H_LOOKUP ? h->val : -1;
            nl += h->kind == H_LOOKUP;
        }
        if (too_long) { res->discard = 1; res->discard_why = "history-too-long"; return; }
        if (!nl) continue;
        final_val = 0;
        if (id < MAXID && c->id2tp[k][id] && c->tps[k][c->id2tp[k][id] - 1].registered) final_val = c->id2tp[k][id];
        int r = lin_check(&model, ops, n, c, 2000000, m_final, NULL);
        if (r == 0) {
            char b[400]; int l = 0;
            for (int j = 0; j < n && l < 340; j++)
                l += snprintf(b + l, sizeof(b) - l, " t%d:%s%s[%llu,%llu]", ops[j].thr, ops[j].op == H_REG ? "reg" : ops[j].op == H_UNREG ? "unreg" : "lookup",
                              ops[j].op == H_LOOKUP ? (ops[j].res ? "=tp" : "=NULL") : "", (unsigned long long)ops[j].inv, (unsigned long long)ops[j].ret);
            hx_fail(res, "non-linearizable", "rank %d identifier %d: no linearization of its %d calls against the register model (a lookup missed the registered taskpool, or still saw an unregistered one):%s", k, id, n, b);
        } else if (r < 0) { res->discard = 1; res->discard_why = "checker-budget"; }
        else for (int j = 0; j < n; j++) if (ops[j].op == H_LOOKUP && ops[j].overlapped) {
            for (int q = 0; q < n; q++) if (ops[q].op != H_LOOKUP && ops[q].inv < ops[j].ret && ops[j].inv < ops[q].ret) sim_probe(PR_LOOKUP_OVERLAP_WRITE);
        }
    }
}

static void gen(hx_plan_t *p, hx_rng_t *r)
{
    int maxr = hx_rank_count < MAXR ? hx_rank_count : MAXR;
    int P = hx_chance(r, 55) || maxr < 2 ? 1 : (int)hx_range(r, 2, maxr);
    hx_set_knob(p, "ranks", P);
    int T[MAXR] = {0, 0, 0, 0}, NT = 0;
    for (int k = 0; k < P; k++) { T[k] = P == 1 ? (int)hx_range(r, 2, 4) : hx_chance(r, 60) ? 1 : hx_chance(r, 75) ? 2 : 3; NT += T[k]; }
    while (NT > MAXT) for (int k = 0; k < P && NT > MAXT; k++) if (T[k] > 1) { T[k]--; NT--; }
    hx_set_knob(p, "t0", T[0]); hx_set_knob(p, "t1", T[1]); hx_set_knob(p, "t2", T[2]); hx_set_knob(p, "t3", T[3]);
    hx_set_knob(p, "mpi", P > 1 ? 1 : hx_chance(r, 50));
    hx_set_knob(p, "id0", hx_cli_knob("id0", 0));
    int nsync = P > 1 ? (int)hx_range(r, 1, 2) : hx_chance(r, 35);
    int bulky = hx_chance(r, 45);
    for (int e = 0; e <= nsync; e++) {
        int nops = (int)hx_range(r, 3, 16);
        /* different prior histories on the ranks: an early bulk reservation on some of them */
        if (bulky) for (int k = 0; k < P; k++) if (hx_chance(r, 50)) {
            int tb = 0; for (int j = 0; j < k; j++) tb += T[j];
            hx_add_op(p, tb + (int)hx_below(r, T[k]), OP_RESERVE, hx_chance(r, 50) ? hx_range(r, 2, 20) : hx_range(r, 20, 200), 0, 0);
        }
        for (int i = 0; i < nops; i++) {
            int t = (int)hx_below(r, NT), x = (int)hx_below(r, 100);
            if (x < 30) hx_add_op(p, t, OP_RESERVE, hx_chance(r, 85) ? 0 : hx_range(r, 1, 40), 0, 0);
            else if (x < 48) hx_add_op(p, t, OP_REGISTER, hx_below(r, 1000), hx_below(r, 1000), 0);
            else if (x < 62) hx_add_op(p, t, OP_UNREGISTER, hx_below(r, 1000), hx_below(r, 1000), 0);
            else hx_add_op(p, t, OP_LOOKUP, hx_below(r, 100000), hx_below(r, 1000), 0);
        }
        if (e < nsync) hx_add_op(p, 0, OP_SYNC, hx_below(r, 4), hx_below(r, 100000), hx_chance(r, 50));
    }
}

static void run(const hx_plan_t *p, hx_result_t *res)
{
    ctx_t *c = &C;
    memset(c, 0, sizeof(*c));
    c->plan = p; c->res = res;
    int maxr = hx_rank_count < MAXR ? hx_rank_count : MAXR;
    c->P = (int)hx_knob(p, "ranks", 1);
    if (c->P < 1) c->P = 1;
    if (c->P > maxr) c->P = maxr;
    static const char *const tk[MAXR] = {"t0", "t1", "t2", "t3"};
    for (int k = 0; k < c->P; k++) {
        c->T[k] = (int)hx_knob(p, tk[k], 2);
        if (c->T[k] < 1) c->T[k] = 1;
        if (c->T[k] > 4) c->T[k] = 4;
        if (c->NT + c->T[k] > MAXT) c->T[k] = MAXT - c->NT > 0 ? MAXT - c->NT : 1;
        c->tbase[k] = c->NT;
        for (int j = 0; j < c->T[k] && c->NT < MAXT; j++) { c->rank_of[c->NT] = k; c->local_of[c->NT] = j; c->NT++; }
    }
    c->mpi = c->P > 1 ? 1 : (int)hx_knob(p, "mpi", 1);
    c->id0 = (int)hx_knob(p, "id0", 0);
    if (c->P > 1) sim_probe(PR_MULTIRANK);

    simmpi_cfg_t cfg;
    memset(&cfg, 0, sizeof(cfg));
    simmpi_reset(c->P, hx_current_seed(), &cfg);
    for (int k = 0; k < c->P; k++) {
        hx_rank_mains[k](&c->api[k]);
        if (c->mpi) { sim_set_rank(k); c->api[k].mpi_init(); }
    }
    sim_set_rank(0);

    /* epochs */
    int lo = 0;
    while (lo <= p->nops && !res->vclass && !c->overflow && !c->out_of_range) {
        int hi = lo;
        while (hi < p->nops && p->ops[hi].op != OP_SYNC) hi++;
        c->lo = lo; c->hi = hi;
        if (hi > lo) hx_run_threads(c->NT, worker, c);
        if (hi >= p->nops || res->vclass || c->overflow || c->out_of_range) break;
        /* sync epoch */
        int before[MAXR], mx = 0;
        for (int k = 0; k < c->P; k++) { before[k] = c->maxid[k]; if (before[k] > mx) mx = before[k]; }
        c->sync_a = (int)(p->ops[hi].a % 4); c->sync_b = (int)(p->ops[hi].b % 100000);
        c->sync_busy = (int)(p->ops[hi].c & 1); c->busy_reserved = 0;
        if (!c->mpi) sim_probe(PR_NO_MPI);
        hx_run_threads(c->NT, sync_worker, c);
        if (!res->vclass && !c->out_of_range && c->mpi) {
            for (int k = 1; k < c->P && !res->vclass && !c->busy_reserved; k++)
                if (c->sync_nid[k] != c->sync_nid[0])
                    hx_fail(res, "sync-mismatch", "after parsec_taskpool_sync_ids the next taskpool got identifier %ld on rank 0 but %ld on rank %d (largest identifiers before the sync: %d %d %d %d)",
                            c->sync_nid[0], c->sync_nid[k], k, before[0], before[1], before[2], before[3]);
            for (int k = 0; k < c->P; k++) {
                if (before[k] < mx) sim_probe(PR_SYNC_RAISED);
                int sz = 2; while (sz <= before[k]) sz <<= 1;
                if (mx >= 2 * sz) sim_probe(PR_SYNC_GREW);
            }
        }
        for (int k = 0; k < c->P; k++) hx_hash(res, 0x5c00 ^ ((uint64_t)k << 32) ^ (uint64_t)(c->sync_nid[k] + 1));
        lo = hi + 1;
    }

    sim_pause();
    for (int i = 0; i < c->nhist; i++) {
        hrec_t *h = &c->hist[i];
        hx_hash(res, ((uint64_t)h->thr << 56) ^ ((uint64_t)h->kind << 48) ^ ((uint64_t)h->rank << 44) ^ ((uint64_t)h->id << 16) ^ (uint64_t)h->val);
    }
    for (int k = 0; k < c->P; k++) hx_hash(res, ((uint64_t)k << 40) ^ ((uint64_t)c->ntp[k] << 16) ^ (uint64_t)c->maxid[k]);
    if (!res->vclass && (c->overflow || c->out_of_range)) { res->discard = 1; res->discard_why = c->overflow ? "history-too-long" : "id-out-of-range"; }
    /* quiescent sweep: everything that is registered resolves, nothing else does */
    for (int k = 0; k < c->P && !res->vclass && !res->discard; k++) {
        sim_set_rank(k);
        int top = c->maxid[k] + 3 < MAXID ? c->maxid[k] + 3 : MAXID - 1;
        for (int id = c->id0 ? 0 : 1; id <= top && !res->vclass; id++) {
            void *pp = c->api[k].lookup((unsigned)id);
            int i = c->id2tp[k][id] - 1;
            void *want = i >= 0 && c->tps[k][i].registered ? c->tps[k][i].tp : NULL;
            if (pp == want) continue;
            if (want) hx_fail(res, "lost-registration", "rank %d at the end: taskpool #%d is registered under identifier %d (of %d handed out) but lookup returns %p", k, i, id, c->maxid[k], pp);
            else {
                int f = -1;
                for (int j = 0; j < c->ntp[k]; j++) if (c->tps[k][j].tp == pp) f = j;
                if (f < 0) hx_fail(res, "garbage-lookup", "rank %d at the end: lookup(%d) returned %p, which is neither NULL nor a taskpool of this rank (largest identifier handed out: %d)", k, id, pp, c->maxid[k]);
                else hx_fail(res, "stale-registration", "rank %d at the end: nothing is registered under identifier %d but lookup returns taskpool #%d (identifier %d, registered=%d)", k, id, f, c->tps[k][f].id, c->tps[k][f].registered);
            }
        }
    }
    sim_set_rank(0);
    if (!res->vclass && !res->discard) check_histories(c);
    sim_resume();
    if (!res->vclass) for (int k = 0; k < c->P; k++) for (int i = 0; i < c->ntp[k]; i++) {
        if (c->tps[k][i].registered) c->api[k].unreg(c->tps[k][i].tp);
        c->api[k].tp_free(c->tps[k][i].tp);
    }
}

static void init(void)
{
    /* glibc: fill malloc'ed memory with 0x5a and freed memory with 0xa5, so that a registry slot that is read without
     * ever having been written (or after its array was reallocated) shows up as a non-NULL garbage pointer instead
     * of depending on what the allocator happens to return.  Changes no semantics of a correct program. */
    mallopt(M_PERTURB, 0xa5);
}

static const hx_harness_t H = {
    .property = "C37", .name = "c37_tpid", .opnames = opnames, .nopnames = OP_N,
    .est_steps = 1500, .max_steps = 20000000, .gap_lo = 12, .gap_hi = 6000, .fork_per_run = 1, .gen = gen, .run = run, .init = init,
    .probe_names = probe_names, .nprobes = PR_N,
};
int main(int argc, char **argv) { return hx_main(argc, argv, &H); }
