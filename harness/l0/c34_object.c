/* C34: objects are destroyed exactly once when their last reference goes (DESIGN 4, C34).
 *
 * Real code: parsec/class/parsec_object.h (parsec_obj_new, PARSEC_OBJ_CONSTRUCT, PARSEC_OBJ_RETAIN,
 * PARSEC_OBJ_RELEASE, PARSEC_OBJ_DESTRUCT, parsec_obj_update, parsec_obj_run_constructors /
 * _destructors -- inline, through the instrumented shim) and parsec/class/parsec_object.c
 * (parsec_class_initialize, parsec_obj_destruct, parsec_obj_destruct_and_free -- instrumented in
 * the library).  Simulated: the thread scheduler only.
 *
 * Classes: two families of depth 1..4 declared with PARSEC_OBJ_CLASS_INSTANCE on top of
 * parsec_object_t.  Family F has a constructor and a destructor at every level; family G has a
 * NULL constructor at levels 2 and 4 and a NULL destructor at levels 3 and 4 (the library skips
 * NULL entries when it builds the per-class arrays).  Constructors / destructors only log (in
 * this uninstrumented file, hence atomically).
 *
 * Client discipline (token model; every simulated client is legal):
 *   - a thread holds >= 0 tokens (references) per object; `new` gives its creator one token;
 *   - retain is only issued while the thread holds a token of that object, and adds one;
 *   - release consumes a token the thread holds;
 *   - send moves a token into another thread's mailbox (pure harness-level hand-over, the way a
 *     pointer is handed through a queue), recv collects the mailbox;
 *   - use touches the object (allowed while holding a token);
 *   - at the end of its list a thread releases everything it holds; the main thread releases
 *     what is left in mailboxes.  Hence every object must be destroyed by the end of the run.
 *   Objects are allocated either with parsec_obj_new (release = destruct + free) or constructed in
 *   storage owned by the harness (release = destruct only); a sole owner of such an object may also
 *   finalise it with PARSEC_OBJ_DESTRUCT.
 *
 * Oracle (model: live = tokens held by threads or lying in mailboxes, i.e. not yet given to a
 * release call; inflight = release calls invoked and not yet returned):
 *   destroyed-while-referenced : a destructor starts while live > 0 (checked inside the first
 *                                destructor call, i.e. before the memory is freed; the thread is
 *                                then parked so that nothing is ever freed after a violation);
 *   use-after-destroy          : a token holder finds the poison flag set (any destructor ran);
 *   destroyed-twice            : a destructor of a level runs a second time / on a second thread /
 *                                two release calls report "count reached zero";
 *   destructor-order           : destructor levels not in the order most derived -> base
 *                                (restricted to the levels that have a destructor);
 *   constructor-order          : constructors not base -> most derived, or not all run by `new`;
 *   not-destroyed-at-zero      : live == 0 and no release call in flight, yet the destructors have
 *                                not (all) run -- checked when a release call returns and at the end;
 *   refcount-mismatch          : instantaneous bound live <= obj_reference_count <= live +
 *                                inflight releases + inflight retains violated (read through the
 *                                shim at one instant; sound because a release decrements somewhere
 *                                between its invoke and return and a retain increments likewise).
 * A violation found on a worker parks that worker; the main thread then abandons the run
 * (fork_per_run: the process ends with the run).
 */
#include "../hx.h"
#include "parsec/parsec_config.h"
#include "parsec/class/parsec_object.h"
#include <pthread.h>
#include <stdlib.h>
#include <string.h>

parsec_object_t *shim_obj_new(parsec_class_t *cls);
void shim_obj_construct(parsec_object_t *obj, parsec_class_t *cls);
void shim_obj_retain(parsec_object_t *obj);
int  shim_obj_release(parsec_object_t *obj);
void shim_obj_destruct(parsec_object_t *obj);
int  shim_obj_refcount(parsec_object_t *obj);

enum { OP_NEW, OP_RETAIN, OP_RELEASE, OP_SEND, OP_RECV, OP_USE, OP_N };
static const char *const opnames[] = {"new", "retain", "release", "send", "recv", "use"};
enum { PR_CONTENDED, PR_FOREIGN_DESTROY, PR_HANDOFF, PR_DEPTH4, PR_SPARSE, PR_DYNAMIC, PR_STATIC, PR_EXPLICIT, PR_N };
static const char *const probe_names[] = {"update_while_other_update_in_flight", "destroyed_by_non_creator",
                                          "token_handed_over_then_released", "depth4_destroyed", "sparse_family_destroyed", "dynamic_destroyed", "static_storage_destroyed",
                                          "explicit_PARSEC_OBJ_DESTRUCT"};

#define MAXT 6
#define MAXOBJ 8
#define DEPTH 4

/* ---------------------------------------------------------------- classes */
typedef struct { parsec_object_t super; long tag; } c34_f1_t;
typedef struct { c34_f1_t super; long p2; } c34_f2_t;
typedef struct { c34_f2_t super; long p3[2]; } c34_f3_t;
typedef struct { c34_f3_t super; long p4[3]; } c34_f4_t;
typedef struct { parsec_object_t super; long tag; } c34_g1_t;
typedef struct { c34_g1_t super; long p2; } c34_g2_t;
typedef struct { c34_g2_t super; long p3[2]; } c34_g3_t;
typedef struct { c34_g3_t super; long p4[3]; } c34_g4_t;

static void on_ctor(parsec_object_t *o, int fam, int lvl);
static void on_dtor(parsec_object_t *o, int fam, int lvl);
#define CD(fam, f, l) static void f##l##_ctor(parsec_object_t *o) { on_ctor(o, fam, l); } static void f##l##_dtor(parsec_object_t *o) { on_dtor(o, fam, l); }
CD(0, f, 1) CD(0, f, 2) CD(0, f, 3) CD(0, f, 4) CD(1, g, 1) CD(1, g, 2) CD(1, g, 3) CD(1, g, 4)

static PARSEC_OBJ_CLASS_INSTANCE(c34_f1_t, parsec_object_t, f1_ctor, f1_dtor);
static PARSEC_OBJ_CLASS_INSTANCE(c34_f2_t, c34_f1_t, f2_ctor, f2_dtor);
static PARSEC_OBJ_CLASS_INSTANCE(c34_f3_t, c34_f2_t, f3_ctor, f3_dtor);
static PARSEC_OBJ_CLASS_INSTANCE(c34_f4_t, c34_f3_t, f4_ctor, f4_dtor);
static PARSEC_OBJ_CLASS_INSTANCE(c34_g1_t, parsec_object_t, g1_ctor, g1_dtor);
static PARSEC_OBJ_CLASS_INSTANCE(c34_g2_t, c34_g1_t, NULL, g2_dtor);
static PARSEC_OBJ_CLASS_INSTANCE(c34_g3_t, c34_g2_t, g3_ctor, NULL);
static PARSEC_OBJ_CLASS_INSTANCE(c34_g4_t, c34_g3_t, NULL, NULL);

static parsec_class_t *const classes[2][DEPTH] = {
    {&c34_f1_t_class, &c34_f2_t_class, &c34_f3_t_class, &c34_f4_t_class},
    {&c34_g1_t_class, &c34_g2_t_class, &c34_g3_t_class, &c34_g4_t_class}};
static const int has_ctor[2][DEPTH + 1] = {{0, 1, 1, 1, 1}, {0, 1, 0, 1, 0}};
static const int has_dtor[2][DEPTH + 1] = {{0, 1, 1, 1, 1}, {0, 1, 1, 0, 0}};
/* callbacks generated for the NULL entries of family G are referenced nowhere else */
static void *const unused_fns[] = {(void *)g2_ctor, (void *)g3_dtor, (void *)g4_ctor, (void *)g4_dtor};

/* ---------------------------------------------------------------- model */
typedef struct {
    parsec_object_t *ptr;
    void *storage;              /* static variant: harness-owned memory */
    int used, fam, depth, dynamic, creator;
    int exp_c[DEPTH], nexp_c, nctor;
    int exp_d[DEPTH], nexp_d, ndtor;
    int dtor_thread, dtor_complete;
    int live, inflight_rel, inflight_ret;
    int zero_reports, explicit_destruct;
    int handed;                 /* some token of this object travelled through a mailbox */
} slot_t;

typedef struct {
    const hx_plan_t *plan;
    hx_result_t *res;
    int T;
    slot_t slot[MAXOBJ];
    int nslots;
    int held[MAXT + 1][MAXOBJ];     /* index T = main thread */
    int mbox[MAXT + 1][MAXOBJ];
    int creating[MAXT + 1];
    int idx_of_sim[64];
    int finished[MAXT];
} ctx_t;

static ctx_t *G;    /* NULL outside a run: constructors/destructors then do nothing */

static int never(void *a) { (void)a; return 0; }
static int my_idx(ctx_t *c) { int s = sim_self(); return (s >= 0 && s < 64) ? c->idx_of_sim[s] : c->T; }
static void park_if_worker(ctx_t *c) { if (my_idx(c) != c->T) sim_block_on(never, NULL, 0, "parked after violation"); }

static void holders(ctx_t *c, int s, char *buf, size_t n)
{
    size_t k = 0;
    buf[0] = 0;
    for (int t = 0; t <= c->T && k + 24 < n; t++) {
        if (c->held[t][s]) k += snprintf(buf + k, n - k, " t%d:%d", t, c->held[t][s]);
        if (c->mbox[t][s]) k += snprintf(buf + k, n - k, " mbox%d:%d", t, c->mbox[t][s]);
    }
}

static void on_ctor(parsec_object_t *o, int fam, int lvl)
{
    ctx_t *c = G;
    (void)o;
    if (!c) return;
    int me = my_idx(c);
    int s = c->creating[me];
    if (s < 0) { hx_fail(c->res, "constructor-order", "constructor of level %d ran outside an object creation", lvl); return; }
    slot_t *S = &c->slot[s];
    if (fam != S->fam || S->nctor >= S->nexp_c || S->exp_c[S->nctor] != lvl)
        hx_fail(c->res, "constructor-order", "object %d (family %d depth %d): constructor of family %d level %d ran at position %d, expected level %d (base first)",
                s, S->fam, S->depth, fam, lvl, S->nctor, S->nctor < S->nexp_c ? S->exp_c[S->nctor] : -1);
    S->nctor++;
}

static void on_dtor(parsec_object_t *o, int fam, int lvl)
{
    ctx_t *c = G;
    if (!c) return;
    int me = my_idx(c);
    slot_t *S = NULL;
    int s = -1;
    for (int i = 0; i < c->nslots; i++) if (c->slot[i].used && c->slot[i].ptr == o && !c->slot[i].dtor_complete) { S = &c->slot[i]; s = i; }
    if (!S) {
        for (int i = 0; i < c->nslots; i++) if (c->slot[i].used && c->slot[i].ptr == o) s = i;
        if (s >= 0) hx_fail(c->res, "destroyed-twice", "destructor of level %d ran on object %d after its destruction had completed (thread %d)", lvl, s, me);
        else hx_fail(c->res, "destroyed-twice", "destructor of level %d ran on %p which is no live object of this run", lvl, (void *)o);
        park_if_worker(c);
        return;
    }
    if (S->ndtor == 0) {
        if (S->live > 0) {
            char hb[200];
            holders(c, s, hb, sizeof(hb));
            hx_fail(c->res, "destroyed-while-referenced", "object %d (depth %d): destructor started by thread %d while %d reference(s) are still held:%s", s, S->depth, me, S->live, hb);
            park_if_worker(c);
            return;
        }
        S->dtor_thread = me;
        if (me != S->creator) sim_probe(PR_FOREIGN_DESTROY);
    } else if (S->dtor_thread != me) {
        hx_fail(c->res, "destroyed-twice", "object %d: thread %d runs a destructor (level %d) while thread %d is destroying it", s, me, lvl, S->dtor_thread);
        park_if_worker(c);
        return;
    }
    if (fam != S->fam || S->exp_d[S->ndtor] != lvl) {
        hx_fail(c->res, "destructor-order", "object %d (family %d depth %d): destructor of level %d ran at position %d, expected level %d (most derived first)",
                s, S->fam, S->depth, lvl, S->ndtor, S->exp_d[S->ndtor]);
        park_if_worker(c);
        return;
    }
    S->ndtor++;
    hx_hash(c->res, 0xD000 ^ ((uint64_t)s << 8) ^ (uint64_t)lvl ^ ((uint64_t)me << 16));
    if (S->ndtor == S->nexp_d) {
        S->dtor_complete = 1;
        if (S->depth == 4) sim_probe(PR_DEPTH4);
        if (S->fam) sim_probe(PR_SPARSE);
        sim_probe(S->dynamic ? PR_DYNAMIC : PR_STATIC);
    }
}

/* ---------------------------------------------------------------- operations */
static int refcount_in_bounds(ctx_t *c, int s, int me, const char *when)
{
    slot_t *S = &c->slot[s];
    int rc = shim_obj_refcount(S->ptr);
    /* no scheduling point between the read inside the shim and the comparison below */
    if (S->ndtor) return 1;     /* being destroyed: reported elsewhere */
    if (rc < S->live || rc > S->live + S->inflight_rel + S->inflight_ret) {
        hx_fail(c->res, "refcount-mismatch", "object %d: obj_reference_count = %d %s (thread %d), but %d reference(s) are held, %d release and %d retain call(s) in flight",
                s, rc, when, me, S->live, S->inflight_rel, S->inflight_ret);
        return 0;
    }
    return 1;
}

static int do_new(ctx_t *c, int me, int fam, int depth, int dynamic)
{
    if (c->nslots >= MAXOBJ) return -1;
    int s = c->nslots++;
    slot_t *S = &c->slot[s];
    memset(S, 0, sizeof(*S));
    S->used = 1; S->fam = fam; S->depth = depth; S->dynamic = dynamic; S->creator = me; S->dtor_thread = -1;
    for (int l = 1; l <= depth; l++) if (has_ctor[fam][l]) S->exp_c[S->nexp_c++] = l;
    for (int l = depth; l >= 1; l--) if (has_dtor[fam][l]) S->exp_d[S->nexp_d++] = l;
    parsec_class_t *cls = classes[fam][depth - 1];
    c->creating[me] = s;
    if (dynamic) S->ptr = shim_obj_new(cls);
    else {
        S->storage = malloc(sizeof(c34_f4_t) + 64);
        memset(S->storage, 0x5A, sizeof(c34_f4_t) + 64);
        S->ptr = (parsec_object_t *)S->storage;
        shim_obj_construct(S->ptr, cls);
    }
    c->creating[me] = -1;
    S->live = 1;
    c->held[me][s] = 1;
    hx_hash(c->res, 0xC000 ^ ((uint64_t)s << 8) ^ ((uint64_t)fam << 4) ^ (uint64_t)depth);
    if (!c->res->vclass && S->nctor != S->nexp_c)
        hx_fail(c->res, "constructor-order", "object %d (family %d depth %d): %d constructor(s) ran during creation, expected %d", s, fam, depth, S->nctor, S->nexp_c);
    if (!c->res->vclass && (S->ptr->obj_class != cls || S->ptr->obj_reference_count != 1))
        hx_fail(c->res, "refcount-mismatch", "object %d: fresh object has reference count %d (expected 1) or a wrong class", s, (int)S->ptr->obj_reference_count);
    return s;
}

static void do_retain(ctx_t *c, int me, int s)
{
    slot_t *S = &c->slot[s];
    if (S->inflight_rel + S->inflight_ret) sim_probe(PR_CONTENDED);
    S->inflight_ret++;
    shim_obj_retain(S->ptr);
    S->inflight_ret--;
    S->live++;
    c->held[me][s]++;
    hx_hash(c->res, 0xA000 ^ ((uint64_t)s << 8) ^ ((uint64_t)me << 16));
}

static void do_release(ctx_t *c, int me, int s, int allow_explicit)
{
    slot_t *S = &c->slot[s];
    parsec_object_t *p = S->ptr;
    if (S->inflight_rel + S->inflight_ret) sim_probe(PR_CONTENDED);
    if (S->handed) sim_probe(PR_HANDOFF);
    c->held[me][s]--;
    S->live--;
    if (allow_explicit && !S->dynamic && S->live == 0 && S->inflight_rel == 0 && S->inflight_ret == 0) {
        /* sole owner of an object living in caller-owned storage: scoped finalisation */
        S->explicit_destruct = 1;
        sim_probe(PR_EXPLICIT);
        shim_obj_destruct(p);
        if (!c->res->vclass && !S->dtor_complete)
            hx_fail(c->res, "not-destroyed-at-zero", "object %d: PARSEC_OBJ_DESTRUCT returned but only %d of %d destructors ran", s, S->ndtor, S->nexp_d);
        return;
    }
    S->inflight_rel++;
    int r = shim_obj_release(p);
    S->inflight_rel--;
    hx_hash(c->res, 0xB000 ^ ((uint64_t)s << 8) ^ ((uint64_t)me << 16) ^ (uint64_t)r);
    if (c->res->vclass) return;
    if (r) {
        if (++S->zero_reports > 1) { hx_fail(c->res, "destroyed-twice", "object %d: a second release call (thread %d) saw the reference count reach zero", s, me); return; }
        if (!S->dtor_complete || S->dtor_thread != me) {
            hx_fail(c->res, "not-destroyed-at-zero", "object %d: the release call of thread %d saw the count reach zero but %d of %d destructors ran (by thread %d)", s, me, S->ndtor, S->nexp_d, S->dtor_thread);
            return;
        }
    }
    if (S->live == 0 && S->inflight_rel == 0 && !S->dtor_complete)
        hx_fail(c->res, "not-destroyed-at-zero", "object %d (depth %d): every reference has been released (last release returned on thread %d) but the destructors did not run (%d of %d)",
                s, S->depth, me, S->ndtor, S->nexp_d);
}

static int pick_held(ctx_t *c, int me, long a)
{
    int cand[MAXOBJ], n = 0;
    for (int s = 0; s < c->nslots; s++) if (c->held[me][s] > 0) cand[n++] = s;
    return n ? cand[labs(a) % n] : -1;
}

static void do_recv(ctx_t *c, int me)
{
    for (int s = 0; s < c->nslots; s++) if (c->mbox[me][s]) { c->held[me][s] += c->mbox[me][s]; c->mbox[me][s] = 0; }
}

static void worker(int t, ctx_t *c)
{
    c->idx_of_sim[sim_self() & 63] = t;
    for (int k = 0; k < c->plan->nops; k++) {
        const hx_op_t *o = &c->plan->ops[k];
        if (o->thr != t) continue;
        if (c->res->vclass) return;
        int s;
        switch (o->op) {
        case OP_NEW:
            do_new(c, t, (int)(labs(o->b) & 1), (int)(1 + labs(o->a) % DEPTH), (int)((labs(o->b) >> 1) & 1));
            break;
        case OP_RETAIN:
            if ((s = pick_held(c, t, o->a)) >= 0) do_retain(c, t, s);
            break;
        case OP_RELEASE:
            if ((s = pick_held(c, t, o->a)) >= 0) do_release(c, t, s, labs(o->b) % 4 == 3);
            break;
        case OP_SEND:
            if ((s = pick_held(c, t, o->a)) >= 0) {
                int dst = (int)(labs(o->b) % c->T);
                c->held[t][s]--; c->mbox[dst][s]++; c->slot[s].handed = 1;
                hx_hash(c->res, 0xE000 ^ ((uint64_t)s << 8) ^ ((uint64_t)t << 16) ^ ((uint64_t)dst << 20));
                if (labs(o->c) & 1) sim_yield();
            }
            break;
        case OP_RECV:
            do_recv(c, t);
            if (labs(o->c) & 1) sim_yield();
            break;
        case OP_USE:
            if ((s = pick_held(c, t, o->a)) >= 0) {
                slot_t *S = &c->slot[s];
                if (S->ndtor) {
                    hx_fail(c->res, "use-after-destroy", "thread %d holds a reference to object %d, but %d of its destructors have already run (thread %d)", t, s, S->ndtor, S->dtor_thread);
                    return;
                }
                if (!refcount_in_bounds(c, s, t, "while in use")) return;
            }
            break;
        default: break;
        }
    }
    /* drop everything this thread still owns */
    do_recv(c, t);
    for (int s = 0; s < c->nslots; s++)
        while (c->held[t][s] > 0) { if (c->res->vclass) return; do_release(c, t, s, 0); }
}

typedef struct { ctx_t *c; int idx; } wk_t;
static void *wk_tramp(void *a) { wk_t *w = a; worker(w->idx, w->c); w->c->finished[w->idx] = 1; return NULL; }
static int all_finished(ctx_t *c) { for (int i = 0; i < c->T; i++) if (!c->finished[i]) return 0; return 1; }
static int wk_pred(void *a) { ctx_t *c = a; return c->res->vclass != NULL || all_finished(c); }

static void gen(hx_plan_t *p, hx_rng_t *r)
{
    int T = (int)hx_range(r, 2, MAXT);
    hx_set_knob(p, "threads", T);
    hx_set_knob(p, "initial", hx_chance(r, 20) ? 3 : hx_range(r, 1, 2));
    hx_set_knob(p, "shape", hx_below(r, 1 << 16));      /* depth / family / allocation of the initial objects */
    hx_set_knob(p, "dist", hx_below(r, 1L << 30) | hx_below(r, 1L << 30));  /* which threads start with a reference to which initial object (dense) */
    int nops = (int)hx_range(r, 8, 48);
    int w_new = (int)hx_range(r, 2, 12), w_send = (int)hx_range(r, 3, 15);
    for (int i = 0; i < nops; i++) {
        int t = (int)hx_below(r, T);
        int k = (int)hx_below(r, 100), op;
        if (k < w_new) op = OP_NEW;
        else if (k < w_new + w_send) op = OP_SEND;
        else if (k < w_new + 2 * w_send) op = OP_RECV;
        else if (k < w_new + 2 * w_send + 10) op = OP_USE;
        else op = ((k ^ i) & 1) ? OP_RETAIN : OP_RELEASE;
        hx_add_op(p, t, op, hx_below(r, 1000), hx_below(r, 1000), hx_below(r, 1000));
    }
}

static void run(const hx_plan_t *p, hx_result_t *res)
{
    static ctx_t c;
    memset(&c, 0, sizeof(c));
    c.plan = p; c.res = res;
    c.T = (int)hx_knob(p, "threads", 2);
    if (c.T < 1) c.T = 1;
    if (c.T > MAXT) c.T = MAXT;
    for (int i = 0; i <= MAXT; i++) c.creating[i] = -1;
    for (int i = 0; i < 64; i++) c.idx_of_sim[i] = c.T;
    G = &c;
    int me = c.T;
    int ninit = (int)hx_knob(p, "initial", 1);
    if (ninit < 0) ninit = 0;
    if (ninit > 4) ninit = 4;
    long shape = hx_knob(p, "shape", 0), dist = hx_knob(p, "dist", 0);
    for (int i = 0; i < ninit && !res->vclass; i++) {
        int bits = (int)((shape >> (4 * i)) & 15);
        int s = do_new(&c, me, (bits >> 2) & 1, 1 + (bits & 3), (bits >> 3) & 1);
        if (s < 0) break;
        /* hand a reference to every selected thread (retain first, as a legal owner does), then give away our own */
        int first = -1;
        for (int t = 0; t < c.T; t++) if ((dist >> (i * MAXT + t)) & 1) { if (first < 0) first = t; else { do_retain(&c, me, s); c.held[me][s]--; c.held[t][s]++; } }
        if (first < 0) first = i % c.T;
        c.held[me][s]--; c.held[first][s]++;
    }
    pthread_t pt[MAXT];
    static wk_t wk[MAXT];
    if (!res->vclass) {
        for (int i = 0; i < c.T; i++) { wk[i] = (wk_t){&c, i}; pthread_create(&pt[i], NULL, wk_tramp, &wk[i]); }
        sim_block_on(wk_pred, &c, 0, "C34 workers");
    }
    if (res->vclass) { G = NULL; return; }     /* abandoned (see header comment); nothing is freed */
    for (int i = 0; i < c.T; i++) pthread_join(pt[i], NULL);
    /* quiescent: the real count of every surviving object equals the number of tokens left in mailboxes */
    for (int s = 0; s < c.nslots && !res->vclass; s++) {
        slot_t *S = &c.slot[s];
        if (!S->dtor_complete && S->live > 0) refcount_in_bounds(&c, s, me, "at the quiescent end of the run");
    }
    /* main releases what was left in mailboxes of threads that had already finished */
    for (int t = 0; t < c.T; t++) for (int s = 0; s < c.nslots; s++) { c.held[me][s] += c.mbox[t][s]; c.mbox[t][s] = 0; }
    for (int s = 0; s < c.nslots; s++) while (c.held[me][s] > 0 && !res->vclass) do_release(&c, me, s, 0);
    for (int s = 0; s < c.nslots && !res->vclass; s++) {
        slot_t *S = &c.slot[s];
        if (S->live != 0 || S->inflight_rel || S->inflight_ret) hx_fail(res, "harness-bug", "object %d: token accounting not balanced at the end (live %d)", s, S->live);
        else if (!S->dtor_complete) hx_fail(res, "not-destroyed-at-zero", "object %d (depth %d): all references released but %d of %d destructors ran", s, S->depth, S->ndtor, S->nexp_d);
        else if (S->zero_reports != (S->explicit_destruct ? 0 : 1)) hx_fail(res, "not-destroyed-at-zero", "object %d: %d release call(s) reported the final release (expected exactly one)", s, S->zero_reports);
    }
    G = NULL;
    if (res->vclass) return;
    for (int s = 0; s < c.nslots; s++) free(c.slot[s].storage);
}

static void init(void)
{
    /* lazy class initialisation (parsec_class_initialize) happens here, once, outside any simulated
     * run, so that no run depends on which classes earlier runs of the same process touched */
    (void)unused_fns;
    for (int f = 0; f < 2; f++) for (int d = 0; d < DEPTH; d++) {
        parsec_object_t *o = shim_obj_new(classes[f][d]);
        shim_obj_release(o);
    }
}

static const hx_harness_t H = {
    .property = "C34", .name = "c34_object", .opnames = opnames, .nopnames = OP_N,
    .est_steps = 150, .max_steps = 2000000, .gen = gen, .run = run, .init = init,
    .fork_per_run = 1,   /* a violating run abandons parked sim-threads; only safe if the process ends with the run */
    .probe_names = probe_names, .nprobes = PR_N,
};
int main(int argc, char **argv) { return hx_main(argc, argv, &H); }
