/* C32 shim.  Every hash-table operation under test is out of line in parsec/class/parsec_hash_table.c
 * (and parsec_rwlock.c), which the pipeline already compiles with instrumentation, so nothing has
 * to be wrapped here.  The file is kept because the l0() registry helper expects a shim. */
#include "parsec/parsec_config.h"
#include "parsec/class/parsec_hash_table.h"
int c32_hash_shim_unused;
