/* C31 instrumented shim: one non-inline function per inline list / dequeue / fifo / list_item
 * operation (DESIGN 3.6 "L0 shims").  The only functions with more than one call are the
 * client-side protocols the API prescribes for operations that exist only as nolock variants
 * (lock; nolock_contains; nolock_remove; unlock) and the iterator macros. */
#include "parsec/parsec_config.h"
#include "parsec/class/list_item.h"
#include "parsec/class/list.h"
#include "parsec/class/dequeue.h"
#include "parsec/class/fifo.h"

typedef parsec_list_item_t it_t;

/* ---- list.h, locked ---- */
void s31_push_front(parsec_list_t *l, it_t *i) { parsec_list_push_front(l, i); }
void s31_push_back(parsec_list_t *l, it_t *i) { parsec_list_push_back(l, i); }
void s31_chain_front(parsec_list_t *l, it_t *r) { parsec_list_chain_front(l, r); }
void s31_chain_back(parsec_list_t *l, it_t *r) { parsec_list_chain_back(l, r); }
it_t *s31_pop_front(parsec_list_t *l) { return parsec_list_pop_front(l); }
it_t *s31_pop_back(parsec_list_t *l) { return parsec_list_pop_back(l); }
it_t *s31_try_pop_front(parsec_list_t *l) { return parsec_list_try_pop_front(l); }
it_t *s31_try_pop_back(parsec_list_t *l) { return parsec_list_try_pop_back(l); }
void s31_push_sorted(parsec_list_t *l, it_t *i, size_t off) { parsec_list_push_sorted(l, i, off); }
void s31_chain_sorted(parsec_list_t *l, it_t *r, size_t off) { parsec_list_chain_sorted(l, r, off); }
it_t *s31_unchain(parsec_list_t *l) { return parsec_list_unchain(l); }
int s31_is_empty(parsec_list_t *l) { return parsec_list_is_empty(l); }
void s31_sort(parsec_list_t *l, size_t off) { parsec_list_sort(l, off); }
void s31_add_after(parsec_list_t *l, it_t *pos, it_t *i) { parsec_list_add_after(l, pos, i); }
it_t *s31_ghost(parsec_list_t *l) { return PARSEC_LIST_ITERATOR_END(l); }

/* locked iteration (PARSEC_LIST_ITERATOR holds the list lock for the whole loop) */
int s31_snapshot(parsec_list_t *l, it_t **out, int max)
{
    int n = 0;
    PARSEC_LIST_ITERATOR(l, it, {
        if (n >= max) { n++; break; }   /* corrupted (cyclic) list: let the harness report it */
        out[n++] = it;
    });
    return n;
}
/* the only legal way for a concurrent client to remove a given item: under the list lock */
int s31_remove_if_present(parsec_list_t *l, it_t *i)
{
    int r;
    parsec_list_lock(l);
    r = parsec_list_nolock_contains(l, i);
    if (r) parsec_list_nolock_remove(l, i);
    parsec_list_unlock(l);
    return r;
}
/* parsec_list_sort's body (lock; nolock_sort; unlock) with the result observed before the
 * lock is dropped, so that a concurrent history can be judged */
int s31_sort_snapshot(parsec_list_t *l, size_t off, it_t **out, int max)
{
    int n = 0;
    parsec_list_lock(l);
    parsec_list_nolock_sort(l, off);
    PARSEC_LIST_NOLOCK_ITERATOR(l, it, {
        if (n >= max) { n++; break; }
        out[n++] = it;
    });
    parsec_list_unlock(l);
    return n;
}

/* ---- list.h, nolock (T = 1 plans) ---- */
void s31_nl_push_front(parsec_list_t *l, it_t *i) { parsec_list_nolock_push_front(l, i); }
void s31_nl_push_back(parsec_list_t *l, it_t *i) { parsec_list_nolock_push_back(l, i); }
void s31_nl_chain_front(parsec_list_t *l, it_t *r) { parsec_list_nolock_chain_front(l, r); }
void s31_nl_chain_back(parsec_list_t *l, it_t *r) { parsec_list_nolock_chain_back(l, r); }
it_t *s31_nl_pop_front(parsec_list_t *l) { return parsec_list_nolock_pop_front(l); }
it_t *s31_nl_pop_back(parsec_list_t *l) { return parsec_list_nolock_pop_back(l); }
void s31_nl_push_sorted(parsec_list_t *l, it_t *i, size_t off) { parsec_list_nolock_push_sorted(l, i, off); }
void s31_nl_chain_sorted(parsec_list_t *l, it_t *r, size_t off) { parsec_list_nolock_chain_sorted(l, r, off); }
it_t *s31_nl_unchain(parsec_list_t *l) { return parsec_list_nolock_unchain(l); }
int s31_nl_is_empty(parsec_list_t *l) { return parsec_list_nolock_is_empty(l); }
void s31_nl_sort(parsec_list_t *l, size_t off) { parsec_list_nolock_sort(l, off); }
void s31_nl_add_before(parsec_list_t *l, it_t *pos, it_t *i) { parsec_list_nolock_add_before(l, pos, i); }
void s31_nl_add_after(parsec_list_t *l, it_t *pos, it_t *i) { parsec_list_nolock_add_after(l, pos, i); }
it_t *s31_nl_remove(parsec_list_t *l, it_t *i) { return parsec_list_nolock_remove(l, i); }
int s31_nl_contains(parsec_list_t *l, it_t *i) { return parsec_list_nolock_contains(l, i); }
int s31_nl_snapshot(parsec_list_t *l, it_t **out, int max)
{
    int n = 0;
    PARSEC_LIST_NOLOCK_ITERATOR(l, it, {
        if (n >= max) { n++; break; }
        out[n++] = it;
    });
    return n;
}
int s31_nl_rev_snapshot(parsec_list_t *l, it_t **out, int max)
{
    int n = 0;
    PARSEC_LIST_NOLOCK_REV_ITERATOR(l, it, {
        if (n >= max) { n++; break; }
        out[n++] = it;
    });
    return n;
}

/* ---- dequeue.h ---- */
void s31_dq_push_front(parsec_dequeue_t *d, it_t *i) { parsec_dequeue_push_front(d, i); }
void s31_dq_push_back(parsec_dequeue_t *d, it_t *i) { parsec_dequeue_push_back(d, i); }
void s31_dq_chain_front(parsec_dequeue_t *d, it_t *r) { parsec_dequeue_chain_front(d, r); }
void s31_dq_chain_back(parsec_dequeue_t *d, it_t *r) { parsec_dequeue_chain_back(d, r); }
it_t *s31_dq_pop_front(parsec_dequeue_t *d) { return parsec_dequeue_pop_front(d); }
it_t *s31_dq_pop_back(parsec_dequeue_t *d) { return parsec_dequeue_pop_back(d); }
it_t *s31_dq_try_pop_front(parsec_dequeue_t *d) { return parsec_dequeue_try_pop_front(d); }
it_t *s31_dq_try_pop_back(parsec_dequeue_t *d) { return parsec_dequeue_try_pop_back(d); }
int s31_dq_is_empty(parsec_dequeue_t *d) { return parsec_dequeue_is_empty(d); }
void s31_dq_nl_push_front(parsec_dequeue_t *d, it_t *i) { parsec_dequeue_nolock_push_front(d, i); }
void s31_dq_nl_push_back(parsec_dequeue_t *d, it_t *i) { parsec_dequeue_nolock_push_back(d, i); }
void s31_dq_nl_chain_front(parsec_dequeue_t *d, it_t *r) { parsec_dequeue_nolock_chain_front(d, r); }
void s31_dq_nl_chain_back(parsec_dequeue_t *d, it_t *r) { parsec_dequeue_nolock_chain_back(d, r); }
it_t *s31_dq_nl_pop_front(parsec_dequeue_t *d) { return parsec_dequeue_nolock_pop_front(d); }
it_t *s31_dq_nl_pop_back(parsec_dequeue_t *d) { return parsec_dequeue_nolock_pop_back(d); }
int s31_dq_nl_is_empty(parsec_dequeue_t *d) { return parsec_dequeue_nolock_is_empty(d); }

/* ---- fifo.h ---- */
void s31_ff_push(parsec_fifo_t *f, it_t *i) { parsec_fifo_push(f, i); }
void s31_ff_chain(parsec_fifo_t *f, it_t *r) { parsec_fifo_chain(f, r); }
it_t *s31_ff_pop(parsec_fifo_t *f) { return parsec_fifo_pop(f); }
it_t *s31_ff_try_pop(parsec_fifo_t *f) { return parsec_fifo_try_pop(f); }
int s31_ff_is_empty(parsec_fifo_t *f) { return parsec_fifo_is_empty(f); }
void s31_ff_nl_push(parsec_fifo_t *f, it_t *i) { parsec_fifo_nolock_push(f, i); }
void s31_ff_nl_chain(parsec_fifo_t *f, it_t *r) { parsec_fifo_nolock_chain(f, r); }
it_t *s31_ff_nl_pop(parsec_fifo_t *f) { return parsec_fifo_nolock_pop(f); }
int s31_ff_nl_is_empty(parsec_fifo_t *f) { return parsec_fifo_nolock_is_empty(f); }

/* ---- list_item.h rings ---- */
it_t *s31_item_singleton(it_t *i) { return parsec_list_item_singleton(i); }
it_t *s31_ring_push(it_t *ring, it_t *i) { return parsec_list_item_ring_push(ring, i); }
it_t *s31_ring_push_sorted(it_t *ring, it_t *i, size_t off) { return parsec_list_item_ring_push_sorted(ring, i, off); }
