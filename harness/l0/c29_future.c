/* C29: futures complete once and deliver one value (DESIGN 4, C29).
 *
 * Real code: parsec/class/parsec_future.c (base + countable futures) and
 * parsec/class/parsec_datacopy_future.c (reshape futures with nested futures), instrumented in the
 * library, reached through the macros of parsec_future.h in the instrumented shim; the object
 * macros (NEW / RETAIN / RELEASE) of parsec_object.h.  Simulated: the thread scheduler only.
 *
 * One run owns up to 3 (dup_set plans: 3-6) base, 2 countable and 2 datacopy futures shared by 1-8 sim-threads.
 * Client discipline (only legal uses):
 *   base       one "set token" per future, owned by one thread: exactly one set by the client.
 *              Initialisation variants: none (as tests/class/future.c), init without / with a
 *              completion callback.  get (blocking busy-wait) and is_ready by anybody.
 *              Knob dup_set=1 (about 30% of the plans): a base future has b<i>_nset = 2-3 set
 *              tokens owned by different threads (owner, owner+1, ... modulo the thread count),
 *              each set with its own fresh value.  The library tolerates it ("Trying to set a base
 *              future that is already in a ready state" on the silenced stream; the first value is
 *              kept); this is what exercises the CAS-once of parsec_base_future_set.  Such plans have
 *              3-6 base futures, usually dense preemption (plan knob sim_mean_gap), owners whose
 *              lists begin with the sets, and knob dup_gate: the first setter of a future delays its
 *              set by at most dup_gate yields until a second setter arrives (bounded, cannot block).
 *   countable  `count` set tokens distributed over the threads; exactly `count` sets.
 *   blocking   a thread spends ALL its remaining set tokens before it enters a blocking get, and
 *              every thread spends its remaining tokens at the end of its list; hence there is no
 *              client-made cycle and every blocking get returns, for any subset of the plan.
 *   datacopy   a root future (match data = its shape) created by the main thread, which retains
 *              it once per worker.  get_or_trigger(root, setup_nested, spec) with spec = NULL (no
 *              match requested), the root's own shape, or one of 1-4 other shapes for which the
 *              library sets up a nested future through our setup callback (as parsec_reshape.c
 *              does).  Fulfilment is either synchronous (the trigger callback calls
 *              parsec_future_set before returning, like the MPI_THREAD_MULTIPLE path of
 *              parsec_local_reshape_cb) or asynchronous (the callback only queues the request;
 *              some thread later performs the single parsec_future_set, like the communication
 *              thread), or the root is set by its creator before it is shared ("fulfilled
 *              promise").  A worker releases its reference only after every shape it requested
 *              has been delivered to it (it completes queued requests itself if needed), so all
 *              nested futures are completed when the last reference goes, as the library demands.
 *
 * Oracle (this file is uninstrumented; bookkeeping next to a call is atomic with its invoke/return):
 *   wrong-value / value-mismatch   a reader obtains something else than the value set for that
 *                                  future / shape, or two readers of a shape obtain different values;
 *                                  base futures ("accepts ONE value and returns it to EVERY reader"):
 *                                  a reader (get after is_ready, blocking get, get inside the completion
 *                                  callback) must obtain a value whose set had been invoked before the
 *                                  read returned (wrong-value otherwise), and the same value as every
 *                                  earlier reader of that future (value-mismatch otherwise: the value
 *                                  never changes once it has been observed).  Which of several sets
 *                                  wins is not prescribed;
 *   ready-before-set             ready / value observed although set was not yet invoked
 *                                  (countable: fewer than `count` sets invoked; also for the callback);
 *   not-ready-after-set            is_ready (or get_or_trigger, see below) invoked after the (last)
 *                                  set returned says "not ready".  Base futures with several sets: the
 *                                  future is "settled" at the first instant at which at least one set
 *                                  has returned and no set is in progress (the set that won is among
 *                                  the returned ones and completed the future, callback included,
 *                                  before it returned; a set that lost may return earlier than that);
 *                                  from then on is_ready must say yes and the completion callback must
 *                                  have run exactly once -- in particular after all sets returned;
 *   shape-fulfilled-twice          the trigger callback runs twice for one future, or a second nested
 *                                  future is set up for a shape that already has one;
 *   callback-count                 a completion callback (base / countable cb_fulfill) or a cleanup
 *                                  callback runs twice, or not at all by the time it must have run;
 *   cleanup-while-referenced       a cleanup callback runs while a reference is still held.
 *   get_or_trigger may legally return NULL while the target is not fulfilled yet (this includes a
 *   not yet existing nested future whose creation the library defers while another nested future
 *   is being generated); NULL is a violation ("not-ready-after-set") only when the future of the
 *   requested shape existed and its set had returned before the call ("@return ... NULL in case
 *   the future is not fulfilled yet").
 * After a violation the run is abandoned (blocked getters may spin for ever): fork_per_run.
 */
#include "../hx.h"
#include "parsec/parsec_config.h"
#include "parsec/class/parsec_future.h"
#include "parsec/class/list.h"
#include "parsec/utils/output.h"
#include <pthread.h>
#include <stdarg.h>
#include <stdlib.h>
#include <string.h>

parsec_base_future_t *shim_fut_new_base(void);
parsec_countable_future_t *shim_fut_new_countable(void);
parsec_datacopy_future_t *shim_fut_new_datacopy(void);
void shim_fut_init_base(parsec_base_future_t *f, parsec_future_cb_fulfill cb);
void shim_fut_init_countable(parsec_countable_future_t *f, parsec_future_cb_fulfill cb, int count);
void shim_fut_init_datacopy(parsec_datacopy_future_t *f, parsec_future_cb_fulfill cb, void *fulfill_in,
                            parsec_future_cb_match match, void *match_in, parsec_future_cb_cleanup cleanup);
int shim_fut_is_ready(void *f);
void shim_fut_set(void *f, void *data);
void *shim_fut_get(void *f);
void *shim_fut_get_or_trigger(void *f, parsec_future_cb_nested setup_nested, void *spec, void *es, void *task);
void shim_fut_retain(void *f);
int shim_fut_release(void *f);

enum { OP_BSET, OP_BGET, OP_BREADY, OP_CSET, OP_CGET, OP_CREADY, OP_DGET, OP_DCOMPLETE, OP_N };
static const char *const opnames[] = {"bset", "bget", "bready", "cset", "cget", "cready", "dget", "dcomplete"};
enum { PR_BGET_WAITED, PR_CSET_CONCURRENT, PR_NESTED, PR_TWO_NESTED, PR_DGET_NULL, PR_NEW_SHAPE_DEFERRED, PR_ASYNC_BY_OTHER,
       PR_SECOND_REQUESTER, PR_CLEANUP_BY_WORKER, PR_PRESET_READ, PR_TRIGGER_RACE, PR_BSET_OVERLAP, PR_BSET_AFTER_READY, PR_BGET_DURING_DUP, PR_N };
static const char *const probe_names[] = {"blocking_get_entered_before_set", "countable_sets_overlap", "nested_future_created", "two_nested_futures_on_one_root",
                                          "get_or_trigger_returned_null", "new_shape_deferred_(null_because_other_nested_future_still_generating)", "async_fulfilment_completed_by_other_thread",
                                          "second_requester_of_a_triggered_shape", "last_reference_dropped_by_worker", "preset_root_read", "two_get_or_trigger_overlap_on_unfulfilled_target",
                                          "two_sets_of_one_base_future_overlap", "base_set_invoked_on_completed_future", "base_value_read_while_a_further_set_is_pending_or_running"};

#define MAXT 8
#define MAXB 6          /* base futures: up to MAXB_PLAIN, dup_set plans MAXB_PLAIN..MAXB */
#define MAXB_PLAIN 3
#define MAXC 2
#define MAXD 2
#define MAXS 4
#define MAXVAL 96

#define MAXTOK 3
/* base future: ntok set tokens (1 unless dup_set); tok_val[k] != NULL <=> the set of token k has been invoked;
 * n_inv / n_done = sets invoked / returned; settled: see "not-ready-after-set" above; seen = value obtained by the first reader */
typedef struct { parsec_base_future_t *f; int mode, ntok, tok_owner[MAXTOK], tok_spent[MAXTOK], gate, n_inv, n_done, settled, cb_calls; void *tok_val[MAXTOK], *seen; } bf_t;
typedef struct { parsec_countable_future_t *f; int count, has_cb, tokens[MAXT + 1], inv, done, inflight, cb_calls; } cf_t;
typedef struct dnode { parsec_datacopy_future_t *fut; int exists, dead, spec, async, fulfil_calls, trigger_thread, pending, set_inv, set_done, cleanup_calls, readers_inflight; void *val, *first_val; } dnode_t;
typedef struct {
    dnode_t n[MAXS + 1];        /* n[0] = root, n[k] = nested future for shape k */
    int nshapes, root_shape, preset, async_mask;     /* async_mask bit 0: root, bit k: shape k fulfilled asynchronously */
    int refs, inflight_rel, released, ncreated, nnested;
    int holds_ref[MAXT + 1], requested[MAXT + 1][MAXS + 1], got[MAXT + 1][MAXS + 1];
} df_t;

typedef struct {
    const hx_plan_t *plan;
    hx_result_t *res;
    int T, nb, nc, nd, cbdelay, dup_gate;
    bf_t b[MAXB];
    cf_t c[MAXC];
    df_t d[MAXD];
    long vals[MAXVAL];
    int nvals;
    int idx_of_sim[64];
    int finished[MAXT];
} ctx_t;

static ctx_t *G;

static int my_idx(ctx_t *c) { int s = sim_self(); return (s >= 0 && s < 64) ? c->idx_of_sim[s] : c->T; }
static void *fresh(ctx_t *c) { if (c->nvals >= MAXVAL) { c->res->discard = 1; c->res->discard_why = "too-many-values"; return &c->vals[MAXVAL - 1]; } c->vals[c->nvals] = 1000 + c->nvals; return &c->vals[c->nvals++]; }
static int failed(ctx_t *c) { return c->res->vclass != NULL; }

/* a reader (thread t) of base future i obtained v, just now.  0 = fine */
static int b_observe(ctx_t *c, int i, void *v, int t, const char *how)
{
    bf_t *b = &c->b[i];
    if (!b->n_inv) { hx_fail(c->res, "ready-before-set", "base future %d: %s returned %p to thread %d before any set was invoked", i, how, v, t); return -1; }
    int k = 0;
    while (k < b->ntok && !(b->tok_val[k] && b->tok_val[k] == v)) k++;
    if (k == b->ntok) {
        hx_fail(c->res, "wrong-value", "base future %d: %s returned %p to thread %d, which is none of the %d value(s) whose set has been invoked (%p %p %p)", i, how, v, t, b->n_inv,
                b->tok_val[0], b->ntok > 1 ? b->tok_val[1] : NULL, b->ntok > 2 ? b->tok_val[2] : NULL);
        return -1;
    }
    if (b->seen && b->seen != v) {
        hx_fail(c->res, "value-mismatch", "base future %d: %s returned %p to thread %d although an earlier reader obtained %p (%d set(s) invoked, %d returned): the future delivered two values", i, how, v, t, b->seen, b->n_inv, b->n_done);
        return -1;
    }
    b->seen = v;
    if (b->ntok > 1 && b->n_done < b->ntok) sim_probe(PR_BGET_DURING_DUP);
    return 0;
}

/* ---------------------------------------------------------------- callbacks (run on sim threads, atomically) */
static void base_cb(parsec_base_future_t *future, ...)
{
    ctx_t *c = G;
    if (!c) return;
    for (int i = 0; i < c->nb; i++) if ((void *)c->b[i].f == (void *)future) {
        bf_t *b = &c->b[i];
        if (++b->cb_calls > 1) { hx_fail(c->res, "callback-count", "completion callback of base future %d ran %d times (%d set(s) invoked, %d returned)", i, b->cb_calls, b->n_inv, b->n_done); return; }
        if (!b->n_inv) { hx_fail(c->res, "ready-before-set", "completion callback of base future %d ran before any set", i); return; }
        void *v = shim_fut_get(future);     /* as tests/class/future.c does inside its callback */
        b_observe(c, i, v, my_idx(c), "get inside the completion callback");
        return;
    }
    hx_fail(c->res, "callback-count", "base completion callback ran on an unknown future");
}

static void count_cb(parsec_base_future_t *future, ...)
{
    ctx_t *c = G;
    if (!c) return;
    for (int i = 0; i < c->nc; i++) if ((void *)c->c[i].f == (void *)future) {
        cf_t *f = &c->c[i];
        if (++f->cb_calls > 1) { hx_fail(c->res, "callback-count", "completion callback of countable future %d ran %d times", i, f->cb_calls); return; }
        if (f->inv < f->count) { hx_fail(c->res, "ready-before-set", "countable future %d (count %d) ran its completion callback after only %d set(s) were invoked", i, f->count, f->inv); return; }
        if (!shim_fut_is_ready(future)) hx_fail(c->res, "not-ready-after-set", "countable future %d: not ready inside its own completion callback", i);
        return;
    }
    hx_fail(c->res, "callback-count", "countable completion callback ran on an unknown future");
}

static dnode_t *find_node(ctx_t *c, void *future, int *di, int *ki)
{
    for (int i = 0; i < c->nd; i++) for (int k = 0; k <= MAXS; k++)
        if (c->d[i].n[k].exists && !c->d[i].n[k].dead && (void *)c->d[i].n[k].fut == future) { if (di) *di = i; if (ki) *ki = k; return &c->d[i].n[k]; }
    return NULL;
}

static void node_set(ctx_t *c, dnode_t *n)
{
    n->val = fresh(c);
    n->set_inv = 1;
    shim_fut_set(n->fut, n->val);
    n->set_done = 1;
}

static void d_fulfill(parsec_base_future_t *future, ...)
{
    ctx_t *c = G;
    if (!c) return;
    va_list ap;
    va_start(ap, future);
    void **in_data = va_arg(ap, void **);
    (void)va_arg(ap, void *);   /* es */
    (void)va_arg(ap, void *);   /* task */
    va_end(ap);
    int di = -1, ki = -1;
    dnode_t *n = find_node(c, future, &di, &ki);
    if (!n) { hx_fail(c->res, "shape-fulfilled-twice", "trigger callback ran on an unknown future"); return; }
    if (++n->fulfil_calls > 1) {
        hx_fail(c->res, "shape-fulfilled-twice", "datacopy future %d shape %d: trigger (fulfil) callback ran %d times (threads %d and %d)", di, ki, n->fulfil_calls, n->trigger_thread, my_idx(c));
        return;     /* a second set would be an illegal use: stop here */
    }
    n->trigger_thread = my_idx(c);
    if (!in_data || *in_data != (void *)n) { hx_fail(c->res, "wrong-value", "datacopy future %d shape %d: trigger callback received a wrong cb_fulfill_data_in", di, ki); return; }
    if (n->set_inv) { hx_fail(c->res, "shape-fulfilled-twice", "datacopy future %d shape %d: triggered although it had already been set", di, ki); return; }
    hx_hash(c->res, 0xF000 ^ ((uint64_t)di << 8) ^ (uint64_t)ki ^ ((uint64_t)n->trigger_thread << 16));
    if (n->async) { n->pending = 1; return; }
    switch (c->cbdelay) { case 1: sim_yield(); break; case 2: sim_delay(300); break; case 3: sim_yield(); sim_yield(); break; default: break; }
    node_set(c, n);
}

static int d_match(parsec_base_future_t *future, ...)
{
    va_list ap;
    va_start(ap, future);
    int *t1 = va_arg(ap, int *);
    int *t2 = va_arg(ap, int *);
    va_end(ap);
    return *t1 == *t2;
}

static void d_cleanup(parsec_base_future_t *future, ...)
{
    ctx_t *c = G;
    if (!c) return;
    int di = -1, ki = -1;
    dnode_t *n = find_node(c, future, &di, &ki);
    if (!n) { hx_fail(c->res, "callback-count", "cleanup callback ran on an unknown future"); return; }
    df_t *d = &c->d[di];
    if (++n->cleanup_calls > 1) { hx_fail(c->res, "callback-count", "datacopy future %d shape %d: cleanup callback ran %d times", di, ki, n->cleanup_calls); return; }
    if (d->refs > 0) { hx_fail(c->res, "cleanup-while-referenced", "datacopy future %d shape %d: cleanup callback ran while %d reference(s) are still held", di, ki, d->refs); return; }
    if (ki == 0) for (int k = 1; k <= MAXS; k++) if (d->n[k].exists && d->n[k].cleanup_calls != 1)
        hx_fail(c->res, "callback-count", "datacopy future %d: root cleanup ran but the nested future of shape %d had %d cleanup calls", di, k, d->n[k].cleanup_calls);
    if (my_idx(c) != c->T) sim_probe(PR_CLEANUP_BY_WORKER);
    if (ki == 0) n->dead = 1;   /* the root's memory is freed right after its cleanup and may be handed out again by malloc */
    hx_hash(c->res, 0xF100 ^ ((uint64_t)di << 8) ^ (uint64_t)ki);
}

static void d_nested(parsec_base_future_t **out, ...)
{
    ctx_t *c = G;
    va_list ap;
    va_start(ap, out);
    parsec_datacopy_future_t *parent = va_arg(ap, parsec_datacopy_future_t *);
    int *spec = va_arg(ap, int *);
    va_end(ap);
    static dnode_t scratch;     /* only used to keep the library going after a reported violation */
    dnode_t *n = NULL;
    int di = -1, ki = -1;
    int k = spec ? *spec : -1;
    dnode_t *root = c ? find_node(c, parent, &di, &ki) : NULL;
    if (!root || ki != 0 || k < 1 || k > MAXS) {
        if (c) hx_fail(c->res, "wrong-value", "nested set-up callback called with a wrong parent or spec");
    } else {
        df_t *d = &c->d[di];
        if (d->n[k].exists) hx_fail(c->res, "shape-fulfilled-twice", "datacopy future %d: a second nested future is being set up for shape %d", di, k);
        else {
            n = &d->n[k];
            memset(n, 0, sizeof(*n));
            n->async = (d->async_mask >> k) & 1;
            d->ncreated++;
            if (++d->nnested >= 2) sim_probe(PR_TWO_NESTED);
            sim_probe(PR_NESTED);
            hx_hash(c->res, 0xF200 ^ ((uint64_t)di << 8) ^ (uint64_t)k);
        }
    }
    if (!n) { n = &scratch; memset(n, 0, sizeof(*n)); }
    n->spec = k;
    n->fut = shim_fut_new_datacopy();
    n->exists = 1;
    shim_fut_init_datacopy(n->fut, d_fulfill, n, d_match, &n->spec, d_cleanup);
    *out = (parsec_base_future_t *)n->fut;
}

/* ---------------------------------------------------------------- operations */
static void op_bset(ctx_t *c, int t, int i)
{
    bf_t *b = &c->b[i];
    int k = 0;
    while (k < b->ntok && (b->tok_owner[k] != t || b->tok_spent[k])) k++;
    if (k == b->ntok) return;       /* thread t has no (more) set token of this future */
    b->tok_spent[k] = 1;
    if (b->ntok > 1) {
        /* knob dup_gate: the first setter of a future with several tokens delays its set by at most
         * dup_gate yields, until a second setter arrives (a bounded delay: legal, cannot block) */
        b->gate++;
        for (int y = 0; y < c->dup_gate && b->gate < 2 && !failed(c); y++) sim_yield();
        if (failed(c)) return;
    }
    b->tok_val[k] = fresh(c);
    if (b->n_inv > b->n_done) sim_probe(PR_BSET_OVERLAP);
    if (b->settled) sim_probe(PR_BSET_AFTER_READY);
    b->n_inv++;
    shim_fut_set(b->f, b->tok_val[k]);
    b->n_done++;
    hx_hash(c->res, 0x100 ^ ((uint64_t)i << 4) ^ ((uint64_t)t << 16) ^ ((uint64_t)k << 12));
    if (failed(c)) return;
    if (b->n_done == b->n_inv) {
        /* no set in progress: the winning set is among the returned ones, so the future is complete */
        b->settled = 1;
        if (b->cb_calls != (b->mode == 2)) hx_fail(c->res, "callback-count", "base future %d: %d set(s) invoked and all returned, completion callback ran %d time(s), expected %d", i, b->n_done, b->cb_calls, b->mode == 2);
    }
}

static void op_cset(ctx_t *c, int t, int i)
{
    cf_t *f = &c->c[i];
    if (f->tokens[t] <= 0) return;
    f->tokens[t]--;
    if (f->inflight) sim_probe(PR_CSET_CONCURRENT);
    f->inv++; f->inflight++;
    shim_fut_set(f->f, &c->vals[0]);     /* the value is ignored by countable futures */
    f->inflight--; f->done++;
    hx_hash(c->res, 0x200 ^ ((uint64_t)i << 4) ^ ((uint64_t)t << 16));
    if (failed(c)) return;
    if (f->done == f->count) {
        /* all sets have returned: the future must be ready, its callback must have run once */
        if (!shim_fut_is_ready(f->f)) { hx_fail(c->res, "not-ready-after-set", "countable future %d: all %d sets have returned but it is not ready", i, f->count); return; }
        if (f->cb_calls != f->has_cb) hx_fail(c->res, "callback-count", "countable future %d: all %d sets have returned, completion callback ran %d time(s), expected %d", i, f->count, f->cb_calls, f->has_cb);
    }
}

static void spend_all(ctx_t *c, int t)
{
    for (int i = 0; i < c->nb; i++) for (int k = 0; k < c->b[i].ntok && !failed(c); k++) op_bset(c, t, i);
    for (int i = 0; i < c->nc; i++) while (c->c[i].tokens[t] > 0 && !failed(c)) op_cset(c, t, i);
}

static void op_bget(ctx_t *c, int t, int i)
{
    bf_t *b = &c->b[i];
    spend_all(c, t);
    if (failed(c)) return;
    if (!b->n_done) sim_probe(PR_BGET_WAITED);
    void *v = shim_fut_get(b->f);
    hx_hash(c->res, 0x300 ^ ((uint64_t)i << 4) ^ ((uint64_t)t << 16));
    if (failed(c)) return;
    b_observe(c, i, v, t, "blocking get");
}

static void op_bready(ctx_t *c, int t, int i)
{
    bf_t *b = &c->b[i];
    int pre = b->settled;
    int r = shim_fut_is_ready(b->f);
    hx_hash(c->res, 0x400 ^ ((uint64_t)i << 4) ^ ((uint64_t)t << 16) ^ (uint64_t)(r != 0));
    if (failed(c)) return;
    if (r && !b->n_inv) hx_fail(c->res, "ready-before-set", "base future %d reported ready before set was invoked", i);
    else if (!r && pre) hx_fail(c->res, "not-ready-after-set", "base future %d: is_ready invoked after %d set(s) had returned (none in progress) says not ready", i, b->n_done);
    else if (r) { void *v = shim_fut_get(b->f); if (!failed(c)) b_observe(c, i, v, t, "get after is_ready"); }
}

static void op_cget(ctx_t *c, int t, int i)
{
    cf_t *f = &c->c[i];
    spend_all(c, t);
    if (failed(c)) return;
    (void)shim_fut_get(f->f);
    hx_hash(c->res, 0x500 ^ ((uint64_t)i << 4) ^ ((uint64_t)t << 16));
    if (f->inv < f->count) hx_fail(c->res, "ready-before-set", "countable future %d (count %d): blocking get returned to thread %d after only %d set(s) were invoked", i, f->count, t, f->inv);
}

static void op_cready(ctx_t *c, int t, int i)
{
    cf_t *f = &c->c[i];
    int pre = f->done >= f->count;
    int r = shim_fut_is_ready(f->f);
    hx_hash(c->res, 0x600 ^ ((uint64_t)i << 4) ^ ((uint64_t)t << 16) ^ (uint64_t)(r != 0));
    if (r && f->inv < f->count) hx_fail(c->res, "ready-before-set", "countable future %d (count %d) reported ready after only %d set(s) were invoked", i, f->count, f->inv);
    else if (!r && pre) hx_fail(c->res, "not-ready-after-set", "countable future %d: is_ready invoked after all %d sets had returned says not ready", i, f->count);
}

/* returns 1 if a value was obtained */
static int op_dget(ctx_t *c, int t, int i, int sel)
{
    df_t *d = &c->d[i];
    if (!d->holds_ref[t]) return 0;
    int k = (sel == 0 || sel == d->root_shape) ? 0 : sel;
    int spec_local = sel;       /* request descriptor on the caller's stack, as in parsec_get_copy_reshape_* */
    dnode_t *n = &d->n[k];
    int target_done0 = n->exists && n->set_done;
    if (n->exists && n->fulfil_calls && !d->requested[t][k]) sim_probe(PR_SECOND_REQUESTER);
    if (n->exists && !n->set_done && n->readers_inflight) sim_probe(PR_TRIGGER_RACE);
    d->requested[t][k] = 1;
    n->readers_inflight++;      /* n is stable: nodes live in the df_t */
    void *r = shim_fut_get_or_trigger(d->n[0].fut, d_nested, sel ? &spec_local : NULL, NULL, NULL);
    n->readers_inflight--;
    hx_hash(c->res, 0x700 ^ ((uint64_t)i << 4) ^ ((uint64_t)t << 16) ^ ((uint64_t)sel << 8) ^ (uint64_t)(r != NULL));
    if (failed(c)) return 0;
    if (!r) {
        sim_probe(PR_DGET_NULL);
        if (!n->exists) sim_probe(PR_NEW_SHAPE_DEFERRED);
        if (target_done0)
            hx_fail(c->res, "not-ready-after-set", "datacopy future %d: get_or_trigger(shape %d) by thread %d returned NULL although the future of that shape had been set before the call", i, sel, t);
        return 0;
    }
    if (!n->exists || !n->set_inv) { hx_fail(c->res, "ready-before-set", "datacopy future %d: get_or_trigger(shape %d) returned %p to thread %d but nothing was ever set for that shape", i, sel, r, t); return 0; }
    if (r != n->val) { hx_fail(c->res, "wrong-value", "datacopy future %d: get_or_trigger(shape %d) returned %p to thread %d, the value set for that shape is %p", i, sel, r, t, n->val); return 0; }
    if (n->first_val && n->first_val != r) { hx_fail(c->res, "value-mismatch", "datacopy future %d shape %d: readers obtained two different values %p and %p", i, sel, n->first_val, r); return 0; }
    n->first_val = r;
    d->got[t][k] = 1;
    if (k == 0 && d->preset) sim_probe(PR_PRESET_READ);
    return 1;
}

static int complete_one(ctx_t *c, int t, long a, int only_d)
{
    dnode_t *cand[MAXD * (MAXS + 1)];
    int n = 0;
    for (int i = 0; i < c->nd; i++) if (only_d < 0 || only_d == i) for (int k = 0; k <= MAXS; k++) if (c->d[i].n[k].exists && c->d[i].n[k].pending) cand[n++] = &c->d[i].n[k];
    if (!n) return 0;
    dnode_t *x = cand[labs(a) % n];
    x->pending = 0;
    if (x->trigger_thread != t) sim_probe(PR_ASYNC_BY_OTHER);
    node_set(c, x);
    hx_hash(c->res, 0x800 ^ ((uint64_t)t << 16));
    return 1;
}

static void drop_ref(ctx_t *c, int t, int i)
{
    df_t *d = &c->d[i];
    if (!d->holds_ref[t]) return;
    d->holds_ref[t] = 0;
    d->refs--;              /* refs = references not yet handed to a release call */
    d->inflight_rel++;
    int r = shim_fut_release(d->n[0].fut);
    d->inflight_rel--;
    hx_hash(c->res, 0x900 ^ ((uint64_t)i << 4) ^ ((uint64_t)t << 16) ^ (uint64_t)r);
    if (failed(c)) return;
    if (r) {
        if (d->released) { hx_fail(c->res, "callback-count", "datacopy future %d: two release calls saw the last reference go", i); return; }
        d->released = 1;
        for (int k = 0; k <= MAXS; k++) d->n[k].dead = 1;
        for (int k = 0; k <= MAXS; k++) if (d->n[k].exists && d->n[k].cleanup_calls != 1)
            hx_fail(c->res, "callback-count", "datacopy future %d: destroyed, but the cleanup callback of shape %d ran %d time(s)", i, k, d->n[k].cleanup_calls);
    }
    if (!failed(c) && d->refs == 0 && d->inflight_rel == 0 && !d->released)
        hx_fail(c->res, "callback-count", "datacopy future %d: every reference has been released (last return on thread %d) but the future was not destroyed / cleaned up", i, t);
}

static void worker(int t, ctx_t *c)
{
    c->idx_of_sim[sim_self() & 63] = t;
    for (int k = 0; k < c->plan->nops && !failed(c); k++) {
        const hx_op_t *o = &c->plan->ops[k];
        if (o->thr != t) continue;
        long a = labs(o->a);
        switch (o->op) {
        case OP_BSET: if (c->nb) op_bset(c, t, (int)(a % c->nb)); break;
        case OP_BGET: if (c->nb) op_bget(c, t, (int)(a % c->nb)); break;
        case OP_BREADY: if (c->nb) op_bready(c, t, (int)(a % c->nb)); break;
        case OP_CSET: if (c->nc) op_cset(c, t, (int)(a % c->nc)); break;
        case OP_CGET: if (c->nc) op_cget(c, t, (int)(a % c->nc)); break;
        case OP_CREADY: if (c->nc) op_cready(c, t, (int)(a % c->nc)); break;
        case OP_DGET: if (c->nd) { int i = (int)(a % c->nd); op_dget(c, t, i, (int)(labs(o->b) % (c->d[i].nshapes + 1))); } break;
        case OP_DCOMPLETE: complete_one(c, t, a, -1); break;
        default: break;
        }
        if (labs(o->c) % 5 == 4) sim_yield();
    }
    /* end of list: spend the remaining set tokens, obtain every requested shape, drop the references */
    spend_all(c, t);
    for (int i = 0; i < c->nd && !failed(c); i++) {
        df_t *d = &c->d[i];
        for (int k = 0; k <= MAXS && !failed(c); k++) {
            if (!d->requested[t][k] || d->got[t][k]) continue;
            int sel = k ? k : 0;
            for (;;) {
                while (complete_one(c, t, 0, i) && !failed(c)) { }
                if (failed(c) || op_dget(c, t, i, sel)) break;
                sim_yield();
            }
        }
        if (!failed(c)) drop_ref(c, t, i);
    }
}

typedef struct { ctx_t *c; int idx; } wk_t;
static void *wk_tramp(void *a) { wk_t *w = a; worker(w->idx, w->c); w->c->finished[w->idx] = 1; return NULL; }
static int all_finished(ctx_t *c) { for (int i = 0; i < c->T; i++) if (!c->finished[i]) return 0; return 1; }
static int wk_pred(void *a) { ctx_t *c = a; return c->res->vclass != NULL || all_finished(c); }

static void kname(char *buf, const char *pfx, int i, const char *sfx) { snprintf(buf, 32, "%s%d_%s", pfx, i, sfx); }

static void gen(hx_plan_t *p, hx_rng_t *r)
{
    char kn[32];
    int T = (int)hx_range(r, 1, MAXT);
    int nb = (int)hx_below(r, MAXB_PLAIN + 1), nc = (int)hx_below(r, MAXC + 1), nd = (int)hx_below(r, MAXD + 1);
    int focus = (int)hx_below(r, 4);        /* swarm: concentrate on one kind in 3 of 4 runs */
    if (focus == 0) { nc = hx_chance(r, 30) ? nc : 0; nd = hx_chance(r, 30) ? nd : 0; if (!nb) nb = 1; }
    if (focus == 1) { nb = hx_chance(r, 30) ? nb : 0; nd = hx_chance(r, 30) ? nd : 0; if (!nc) nc = 1; if (T < 3) T = 3; }
    if (focus == 2) { nb = hx_chance(r, 30) ? nb : 0; nc = hx_chance(r, 30) ? nc : 0; if (!nd) nd = 1; }
    if (nb + nc + nd == 0) nd = 1;
    /* dup_set: several sets of one base future (see header).  One run costs a fork and the window in which
     * two sets can conflict is a couple of accesses wide, so such a plan offers many opportunities: 3-6
     * base futures (at most one countable / datacopy future beside them: knob budget), often few threads */
    int dup = hx_chance(r, 30);
    if (dup) {
        nb = (int)hx_range(r, MAXB_PLAIN, MAXB);
        if (nc > 1) nc = 1;
        if (nd > 1) nd = 1;
        if (hx_chance(r, 50)) T = (int)hx_range(r, 2, 3);
        if (T < 2) T = 2;
    }
    hx_set_knob(p, "threads", T);
    hx_set_knob(p, "dup_set", dup);
    /* a set is a handful of accesses and the default mean preemption gap is 25-3200 weight units: two sets
     * of one future would practically never interleave access by access.  Most dup_set plans therefore ask
     * for dense random preemption through the plan knob hx defines for that purpose. */
    if (dup && hx_chance(r, 85)) hx_set_knob(p, "sim_mean_gap", hx_range(r, 3, 20));
    if (dup) hx_set_knob(p, "dup_gate", hx_chance(r, 20) ? 0 : hx_range(r, 1, 12));
    hx_set_knob(p, "nb", nb); hx_set_knob(p, "nc", nc); hx_set_knob(p, "nd", nd);
    hx_set_knob(p, "cbdelay", hx_below(r, 4));
    hx_set_knob(p, "main_first", hx_chance(r, 60));
    int early[MAXB] = {0};
    for (int i = 0; i < nb; i++) {
        kname(kn, "b", i, "mode"); hx_set_knob(p, kn, hx_below(r, 3));
        int owner = (int)hx_below(r, T);
        kname(kn, "b", i, "owner"); hx_set_knob(p, kn, owner);
        if (dup) {
            int ns = hx_chance(r, 15) ? 1 : (int)hx_range(r, 2, MAXTOK);
            kname(kn, "b", i, "nset"); hx_set_knob(p, kn, ns);
            /* two sets only race when their owners reach them at about the same time: for 3 of 4 futures
             * the owners' lists begin with the set (all threads start together) ... */
            if (ns > 1 && hx_chance(r, 75)) {
                early[i] = 1;
                for (int k = 0; k < ns && k < T; k++) hx_add_op(p, (owner + k) % T, OP_BSET, i, hx_below(r, 1000), hx_below(r, 1000));
            }
        }
    }
    /* ... followed by reads, so that a value is observed before a late second store (a blocking get makes
     * the thread spend its other set tokens first) */
    for (int i = 0; i < nb; i++) if (early[i])
        for (int t = 0; t < T; t++) if (hx_chance(r, 40)) hx_add_op(p, t, hx_chance(r, 40) ? OP_BGET : OP_BREADY, i, hx_below(r, 1000), hx_below(r, 1000));
    for (int i = 0; i < nc; i++) {
        kname(kn, "c", i, "count"); hx_set_knob(p, kn, hx_range(r, 1, 6));
        kname(kn, "c", i, "dist"); hx_set_knob(p, kn, hx_below(r, 1L << 30));
        kname(kn, "c", i, "cb"); hx_set_knob(p, kn, hx_chance(r, 60));
    }
    for (int i = 0; i < nd; i++) {
        int ns = (int)hx_range(r, 1, MAXS);
        kname(kn, "d", i, "shapes"); hx_set_knob(p, kn, ns);
        kname(kn, "d", i, "root"); hx_set_knob(p, kn, hx_range(r, 1, ns));
        kname(kn, "d", i, "preset"); hx_set_knob(p, kn, hx_chance(r, 20));
        kname(kn, "d", i, "async"); hx_set_knob(p, kn, hx_chance(r, 25) ? 0 : hx_chance(r, 30) ? 31 : hx_below(r, 32));   /* bit k: shape k asynchronous (bit 0: root) */
    }
    int nops = (int)hx_range(r, 4, 40);
    int wb = nb ? (dup ? 20 : 10) : 0, wc = nc ? 10 : 0, wd = nd ? 12 : 0;
    for (int i = 0; i < nops; i++) {
        int t = (int)hx_below(r, T);
        int k = (int)hx_below(r, wb + wc + wd), op;
        if (k < wb) { int j = (int)hx_below(r, 10); op = j < (dup ? 4 : 3) ? OP_BSET : j < 6 ? OP_BGET : OP_BREADY; }
        else if (k < wb + wc) { int j = (int)hx_below(r, 10); op = j < 5 ? OP_CSET : j < 7 ? OP_CGET : OP_CREADY; }
        else op = hx_chance(r, 75) ? OP_DGET : OP_DCOMPLETE;
        hx_add_op(p, t, op, hx_below(r, 1000), hx_below(r, 1000), hx_below(r, 1000));
    }
}

static void run(const hx_plan_t *p, hx_result_t *res)
{
    static ctx_t c;
    char kn[32];
    memset(&c, 0, sizeof(c));
    c.plan = p; c.res = res;
    c.T = (int)hx_knob(p, "threads", 2);
    if (c.T < 1) c.T = 1;
    if (c.T > MAXT) c.T = MAXT;
    c.nb = (int)hx_knob(p, "nb", 1); c.nc = (int)hx_knob(p, "nc", 0); c.nd = (int)hx_knob(p, "nd", 0);
    if (c.nb < 0) c.nb = 0;
    if (c.nb > MAXB) c.nb = MAXB;
    if (c.nc < 0) c.nc = 0;
    if (c.nc > MAXC) c.nc = MAXC;
    if (c.nd < 0) c.nd = 0;
    if (c.nd > MAXD) c.nd = MAXD;
    c.cbdelay = (int)hx_knob(p, "cbdelay", 0);
    int main_first = (int)hx_knob(p, "main_first", 0);
    int dup_set = hx_knob(p, "dup_set", 0) != 0;
    c.dup_gate = (int)(labs(hx_knob(p, "dup_gate", 0)) % 17);
    for (int i = 0; i < 64; i++) c.idx_of_sim[i] = c.T;
    c.nvals = 1;    /* vals[0] is the dummy argument of countable sets */
    G = &c;
    int me = c.T;
    for (int i = 0; i < c.nb; i++) {
        bf_t *b = &c.b[i];
        kname(kn, "b", i, "mode"); b->mode = (int)(labs(hx_knob(p, kn, 0)) % 3);
        kname(kn, "b", i, "owner");
        int owner = (int)(labs(hx_knob(p, kn, 0)) % c.T);
        kname(kn, "b", i, "nset");
        long ns = dup_set ? labs(hx_knob(p, kn, 2)) : 1;
        /* the tokens of one future belong to different threads: at most one per thread */
        b->ntok = ns < 1 ? 1 : ns > MAXTOK ? MAXTOK : (int)ns;
        if (b->ntok > c.T) b->ntok = c.T;
        for (int k = 0; k < b->ntok; k++) b->tok_owner[k] = (owner + k) % c.T;
        b->f = shim_fut_new_base();
        if (b->mode == 1) shim_fut_init_base(b->f, NULL);
        if (b->mode == 2) shim_fut_init_base(b->f, base_cb);
    }
    for (int i = 0; i < c.nc; i++) {
        cf_t *f = &c.c[i];
        kname(kn, "c", i, "count"); f->count = (int)hx_knob(p, kn, 1);
        if (f->count < 1) f->count = 1;
        if (f->count > 12) f->count = 12;
        kname(kn, "c", i, "cb"); f->has_cb = hx_knob(p, kn, 0) != 0;
        kname(kn, "c", i, "dist");
        uint64_t s = (uint64_t)hx_knob(p, kn, 0);
        for (int j = 0; j < f->count; j++) f->tokens[sim_splitmix(&s) % (uint64_t)c.T]++;
        f->f = shim_fut_new_countable();
        shim_fut_init_countable(f->f, f->has_cb ? count_cb : NULL, f->count);
    }
    for (int i = 0; i < c.nd; i++) {
        df_t *d = &c.d[i];
        kname(kn, "d", i, "shapes"); d->nshapes = (int)hx_knob(p, kn, 1);
        if (d->nshapes < 1) d->nshapes = 1;
        if (d->nshapes > MAXS) d->nshapes = MAXS;
        kname(kn, "d", i, "root"); d->root_shape = 1 + (int)((labs(hx_knob(p, kn, 1)) + d->nshapes - 1) % d->nshapes);
        kname(kn, "d", i, "preset"); d->preset = hx_knob(p, kn, 0) != 0;
        kname(kn, "d", i, "async");
        long am = labs(hx_knob(p, kn, 0));
        dnode_t *n = &d->n[0];
        n->exists = 1; n->spec = d->root_shape;
        d->async_mask = (int)(am & 31);
        n->async = d->async_mask & 1;
        n->fut = shim_fut_new_datacopy();
        shim_fut_init_datacopy(n->fut, d_fulfill, n, d_match, &n->spec, d_cleanup);
        d->refs = 1; d->holds_ref[me] = 1;
        if (d->preset) node_set(&c, n);     /* "fulfilled promise": set by the creator before the future is shared */
        for (int t = 0; t < c.T; t++) { shim_fut_retain(n->fut); d->refs++; d->holds_ref[t] = 1; }
    }
    pthread_t pt[MAXT];
    static wk_t wk[MAXT];
    for (int i = 0; i < c.T; i++) { wk[i] = (wk_t){&c, i}; pthread_create(&pt[i], NULL, wk_tramp, &wk[i]); }
    if (main_first) for (int i = 0; i < c.nd && !failed(&c); i++) drop_ref(&c, me, i);
    sim_block_on(wk_pred, &c, 0, "C29 workers");
    if (failed(&c)) { G = NULL; return; }   /* abandoned: blocked getters may spin for ever; nothing is freed */
    for (int i = 0; i < c.T; i++) pthread_join(pt[i], NULL);

    /* quiescent checks by the main thread */
    for (int i = 0; i < c.nb && !failed(&c); i++) {
        bf_t *b = &c.b[i];
        for (int k = 0; k < b->ntok && !failed(&c); k++)
            if (!b->tok_spent[k]) { b->tok_owner[k] = me; op_bset(&c, me, i); }     /* cannot happen (every worker spends its tokens); be safe */
        if (failed(&c)) break;
        if (b->n_done != b->ntok || !b->settled) { hx_fail(res, "harness-bug", "base future %d: %d of %d sets performed", i, b->n_done, b->ntok); break; }
        op_bready(&c, me, i);
        if (!failed(&c) && b->cb_calls != (b->mode == 2)) hx_fail(res, "callback-count", "base future %d: completion callback ran %d time(s) in the whole run, expected %d", i, b->cb_calls, b->mode == 2);
    }
    for (int i = 0; i < c.nc && !failed(&c); i++) {
        cf_t *f = &c.c[i];
        if (f->done != f->count) { hx_fail(res, "harness-bug", "countable future %d: %d of %d sets performed", i, f->done, f->count); break; }
        op_cready(&c, me, i);
        if (!failed(&c) && f->cb_calls != f->has_cb) hx_fail(res, "callback-count", "countable future %d: completion callback ran %d time(s) in the whole run, expected %d", i, f->cb_calls, f->has_cb);
    }
    for (int i = 0; i < c.nd && !failed(&c); i++) {
        df_t *d = &c.d[i];
        /* queued fulfilments nobody waited for cannot exist (every requester waits); be safe */
        while (complete_one(&c, me, 0, i) && !failed(&c)) { }
        if (!failed(&c)) drop_ref(&c, me, i);
        if (failed(&c)) break;
        if (!d->released || d->refs != 0) { hx_fail(res, "callback-count", "datacopy future %d: all references dropped but the future was not destroyed (refs %d)", i, d->refs); break; }
        for (int k = 0; k <= MAXS; k++) {
            dnode_t *n = &d->n[k];
            if (!n->exists) continue;
            if (n->fulfil_calls > 1) hx_fail(res, "shape-fulfilled-twice", "datacopy future %d shape %d: %d fulfilments", i, k, n->fulfil_calls);
            if (n->cleanup_calls != 1) hx_fail(res, "callback-count", "datacopy future %d shape %d: cleanup callback ran %d time(s)", i, k, n->cleanup_calls);
        }
    }
    G = NULL;
    if (failed(&c)) return;
    for (int i = 0; i < c.nb; i++) shim_fut_release(c.b[i].f);
    for (int i = 0; i < c.nc; i++) shim_fut_release(c.c[i].f);
    /* The library re-constructs a nested future as a bare list item (release function =
     * parsec_obj_destruct, no free) before it pushes it on the nested list, so the release in
     * parsec_datacopy_future_cleanup_nested does not return the memory obtained by our set-up
     * callback with PARSEC_OBJ_NEW.  Return it here to keep the run leak-free. */
    for (int i = 0; i < c.nd; i++) for (int k = 1; k <= MAXS; k++) if (c.d[i].n[k].exists) free(c.d[i].n[k].fut);
}

static void init(void)
{
    /* parsec_warning() (e.g. the benign "already in a ready state" message a non-final countable
     * set may print) lazily initialises the output subsystem on first use; do that once, outside
     * any run, and silence stream 0 so that runs do not differ by who printed first. */
    parsec_output_init();
    parsec_output_set_verbosity(0, -1);
    /* class descriptors (futures, the nested list and its items): initialise outside any run.
     * A datacopy future must be initialised before it may be destroyed (its constructor does
     * not set nested_futures). */
    shim_fut_release(shim_fut_new_base());
    shim_fut_release(shim_fut_new_countable());
    parsec_datacopy_future_t *df = shim_fut_new_datacopy();
    shim_fut_init_datacopy(df, NULL, NULL, NULL, NULL, NULL);
    shim_fut_release(df);
    parsec_list_t *l = PARSEC_OBJ_NEW(parsec_list_t);
    parsec_list_item_t it;
    PARSEC_OBJ_CONSTRUCT(&it, parsec_list_item_t);
    PARSEC_OBJ_DESTRUCT(&it);
    PARSEC_OBJ_RELEASE(l);
}

static const hx_harness_t H = {
    .property = "C29", .name = "c29_future", .opnames = opnames, .nopnames = OP_N,
    .est_steps = 400, .max_steps = 4000000, .gen = gen, .run = run, .init = init,
    .fork_per_run = 1,   /* a violating run abandons spinning sim-threads; only safe if the process ends with the run */
    .probe_names = probe_names, .nprobes = PR_N,
};
int main(int argc, char **argv) { return hx_main(argc, argv, &H); }
