/* C42: the real trace reader (tools/ is not part of libparsec), compiled from the working tree of the repository
 * under test with the same configuration macros as the writer. */
#include "tools/profiling/dbpreader.c"
