/* C28: the zone allocator is a correct best-fit allocator (DESIGN 4, C28).
 * Real code: parsec/utils/zone_malloc.c + parsec/class/parsec_rbtree.c (+ list.h / lifo.h inlined there),
 * all instrumented.  Simulated: thread interleaving.  1-4 sim-threads run malloc/free plans on one zone.
 *
 * Oracle (all of it runs in this uninstrumented file, i.e. atomically w.r.t. the simulation):
 *  - a returned block lies in the zone, is unit aligned, does not overlap a block that is LIVE
 *    (malloc returned, free not yet invoked); payload tags are verified when the block is freed;
 *  - a NULL return is judged post hoc: it is illegal if the zone minus every block that was *possibly*
 *    allocated at some instant of the call (malloc invoked before the call returned, free not returned
 *    before the call was invoked) still contains a free run of the requested size.  For a call that
 *    overlapped nothing this is exact;
 *  - best fit is judged only for calls that overlapped no other call: the block must lie inside a free
 *    run whose length is the smallest sufficient one;
 *  - whenever the zone lock is free (nobody is inside a critical section) the segment chain and the
 *    free-run index (red-black tree of per-size lists) are walked: chain covers the zone, back links are
 *    right, no two adjacent free runs, every LIVE block is a FULL segment of the same extent, every free
 *    segment is indexed exactly once under its size, BST order + red-black invariants hold; when in
 *    addition no call is in flight the FULL segments are exactly the LIVE blocks and zone_in_use()
 *    equals the sum of their sizes;
 *  - freeing everything at the end leaves a single maximal free segment;
 *  - a failed malloc must not leave the zone lock held (checked when no other call is in flight).
 */
#include "../hx.h"
#include "parsec/parsec_config.h"
#include "parsec/utils/zone_malloc.h"
#include "parsec/class/list.h"
#include "parsec/class/parsec_rbtree.h"
#include <stdlib.h>
#include <string.h>

zone_malloc_t *shim_zone_init(void *base, int nseg, size_t unit);
void *shim_zone_malloc(zone_malloc_t *z, size_t sz);
void shim_zone_free(zone_malloc_t *z, void *p);
size_t shim_zone_in_use(zone_malloc_t *z);
void *shim_zone_fini(zone_malloc_t **z);

/* mirror of the private node type of zone_malloc.c (layout checked against rbtree.comp_offset) */
typedef struct { parsec_rbtree_node_t super; parsec_list_t list; int nb_units; } chunk_list_t;

enum { OP_MALLOC, OP_FREE, OP_N };
static const char *const opnames[] = {"malloc", "free"};
enum { PR_FAIL, PR_FAIL_FRAG, PR_FAIL_OVERLAPPED, PR_EXACT, PR_TIE, PR_MERGE_BOTH, PR_MERGE_NONE, PR_XFREE, PR_FULLCHECK, PR_STRUCTCHECK_BUSY, PR_LOCK_BUSY, PR_TREE3, PR_N };
static const char *const probe_names[] = {"malloc_failed", "malloc_failed_fragmented(isolated)", "malloc_failed_while_overlapped", "exact_fit(isolated)",
    "best_fit_tie(isolated)", "free_merges_both_sides(isolated)", "free_merges_nothing(isolated)", "cross_thread_free", "full_quiescent_check",
    "structure_check_with_calls_in_flight", "lock_held_at_check(skipped)", "tree_ge3_nodes"};

#define MAXB 256
#define MAXU 64
enum { B_NONE, B_LIVE, B_FREEING, B_FREED };
typedef struct { int start, units, state, athr; uint64_t ainv, aret, finv, fret; } blk_t;
typedef struct { int n; uint64_t inv, ret; } failrec_t;

typedef struct {
    const hx_plan_t *plan;
    hx_result_t *res;
    zone_malloc_t *z;
    char *base;
    int units, T, maxreq, xfree;
    size_t usz;
    blk_t b[MAXB];
    int nb;
    failrec_t f[MAXB];
    int nf;
    int inflight;
    uint64_t epoch;
} ctx_t;

static int lock_held(zone_malloc_t *z) { int32_t v; memcpy(&v, (const void *)&z->lock, sizeof(v)); return v != 0; }

/* free-run statistics of a unit occupancy map */
static void gaps(const unsigned char *occ, int units, int n, int *maxgap, int *bestfit, int *nbest)
{
    int mg = 0, bf = 0, nbf = 0, run = 0;
    for (int i = 0; i <= units; i++) {
        if (i < units && !occ[i]) { run++; continue; }
        if (run) {
            if (run > mg) mg = run;
            if (run >= n) { if (!bf || run < bf) { bf = run; nbf = 1; } else if (run == bf) nbf++; }
        }
        run = 0;
    }
    *maxgap = mg; *bestfit = bf; *nbest = nbf;
}
static void live_map(ctx_t *c, unsigned char *occ)
{
    memset(occ, 0, MAXU);
    for (int i = 0; i < c->nb; i++) if (c->b[i].state == B_LIVE || c->b[i].state == B_FREEING)
        for (int u = 0; u < c->b[i].units; u++) occ[c->b[i].start + u] = 1;
}

/* ---- structural walk ---- */
typedef struct { ctx_t *c; int nodes, bad, seen[MAXU]; const char *why; int key_lo; } walk_t;
static int seg_index(ctx_t *c, const void *p)
{
    const char *s = (const char *)c->z->segments, *q = p;
    if (q < s || q >= s + sizeof(segment_t) * (size_t)c->units || (size_t)(q - s) % sizeof(segment_t)) return -1;
    return (int)((size_t)(q - s) / sizeof(segment_t));
}
/* returns black height, -1 on error */
static int walk_tree(walk_t *w, parsec_rbtree_t *t, parsec_rbtree_node_t *n, parsec_rbtree_node_t *parent, long lo, long hi, int depth)
{
    if (n == t->nil) return 1;
    if (++w->nodes > 2 * MAXU || depth > 64) { w->bad = 1; w->why = "tree walk does not terminate (cycle)"; return -1; }
    chunk_list_t *fl = (chunk_list_t *)n;
    long k = fl->nb_units;
    if (n->parent != parent) { w->bad = 1; w->why = "parent link wrong"; return -1; }
    if (k <= lo || k >= hi) { w->bad = 1; w->why = "BST order violated (key outside the range allowed by its ancestors)"; return -1; }
    parsec_rbtree_node_t *l = (parsec_rbtree_node_t *)n->super.list_prev, *r = (parsec_rbtree_node_t *)n->super.list_next;
    if (n->color == PARSEC_RBTREE_RED && (l->color == PARSEC_RBTREE_RED || r->color == PARSEC_RBTREE_RED)) { w->bad = 1; w->why = "red node with red child"; return -1; }
    /* the node's list: non-empty, every member a free segment of k units, not seen before */
    int len = 0;
    for (parsec_list_item_t *it = (parsec_list_item_t *)fl->list.ghost_element.list_next; it != &fl->list.ghost_element; it = (parsec_list_item_t *)it->list_next) {
        if (++len > MAXU) { w->bad = 2; w->why = "size list does not terminate"; return -1; }
        int si = seg_index(w->c, it);
        if (si < 0) { w->bad = 2; w->why = "size list holds a pointer that is not a segment"; return -1; }
        segment_t *s = &w->c->z->segments[si];
        if (s->status != SEGMENT_EMPTY) { w->bad = 2; w->why = "indexed segment is not free"; return -1; }
        if (s->nb_units != k) { w->bad = 2; w->why = "free segment indexed under a key different from its size"; return -1; }
        if (w->seen[si]++) { w->bad = 2; w->why = "free segment indexed twice"; return -1; }
    }
    if (!len) { w->bad = 2; w->why = "tree node with an empty size list"; return -1; }
    int bl = walk_tree(w, t, l, n, lo, k, depth + 1);
    if (bl < 0) return -1;
    int br = walk_tree(w, t, r, n, k, hi, depth + 1);
    if (br < 0) return -1;
    if (bl != br) { w->bad = 1; w->why = "black heights differ"; return -1; }
    return bl + (n->color == PARSEC_RBTREE_BLACK);
}

/* full: no call in flight -> FULL segments == LIVE blocks, zone_in_use cross-checked */
static void check_structure(ctx_t *c, int full, const char *when)
{
    zone_malloc_t *z = c->z;
    hx_result_t *res = c->res;
    if (res->vclass) return;
    if (lock_held(z)) { sim_probe(PR_LOCK_BUSY); return; }
    if (full) sim_probe(PR_FULLCHECK); else sim_probe(PR_STRUCTCHECK_BUSY);
    int tid = 0, prev_units = -1, prev_status = 0, nfull = 0, nempty = 0, guard = 0;
    size_t used_units = 0;
    int isfree_start[MAXU] = {0}, full_units_at[MAXU] = {0};
    while (tid < c->units) {
        segment_t *s = &z->segments[tid];
        if (++guard > MAXU) { hx_fail(res, "segment-chain", "%s: chain walk does not terminate", when); return; }
        if (s->status != SEGMENT_EMPTY && s->status != SEGMENT_FULL) { hx_fail(res, "segment-chain", "%s: segment at unit %d has status %d", when, tid, s->status); return; }
        if (s->nb_units < 1 || tid + s->nb_units > c->units) { hx_fail(res, "segment-chain", "%s: segment at unit %d has %d units (zone %d)", when, tid, s->nb_units, c->units); return; }
        if (tid > 0 && s->nb_prev != prev_units) { hx_fail(res, "segment-chain", "%s: segment at unit %d has back link %d but the previous segment has %d units", when, tid, s->nb_prev, prev_units); return; }
        if (tid == 0 && s->nb_prev < 1) { hx_fail(res, "segment-chain", "%s: first segment has back link %d", when, s->nb_prev); return; }
        if (s->status == SEGMENT_EMPTY && prev_status == SEGMENT_EMPTY) { hx_fail(res, "unmerged-free-runs", "%s: free segments at units %d and %d are adjacent", when, tid - prev_units, tid); return; }
        if (s->status == SEGMENT_EMPTY) { nempty++; isfree_start[tid] = 1; } else { nfull++; full_units_at[tid] = s->nb_units; used_units += (size_t)s->nb_units; }
        prev_units = s->nb_units; prev_status = s->status;
        tid += s->nb_units;
    }
    /* every LIVE block is a FULL segment with the same extent */
    int nlive = 0;
    size_t live_units = 0;
    for (int i = 0; i < c->nb; i++) {
        blk_t *b = &c->b[i];
        if (b->state != B_LIVE) continue;
        nlive++; live_units += (size_t)b->units;
        if (full_units_at[b->start] != b->units) { hx_fail(res, "accounting", "%s: live block [%d,+%d) is not a FULL segment of that extent (segment there: %d units)", when, b->start, b->units, full_units_at[b->start]); return; }
    }
    if (full) {
        if (nfull != nlive || used_units != live_units) { hx_fail(res, "accounting", "%s: %d FULL segments (%zu units) but %d live blocks (%zu units)", when, nfull, used_units, nlive, live_units); return; }
        sim_pause();
        size_t iu = shim_zone_in_use(z);
        sim_resume();
        if (iu != live_units * c->usz) { hx_fail(res, "accounting", "%s: zone_in_use()=%zu but live blocks sum to %zu bytes", when, iu, live_units * c->usz); return; }
    }
    /* the free index */
    static walk_t w;
    memset(&w, 0, sizeof(w));
    w.c = c;
    parsec_rbtree_t *t = &z->rbtree;
    if (t->root != t->nil && t->root->color != PARSEC_RBTREE_BLACK) { hx_fail(res, "rbtree-invariant", "%s: root is red", when); return; }
    if (t->nil->color != PARSEC_RBTREE_BLACK) { hx_fail(res, "rbtree-invariant", "%s: nil is red", when); return; }
    walk_tree(&w, t, t->root, t->nil, 0, 1L << 30, 0);
    if (w.bad) { hx_fail(res, w.bad == 1 ? "rbtree-invariant" : "free-index-inconsistent", "%s: %s", when, w.why); return; }
    if (w.nodes >= 3) sim_probe(PR_TREE3);
    for (int i = 0; i < c->units; i++) {
        if (isfree_start[i] && !w.seen[i]) { hx_fail(res, "free-index-inconsistent", "%s: free segment at unit %d (%d units) is not in the index", when, i, z->segments[i].nb_units); return; }
        if (!isfree_start[i] && w.seen[i]) { hx_fail(res, "free-index-inconsistent", "%s: index holds segment %d which is not a free segment of the chain", when, i); return; }
    }
}

static void worker(int t, void *arg)
{
    ctx_t *c = arg;
    hx_result_t *res = c->res;
    for (int k = 0; k < c->plan->nops; k++) {
        const hx_op_t *o = &c->plan->ops[k];
        if (o->thr != t) continue;
        if (res->vclass) return;
        if (o->op == OP_MALLOC) {
            if (c->nb >= MAXB || c->nf >= MAXB) continue;
            int n = (int)(1 + o->a % c->maxreq);
            size_t bytes = (size_t)n * c->usz - (c->usz > 1 ? (size_t)(o->b % (long)c->usz) : 0);
            if (bytes == 0) bytes = 1;
            unsigned char occ[MAXU];
            int mg = 0, bf = 0, nbf = 0;
            int iso = (c->inflight == 0);
            if (iso) { live_map(c, occ); gaps(occ, c->units, n, &mg, &bf, &nbf); }
            c->inflight++;
            uint64_t ep = ++c->epoch;
            uint64_t inv = sim_stamp();
            char *p = shim_zone_malloc(c->z, bytes);
            uint64_t ret = sim_stamp();
            c->inflight--;
            iso = iso && ep == c->epoch;
            hx_hash(res, ((uint64_t)t << 56) ^ ((uint64_t)n << 40) ^ (p ? (uint64_t)(p - c->base) + 1 : 0));
            if (!p) {
                sim_probe(PR_FAIL);
                if (!iso) sim_probe(PR_FAIL_OVERLAPPED);
                c->f[c->nf++] = (failrec_t){n, inv, ret};
                if (iso && mg >= n) { hx_fail(res, "spurious-failure", "malloc of %d units returned NULL although a free run of %d units existed (no concurrent call)", n, mg); return; }
                if (iso) {
                    int freeu = 0; for (int u = 0; u < c->units; u++) freeu += !occ[u];
                    if (freeu >= n) sim_probe(PR_FAIL_FRAG);
                }
                if (c->inflight == 0 && lock_held(c->z)) { hx_fail(res, "lock-leaked", "zone lock still held after a failed malloc of %d units returned and no other call is in flight", n); return; }
            } else {
                long off = p - c->base;
                if (off < 0 || off >= (long)((size_t)c->units * c->usz)) { hx_fail(res, "out-of-zone", "malloc returned %p outside the zone", (void *)p); return; }
                if ((size_t)off % c->usz) { hx_fail(res, "misaligned", "malloc returned offset %ld, unit is %zu", off, c->usz); return; }
                int start = (int)((size_t)off / c->usz);
                if (start + n > c->units) { hx_fail(res, "out-of-zone", "block [%d,+%d) exceeds the zone of %d units", start, n, c->units); return; }
                for (int i = 0; i < c->nb; i++) {
                    blk_t *b = &c->b[i];
                    if (b->state == B_LIVE && start < b->start + b->units && b->start < start + n) {
                        hx_fail(res, "overlap", "malloc(%d units) returned [%d,+%d) which overlaps the live block [%d,+%d)", n, start, n, b->start, b->units);
                        return;
                    }
                }
                if (iso) {
                    /* the free run (before the call) that contains the block */
                    int lo = start, hi = start + n;
                    int inside = 1;
                    for (int u = start; u < start + n; u++) if (occ[u]) inside = 0;
                    if (inside) {
                        while (lo > 0 && !occ[lo - 1]) lo--;
                        while (hi < c->units && !occ[hi]) hi++;
                        if (hi - lo != bf) { hx_fail(res, "not-best-fit", "malloc(%d units) was carved from a free run of %d units while a run of %d units existed", n, hi - lo, bf); return; }
                        if (bf == n) sim_probe(PR_EXACT);
                        if (nbf > 1) sim_probe(PR_TIE);
                    }
                }
                blk_t *b = &c->b[c->nb];
                *b = (blk_t){start, n, B_LIVE, t, inv, ret, UINT64_MAX, UINT64_MAX};
                memset(c->base + (size_t)start * c->usz, 1 + (c->nb % 250), (size_t)n * c->usz);
                c->nb++;
            }
        } else if (o->op == OP_FREE) {
            int cand[MAXB], nc = 0;
            for (int i = 0; i < c->nb; i++) if (c->b[i].state == B_LIVE && (c->xfree || c->b[i].athr == t)) cand[nc++] = i;
            if (!nc) continue;
            int bi = cand[o->a % nc];
            blk_t *b = &c->b[bi];
            unsigned char tag = (unsigned char)(1 + (bi % 250));
            for (size_t u = 0; u < (size_t)b->units * c->usz; u++)
                if ((unsigned char)c->base[(size_t)b->start * c->usz + u] != tag) { hx_fail(res, "payload-corrupted", "block [%d,+%d) lost its ownership tag at byte %zu before being freed", b->start, b->units, u); return; }
            if (b->athr != t) sim_probe(PR_XFREE);
            int iso = (c->inflight == 0);
            if (iso) {
                unsigned char occ[MAXU];
                live_map(c, occ);
                int lfree = b->start > 0 && !occ[b->start - 1], rfree = b->start + b->units < c->units && !occ[b->start + b->units];
                if (lfree && rfree) sim_probe(PR_MERGE_BOTH);
                if (!lfree && !rfree) sim_probe(PR_MERGE_NONE);
            }
            b->state = B_FREEING;
            c->inflight++;
            c->epoch++;
            b->finv = sim_stamp();
            shim_zone_free(c->z, c->base + (size_t)b->start * c->usz);
            b->fret = sim_stamp();
            c->inflight--;
            b->state = B_FREED;
            hx_hash(res, ((uint64_t)t << 56) ^ (1ULL << 55) ^ (uint64_t)bi);
        } else continue;
        check_structure(c, c->inflight == 0, "after an operation");
    }
}

static void gen(hx_plan_t *p, hx_rng_t *r)
{
    int T = hx_chance(r, 25) ? 1 : (int)hx_range(r, 2, 4);
    int units = hx_chance(r, 50) ? (int)hx_range(r, 4, 16) : (int)hx_range(r, 17, 64);
    static const int usz[] = {1, 8, 64, 512};
    hx_set_knob(p, "threads", T);
    hx_set_knob(p, "units", units);
    hx_set_knob(p, "unit_size", usz[hx_below(r, 4)]);
    hx_set_knob(p, "maxreq", hx_chance(r, 60) ? hx_range(r, 1, units / 4 + 1) : hx_range(r, 1, units));
    hx_set_knob(p, "xfree", hx_chance(r, 60));
    int nops = (int)hx_range(r, 6, 48);
    int pm = (int)hx_range(r, 45, 70);
    for (int i = 0; i < nops; i++) {
        int t = (int)hx_below(r, T);
        hx_add_op(p, t, hx_chance(r, pm) ? OP_MALLOC : OP_FREE, hx_below(r, 100000), hx_below(r, 100000), 0);
    }
}

static void run(const hx_plan_t *p, hx_result_t *res)
{
    static ctx_t c;
    memset(&c, 0, sizeof(c));
    c.plan = p; c.res = res;
    c.T = (int)hx_knob(p, "threads", 1);
    c.units = (int)hx_knob(p, "units", 8);
    c.usz = (size_t)hx_knob(p, "unit_size", 1);
    c.maxreq = (int)hx_knob(p, "maxreq", 1);
    c.xfree = (int)hx_knob(p, "xfree", 1);
    if (c.T < 1) c.T = 1;
    if (c.T > 4) c.T = 4;
    if (c.units < 1) c.units = 1;
    if (c.units > MAXU) c.units = MAXU;
    if (c.usz < 1) c.usz = 1;
    if (c.maxreq < 1) c.maxreq = 1;
    int mt = hx_max_thread(p);
    if (mt >= c.T) c.T = mt + 1 > 4 ? 4 : mt + 1;
    c.base = malloc((size_t)c.units * c.usz);
    memset(c.base, 0, (size_t)c.units * c.usz);
    c.z = shim_zone_init(c.base, c.units, c.usz);
    if (c.z->rbtree.comp_offset != offsetof(chunk_list_t, nb_units)) { fprintf(stderr, "c28_zone: layout of zone_malloc_chunk_list_t changed, update the mirror\n"); exit(2); }
    sim_pause();
    check_structure(&c, 1, "after init");
    sim_resume();
    hx_run_threads(c.T, worker, &c);
    sim_pause();
    check_structure(&c, 1, "after all threads finished");
    /* post hoc: judge every NULL return */
    for (int i = 0; i < c.nf && !res->vclass; i++) {
        failrec_t *f = &c.f[i];
        unsigned char occ[MAXU];
        memset(occ, 0, sizeof(occ));
        for (int j = 0; j < c.nb; j++) {
            blk_t *b = &c.b[j];
            if (b->ainv < f->ret && b->fret > f->inv) for (int u = 0; u < b->units; u++) occ[b->start + u] = 1;
        }
        int mg, bf, nbf;
        gaps(occ, c.units, f->n, &mg, &bf, &nbf);
        if (mg >= f->n)
            hx_fail(res, "spurious-failure", "malloc of %d units returned NULL, but even with every block possibly allocated during the call a free run of %d units remained", f->n, mg);
    }
    /* free everything: one maximal free segment must remain */
    if (!res->vclass) {
        for (int j = 0; j < c.nb; j++) if (c.b[j].state == B_LIVE) {
            c.b[j].state = B_FREED;
            shim_zone_free(c.z, c.base + (size_t)c.b[j].start * c.usz);
            check_structure(&c, 1, "while freeing the remaining blocks");
            if (res->vclass) break;
        }
    }
    if (!res->vclass) {
        zone_malloc_t *z = c.z;
        chunk_list_t *root = (chunk_list_t *)z->rbtree.root;
        if (z->segments[0].status != SEGMENT_EMPTY || z->segments[0].nb_units != c.units)
            hx_fail(res, "not-fully-merged", "after freeing every block the first segment has status %d and %d of %d units", z->segments[0].status, z->segments[0].nb_units, c.units);
        else if (z->rbtree.root == z->rbtree.nil || root->nb_units != c.units || (parsec_rbtree_node_t *)root->super.super.list_prev != z->rbtree.nil || (parsec_rbtree_node_t *)root->super.super.list_next != z->rbtree.nil)
            hx_fail(res, "not-fully-merged", "after freeing every block the free index is not a single node of %d units", c.units);
        else if (shim_zone_in_use(z) != 0)
            hx_fail(res, "accounting", "zone_in_use() != 0 after freeing every block");
    }
    /* a corrupted zone is leaked rather than destroyed (the process stops after a violation) */
    if (!res->vclass) shim_zone_fini(&c.z);
    sim_resume();
    free(c.base);
}

static const hx_harness_t H = {
    .property = "C28", .name = "c28_zone", .opnames = opnames, .nopnames = OP_N,
    .est_steps = 2200, .max_steps = 4000000, .gen = gen, .run = run,
    .probe_names = probe_names, .nprobes = PR_N,
};
/* a crash inside a broken component (asserts are compiled out, so e.g. a vanished entry / index node is
 * dereferenced) is turned into a verdict of class "crash" by hx's signal handlers */
int main(int argc, char **argv) { return hx_main(argc, argv, &H); }
