/* C10: local termination detection is exact (DESIGN 4, C10).
 * Real code: parsec/mca/termdet/local/termdet_local_module.c driven through tp->tdm.module on a bare
 * parsec_taskpool_t object (PARSEC_OBJ_NEW, never attached to a context).  Simulated: thread
 * interleaving at every memory access of the module.
 *
 * Client model (every simulated client is a LEGAL client, DESIGN 3.6):
 *   - a "token" is one unit of nb_tasks (task token) or of nb_pending_actions (action token) that a
 *     thread is responsible for: it gets k tokens when its addto(+k) RETURNS and gives one up when
 *     it INVOKES addto(-1).  Tokens can be handed to other threads through a pool (give/take), as
 *     ready tasks travel through scheduler queues.
 *   - once taskpool_ready has been invoked, only a thread that holds a token may add work (the
 *     taskpool cannot have terminated under its feet).  Before ready anybody may ("free" op);
 *     ready is not invoked while a free op is in flight (the user calls ready when *he* is done).
 *   - set_nb_tasks(v) is absolute, hence only legal while nobody else owns or manipulates task
 *     tokens; set_runtime_actions(v) overwrites nb_pending_actions, which also carries the "+1 while
 *     nb_tasks>0" of the module, hence only legal while nb_tasks==0 for sure and nobody else owns
 *     or manipulates anything (that is how DTD and compound taskpools use them).
 *   - knob overlap=1 (60 % of the plans): ready may be invoked while token-backed operations that
 *     started before it are still in flight -- what DTD does (workers retire tasks while the user
 *     thread inserts more and enters parsec_taskpool_wait, whose on_enter_wait hook calls ready).
 *     overlap=0: ready is invoked only once every earlier operation has returned.
 *     KNOWN FINDING (unchanged tree, overlap=1 only), class "stale-zero-termination":
 *     addto_nb_tasks/addto_runtime_actions (and set_*) decide "nbpa == 0" first and read
 *     tp->tdm.monitor afterwards; a decrement that reaches zero while NOT_READY, is delayed, and
 *     resumes after another thread added work and called ready, finds BUSY with its stale zero and
 *     declares termination although nb_tasks > 0.
 * Oracle: termination callback at most once; when it fires, ready was invoked and no token is
 * held anywhere (tokens are a lower bound of the true counters); taskpool_state never returns
 * TERMINATED before the callback ran; if at the end ready was called and no token is left, the
 * callback ran exactly once and the state is TERMINATED. */
#include "../hx.h"
#include "parsec/parsec_config.h"
#include "parsec/parsec_internal.h"
#include "parsec/mca/termdet/termdet.h"
#include <stdlib.h>
#include <string.h>

void shim_td_open_local(parsec_taskpool_t *tp);
void shim_td_monitor(parsec_taskpool_t *tp, parsec_termdet_termination_detected_function_t cb);
void shim_td_unmonitor(parsec_taskpool_t *tp);
int shim_td_state(parsec_taskpool_t *tp);
int shim_td_ready(parsec_taskpool_t *tp);
int shim_td_addto_tasks(parsec_taskpool_t *tp, int v);
int shim_td_addto_actions(parsec_taskpool_t *tp, int v);
int shim_td_set_tasks(parsec_taskpool_t *tp, int v);
int shim_td_set_actions(parsec_taskpool_t *tp, int v);

enum { OP_ADDT, OP_ADDA, OP_DELT, OP_DELA, OP_GIVE, OP_TAKE, OP_SETT, OP_SETA, OP_READY, OP_STATE, OP_DRAIN, OP_N };
static const char *const opnames[] = {"addt", "adda", "delt", "dela", "give", "take", "sett", "seta", "ready", "state", "drain"};
enum { PR_CB_IN_READY, PR_CB_IN_TASKS, PR_CB_IN_ACTIONS, PR_CB_IN_SET, PR_CB_OTHER_WHILE_READY, PR_ZERO_PRE, PR_TZERO_POST,
       PR_SETT_POST, PR_SETA_POST, PR_ST_TERMINATED, PR_ST_BUSY_AFTER_CB, PR_ST_NOT_READY, PR_READY_WAITED, PR_ADD_POST, PR_NONQUIESCENT_END, PR_N };
static const char *const probe_names[] = {
    "callback_inside_ready", "callback_inside_addto_nb_tasks", "callback_inside_addto_runtime_actions", "callback_inside_set",
    "callback_by_other_thread_while_ready_in_flight", "counts_back_to_zero_before_ready", "nb_tasks_zero_with_actions_pending_after_ready",
    "set_nb_tasks_after_ready", "set_runtime_actions_after_ready", "state_read_terminated", "state_read_busy_after_callback",
    "state_read_not_ready", "ready_waited_for_free_op", "work_added_after_ready", "run_ended_with_tokens_left"};

#define MAXT 9 /* workers 0..7, slot T = harness main thread */
typedef struct {
    const hx_plan_t *plan;
    hx_result_t *res;
    parsec_taskpool_t *tp;
    int T;
    int held_t[MAXT], held_a[MAXT], pool_t, pool_a;
    int infl_t[MAXT], infl_a[MAXT]; /* thread has an operation in flight that names this counter */
    int lock_t, lock_all;           /* an absolute set is in flight */
    int free_inflight;              /* ops in flight whose caller held no token when it invoked them */
    int inflight;                   /* load/set ops in flight */
    int pre_ready[MAXT];            /* the op thread t has in flight was invoked before taskpool_ready was */
    int overlap;                    /* knob: ready may be invoked while token-backed ops are in flight */
    int ready_invoked, ready_returned, ready_thr;
    int cur_op[MAXT];
    int cb_count, cb_thr;
    uint64_t cb_stamp;
} ctx_t;
static ctx_t C;
static __thread int my_idx;
static int dbg = -1; /* C10_DEBUG=1: narrate a replay on stderr */
#define DBG(...) do { if (dbg > 0) { fprintf(stderr, "[c10] " __VA_ARGS__); fputc('\n', stderr); } } while (0)

static int holds(const ctx_t *c, int t) { return c->held_t[t] + c->held_a[t]; }
static int task_tokens(const ctx_t *c) { int s = c->pool_t; for (int t = 0; t < MAXT; t++) s += c->held_t[t]; return s; }
static int action_tokens(const ctx_t *c) { int s = c->pool_a; for (int t = 0; t < MAXT; t++) s += c->held_a[t]; return s; }

/* termination callback: uninstrumented, hence atomic with respect to the simulation */
static void term_cb(parsec_taskpool_t *tp)
{
    ctx_t *c = &C;
    int t = my_idx;
    (void)tp;
    c->cb_count++;
    uint64_t st = sim_stamp();
    DBG("thr %d: CALLBACK #%d inside %s  [tokens: tasks %d actions %d; ready_invoked %d]", t, c->cb_count, opnames[c->cur_op[t]], task_tokens(c), action_tokens(c), c->ready_invoked);
    hx_hash(c->res, 0xCB000000ULL ^ ((uint64_t)t << 8) ^ (uint64_t)c->cur_op[t]);
    if (c->cb_count > 1) {
        hx_fail(c->res, "double-callback", "termination callback #%d at stamp %lu by thread %d inside %s (first at stamp %lu by thread %d)",
                c->cb_count, (unsigned long)st, t, opnames[c->cur_op[t]], (unsigned long)c->cb_stamp, c->cb_thr);
        return;
    }
    c->cb_stamp = st; c->cb_thr = t;
    if (!c->ready_invoked)
        hx_fail(c->res, "callback-before-ready", "termination callback at stamp %lu by thread %d inside %s but taskpool_ready was never called",
                (unsigned long)st, t, opnames[c->cur_op[t]]);
    else if (task_tokens(c) || action_tokens(c))
        /* class "stale-zero-termination": the detecting call was invoked BEFORE taskpool_ready, i.e. it
         * brought the counters to zero while NOT_READY and looked at the monitor only after ready --
         * kept apart from the generic class so that it can be tracked as one known finding */
        hx_fail(c->res, c->pre_ready[t] ? "stale-zero-termination" : "terminated-with-work",
                "termination callback at stamp %lu by thread %d inside %s (invoked %s ready) while %d task and %d action token(s) are held: nb_tasks/nb_pending_actions are not zero",
                (unsigned long)st, t, opnames[c->cur_op[t]], c->pre_ready[t] ? "before" : "after", task_tokens(c), action_tokens(c));
    switch (c->cur_op[t]) {
    case OP_READY: sim_probe(PR_CB_IN_READY); break;
    case OP_DELT: case OP_ADDT: sim_probe(PR_CB_IN_TASKS); break;
    case OP_DELA: case OP_ADDA: sim_probe(PR_CB_IN_ACTIONS); break;
    case OP_SETT: case OP_SETA: sim_probe(PR_CB_IN_SET); break;
    }
    if (c->ready_invoked && !c->ready_returned && c->ready_thr != t) sim_probe(PR_CB_OTHER_WHILE_READY);
}

static void rec(ctx_t *c, int t, int op, int ret)
{
    hx_hash(c->res, ((uint64_t)t << 56) ^ ((uint64_t)op << 48) ^ (uint32_t)ret);
    DBG("thr %d: %s returned %d   [tokens: tasks %d actions %d; real nb_tasks %d nb_pa %d]", t, opnames[op], ret, task_tokens(c), action_tokens(c),
        c->tp->nb_tasks, c->tp->nb_pending_actions);
}

enum { M_ADDT, M_ADDA, M_SETT, M_SETA };
static int call_mod(ctx_t *c, int t, int which, int v)
{
    int r = 0;
    c->inflight++; c->pre_ready[t] = !c->ready_invoked;
    switch (which) {
    case M_ADDT: r = shim_td_addto_tasks(c->tp, v); break;
    case M_ADDA: r = shim_td_addto_actions(c->tp, v); break;
    case M_SETT: r = shim_td_set_tasks(c->tp, v); break;
    case M_SETA: r = shim_td_set_actions(c->tp, v); break;
    }
    c->inflight--; c->pre_ready[t] = 0;
    return r;
}

/* release k task tokens held by t with one addto_nb_tasks(-k) */
static void del_tasks(ctx_t *c, int t, int k)
{
    c->held_t[t] -= k; /* given up at invoke */
    c->infl_t[t]++; c->cur_op[t] = OP_DELT;
    int r = call_mod(c, t, M_ADDT, -k);
    c->infl_t[t]--;
    rec(c, t, OP_DELT, r);
    if (!c->ready_invoked && !task_tokens(c) && !action_tokens(c)) sim_probe(PR_ZERO_PRE);
    if (c->ready_invoked && !task_tokens(c) && action_tokens(c)) sim_probe(PR_TZERO_POST);
}
static void del_actions(ctx_t *c, int t, int k)
{
    c->held_a[t] -= k;
    c->infl_a[t]++; c->cur_op[t] = OP_DELA;
    int r = call_mod(c, t, M_ADDA, -k);
    c->infl_a[t]--;
    rec(c, t, OP_DELA, r);
    if (!c->ready_invoked && !task_tokens(c) && !action_tokens(c)) sim_probe(PR_ZERO_PRE);
}

static void exec_op(ctx_t *c, int t, const hx_op_t *o)
{
    long a = o->a < 0 ? -o->a : o->a;
    DBG("thr %d: begin %s %ld  [holds %d/%d]", t, opnames[o->op], a, c->held_t[t], c->held_a[t]);
    switch (o->op) {
    case OP_ADDT:
    case OP_ADDA: {
        int k = (int)(1 + a % 3);
        int free_op = !holds(c, t);
        if (free_op && c->ready_invoked) return;        /* illegal: the taskpool may have terminated */
        if (c->lock_all || (o->op == OP_ADDT && c->lock_t)) return; /* somebody is doing an absolute set */
        if (free_op) c->free_inflight++;
        if (c->ready_invoked) sim_probe(PR_ADD_POST);
        c->cur_op[t] = o->op;
        int r;
        if (o->op == OP_ADDT) { c->infl_t[t]++; r = call_mod(c, t, M_ADDT, k); c->infl_t[t]--; c->held_t[t] += k; }
        else { c->infl_a[t]++; r = call_mod(c, t, M_ADDA, k); c->infl_a[t]--; c->held_a[t] += k; }
        if (free_op) c->free_inflight--;
        rec(c, t, o->op, r);
        break;
    }
    case OP_DELT: {
        if (!c->held_t[t] || c->lock_t || c->lock_all) return;
        int k = (int)(1 + a % 2);
        if (k > c->held_t[t]) k = c->held_t[t];
        del_tasks(c, t, k);
        break;
    }
    case OP_DELA: {
        if (!c->held_a[t] || c->lock_all) return;
        int k = (int)(1 + a % 2);
        if (k > c->held_a[t]) k = c->held_a[t];
        del_actions(c, t, k);
        break;
    }
    case OP_GIVE:
        if ((a & 1) == 0 && c->held_t[t]) { c->held_t[t]--; c->pool_t++; }
        else if (c->held_a[t]) { c->held_a[t]--; c->pool_a++; }
        else if (c->held_t[t]) { c->held_t[t]--; c->pool_t++; }
        break;
    case OP_TAKE:
        if (c->lock_t || c->lock_all) return;
        if ((a & 1) == 0 && c->pool_t) { c->pool_t--; c->held_t[t]++; }
        else if (c->pool_a) { c->pool_a--; c->held_a[t]++; }
        else if (c->pool_t) { c->pool_t--; c->held_t[t]++; }
        break;
    case OP_SETT: {
        int v = (int)(a % 4);
        if (c->lock_t || c->lock_all || c->pool_t) return;
        for (int u = 0; u < MAXT; u++) if (u != t && (c->held_t[u] || c->infl_t[u])) return;
        int free_op = !holds(c, t);
        if (free_op && c->ready_invoked) return;
        int old = c->held_t[t];
        if (v < old) c->held_t[t] = v;
        if (free_op) c->free_inflight++;
        if (c->ready_invoked) sim_probe(PR_SETT_POST);
        c->lock_t = 1; c->infl_t[t]++; c->cur_op[t] = OP_SETT;
        int r = call_mod(c, t, M_SETT, v);
        c->infl_t[t]--; c->lock_t = 0;
        if (v > old) c->held_t[t] = v;
        if (free_op) c->free_inflight--;
        rec(c, t, OP_SETT, r);
        if (!c->ready_invoked && !task_tokens(c) && !action_tokens(c) && old) sim_probe(PR_ZERO_PRE);
        break;
    }
    case OP_SETA: {
        int v = (int)(a % 4);
        if (c->lock_t || c->lock_all || c->pool_t || c->pool_a) return;
        for (int u = 0; u < MAXT; u++) {
            if (c->held_t[u] || c->infl_t[u]) return;               /* nb_tasks must be zero for sure */
            if (u != t && (c->held_a[u] || c->infl_a[u])) return;
        }
        int free_op = !holds(c, t);
        if (free_op && c->ready_invoked) return;
        int old = c->held_a[t];
        if (v < old) c->held_a[t] = v;
        if (free_op) c->free_inflight++;
        if (c->ready_invoked) sim_probe(PR_SETA_POST);
        c->lock_all = 1; c->infl_a[t]++; c->cur_op[t] = OP_SETA;
        int r = call_mod(c, t, M_SETA, v);
        c->infl_a[t]--; c->lock_all = 0;
        if (v > old) c->held_a[t] = v;
        if (free_op) c->free_inflight--;
        rec(c, t, OP_SETA, r);
        if (!c->ready_invoked && !task_tokens(c) && !action_tokens(c) && old) sim_probe(PR_ZERO_PRE);
        break;
    }
    case OP_READY: {
        int waited = 0;
        while ((c->free_inflight || (!c->overlap && c->inflight)) && !c->ready_invoked && !c->res->vclass) { waited = 1; sim_yield(); }
        if (c->ready_invoked || c->res->vclass) return;
        if (waited) sim_probe(PR_READY_WAITED);
        c->ready_invoked = 1; c->ready_thr = t; c->cur_op[t] = OP_READY;
        int r = shim_td_ready(c->tp);
        c->ready_returned = 1;
        rec(c, t, OP_READY, r);
        break;
    }
    case OP_STATE: {
        int cb_before = c->cb_count;
        int s = shim_td_state(c->tp);
        rec(c, t, OP_STATE, s);
        if (s == PARSEC_TERM_TP_TERMINATED) {
            sim_probe(PR_ST_TERMINATED);
            if (!c->cb_count)
                hx_fail(c->res, "terminated-before-callback", "taskpool_state returned TERMINATED to thread %d at stamp %lu but the termination callback has not run",
                        t, (unsigned long)sim_stamp());
        } else if (s == PARSEC_TERM_TP_BUSY && cb_before) sim_probe(PR_ST_BUSY_AFTER_CB);
        else if (s == PARSEC_TERM_TP_NOT_READY) sim_probe(PR_ST_NOT_READY);
        break;
    }
    case OP_DRAIN: {
        if ((a & 1) && !c->lock_t && !c->lock_all) { c->held_t[t] += c->pool_t; c->pool_t = 0; c->held_a[t] += c->pool_a; c->pool_a = 0; }
        for (int pass = 0; pass < 2; pass++) {
            int tasks_now = ((a >> 2) & 1) ? pass == 1 : pass == 0;
            if (tasks_now) while (c->held_t[t] && !c->lock_t && !c->lock_all && !c->res->vclass) del_tasks(c, t, (a & 2) ? c->held_t[t] : 1);
            else while (c->held_a[t] && !c->lock_all && !c->res->vclass) del_actions(c, t, (a & 2) ? c->held_a[t] : 1);
        }
        break;
    }
    default: break;
    }
}

static void worker(int t, void *arg)
{
    ctx_t *c = arg;
    my_idx = t;
    for (int k = 0; k < c->plan->nops; k++) {
        const hx_op_t *o = &c->plan->ops[k];
        if (o->thr != t) continue;
        if (c->res->vclass) return;
        exec_op(c, t, o);
    }
}

static int pick_op(hx_rng_t *r, int early)
{
    int k = (int)hx_below(r, 100);
    if (early) return k < 30 ? OP_ADDT : k < 52 ? OP_ADDA : k < 64 ? OP_DELT : k < 74 ? OP_DELA : k < 82 ? OP_GIVE : k < 88 ? OP_TAKE : k < 92 ? OP_STATE : k < 96 ? OP_SETT : OP_SETA;
    return k < 16 ? OP_ADDT : k < 28 ? OP_ADDA : k < 48 ? OP_DELT : k < 64 ? OP_DELA : k < 70 ? OP_GIVE : k < 82 ? OP_TAKE : k < 92 ? OP_STATE : k < 96 ? OP_SETT : OP_SETA;
}

static void gen(hx_plan_t *p, hx_rng_t *r)
{
    int T = (int)hx_range(r, 2, 4);
    int rthr = (int)hx_below(r, T);
    int style = (int)hx_below(r, 4);
    hx_set_knob(p, "threads", T);
    hx_set_knob(p, "style", style);
    /* overlap=1: ready may race with token-backed operations that started before it (what DTD does:
     * workers retire tasks while the user thread enters parsec_taskpool_wait); overlap=0: ready is
     * invoked only when every earlier operation has returned */
    hx_set_knob(p, "overlap", hx_chance(r, 60));
    static hx_op_t seq[8][40];
    int n[8] = {0};
    for (int t = 0; t < T; t++) {
        int L = (int)hx_range(r, 2, 9), rpos = (int)hx_range(r, 0, L);
        if (style == 1) {
            /* PTG-like hand-off: the ready thread publishes work, the others consume it around `ready` */
            if (t == rthr) {
                int k = (int)hx_range(r, 1, 3);
                seq[t][n[t]++] = (hx_op_t){t, hx_chance(r, 70) ? OP_ADDT : OP_ADDA, k - 1, 0, 0};
                for (int j = 0; j < k; j++) seq[t][n[t]++] = (hx_op_t){t, OP_GIVE, hx_below(r, 2), 0, 0};
                if (hx_chance(r, 60)) { seq[t][n[t]++] = (hx_op_t){t, OP_READY, 0, 0, 0}; rpos = -1; }
            } else {
                seq[t][n[t]++] = (hx_op_t){t, OP_TAKE, hx_below(r, 2), 0, 0};
                seq[t][n[t]++] = (hx_op_t){t, hx_chance(r, 50) ? OP_DELT : OP_DRAIN, 0, 0, 0};
            }
        }
        for (int i = 0; i <= L; i++) {
            if (t == rthr && i == rpos) seq[t][n[t]++] = (hx_op_t){t, OP_READY, 0, 0, 0};
            if (i == L) break;
            seq[t][n[t]++] = (hx_op_t){t, pick_op(r, i < L / 2), hx_below(r, 1000), 0, 0};
        }
        if (style != 3 || hx_chance(r, 80)) seq[t][n[t]++] = (hx_op_t){t, OP_DRAIN, hx_below(r, 8), 0, 0};
        if (hx_chance(r, 40)) seq[t][n[t]++] = (hx_op_t){t, OP_STATE, 0, 0, 0};
    }
    /* interleave the per-thread programs in the text (cosmetic: only per-thread order matters) */
    int pos[8] = {0}, left = 1;
    while (left) {
        left = 0;
        for (int t = 0; t < T; t++) if (pos[t] < n[t]) { hx_op_t *o = &seq[t][pos[t]++]; hx_add_op(p, o->thr, o->op, o->a, o->b, o->c); left = 1; }
    }
}

static void run(const hx_plan_t *p, hx_result_t *res)
{
    ctx_t *c = &C;
    if (dbg < 0) dbg = getenv("C10_DEBUG") ? 1 : 0;
    memset(c, 0, sizeof(*c));
    c->plan = p; c->res = res;
    int T = (int)hx_knob(p, "threads", 2);
    int mt = hx_max_thread(p) + 1;
    if (mt > T) T = mt;
    if (T < 1) T = 1;
    if (T > 8) T = 8;
    c->T = T;
    c->overlap = (int)hx_knob(p, "overlap", 1);
    my_idx = T; /* harness main thread uses slot T */
    c->tp = PARSEC_OBJ_NEW(parsec_taskpool_t);
    /* two extra references: a (wrong) second termination must not destroy the object under the oracle */
    PARSEC_OBJ_RETAIN(c->tp);
    PARSEC_OBJ_RETAIN(c->tp);
    shim_td_open_local(c->tp);
    shim_td_monitor(c->tp, term_cb);

    hx_run_threads(T, worker, c);

    /* tokens left in the pool are consumed by the main thread (sequential tail) */
    if (!res->vclass && (c->pool_t || c->pool_a)) {
        hx_op_t fin = {T, OP_DRAIN, 1, 0, 0};
        exec_op(c, T, &fin);
    }
    sim_pause();
    if (!res->vclass) {
        int tt = task_tokens(c), at = action_tokens(c);
        int st = shim_td_state(c->tp);
        if (c->ready_invoked && !tt && !at) {
            if (c->cb_count != 1)
                hx_fail(res, "termination-missed", "ready was called and every task/action was retired, but the termination callback ran %d times (state=%d)", c->cb_count, st);
            else if (st != PARSEC_TERM_TP_TERMINATED)
                hx_fail(res, "termination-missed", "callback ran but taskpool_state is %d, not TERMINATED, at the end of the run", st);
        } else {
            sim_probe(PR_NONQUIESCENT_END);
            if (st == PARSEC_TERM_TP_TERMINATED)
                hx_fail(res, "terminated-with-work", "state is TERMINATED at the end although ready=%d, %d task and %d action token(s) remain", c->ready_invoked, tt, at);
        }
        hx_hash(res, ((uint64_t)c->cb_count << 8) ^ (uint64_t)st);
    }
    /* dispose: whatever state the detector is in, drop the object exactly once */
    c->tp->tdm.module = NULL;
    c->tp->tdm.callback = NULL;
    c->tp->super.super.obj_reference_count = 1;
    PARSEC_OBJ_RELEASE(c->tp);
    c->tp = NULL;
    sim_resume();
}

static const hx_harness_t H = {
    .property = "C10", .name = "c10_termdet", .opnames = opnames, .nopnames = OP_N,
    .est_steps = 600, .max_steps = 2000000, .gen = gen, .run = run,
    .probe_names = probe_names, .nprobes = PR_N,
};
int main(int argc, char **argv) { return hx_main(argc, argv, &H); }
