/* C27: arenas and memory pools never hand out a block twice (DESIGN 4, C27).
 * Real code (instrumented): parsec/arena.c (parsec_arena_construct(_ex), parsec_arena_allocate_device_private ->
 * parsec_arena_get_chunk, parsec_arena_release -> parsec_arena_release_chunk, the arena destructor), the data-copy
 * destructor of parsec/data.c (the production path that gives a chunk back), parsec/mempool.c + mempool.h,
 * class/lifo.h.  Not driven: parsec_arena_get_new_copy() -- it is a thin wrapper around the same chunk path but
 * needs the device registry and parsec_data_init(), i.e. parsec_init(), which an L0 harness must avoid.
 * Simulated: thread interleaving; the arena's data_malloc/data_free are harness functions (they run
 * atomically, record every real allocation, can refuse on request and quarantine freed memory until the end
 * of the run so that a use-after-free in a broken arena is observed instead of corrupting the process).
 *
 * Oracle:
 *  arena  - a granted block: payload aligned to the arena alignment, count*elem_size bytes inside the chunk
 *           that data_malloc returned and behind the chunk header, not overlapping any block currently owned
 *           by a client; its chunk must not be owned by anybody else ("double-handout") nor already freed;
 *           ownership tags written into the payload are verified at release;
 *         - limit: at every data_malloc the elements in existence (+ the new ones) never exceed max_used
 *           ("limit-exceeded"); a refusal is legal only if data_malloc refused in that call or if, at some
 *           instant of the call, the elements in existence plus those of every other allocation in flight
 *           plus the requested ones exceeded max_used (upper bound, sound under concurrency);
 *         - cache: (#chunks whose release returned without data_free and that no returned allocation has taken
 *           again) - (#single-element allocations in flight) is a lower bound of the free-list length; it must
 *           never exceed max_released ("cache-limit-exceeded"); re-checked exactly by walking the free list at
 *           quiescent points, where also `used`/`released` must equal reality (counter drift);
 *         - data_free only on a chunk being released by the calling thread, once; destroying the arena frees
 *           every cached chunk, nothing else, and nothing is left over.
 *  mempool - an element returned by parsec_thread_mempool_allocate is owned by nobody else, big enough, carries
 *           the back pointer of the thread-mempool it was taken from; tags verified at free; at the end every
 *           element is either owned or exactly once in the free list of its owner, nb_elt counts the fresh ones.
 */
#define BUILDING_PARSEC 1 /* layout of parsec_lifo_t and the inline object macros (this file stays uninstrumented) */
#include "../hx.h"
#include "parsec/parsec_config.h"
#include "parsec/parsec_internal.h"
#include "parsec/arena.h"
#include "parsec/data_internal.h"
#include "parsec/mempool.h"
#include "parsec/class/lifo.h"
#include <malloc.h>
#include <stdlib.h>
#include <string.h>

int shim_arena_alloc(parsec_data_copy_t *copy, parsec_arena_t *arena, size_t count);
void shim_copy_release(parsec_data_copy_t *copy);
void shim_arena_release(parsec_data_copy_t *copy);
void *shim_mp_alloc(parsec_thread_mempool_t *tm);
void shim_mp_free(parsec_mempool_t *mp, void *elt);
void shim_tmp_free(parsec_thread_mempool_t *tm, void *elt);

enum { OP_ALLOC, OP_RELEASE, OP_MPALLOC, OP_MPFREE, OP_N };
static const char *const opnames[] = {"alloc", "release", "mpalloc", "mpfree"};
enum { PR_NEW, PR_CACHE_HIT, PR_MULTI, PR_REFUSED_LIMIT, PR_REFUSED_DM, PR_CACHED, PR_FREED, PR_FREED_CACHE_FULL, PR_FAST_REUSE, PR_XREL,
       PR_CACHE_AT_LIMIT, PR_MP_FRESH, PR_MP_REUSE, PR_MP_XFREE, PR_DTOR_FREED, PR_N };
static const char *const probe_names[] = {"chunk_from_data_malloc", "chunk_from_cache", "multi_element_chunk", "refused_by_limit", "refused_by_data_malloc",
    "release_cached", "release_freed", "release_freed_because_cache_full", "chunk_reused_before_its_release_returned", "cross_thread_release",
    "cache_exactly_at_limit", "mempool_fresh_element", "mempool_reused_element", "mempool_cross_thread_free",
    "arena_destructor_freed_cached_chunk"};

#define MAXR 256
#define MAXA 256
#define MAXE 256
#define MAXT 4
enum { R_LIVE = 1, R_RELEASING, R_CACHED, R_FREED };
typedef struct { char *base, *ptr; size_t size; int count, st, owner, releaser; unsigned gen; } reg_t;
typedef struct { parsec_data_copy_t *copy; int reg; unsigned char *data; size_t len; int count, owner, live; unsigned char tag; } ablk_t;
enum { E_LIVE = 1, E_FREEING, E_POOLED };
typedef struct { unsigned char *p; int st, tm, holder; unsigned gen; unsigned char tag; } elt_t;
typedef struct { parsec_list_item_t item; parsec_thread_mempool_t *owner; unsigned char payload[]; } melt_t;

typedef struct {
    const hx_plan_t *plan;
    hx_result_t *res;
    int T, xfree, skip_cache;
    /* arena */
    parsec_arena_t *arena;
    size_t elem_size, alignment;
    int dm_off, finalizing;
    int limited, cache_limited;
    long max_used, max_released;
    long existing;          /* elements in chunks obtained from data_malloc and not yet given to data_free (exact) */
    long ub;                /* upper bound of the `used` counter: existing + every allocation in flight */
    struct { int active, count; long peak; } af[MAXT];
    int inflight1;          /* single-element allocations in flight (each may hold one popped cached chunk) */
    reg_t r[MAXR]; int nr;
    ablk_t a[MAXA]; int na;
    parsec_data_t *fake[MAXT];
    /* mempool */
    parsec_mempool_t mp;
    int have_mp;
    size_t elt_size, psize;
    elt_t e[MAXE]; int ne;
    int fresh_by[MAXT];
} ctx_t;
static ctx_t *G;
static __thread struct { int cur_count, refuse, dm_refused, dm_called, df_called, tid; } tl;

static int reg_of(ctx_t *c, const void *p) { for (int i = 0; i < c->nr; i++) if (c->r[i].ptr == (const char *)p) return i; return -1; }

/* ---- the arena's allocator: harness code, atomic ---- */
static void *h_data_malloc(size_t size)
{
    ctx_t *c = G;
    tl.dm_called = 1;
    if (tl.refuse || c->nr >= MAXR) { tl.dm_refused = 1; return NULL; }
    if (c->limited) {
        /* elements of chunks owned by clients or cached; a chunk whose release is in flight is left out because
         * arena.c decrements `used` before it calls data_free (transient, not a violation) */
        long committed = 0;
        for (int i = 0; i < c->nr; i++) if (c->r[i].st == R_LIVE || c->r[i].st == R_CACHED) committed += c->r[i].count;
        if (committed + tl.cur_count > c->max_used)
            hx_fail(c->res, "limit-exceeded", "data_malloc reached for %d element(s) while %ld of max_used=%ld elements are owned or cached", tl.cur_count, committed, c->max_used);
    }
    if (size < c->elem_size * (size_t)tl.cur_count + sizeof(parsec_arena_chunk_t))
        hx_fail(c->res, "too-small", "arena asked data_malloc for %zu bytes for %d element(s) of %zu bytes + header", size, tl.cur_count, c->elem_size);
    reg_t *r = &c->r[c->nr++];
    memset(r, 0, sizeof(*r));
    r->base = malloc(size + 64);
    memset(r->base, 0xA5, size + 64);
    r->ptr = r->base + c->dm_off;
    r->size = size; r->count = tl.cur_count; r->st = R_LIVE; r->owner = tl.tid;
    c->existing += tl.cur_count;
    return r->ptr;
}
static void h_data_free(void *p)
{
    ctx_t *c = G;
    tl.df_called = 1;
    int i = reg_of(c, p);
    if (i < 0) { hx_fail(c->res, "garbage-free", "data_free(%p): not a chunk obtained from data_malloc", p); return; }
    reg_t *r = &c->r[i];
    if (r->st == R_FREED) { hx_fail(c->res, "double-free", "chunk %d given to data_free twice", i); return; }
    if (c->finalizing) {
        if (r->st != R_CACHED) { hx_fail(c->res, "freed-while-owned", "arena destructor freed chunk %d which is in state %d, not cached", i, r->st); return; }
        sim_probe(PR_DTOR_FREED);
    } else if (!(r->st == R_RELEASING && r->releaser == tl.tid)) {
        hx_fail(c->res, "freed-while-owned", "thread %d: data_free on chunk %d in state %d (owner %d, releaser %d): not the chunk this thread is releasing", tl.tid, i, r->st, r->owner, r->releaser);
        return;
    }
    r->st = R_FREED;
    c->existing -= r->count;
    /* quarantine: memory stays mapped until the end of the run; only the payload is poisoned */
    if (r->size > sizeof(parsec_arena_chunk_t)) memset(r->ptr + sizeof(parsec_arena_chunk_t), 0xDD, r->size - sizeof(parsec_arena_chunk_t));
}

static void cache_check(ctx_t *c, const char *when)
{
    if (c->skip_cache || !c->cache_limited || c->res->vclass) return;
    int cached = 0;
    for (int i = 0; i < c->nr; i++) cached += c->r[i].st == R_CACHED;
    if (cached - c->inflight1 == c->max_released && c->max_released > 0) sim_probe(PR_CACHE_AT_LIMIT);
    if (cached - c->inflight1 > c->max_released)
        hx_fail(c->res, "cache-limit-exceeded", "%s: at least %d chunks are cached (%d released-and-kept, %d single allocations in flight) but max_released=%ld",
                when, cached - c->inflight1, cached, c->inflight1, c->max_released);
}

/* no arena call in flight */
static void arena_quiescent(ctx_t *c, const char *when)
{
    hx_result_t *res = c->res;
    if (res->vclass || !c->arena) return;
    int n = 0, seen[MAXR] = {0};
    for (parsec_list_item_t *it = c->arena->area_lifo.lifo_head.data.item; it; it = (parsec_list_item_t *)it->list_next) {
        if (++n > MAXR) { hx_fail(res, "cache-corrupted", "%s: arena free list does not terminate", when); return; }
        int i = reg_of(c, it);
        if (i < 0) { hx_fail(res, "cache-corrupted", "%s: arena free list holds %p which is not a chunk", when, (void *)it); return; }
        if (seen[i]++) { hx_fail(res, "cache-corrupted", "%s: chunk %d is in the arena free list twice", when, i); return; }
        if (c->r[i].st == R_FREED) { hx_fail(res, "freed-chunk-in-cache", "%s: chunk %d is in the arena free list but was given to data_free", when, i); return; }
        if (c->r[i].st != R_CACHED) { hx_fail(res, "double-handout", "%s: chunk %d is in the arena free list while owned by thread %d", when, i, c->r[i].owner); return; }
    }
    for (int i = 0; i < c->nr; i++) if (c->r[i].st == R_CACHED && !seen[i]) { hx_fail(res, "chunk-lost", "%s: chunk %d was released, not freed, and is not in the free list", when, i); return; }
    if (c->cache_limited && !c->skip_cache && n > c->max_released) { hx_fail(res, "cache-limit-exceeded", "%s: %d chunks in the arena free list, max_released=%ld", when, n, c->max_released); return; }
    if (c->cache_limited && c->arena->released != n) { hx_fail(res, "released-counter-drift", "%s: arena->released=%d but %d chunks are cached", when, c->arena->released, n); return; }
    if (c->limited && c->arena->used != c->existing) { hx_fail(res, "used-counter-drift", "%s: arena->used=%d but %ld elements exist", when, c->arena->used, c->existing); return; }
}

static void do_alloc(ctx_t *c, int t, const hx_op_t *o)
{
    hx_result_t *res = c->res;
    if (!c->arena || c->na >= MAXA) return;
    int count = (o->a % 4 == 0) ? (int)(2 + (o->a / 4) % 3) : 1;
    sim_pause();
    parsec_data_copy_t *copy = PARSEC_OBJ_NEW(parsec_data_copy_t);
    sim_resume();
    copy->original = c->fake[t];
    tl.cur_count = count; tl.refuse = (o->c % 6 == 0); tl.dm_refused = tl.dm_called = 0;
    c->af[t].active = 1; c->af[t].count = count;
    if (c->limited) {
        c->ub += count;
        c->af[t].peak = c->ub - count;
        for (int u = 0; u < MAXT; u++) if (u != t && c->af[u].active && c->ub - c->af[u].count > c->af[u].peak) c->af[u].peak = c->ub - c->af[u].count;
    }
    if (count == 1) c->inflight1++;
    int rc = shim_arena_alloc(copy, c->arena, (size_t)count);
    if (count == 1) c->inflight1--;
    c->af[t].active = 0;
    tl.refuse = 0;
    hx_hash(res, ((uint64_t)t << 56) ^ ((uint64_t)count << 8) ^ (uint64_t)(rc == PARSEC_SUCCESS));
    if (rc != PARSEC_SUCCESS) {
        if (c->limited) c->ub -= count;
        if (copy->arena_chunk != NULL || copy->device_private != NULL) { hx_fail(res, "garbage-chunk", "refused allocation left a chunk in the copy"); return; }
        if (tl.dm_refused) sim_probe(PR_REFUSED_DM);
        else if (!c->limited) { hx_fail(res, "spurious-refusal", "allocation of %d element(s) refused although the arena has no limit and data_malloc did not refuse", count); return; }
        else if (c->af[t].peak + count <= c->max_used) {
            hx_fail(res, "spurious-refusal", "allocation of %d element(s) refused although at most %ld elements (existing + in flight) were accounted during the call, max_used=%ld, and data_malloc did not refuse",
                    count, c->af[t].peak, c->max_used);
            return;
        } else sim_probe(PR_REFUSED_LIMIT);
        copy->original = NULL;
        sim_pause(); PARSEC_OBJ_RELEASE(copy); sim_resume();
        return;
    }
    parsec_arena_chunk_t *chunk = copy->arena_chunk;
    int ri = reg_of(c, chunk);
    if (ri < 0) { hx_fail(res, "garbage-chunk", "allocation returned chunk %p which data_malloc never produced", (void *)chunk); return; }
    reg_t *r = &c->r[ri];
    if (tl.dm_called && !tl.dm_refused && r->st == R_LIVE && r->owner == t && r->gen == 0) {
        sim_probe(PR_NEW);
        r->gen = 1;
    } else {
        /* taken from the free list */
        if (c->limited) c->ub -= count;
        if (r->st == R_LIVE) { hx_fail(res, "double-handout", "thread %d was given chunk %d which thread %d still owns", t, ri, r->owner); return; }
        if (r->st == R_FREED) { hx_fail(res, "freed-chunk-handed-out", "thread %d was given chunk %d which was already passed to data_free", t, ri); return; }
        if (r->st == R_RELEASING) sim_probe(PR_FAST_REUSE);
        sim_probe(PR_CACHE_HIT);
        r->st = R_LIVE; r->owner = t; r->gen++;
        if (tl.dm_called && !tl.dm_refused) { hx_fail(res, "chunk-lost", "allocation called data_malloc but returned the cached chunk %d", ri); return; }
    }
    if (count > 1) sim_probe(PR_MULTI);
    unsigned char *data = copy->device_private;
    size_t len = (size_t)count * c->elem_size;
    if (chunk->data != (void *)data) { hx_fail(res, "garbage-chunk", "copy->device_private != chunk->data"); return; }
    if (chunk->origin != c->arena || chunk->count != (uint32_t)count) { hx_fail(res, "garbage-chunk", "chunk header says origin %p count %u, expected %p / %d", (void *)chunk->origin, chunk->count, (void *)c->arena, count); return; }
    if ((uintptr_t)data % c->alignment) { hx_fail(res, "misaligned", "payload %p is not aligned to %zu", (void *)data, c->alignment); return; }
    if ((char *)data < r->ptr + sizeof(parsec_arena_chunk_t) || (char *)data + len > r->ptr + r->size) {
        hx_fail(res, "too-small", "payload [%p,+%zu) does not fit behind the header of its chunk [%p,+%zu)", (void *)data, len, (void *)r->ptr, r->size);
        return;
    }
    if ((long)r->count < count) { hx_fail(res, "too-small", "chunk %d was allocated for %d element(s) and is handed out for %d", ri, r->count, count); return; }
    for (int i = 0; i < c->na; i++) {
        ablk_t *b = &c->a[i];
        if (b->live && data < b->data + b->len && b->data < data + len) { hx_fail(res, "overlap", "payload of the new block overlaps the block owned by thread %d", b->owner); return; }
    }
    ablk_t *b = &c->a[c->na];
    *b = (ablk_t){copy, ri, data, len, count, t, 1, (unsigned char)(1 + c->na % 250)};
    memset(data, b->tag, len);
    c->na++;
}

static void release_block(ctx_t *c, int t, ablk_t *b, int direct)
{
    hx_result_t *res = c->res;
    reg_t *r = &c->r[b->reg];
    for (size_t u = 0; u < b->len; u++) if (b->data[u] != b->tag) { hx_fail(res, "payload-corrupted", "block owned by thread %d lost its tag at byte %zu", b->owner, u); return; }
    if (b->owner != t && t >= 0) sim_probe(PR_XREL);
    b->live = 0;
    r->st = R_RELEASING; r->releaser = t;
    unsigned g = r->gen;
    tl.df_called = 0;
    parsec_data_copy_t *copy = b->copy;
    copy->original = NULL;  /* never attached to a real parsec_data_t */
    if (direct) {
        shim_arena_release(copy);
        copy->arena_chunk = NULL; copy->flags = 0;
        sim_pause(); PARSEC_OBJ_RELEASE(copy); sim_resume();
    } else shim_copy_release(copy);
    hx_hash(res, ((uint64_t)t << 56) ^ (1ULL << 55) ^ ((uint64_t)tl.df_called << 1));
    if (tl.df_called) {
        if (res->vclass) return;
        if (c->limited) c->ub -= r->count;
        sim_probe(PR_FREED);
        if (r->count == 1 && c->max_released > 0) sim_probe(PR_FREED_CACHE_FULL);
    } else {
        if (r->gen == g && r->st == R_RELEASING) { r->st = R_CACHED; r->releaser = -1; }
        sim_probe(PR_CACHED);
    }
    cache_check(c, "after a release");
}

/* ---- mempool ---- */
static int elt_of(ctx_t *c, const void *p) { for (int i = 0; i < c->ne; i++) if (c->e[i].p == (const unsigned char *)p) return i; return -1; }
static void do_mpalloc(ctx_t *c, int t)
{
    hx_result_t *res = c->res;
    if (!c->have_mp || c->ne >= MAXE) return;
    parsec_thread_mempool_t *tm = &c->mp.thread_mempools[t];
    melt_t *m = shim_mp_alloc(tm);
    if (!m) { hx_fail(res, "garbage-element", "parsec_thread_mempool_allocate returned NULL"); return; }
    int i = elt_of(c, m);
    hx_hash(res, ((uint64_t)t << 56) ^ (2ULL << 53) ^ (uint64_t)(i < 0));
    if (i < 0) {
        sim_probe(PR_MP_FRESH);
        i = c->ne++;
        c->e[i] = (elt_t){(unsigned char *)m, E_LIVE, t, t, 1, 0};
        c->fresh_by[t]++;
        if (malloc_usable_size(m) < c->elt_size) { hx_fail(res, "too-small", "fresh mempool element has %zu usable bytes, elt_size=%zu", malloc_usable_size(m), c->elt_size); return; }
    } else {
        elt_t *e = &c->e[i];
        if (e->st == E_LIVE) { hx_fail(res, "double-handout", "thread %d was given mempool element %d which thread %d still owns", t, i, e->holder); return; }
        /* E_FREEING here = popped before the free call returned; legal (no scheduling point follows the push CAS, so not reachable in practice) */
        sim_probe(PR_MP_REUSE);
        if (e->tm != t) { hx_fail(res, "wrong-owner", "element %d of thread-mempool %d came out of thread-mempool %d", i, e->tm, t); return; }
        e->st = E_LIVE; e->holder = t; e->gen++;
    }
    if ((uintptr_t)m % sizeof(void *)) { hx_fail(res, "misaligned", "mempool element %p", (void *)m); return; }
    if (m->owner != tm) { hx_fail(res, "wrong-owner", "element %d carries back pointer %p, expected %p", i, (void *)m->owner, (void *)tm); return; }
    c->e[i].tag = (unsigned char)(1 + i % 250);
    memset(m->payload, c->e[i].tag, c->psize);
}
static void free_elt(ctx_t *c, int t, int i, int variant)
{
    hx_result_t *res = c->res;
    elt_t *e = &c->e[i];
    melt_t *m = (melt_t *)e->p;
    for (size_t u = 0; u < c->psize; u++) if (m->payload[u] != e->tag) { hx_fail(res, "payload-corrupted", "mempool element %d lost its tag at byte %zu", i, u); return; }
    if (e->tm != t) sim_probe(PR_MP_XFREE);
    e->st = E_FREEING;
    unsigned g = e->gen;
    if (variant) shim_tmp_free(&c->mp.thread_mempools[e->tm], m); else shim_mp_free(&c->mp, m);
    if (e->gen == g && e->st == E_FREEING) e->st = E_POOLED;
    hx_hash(res, ((uint64_t)t << 56) ^ (3ULL << 53) ^ (uint64_t)i);
}
static void mp_quiescent(ctx_t *c, const char *when)
{
    hx_result_t *res = c->res;
    if (res->vclass || !c->have_mp) return;
    int seen[MAXE] = {0};
    for (int t = 0; t < c->T; t++) {
        int n = 0;
        for (parsec_list_item_t *it = c->mp.thread_mempools[t].mempool.lifo_head.data.item; it; it = (parsec_list_item_t *)it->list_next) {
            if (++n > MAXE) { hx_fail(res, "pool-corrupted", "%s: free list of thread-mempool %d does not terminate", when, t); return; }
            int i = elt_of(c, it);
            if (i < 0) { hx_fail(res, "pool-corrupted", "%s: free list of thread-mempool %d holds an unknown pointer", when, t); return; }
            if (seen[i]++) { hx_fail(res, "duplicate-element", "%s: mempool element %d is in a free list twice", when, i); return; }
            if (c->e[i].st != E_POOLED) { hx_fail(res, "double-handout", "%s: mempool element %d is in a free list while owned by thread %d", when, i, c->e[i].holder); return; }
            if (c->e[i].tm != t) { hx_fail(res, "wrong-owner", "%s: element %d of thread-mempool %d sits in the free list of thread-mempool %d", when, i, c->e[i].tm, t); return; }
        }
        if ((int)c->mp.thread_mempools[t].nb_elt != c->fresh_by[t]) { hx_fail(res, "pool-accounting", "%s: thread-mempool %d counts %u elements, %d were created", when, t, c->mp.thread_mempools[t].nb_elt, c->fresh_by[t]); return; }
    }
    for (int i = 0; i < c->ne; i++) if (c->e[i].st == E_POOLED && !seen[i]) { hx_fail(res, "lost-element", "%s: mempool element %d was freed and is in no free list", when, i); return; }
}

static void worker(int t, void *arg)
{
    ctx_t *c = arg;
    tl.tid = t;
    for (int k = 0; k < c->plan->nops; k++) {
        const hx_op_t *o = &c->plan->ops[k];
        if (o->thr != t) continue;
        if (c->res->vclass) return;
        switch (o->op) {
        case OP_ALLOC: do_alloc(c, t, o); break;
        case OP_RELEASE: {
            int cand[MAXA], nc = 0;
            for (int i = 0; i < c->na; i++) if (c->a[i].live && (c->xfree || c->a[i].owner == t)) cand[nc++] = i;
            if (nc) release_block(c, t, &c->a[cand[o->a % nc]], (int)(o->b & 1));
            break;
        }
        case OP_MPALLOC: do_mpalloc(c, t); break;
        case OP_MPFREE: {
            int cand[MAXE], nc = 0;
            for (int i = 0; i < c->ne; i++) if (c->e[i].st == E_LIVE && (c->xfree || c->e[i].holder == t)) cand[nc++] = i;
            if (nc) free_elt(c, t, cand[o->a % nc], (int)(o->b & 1));
            break;
        }
        default: break;
        }
    }
}

static void gen(hx_plan_t *p, hx_rng_t *r)
{
    int T = (int)hx_range(r, 2, 4);
    int mode = (int)hx_below(r, 100);
    mode = mode < 45 ? 0 : mode < 70 ? 1 : 2;    /* arena only / mempool only / both */
    hx_set_knob(p, "threads", T);
    hx_set_knob(p, "mode", mode);
    hx_set_knob(p, "xfree", hx_chance(r, 65));
    static const int es[] = {1, 7, 8, 24, 40, 100, 256, 1000};
    hx_set_knob(p, "elem_size", hx_chance(r, 50) ? es[hx_below(r, 8)] : hx_range(r, 1, 300));
    hx_set_knob(p, "align_log2", hx_range(r, 1, 7));
    hx_set_knob(p, "ctor_ex", !hx_chance(r, 10));
    hx_set_knob(p, "max_used", hx_chance(r, 25) ? -1 : hx_chance(r, 5) ? 0 : hx_range(r, 1, 6));
    hx_set_knob(p, "max_released", hx_chance(r, 20) ? -1 : hx_range(r, 0, 3));
    hx_set_knob(p, "slack", hx_below(r, 1000));
    hx_set_knob(p, "dm_off", 16 * hx_below(r, 4));
    hx_set_knob(p, "mp_payload", hx_range(r, 0, 48));
    hx_set_knob(p, "mp_class", hx_chance(r, 30));
    int nops = (int)hx_range(r, 8, 44);
    int pa = (int)hx_range(r, 40, 65);
    for (int i = 0; i < nops; i++) {
        int t = (int)hx_below(r, T);
        int arena = mode == 0 || (mode == 2 && hx_chance(r, 60));
        int al = hx_chance(r, pa);
        hx_add_op(p, t, arena ? (al ? OP_ALLOC : OP_RELEASE) : (al ? OP_MPALLOC : OP_MPFREE), hx_below(r, 100000), hx_below(r, 100000), hx_below(r, 100000));
    }
}

static void run(const hx_plan_t *p, hx_result_t *res)
{
    static ctx_t c;
    memset(&c, 0, sizeof(c));
    G = &c;
    c.plan = p; c.res = res;
    c.T = (int)hx_knob(p, "threads", 2);
    int mt = hx_max_thread(p);
    if (mt >= c.T) c.T = mt + 1;
    if (c.T < 1) c.T = 1;
    if (c.T > MAXT) c.T = MAXT;
    int mode = (int)hx_knob(p, "mode", 2);
    c.xfree = (int)hx_knob(p, "xfree", 1);
    c.skip_cache = (int)hx_knob(p, "skip_cache", 0);   /* development aid only: default keeps the cache-limit check on */
    c.elem_size = (size_t)hx_knob(p, "elem_size", 8);
    if (c.elem_size < 1) c.elem_size = 1;
    c.alignment = (size_t)1 << hx_knob(p, "align_log2", 3);
    c.dm_off = (int)hx_knob(p, "dm_off", 0) & 48;
    tl.tid = -1;
    sim_pause();
    if (mode != 1) {
        long mu = hx_knob(p, "max_used", -1), mr = hx_knob(p, "max_released", -1), slack = hx_knob(p, "slack", 0) % (long)c.elem_size;
        c.arena = PARSEC_OBJ_NEW(parsec_arena_t);
        int rc;
        if (hx_knob(p, "ctor_ex", 1))
            rc = parsec_arena_construct_ex(c.arena, c.elem_size, c.alignment, mu < 0 ? SIZE_MAX : (size_t)mu * c.elem_size + (size_t)slack, mr < 0 ? SIZE_MAX : (size_t)mr * c.elem_size + (size_t)slack);
        else
            rc = parsec_arena_construct(c.arena, c.elem_size, c.alignment);
        if (rc != PARSEC_SUCCESS) { hx_fail(res, "construct-failed", "parsec_arena_construct returned %d for elem_size %zu alignment %zu", rc, c.elem_size, c.alignment); sim_resume(); return; }
        c.arena->data_malloc = h_data_malloc;
        c.arena->data_free = h_data_free;
        c.max_used = c.arena->max_used; c.limited = c.max_used != INT32_MAX;
        c.max_released = c.arena->max_released; c.cache_limited = c.max_released != INT32_MAX;
        if (hx_knob(p, "ctor_ex", 1) && ((mu >= 0 && c.max_used != mu) || (mr >= 0 && c.max_released != mr) || (mu < 0 && c.limited) || (mr < 0 && c.cache_limited)))
            hx_fail(res, "construct-failed", "limits requested %ld/%ld elements, arena has %ld/%ld", mu, mr, c.max_used, c.max_released);
        for (int t = 0; t < c.T; t++) c.fake[t] = calloc(1, sizeof(parsec_data_t) + 8 * sizeof(void *));
    }
    if (mode != 0) {
        c.psize = (size_t)hx_knob(p, "mp_payload", 16);
        c.elt_size = sizeof(melt_t) + c.psize;
        parsec_mempool_construct(&c.mp, hx_knob(p, "mp_class", 0) ? PARSEC_OBJ_CLASS(parsec_list_item_t) : NULL, c.elt_size, offsetof(melt_t, owner), (unsigned)c.T);
        c.have_mp = 1;
    }
    sim_resume();

    if (!res->vclass) hx_run_threads(c.T, worker, &c);

    sim_pause();
    tl.tid = -1;
    arena_quiescent(&c, "after all threads finished");
    mp_quiescent(&c, "after all threads finished");
    /* give everything back (thread 0), then destroy */
    for (int i = 0; i < c.na && !res->vclass; i++) if (c.a[i].live) { tl.tid = -1; release_block(&c, -1, &c.a[i], i & 1); }
    arena_quiescent(&c, "after releasing the remaining blocks");
    for (int i = 0; i < c.ne && !res->vclass; i++) if (c.e[i].st == E_LIVE) free_elt(&c, c.e[i].tm, i, i & 1);
    mp_quiescent(&c, "after freeing the remaining elements");
    if (!res->vclass && c.arena) {
        c.finalizing = 1;
        PARSEC_OBJ_RELEASE(c.arena);
        for (int i = 0; i < c.nr && !res->vclass; i++) if (c.r[i].st != R_FREED) hx_fail(res, "chunk-lost", "chunk %d (state %d) survived the destruction of the arena", i, c.r[i].st);
        if (!res->vclass && c.existing != 0) hx_fail(res, "chunk-lost", "%ld elements still exist after the destruction of the arena", c.existing);
    }
    if (!res->vclass && c.have_mp) {
        uint64_t total = 0;
        for (int t = 0; t < c.T; t++) total += (uint64_t)c.fresh_by[t];
        uint64_t got = parsec_mempool_destruct(&c.mp);
        if (got != total) hx_fail(res, "pool-accounting", "parsec_mempool_destruct reports %llu elements, %llu were created", (unsigned long long)got, (unsigned long long)total);
    }
    sim_resume();
    /* after a violation the PaRSEC objects are leaked (they may be corrupt); our own memory is returned */
    for (int i = 0; i < c.nr; i++) free(c.r[i].base);
    for (int t = 0; t < MAXT; t++) free(c.fake[t]);
    G = NULL;
}

static const hx_harness_t H = {
    .property = "C27", .name = "c27_arena", .opnames = opnames, .nopnames = OP_N,
    /* est_steps: measured mean run length (drives preemption density) */
    .est_steps = 450, .max_steps = 4000000, .gen = gen, .run = run,
    .probe_names = probe_names, .nprobes = PR_N,
};
/* a crash inside a broken component (asserts are compiled out, so e.g. a vanished entry / index node is
 * dereferenced) is turned into a verdict of class "crash" by hx's signal handlers */
int main(int argc, char **argv) { return hx_main(argc, argv, &H); }
