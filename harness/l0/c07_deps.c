/* C07: a task becomes ready exactly once, when its last input arrives (DESIGN 4, C07, level L0).
 * Real code: parsec/parsec.c -- parsec_update_deps_with_mask / _with_counter,
 * parsec_check_IN_dependencies_with_mask / _with_counter, parsec_default_find_deps, parsec_hash_find_deps,
 * parsec_release_local_OUT_dependencies; parsec/class/parsec_hash_table.c, parsec/mempool.c.
 * Synthetic (what ptgpp would have generated): one task class T(k, m) with 1..7 input flows of
 * these kinds, a taskpool with the index-array or the hash-table dependency storage, and an
 * origin class whose output feeds every flow:
 *   data-from-task          one release
 *   data-from-collection    no release, check_IN contributes the bit (mask) / nothing (counter)
 *   data ternary A/B        guard(k,m) ? task : collection   /   guard ? collection : task
 *   ctl                     one release
 *   ctl guarded             guard ? one release : none (mask: bit set by check_IN)
 *   ctl multi   (counter)   guarded dep + unconditional dep on the same flow: 1 or 2 releases
 *   ctl gather  (counter)   ctl_gather_nb(k) = 1..3 releases on the same flow
 *   write-only NEW          no release, flow tagged HAS_IN_DEPS without dep_in
 *   ctl alt                 two exclusively guarded deps on one CTL flow (g ? A : nothing; !g ? B : nothing): one release,
 *                           the ACTIVE dep being the second one when g is false
 *   ctl alt3                g ? A ; (!g && h) ? B ; otherwise no control: 1 or 0 releases (mask: bit from check_IN)
 *   data alt                two exclusively guarded task-fed deps on one data flow: one release
 * Several instances of T live in one run (colliding hash keys, hash-table resize, mempool
 * recycling of hashed dependencies).  Each plan op is ONE release of one still missing input of
 * one instance, executed by its sim-thread either as find_deps + update_deps or as a whole
 * parsec_release_local_OUT_dependencies with a private execution stream and ready ring.
 * Legal client: every required input is released at most once (mask mode forbids releasing a flow
 * twice; counter mode expects exactly the counted number).
 * Oracle, per instance: all inputs released  => exactly one release reports ready, and it returns
 * after every release of the instance has been invoked; some input never released => nobody
 * reports ready; the ready rings hold exactly one (faithful) copy per ready instance. */
#include "../hx.h"
#include "parsec/parsec_config.h"
#include "parsec/parsec_internal.h"
#include "parsec/execution_stream.h"
#include "parsec/mempool.h"
#include "parsec/interfaces/interface.h"
#include "parsec/class/parsec_hash_table.h"
#include <stdlib.h>
#include <string.h>

/* must match the definition in c07_deps_shim.c */
typedef struct c07_tp_s {
    parsec_taskpool_t super;
    int salt[MAX_PARAM_COUNT];
    int gsalt;
    int p0min, p1min, n0;
    int khash;
} c07_tp_t;

#define DECLCOND(j) int32_t c07_cond_##j(const parsec_taskpool_t *tp, const parsec_assignment_t *l);
DECLCOND(0) DECLCOND(1) DECLCOND(2) DECLCOND(3) DECLCOND(4) DECLCOND(5) DECLCOND(6) DECLCOND(7)
#define DECLNCOND(j) int32_t c07_ncond_##j(const parsec_taskpool_t *tp, const parsec_assignment_t *l); int32_t c07_xcond_##j(const parsec_taskpool_t *tp, const parsec_assignment_t *l);
DECLNCOND(0) DECLNCOND(1) DECLNCOND(2) DECLNCOND(3) DECLNCOND(4) DECLNCOND(5) DECLNCOND(6) DECLNCOND(7)
int32_t c07_gather_nb(const parsec_taskpool_t *tp, const parsec_assignment_t *l);
parsec_key_t c07_make_key(const parsec_taskpool_t *tp, const parsec_assignment_t *l);
int c07_key_equal(parsec_key_t a, parsec_key_t b, void *ud);
char *c07_key_print(char *buf, size_t n, parsec_key_t k, void *ud);
uint64_t c07_key_hash(parsec_key_t k, void *ud);
void c07_build_nc(parsec_task_t *nc, parsec_taskpool_t *tp, const parsec_task_class_t *tc, int k, int m, int prio);
parsec_dependency_t *c07_find_deps(parsec_execution_stream_t *es, const parsec_task_t *task);
int c07_update_deps(const parsec_task_t *task, parsec_dependency_t *deps, const parsec_task_t *origin,
                    const parsec_flow_t *origin_flow, const parsec_flow_t *dest_flow);
int c07_release_local(parsec_execution_stream_t *es, const parsec_task_t *origin, const parsec_flow_t *origin_flow,
                      const parsec_task_t *task, const parsec_flow_t *dest_flow, parsec_task_t **pready_ring,
                      parsec_data_copy_t *target_dc);
void c07_release_hashed_dep(const parsec_task_t *task);

static const parsec_expr_op_int32_inline_func_t cond_fn[8] = {c07_cond_0, c07_cond_1, c07_cond_2, c07_cond_3, c07_cond_4, c07_cond_5, c07_cond_6, c07_cond_7};
static const parsec_expr_op_int32_inline_func_t ncond_fn[8] = {c07_ncond_0, c07_ncond_1, c07_ncond_2, c07_ncond_3, c07_ncond_4, c07_ncond_5, c07_ncond_6, c07_ncond_7};
static const parsec_expr_op_int32_inline_func_t xcond_fn[8] = {c07_xcond_0, c07_xcond_1, c07_xcond_2, c07_xcond_3, c07_xcond_4, c07_xcond_5, c07_xcond_6, c07_xcond_7};

enum { OP_REL, OP_N };
static const char *const opnames[] = {"rel"};
enum { K_DATA_TASK, K_DATA_COLL, K_DATA_TERN_A, K_DATA_TERN_B, K_CTL, K_CTL_COND, K_CTL_MULTI, K_CTL_GATHER, K_WRITE_NEW, K_CTL_ALT, K_CTL_ALT3, K_DATA_ALT, K_N };
enum { PR_READY_MASK, PR_READY_COUNTER, PR_LAST_OVERLAP, PR_FIRST_OVERLAP, PR_READY_NOT_LAST_INVOKED, PR_IN_BITS, PR_GATHER, PR_CTL_MULTI2,
       PR_STATIC_GOAL, PR_HASH_RESIZE, PR_HASH_RECYCLE, PR_INCOMPLETE, PR_RING_MULTI, PR_RELEASERS_GE6, PR_N };
static const char *const probe_names[] = {
    "instance_ready_mask_mode", "instance_ready_counter_mode", "ready_release_overlapped_another_release", "first_two_releases_overlapped",
    "ready_reported_by_a_release_not_invoked_last", "mask_bits_contributed_by_check_IN", "ctl_gather_count_ge2", "ctl_two_deps_same_flow",
    "counter_goal_precomputed_by_compiler", "dependency_hash_table_resized", "hashed_dependency_recycled_by_mempool", "incomplete_instance_never_ready",
    "thread_ring_with_ge2_tasks", "instance_with_ge6_concurrent_releasers"};

#define MAXF 7
#define MAXINST 6
#define MAXSLOT 12
#define MAXOPS 80
#define MAXTHR 8

typedef struct { int k, m, prio, need, nrem, rem[MAXSLOT], issued, nready, ready_op, inring; } inst_t;
typedef struct { int valid, thr, inst, flow, ready; uint64_t inv, ret; parsec_task_t nc; } oprec_t;

typedef struct {
    const hx_plan_t *plan;
    hx_result_t *res;
    int T, mode, backend, via, complete, F, ninst, nparams;
    int kind[MAXF];
    c07_tp_t *tp;
    parsec_task_class_t tc, otc;
    const parsec_task_class_t *tcs[2];
    void *deparr[2];
    parsec_flow_t flows[MAXF], oflow;
    parsec_dep_t deps[MAXF][2], odep;
    parsec_expr_t cond[MAXF], ncond[MAXF], xcond[MAXF], gather;
    parsec_symbol_t sym[2];
    parsec_key_fn_t keyfns;
    parsec_hash_table_t *ht;
    int ht_bits0;
    parsec_vp_t *vp;
    parsec_execution_stream_t es[MAXTHR];
    parsec_task_t origin[MAXTHR];
    parsec_task_t *ring[MAXTHR];
    inst_t inst[MAXINST];
    oprec_t rec[MAXOPS];
} ctx_t;
static ctx_t C;

/* ---- the harness' own evaluation of the synthetic program (independent of the shim) ---- */
static int m_cond(const c07_tp_t *tp, int j, int k, int m) { return (k + m + tp->salt[j]) & 1; }
static int m_xcond(const c07_tp_t *tp, int j, int k, int m) { return !m_cond(tp, j, k, m) && ((k ^ (tp->salt[j] >> 1)) & 1); }
static int m_gather(const c07_tp_t *tp, int k) { int v = (k + tp->gsalt) % 3; return 1 + (v < 0 ? v + 3 : v); }
static int m_releases(const c07_tp_t *tp, int kind, int j, int k, int m)
{
    switch (kind) {
    case K_DATA_TASK: case K_CTL: return 1;
    case K_DATA_COLL: case K_WRITE_NEW: return 0;
    case K_DATA_TERN_A: case K_CTL_COND: return m_cond(tp, j, k, m) ? 1 : 0;
    case K_DATA_TERN_B: return m_cond(tp, j, k, m) ? 0 : 1;
    case K_CTL_MULTI: return m_cond(tp, j, k, m) ? 2 : 1;
    case K_CTL_GATHER: return m_gather(tp, k);
    case K_CTL_ALT: case K_DATA_ALT: return 1;
    case K_CTL_ALT3: return m_cond(tp, j, k, m) || m_xcond(tp, j, k, m) ? 1 : 0;
    }
    return 0;
}
static int eff_kind(int kind, int mode)
{
    if (kind < 0 || kind >= K_N) kind = K_DATA_TASK;
    if (mode == 0 && (kind == K_CTL_MULTI || kind == K_CTL_GATHER)) return K_CTL; /* mask mode cannot count */
    return kind;
}
static void inst_coords(int i, int n0, int p0min, int p1min, int *k, int *m) { *k = p0min + i % n0; *m = p1min + i / n0; }
/* largest group of instance keys (0..ninst-1) with the same 64-bit hash: such a group shares a bucket
 * whatever the table size, so a collision hint below it would make every unlock resize the table
 * until parsec_hash_table_max_table_nb_bits is hit (a legal but pointless configuration) */
static int max_same_hash(int khash, int ninst)
{
    if (khash == 2) return ninst;
    if (khash == 1) return (ninst + 2) / 3;
    return 1;
}

static int ring_len(parsec_task_t *ring)
{
    if (!ring) return 0;
    int n = 1;
    for (parsec_list_item_t *it = (parsec_list_item_t *)ring->super.list_next; it != &ring->super && n < 1000; it = (parsec_list_item_t *)it->list_next) n++;
    return n;
}

static void worker(int t, void *arg)
{
    ctx_t *c = arg;
    parsec_execution_stream_t *es = &c->es[t];
    for (int q = 0; q < c->plan->nops && q < MAXOPS; q++) {
        oprec_t *r = &c->rec[q];
        if (!r->valid || r->thr != t) continue;
        if (c->res->vclass) return;
        inst_t *I = &c->inst[r->inst];
        const parsec_flow_t *df = &c->flows[r->flow];
        c07_build_nc(&r->nc, &c->tp->super, &c->tc, I->k, I->m, I->prio);
        if (c->via) {
            int before = ring_len(c->ring[t]);
            r->inv = sim_stamp();
            c07_release_local(es, &c->origin[t], &c->oflow, &r->nc, df, &c->ring[t], (parsec_data_copy_t *)(uintptr_t)(0x1000 + 16 * q));
            r->ret = sim_stamp();
            r->ready = ring_len(c->ring[t]) - before;
        } else {
            r->inv = sim_stamp();
            parsec_dependency_t *d = c07_find_deps(es, &r->nc);
            r->ready = c07_update_deps(&r->nc, d, &c->origin[t], &c->oflow, df);
            r->ret = sim_stamp();
        }
        hx_hash(c->res, ((uint64_t)q << 8) ^ (uint64_t)(r->ready & 0xff));
        if (r->ready) {
            I->nready++;
            I->ready_op = q;
            /* the task "runs" and its release_task hook drops the hashed dependency */
            if (r->ready == 1 && I->nready == 1 && c->backend == 1 && c->complete) c07_release_hashed_dep(&r->nc);
        }
    }
}

/* ---- construction of the synthetic program ---- */
static void build_program(ctx_t *c, const hx_plan_t *p)
{
    c07_tp_t *tp = c->tp;
    memset(&c->tc, 0, sizeof(c->tc)); memset(&c->otc, 0, sizeof(c->otc));
    memset(c->flows, 0, sizeof(c->flows)); memset(&c->oflow, 0, sizeof(c->oflow));
    memset(c->deps, 0, sizeof(c->deps)); memset(&c->odep, 0, sizeof(c->odep));
    memset(c->cond, 0, sizeof(c->cond)); memset(&c->gather, 0, sizeof(c->gather));
    memset(c->sym, 0, sizeof(c->sym));
    static char fname[MAXF][4];
    /* origin class: one output flow that feeds every input of T */
    c->oflow.name = "O"; c->oflow.sym_type = PARSEC_SYM_OUT; c->oflow.flow_flags = PARSEC_FLOW_ACCESS_WRITE; c->oflow.flow_index = 0;
    c->odep.task_class_id = 0; c->odep.flow = &c->flows[0]; c->odep.belongs_to = &c->oflow;
    c->oflow.dep_out[0] = &c->odep;
    c->otc.name = "ORIGIN"; c->otc.task_class_id = 1; c->otc.nb_flows = 1; c->otc.nb_parameters = 1; c->otc.nb_locals = 1;
    c->otc.out[0] = &c->oflow; c->otc.task_class_type = PARSEC_TASK_CLASS_TYPE_PTG;
    c->gather.op = PARSEC_EXPR_OP_INLINE; c->gather.u_expr.v_func.type = PARSEC_RETURN_TYPE_INT32; c->gather.u_expr.v_func.func.inline_func_int32 = c07_gather_nb;
    int has_in_in = 0, has_gather = 0;
    parsec_dependency_t maskgoal = 0;
    for (int j = 0; j < c->F; j++) {
        parsec_flow_t *f = &c->flows[j];
        int kind = c->kind[j];
        snprintf(fname[j], sizeof(fname[j]), "F%d", j);
        f->name = fname[j]; f->flow_index = (uint8_t)j; f->sym_type = PARSEC_SYM_IN;
        c->cond[j].op = PARSEC_EXPR_OP_INLINE; c->cond[j].u_expr.v_func.type = PARSEC_RETURN_TYPE_INT32; c->cond[j].u_expr.v_func.func.inline_func_int32 = cond_fn[j];
        c->ncond[j] = c->cond[j]; c->ncond[j].u_expr.v_func.func.inline_func_int32 = ncond_fn[j];
        c->xcond[j] = c->cond[j]; c->xcond[j].u_expr.v_func.func.inline_func_int32 = xcond_fn[j];
        parsec_dep_t *d0 = &c->deps[j][0], *d1 = &c->deps[j][1];
        d0->flow = d1->flow = &c->oflow; d0->belongs_to = d1->belongs_to = f; d0->dep_index = (uint8_t)j; d1->dep_index = (uint8_t)j;
        d0->task_class_id = d1->task_class_id = 1;
        switch (kind) {
        case K_DATA_TASK: f->flow_flags = PARSEC_FLOW_ACCESS_RW; f->sym_type = PARSEC_SYM_INOUT; f->dep_in[0] = d0; break;
        case K_DATA_COLL: f->flow_flags = PARSEC_FLOW_ACCESS_READ | PARSEC_FLOW_HAS_IN_DEPS; d0->task_class_id = PARSEC_LOCAL_DATA_TASK_CLASS_ID; f->dep_in[0] = d0; break;
        case K_DATA_TERN_A: f->flow_flags = PARSEC_FLOW_ACCESS_READ | PARSEC_FLOW_HAS_IN_DEPS; d0->cond = &c->cond[j]; d1->task_class_id = PARSEC_LOCAL_DATA_TASK_CLASS_ID; f->dep_in[0] = d0; f->dep_in[1] = d1; break;
        case K_DATA_TERN_B: f->flow_flags = PARSEC_FLOW_ACCESS_RW | PARSEC_FLOW_HAS_IN_DEPS; d0->cond = &c->cond[j]; d0->task_class_id = PARSEC_LOCAL_DATA_TASK_CLASS_ID; f->dep_in[0] = d0; f->dep_in[1] = d1; break;
        case K_CTL: f->flow_flags = PARSEC_FLOW_ACCESS_NONE; f->dep_in[0] = d0; break;
        case K_CTL_COND: f->flow_flags = PARSEC_FLOW_ACCESS_NONE | PARSEC_FLOW_HAS_IN_DEPS; d0->cond = &c->cond[j]; f->dep_in[0] = d0; break;
        case K_CTL_MULTI: f->flow_flags = PARSEC_FLOW_ACCESS_NONE | PARSEC_FLOW_HAS_IN_DEPS; d0->cond = &c->cond[j]; f->dep_in[0] = d0; f->dep_in[1] = d1; break;
        case K_CTL_GATHER: f->flow_flags = PARSEC_FLOW_ACCESS_NONE; d0->ctl_gather_nb = &c->gather; f->dep_in[0] = d0; has_gather = 1; break;
        case K_WRITE_NEW: f->flow_flags = PARSEC_FLOW_ACCESS_WRITE | PARSEC_FLOW_HAS_IN_DEPS; f->sym_type = PARSEC_SYM_OUT; break;
        case K_CTL_ALT: f->flow_flags = PARSEC_FLOW_ACCESS_NONE | PARSEC_FLOW_HAS_IN_DEPS; d0->cond = &c->cond[j]; d1->cond = &c->ncond[j]; f->dep_in[0] = d0; f->dep_in[1] = d1; break;
        case K_CTL_ALT3: f->flow_flags = PARSEC_FLOW_ACCESS_NONE | PARSEC_FLOW_HAS_IN_DEPS; d0->cond = &c->cond[j]; d1->cond = &c->xcond[j]; f->dep_in[0] = d0; f->dep_in[1] = d1; break;
        case K_DATA_ALT: f->flow_flags = PARSEC_FLOW_ACCESS_READ | PARSEC_FLOW_HAS_IN_DEPS; d0->cond = &c->cond[j]; d1->cond = &c->ncond[j]; f->dep_in[0] = d0; f->dep_in[1] = d1; break;
        }
        if (f->flow_flags & PARSEC_FLOW_HAS_IN_DEPS) has_in_in = 1;
        maskgoal |= (parsec_dependency_t)(1 << j);
        c->tc.in[j] = f;
    }
    c->sym[0].name = "k"; c->sym[0].context_index = 0; c->sym[0].cst_inc = 1;
    c->sym[1].name = "m"; c->sym[1].context_index = 1; c->sym[1].cst_inc = 1;
    c->tc.name = "T"; c->tc.task_class_id = 0; c->tc.nb_flows = (uint8_t)c->F; c->tc.nb_parameters = (uint8_t)c->nparams; c->tc.nb_locals = 2;
    c->tc.task_class_type = PARSEC_TASK_CLASS_TYPE_PTG;
    c->tc.params[0] = &c->sym[0]; if (c->nparams == 2) c->tc.params[1] = &c->sym[1];
    c->tc.locals[0] = &c->sym[0]; c->tc.locals[1] = &c->sym[1];
    c->tc.flags = (uint16_t)((c->mode == 0 ? PARSEC_USE_DEPS_MASK : 0) | (has_in_in ? PARSEC_HAS_IN_IN_DEPENDENCIES : 0) | (c->mode == 1 && has_gather ? PARSEC_HAS_CTL_GATHER : 0));
    c->tc.dependencies_goal = c->mode == 0 ? maskgoal : (parsec_dependency_t)c->F;
    c->keyfns.key_equal = c07_key_equal; c->keyfns.key_print = c07_key_print; c->keyfns.key_hash = c07_key_hash;
    c->tc.key_functions = &c->keyfns;
    c->tc.make_key = c07_make_key;
    c->tc.find_deps = c->backend ? parsec_hash_find_deps : parsec_default_find_deps;
    c->tc.update_deps = c->mode == 0 ? parsec_update_deps_with_mask : parsec_update_deps_with_counter;
    if (c->mode == 1 && !has_in_in && !has_gather) sim_probe(PR_STATIC_GOAL);
    c->tcs[0] = &c->tc; c->tcs[1] = &c->otc;
    tp->super.nb_task_classes = 2;
    tp->super.task_classes_array = c->tcs;
    tp->super.dependencies_array = c->deparr;
    c->deparr[0] = c->deparr[1] = NULL;
    (void)p;
}

static parsec_dependencies_t *alloc_deps(int vmin, int vmax, int flag)
{
    /* ALLOCATE_DEP_TRACKING of the generated code */
    parsec_dependencies_t *d = calloc(1, sizeof(parsec_dependencies_t) + (size_t)(vmax - vmin) * sizeof(parsec_dependencies_union_t));
    d->flags = PARSEC_DEPENDENCIES_FLAG_ALLOCATED | flag;
    d->min = vmin; d->max = vmax;
    return d;
}

static void gen(hx_plan_t *p, hx_rng_t *r)
{
    int T = (int)hx_range(r, 1, 8);
    int mode = (int)hx_below(r, 2), backend = (int)hx_below(r, 2);
    int F = (int)hx_range(r, 1, MAXF);
    int ninst = (int)hx_range(r, 1, 5);
    int nparams = (int)hx_range(r, 1, 2);
    int n0 = nparams == 1 ? ninst : (int)hx_range(r, 1, ninst);
    c07_tp_t tp;
    memset(&tp, 0, sizeof(tp));
    tp.p0min = (int)hx_range(r, -3, 3); tp.p1min = (int)hx_range(r, -2, 2); tp.n0 = n0;
    tp.gsalt = (int)hx_below(r, 3);
    hx_set_knob(p, "threads", T);
    hx_set_knob(p, "mode", mode);
    hx_set_knob(p, "backend", backend);
    hx_set_knob(p, "via_release", hx_chance(r, 60));
    hx_set_knob(p, "complete", hx_chance(r, 60));
    hx_set_knob(p, "flows", F);
    hx_set_knob(p, "ninst", ninst);
    hx_set_knob(p, "nparams", nparams);
    hx_set_knob(p, "n0", n0);
    hx_set_knob(p, "p0min", tp.p0min);
    hx_set_knob(p, "p1min", tp.p1min);
    hx_set_knob(p, "gsalt", tp.gsalt);
    hx_set_knob(p, "ht_bits", hx_range(r, 1, 2));
    int khash = (int)hx_below(r, 3);
    hx_set_knob(p, "khash", khash);
    hx_set_knob(p, "ht_hint", max_same_hash(khash, ninst) + hx_range(r, 0, 1));
    int kind[MAXF];
    int plain = hx_chance(r, 15); /* only unconditional flows: counter goal precomputed by the compiler */
    for (int j = 0; j < F; j++) {
        int k = (int)hx_below(r, 100), kd;
        if (plain) kd = k < 60 ? K_DATA_TASK : K_CTL;
        else if (mode == 0) kd = k < 30 ? K_DATA_TASK : k < 42 ? K_DATA_COLL : k < 54 ? K_DATA_TERN_A : k < 64 ? K_DATA_TERN_B : k < 74 ? K_CTL : k < 82 ? K_CTL_COND : k < 88 ? K_CTL_ALT : k < 92 ? K_CTL_ALT3 : k < 96 ? K_DATA_ALT : K_WRITE_NEW;
        else kd = k < 26 ? K_DATA_TASK : k < 34 ? K_DATA_COLL : k < 44 ? K_DATA_TERN_A : k < 52 ? K_DATA_TERN_B : k < 64 ? K_CTL : k < 70 ? K_CTL_COND : k < 78 ? K_CTL_MULTI : k < 86 ? K_CTL_GATHER : k < 90 ? K_CTL_ALT : k < 93 ? K_CTL_ALT3 : k < 96 ? K_DATA_ALT : K_WRITE_NEW;
        kind[j] = kd;
        tp.salt[j] = (int)hx_below(r, 4);
    }
    /* at most one gather flow keeps the slot count small */
    for (int j = 0, g = 0; j < F; j++) if (kind[j] == K_CTL_GATHER && g++) kind[j] = K_CTL;
    /* at least one instance must need a release: make flow 0 unconditional if necessary */
    int total = 0;
    for (int i = 0; i < ninst; i++) { int k, m; inst_coords(i, n0, tp.p0min, tp.p1min, &k, &m); for (int j = 0; j < F; j++) total += m_releases(&tp, kind[j], j, k, m); }
    if (!total) kind[0] = K_DATA_TASK;
    for (int j = 0; j < F; j++) {
        char nm[16];
        snprintf(nm, sizeof(nm), "f%d", j); hx_set_knob(p, nm, kind[j]);
        snprintf(nm, sizeof(nm), "s%d", j); hx_set_knob(p, nm, tp.salt[j]);
    }
    /* releases: instance i, slot s -> a thread; consecutive slots of one instance go to distinct threads */
    typedef struct { int thr, inst; long b; long key; } rel_t;
    static rel_t rel[MAXOPS];
    int n = 0;
    int perm[MAXTHR];
    for (int t = 0; t < T; t++) perm[t] = t;
    for (int t = T - 1; t > 0; t--) { int u = (int)hx_below(r, t + 1), x = perm[t]; perm[t] = perm[u]; perm[u] = x; }
    int sorted = hx_chance(r, 50);
    for (int i = 0; i < ninst; i++) {
        int k, m, need = 0;
        inst_coords(i, n0, tp.p0min, tp.p1min, &k, &m);
        for (int j = 0; j < F; j++) need += m_releases(&tp, kind[j], j, k, m);
        if (need > MAXSLOT) need = MAXSLOT;
        int off = (int)hx_below(r, T);
        int drop = hx_chance(r, 12) ? (int)hx_below(r, need > 0 ? need : 1) : -1; /* incomplete instance: one input never arrives */
        for (int s = 0; s < need && n < MAXOPS; s++) {
            if (s == drop) continue;
            rel[n].thr = perm[(s + off) % T]; rel[n].inst = i; rel[n].b = hx_below(r, 1000);
            rel[n].key = (sorted ? (long)i * 100000 : 0) + hx_below(r, 100000);
            n++;
        }
    }
    for (int a = 1; a < n; a++) { rel_t x = rel[a]; int b = a - 1; while (b >= 0 && rel[b].key > x.key) { rel[b + 1] = rel[b]; b--; } rel[b + 1] = x; }
    for (int a = 0; a < n; a++) hx_add_op(p, rel[a].thr, OP_REL, rel[a].inst, rel[a].b, 0);
}

static void fail_inst(ctx_t *c, const char *cls, int i, const char *what)
{
    inst_t *I = &c->inst[i];
    char buf[600]; int n = 0;
    for (int q = 0; q < c->plan->nops && q < MAXOPS && n < 520; q++) if (c->rec[q].valid && c->rec[q].inst == i)
        n += snprintf(buf + n, sizeof(buf) - (size_t)n, " [op%d thr%d flow%d inv=%lu ret=%lu ready=%d]", q, c->rec[q].thr, c->rec[q].flow,
                      (unsigned long)c->rec[q].inv, (unsigned long)c->rec[q].ret, c->rec[q].ready);
    hx_fail(c->res, cls, "T(%d,%d) %s mode, %s deps, needs %d releases, %d issued: %s;%s", I->k, I->m, c->mode ? "counter" : "mask",
            c->backend ? "hashed" : "array", I->need, I->issued, what, buf);
}

static void run(const hx_plan_t *p, hx_result_t *res)
{
    ctx_t *c = &C;
    memset(c, 0, sizeof(*c));
    c->plan = p; c->res = res;
    int T = (int)hx_knob(p, "threads", 2), mt = hx_max_thread(p) + 1;
    if (mt > T) T = mt;
    if (T < 1) T = 1;
    if (T > MAXTHR) T = MAXTHR;
    c->T = T;
    c->mode = hx_knob(p, "mode", 0) != 0; c->backend = hx_knob(p, "backend", 0) != 0;
    c->via = hx_knob(p, "via_release", 1) != 0; c->complete = hx_knob(p, "complete", 1) != 0;
    c->F = (int)hx_knob(p, "flows", 2); if (c->F < 1) c->F = 1; if (c->F > MAXF) c->F = MAXF;
    c->ninst = (int)hx_knob(p, "ninst", 1); if (c->ninst < 1) c->ninst = 1; if (c->ninst > MAXINST) c->ninst = MAXINST;
    c->nparams = hx_knob(p, "nparams", 1) == 2 ? 2 : 1;
    int n0 = (int)hx_knob(p, "n0", c->ninst);
    if (n0 < 1) n0 = 1;
    if (c->nparams == 1 || n0 > c->ninst) n0 = c->ninst;
    int n1 = (c->ninst + n0 - 1) / n0;

    c->tp = calloc(1, sizeof(c07_tp_t));
    PARSEC_OBJ_CONSTRUCT(&c->tp->super, parsec_taskpool_t);
    c->tp->p0min = (int)hx_knob(p, "p0min", 0); c->tp->p1min = (int)hx_knob(p, "p1min", 0); c->tp->n0 = n0;
    c->tp->gsalt = (int)hx_knob(p, "gsalt", 0); c->tp->khash = (int)hx_knob(p, "khash", 0);
    for (int j = 0; j < c->F; j++) {
        char nm[16];
        snprintf(nm, sizeof(nm), "f%d", j); c->kind[j] = eff_kind((int)hx_knob(p, nm, K_DATA_TASK), c->mode);
        snprintf(nm, sizeof(nm), "s%d", j); c->tp->salt[j] = (int)hx_knob(p, nm, 0);
    }
    for (int j = 0, g = 0; j < c->F; j++) if (c->kind[j] == K_CTL_GATHER && g++) c->kind[j] = K_CTL;
    build_program(c, p);

    /* dependency storage */
    if (c->backend) {
        c->ht = PARSEC_OBJ_NEW(parsec_hash_table_t);
        int bits = (int)hx_knob(p, "ht_bits", 1); if (bits < 1) bits = 1; if (bits > 4) bits = 4;
        c->ht_bits0 = bits;
        parsec_hash_table_init(c->ht, offsetof(parsec_hashable_dependency_t, ht_item), bits, c->keyfns, c->tp);
        /* parsec_hash_tables_init() (MCA registration) has not run in this process, so the two tuning
         * fields are not filled by parsec_hash_table_init: give them the values the MCA parameters
         * parsec_hash_table_max_collisions_hint / _max_table_nb_bits would (knob-chosen hint) */
        c->ht->max_collisions_hint = (int)hx_knob(p, "ht_hint", 16);
        if (c->ht->max_collisions_hint < max_same_hash(c->tp->khash, c->ninst)) c->ht->max_collisions_hint = max_same_hash(c->tp->khash, c->ninst);
        c->ht->max_table_nb_bits = 16;
        c->deparr[0] = c->ht;
    } else if (c->nparams == 1) {
        c->deparr[0] = alloc_deps(c->tp->p0min, c->tp->p0min + n0 - 1, PARSEC_DEPENDENCIES_FLAG_FINAL);
    } else {
        parsec_dependencies_t *top = alloc_deps(c->tp->p0min, c->tp->p0min + n0 - 1, PARSEC_DEPENDENCIES_FLAG_NEXT);
        for (int a = 0; a < n0; a++) top->u.next[a] = alloc_deps(c->tp->p1min, c->tp->p1min + n1 - 1, PARSEC_DEPENDENCIES_FLAG_FINAL);
        c->deparr[0] = top;
    }
    /* private execution streams with the two mempools parsec.c sets up per virtual process */
    c->vp = calloc(1, sizeof(parsec_vp_t));
    c->vp->nb_cores = T;
    parsec_mempool_construct(&c->vp->context_mempool, PARSEC_OBJ_CLASS(parsec_task_t), sizeof(parsec_task_t), offsetof(parsec_task_t, mempool_owner), (unsigned)T);
    parsec_mempool_construct(&c->vp->dependencies_mempool, NULL, sizeof(parsec_hashable_dependency_t), offsetof(parsec_hashable_dependency_t, mempool_owner), (unsigned)T);
    for (int t = 0; t < T; t++) {
        c->es[t].th_id = t; c->es[t].virtual_process = c->vp;
        c->es[t].context_mempool = &c->vp->context_mempool.thread_mempools[t];
        c->es[t].dependencies_mempool = &c->vp->dependencies_mempool.thread_mempools[t];
        c->origin[t].taskpool = &c->tp->super; c->origin[t].task_class = &c->otc; c->origin[t].locals[0].value = t;
    }
    /* instances and the static assignment of plan ops to still missing inputs */
    for (int i = 0; i < c->ninst; i++) {
        inst_t *I = &c->inst[i];
        inst_coords(i, n0, c->tp->p0min, c->tp->p1min, &I->k, &I->m);
        I->prio = ((I->k * 7 + I->m * 3) % 5 + 5) % 5;
        I->ready_op = -1;
        int inbits = 0;
        for (int j = 0; j < c->F; j++) {
            int nr = m_releases(c->tp, c->kind[j], j, I->k, I->m);
            if (!nr) inbits = 1;
            if (c->kind[j] == K_CTL_GATHER && nr >= 2) sim_probe(PR_GATHER);
            if (c->kind[j] == K_CTL_MULTI && nr == 2) sim_probe(PR_CTL_MULTI2);
            for (int s = 0; s < nr && I->nrem < MAXSLOT; s++) I->rem[I->nrem++] = j;
        }
        I->need = I->nrem;
        if (c->mode == 0 && inbits && I->need) sim_probe(PR_IN_BITS);
    }
    for (int q = 0; q < p->nops && q < MAXOPS; q++) {
        const hx_op_t *o = &p->ops[q];
        oprec_t *r = &c->rec[q];
        if (o->op != OP_REL || o->thr < 0 || o->thr >= T) continue;
        long a = o->a < 0 ? -o->a : o->a, b = o->b < 0 ? -o->b : o->b;
        int i = (int)(a % c->ninst), tries = 0;
        while (tries < c->ninst && !c->inst[i].nrem) { i = (i + 1) % c->ninst; tries++; }
        if (tries == c->ninst) continue; /* nothing left to release: the op is void */
        inst_t *I = &c->inst[i];
        int idx = (int)(b % I->nrem);
        r->valid = 1; r->thr = o->thr; r->inst = i; r->flow = I->rem[idx];
        I->rem[idx] = I->rem[--I->nrem];
        I->issued++;
    }
    for (int i = 0; i < c->ninst; i++) {
        int thr_mask = 0, nthr = 0;
        for (int q = 0; q < p->nops && q < MAXOPS; q++) if (c->rec[q].valid && c->rec[q].inst == i && !(thr_mask >> c->rec[q].thr & 1)) { thr_mask |= 1 << c->rec[q].thr; nthr++; }
        if (nthr >= 6) sim_probe(PR_RELEASERS_GE6);
    }

    hx_run_threads(T, worker, c);

    sim_pause();
    /* ---- oracle ---- */
    for (int i = 0; i < c->ninst && !res->vclass; i++) {
        inst_t *I = &c->inst[i];
        int nready = 0, rop = -1, bad = 0;
        uint64_t last_inv = 0; int last_inv_op = -1;
        for (int q = 0; q < p->nops && q < MAXOPS; q++) {
            oprec_t *r = &c->rec[q];
            if (!r->valid || r->inst != i) continue;
            if (r->ready < 0 || r->ready > 1) bad = 1;
            if (r->ready) { nready += r->ready; rop = q; }
            if (r->inv > last_inv) { last_inv = r->inv; last_inv_op = q; }
        }
        if (bad) { fail_inst(c, "ready-twice", i, "one release put more than one task in the ready ring"); break; }
        if (I->issued < I->need) {
            if (nready) { fail_inst(c, "ready-before-last-input", i, "reported ready although one required input was never released"); break; }
            if (I->issued) sim_probe(PR_INCOMPLETE);
            continue;
        }
        if (!I->need) continue;
        if (nready == 0) { fail_inst(c, "never-ready", i, "every required input was released but no release reported the task ready"); break; }
        if (nready > 1) { fail_inst(c, "ready-twice", i, "more than one release reported the task ready"); break; }
        for (int q = 0; q < p->nops && q < MAXOPS; q++) {
            oprec_t *r = &c->rec[q];
            if (!r->valid || r->inst != i || q == rop) continue;
            if (r->inv > c->rec[rop].ret) { fail_inst(c, "ready-before-last-input", i, "the ready report returned before another required release was even invoked"); break; }
            if (r->inv < c->rec[rop].ret && c->rec[rop].inv < r->ret) sim_probe(PR_LAST_OVERLAP);
        }
        if (res->vclass) break;
        sim_probe(c->mode ? PR_READY_COUNTER : PR_READY_MASK);
        if (last_inv_op != rop) sim_probe(PR_READY_NOT_LAST_INVOKED);
        /* the two earliest releases overlapped (counter mode: both may find the word at 0) */
        int e1 = -1, e2 = -1;
        for (int q = 0; q < p->nops && q < MAXOPS; q++) {
            oprec_t *r = &c->rec[q];
            if (!r->valid || r->inst != i) continue;
            if (e1 < 0 || r->inv < c->rec[e1].inv) { e2 = e1; e1 = q; }
            else if (e2 < 0 || r->inv < c->rec[e2].inv) e2 = q;
        }
        if (e2 >= 0 && c->rec[e2].inv < c->rec[e1].ret) sim_probe(PR_FIRST_OVERLAP);
    }
    /* ready rings: exactly one faithful copy per ready instance */
    if (c->via && !res->vclass) {
        for (int t = 0; t < T && !res->vclass; t++) {
            parsec_task_t *ring = c->ring[t];
            int n = ring_len(ring);
            if (n >= 2) sim_probe(PR_RING_MULTI);
            parsec_task_t *it = ring;
            for (int a = 0; a < n && !res->vclass; a++, it = (parsec_task_t *)it->super.list_next) {
                int found = -1;
                for (int i = 0; i < c->ninst; i++) if (it->locals[0].value == c->inst[i].k && it->locals[1].value == c->inst[i].m) found = i;
                if (found < 0 || it->task_class != &c->tc || it->taskpool != &c->tp->super) { hx_fail(res, "ring-corrupt", "thread %d's ready ring holds a task that is no instance of T (locals %d,%d)", t, it->locals[0].value, it->locals[1].value); break; }
                inst_t *I = &c->inst[found];
                if (++I->inring > 1) { fail_inst(c, "ready-twice", found, "two copies of the task in the ready rings"); break; }
                oprec_t *r = I->ready_op >= 0 ? &c->rec[I->ready_op] : NULL;
                if (!r || r->thr != t) { fail_inst(c, "ring-corrupt", found, "the copy is in the ring of a thread that did not report it ready"); break; }
                if (it->priority != I->prio || it->mempool_owner != c->es[t].context_mempool ||
                    it->data[r->flow].data_in != (parsec_data_copy_t *)(uintptr_t)(0x1000 + 16 * I->ready_op) || it->repo_entry != NULL)
                    { fail_inst(c, "ring-corrupt", found, "the ready copy does not carry the priority / mempool owner / input data of the release that completed it"); break; }
            }
        }
        for (int i = 0; i < c->ninst && !res->vclass; i++)
            if (c->inst[i].nready == 1 && c->inst[i].inring != 1) fail_inst(c, "never-ready", i, "reported ready but no copy in any ready ring");
    }
    if (c->backend && c->ht->rw_hash->nb_bits > (uint32_t)c->ht_bits0) sim_probe(PR_HASH_RESIZE);

    /* ---- tear down ---- */
    for (int t = 0; t < T; t++) {
        parsec_task_t *ring = c->ring[t];
        int n = ring_len(ring);
        parsec_task_t *it = ring;
        for (int a = 0; a < n; a++) { parsec_task_t *nx = (parsec_task_t *)it->super.list_next; if (it->mempool_owner) parsec_thread_mempool_free(it->mempool_owner, it); it = nx; }
    }
    if (c->backend) {
        for (int i = 0; i < c->ninst; i++) {
            parsec_assignment_t l[2] = {{c->inst[i].k}, {c->inst[i].m}};
            parsec_hashable_dependency_t *hd;
            int guard = 0;
            while ((hd = parsec_hash_table_remove(c->ht, c07_make_key(&c->tp->super, l))) != NULL && guard++ < 8) parsec_thread_mempool_free(hd->mempool_owner, hd);
        }
        if (c->vp->dependencies_mempool.thread_mempools) {
            unsigned alloc = 0; for (int t = 0; t < T; t++) alloc += c->vp->dependencies_mempool.thread_mempools[t].nb_elt;
            unsigned created = 0; for (int i = 0; i < c->ninst; i++) if (c->inst[i].issued) created++;
            if (alloc < created) sim_probe(PR_HASH_RECYCLE);
        }
        parsec_hash_table_fini(c->ht);
        PARSEC_OBJ_RELEASE(c->ht);
    } else {
        parsec_destruct_dependencies(c->deparr[0]);
    }
    parsec_mempool_destruct(&c->vp->context_mempool);
    parsec_mempool_destruct(&c->vp->dependencies_mempool);
    free(c->vp);
    c->tp->super.dependencies_array = NULL; c->tp->super.task_classes_array = NULL;
    PARSEC_OBJ_DESTRUCT(&c->tp->super);
    free(c->tp);
    sim_resume();
}

static const hx_harness_t H = {
    .property = "C07", .name = "c07_deps", .opnames = opnames, .nopnames = OP_N,
    .est_steps = 2500, .max_steps = 4000000, .gen = gen, .run = run,
    .probe_names = probe_names, .nprobes = PR_N,
};
int main(int argc, char **argv) { return hx_main(argc, argv, &H); }
