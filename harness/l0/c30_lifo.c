/* C30: the lock-free LIFO is a linearizable stack (DESIGN 4, C30).
 * Real code: parsec/class/lifo.h (inline, through the instrumented shim) and the out-of-line
 * copy in parsec_lifo.c (variant=1).  Simulated: thread interleaving at every memory access. */
#include "../hx.h"
#include "../../oracle/lin.h"
#include "parsec/parsec_config.h"
#include "parsec/class/lifo.h"
#include <stdlib.h>
#include <string.h>

void shim_lifo_push(parsec_lifo_t *l, parsec_list_item_t *i);
void shim_lifo_chain(parsec_lifo_t *l, parsec_list_item_t *r);
parsec_list_item_t *shim_lifo_pop(parsec_lifo_t *l);
parsec_list_item_t *shim_lifo_try_pop(parsec_lifo_t *l);

enum { OP_PUSH, OP_CHAIN, OP_POP, OP_TRYPOP, OP_N };
static const char *const opnames[] = {"push", "chain", "pop", "trypop"};
enum { PR_TRYPOP_FAIL_NONEMPTY, PR_POP_EMPTY, PR_CHAIN, PR_REPUSH, PR_N };
static const char *const probe_names[] = {"trypop_failed_on_contention", "pop_on_empty", "chain_len_ge2", "popped_item_repushed"};

#define MAXI 64
typedef struct { parsec_list_item_t super; int id; int popped_once; } item_t;

typedef struct {
    const hx_plan_t *plan;
    parsec_lifo_t *lifo;
    item_t *items[MAXI];
    int nitems, variant;
    int owned[8][MAXI], nowned[8];
    lin_op_t hist[LIN_MAX_OPS];
    int nhist;
    hx_result_t *res;
} ctx_t;

static void do_push(ctx_t *c, parsec_list_item_t *i) { if (c->variant) parsec_lifo_push(c->lifo, i); else shim_lifo_push(c->lifo, i); }
static void do_chain(ctx_t *c, parsec_list_item_t *i) { if (c->variant) parsec_lifo_chain(c->lifo, i); else shim_lifo_chain(c->lifo, i); }
static parsec_list_item_t *do_pop(ctx_t *c) { return c->variant ? parsec_lifo_pop(c->lifo) : shim_lifo_pop(c->lifo); }
static parsec_list_item_t *do_trypop(ctx_t *c) { return c->variant ? parsec_lifo_try_pop(c->lifo) : shim_lifo_try_pop(c->lifo); }

static void worker(int t, void *arg)
{
    ctx_t *c = arg;
    for (int k = 0; k < c->plan->nops; k++) {
        const hx_op_t *o = &c->plan->ops[k];
        if (o->thr != t) continue;
        if (c->nhist >= LIN_MAX_OPS) break;
        lin_op_t h;
        memset(&h, 0, sizeof(h));
        h.thr = t; h.op = o->op; h.res = -1;
        switch (o->op) {
        case OP_PUSH: {
            if (!c->nowned[t]) continue;
            int pos = (int)(o->a % c->nowned[t]);
            int id = c->owned[t][pos];
            c->owned[t][pos] = c->owned[t][--c->nowned[t]];
            if (c->items[id]->popped_once) sim_probe(PR_REPUSH);
            h.arg[0] = id; h.narg = 1;
            h.inv = sim_stamp();
            do_push(c, &c->items[id]->super);
            h.ret = sim_stamp();
            break;
        }
        case OP_CHAIN: {
            int n = (int)(1 + o->a % 3);
            if (n > c->nowned[t]) n = c->nowned[t];
            if (!n) continue;
            if (n >= 2) sim_probe(PR_CHAIN);
            parsec_list_item_t *ring = NULL;
            for (int j = 0; j < n; j++) {
                int id = c->owned[t][--c->nowned[t]];
                h.arg[h.narg++] = id;
                parsec_list_item_t *it = &c->items[id]->super;
                /* build ring by hand: ring order arg[0] (head) .. arg[n-1] (tail) */
                if (!ring) { ring = it; it->list_next = it; it->list_prev = it; }
                else {
                    parsec_list_item_t *tail = (parsec_list_item_t *)ring->list_prev;
                    tail->list_next = it; it->list_prev = tail; it->list_next = ring; ring->list_prev = it;
                }
            }
            h.inv = sim_stamp();
            do_chain(c, ring);
            h.ret = sim_stamp();
            break;
        }
        case OP_POP:
        case OP_TRYPOP: {
            h.inv = sim_stamp();
            parsec_list_item_t *it = o->op == OP_POP ? do_pop(c) : do_trypop(c);
            h.ret = sim_stamp();
            if (it) {
                item_t *x = (item_t *)it;
                int id = x->id;
                if (id < 0 || id >= c->nitems || c->items[id] != x) { hx_fail(c->res, "garbage-element", "pop returned a pointer that is not an item"); return; }
                /* ownership check: nobody else may own it */
                for (int tt = 0; tt < 8; tt++) for (int j = 0; j < c->nowned[tt]; j++)
                    if (c->owned[tt][j] == id) { hx_fail(c->res, "duplicate-element", "item %d popped by thread %d while owned by thread %d", id, t, tt); return; }
                x->popped_once = 1;
                c->owned[t][c->nowned[t]++] = id;
                h.res = id;
            } else if (o->op == OP_POP) sim_probe(PR_POP_EMPTY);
            break;
        }
        default: continue;
        }
        c->hist[c->nhist++] = h;
    }
}

/* ---- sequential stack model ---- */
typedef struct { int n; signed char s[MAXI]; } stk_t;
static void m_init(void *st, void *ctx)
{
    ctx_t *c = ctx;
    stk_t *s = st;
    memset(s, 0, sizeof(*s));
    int n0 = (int)hx_knob(c->plan, "initial", 0);
    for (int i = 0; i < n0; i++) s->s[s->n++] = (signed char)i;   /* item i pushed i-th: top = n0-1 */
}
static int m_apply(void *st, const lin_op_t *op, void *ctx)
{
    (void)ctx;
    stk_t *s = st;
    switch (op->op) {
    case OP_PUSH: s->s[s->n++] = (signed char)op->arg[0]; return 1;
    case OP_CHAIN: for (int j = op->narg - 1; j >= 0; j--) s->s[s->n++] = (signed char)op->arg[j]; return 1;
    case OP_POP:
        if (op->res < 0) return s->n == 0;
        if (!s->n || s->s[s->n - 1] != op->res) return 0;
        s->n--; return 1;
    case OP_TRYPOP:
        if (op->res < 0) return s->n == 0 || op->overlapped;
        if (!s->n || s->s[s->n - 1] != op->res) return 0;
        s->n--; return 1;
    }
    return 0;
}
static uint64_t m_hash(const void *st, void *ctx)
{
    (void)ctx;
    const stk_t *s = st;
    uint64_t h = 0xcbf29ce484222325ULL ^ (uint64_t)s->n;
    for (int i = 0; i < s->n; i++) h = (h ^ (uint64_t)(s->s[i] + 1)) * 0x100000001b3ULL;
    return h;
}
static stk_t final_obs;
static int m_final(const void *st, void *ctx)
{
    (void)ctx;
    const stk_t *s = st;
    return s->n == final_obs.n && !memcmp(s->s, final_obs.s, (size_t)s->n);
}
static const lin_model_t model = {sizeof(stk_t), m_init, m_apply, m_hash};

static void gen(hx_plan_t *p, hx_rng_t *r)
{
    int T = (int)hx_range(r, 2, 4);
    int per = (int)hx_range(r, 1, 3);
    int init = (int)hx_range(r, 0, 4);
    hx_set_knob(p, "threads", T);
    hx_set_knob(p, "initial", init);
    hx_set_knob(p, "per_thread", per);
    hx_set_knob(p, "variant", hx_below(r, 4) == 0);
    int nops = (int)hx_range(r, 4, 22);
    for (int i = 0; i < nops; i++) {
        int t = (int)hx_below(r, T);
        int k = (int)hx_below(r, 100);
        int op = k < 35 ? OP_PUSH : k < 45 ? OP_CHAIN : k < 80 ? OP_POP : OP_TRYPOP;
        hx_add_op(p, t, op, hx_below(r, 1000), 0, 0);
    }
}

static void run(const hx_plan_t *p, hx_result_t *res)
{
    static ctx_t c;
    memset(&c, 0, sizeof(c));
    c.plan = p; c.res = res;
    c.variant = (int)hx_knob(p, "variant", 0);
    int T = (int)hx_knob(p, "threads", 2), init = (int)hx_knob(p, "initial", 0), per = (int)hx_knob(p, "per_thread", 1);
    if (T > 8) T = 8;
    c.nitems = init + T * per;
    if (c.nitems > MAXI) { res->discard = 1; res->discard_why = "too-many-items"; return; }
    c.lifo = PARSEC_OBJ_NEW(parsec_lifo_t);
    for (int i = 0; i < c.nitems; i++) {
        c.items[i] = (item_t *)calloc(1, sizeof(item_t));
        PARSEC_OBJ_CONSTRUCT(&c.items[i]->super, parsec_list_item_t);
        c.items[i]->id = i;
    }
    for (int i = 0; i < init; i++) shim_lifo_push(c.lifo, &c.items[i]->super);
    for (int t = 0; t < T; t++) for (int j = 0; j < per; j++) c.owned[t][c.nowned[t]++] = init + t * per + j;
    hx_run_threads(T, worker, &c);
    sim_pause();
    /* drain and check conservation */
    memset(&final_obs, 0, sizeof(final_obs));
    int seen[MAXI] = {0};
    if (!res->vclass) {
        int rev[MAXI], n = 0;
        parsec_list_item_t *it;
        int guard = 0;
        while ((it = parsec_lifo_pop(c.lifo)) != NULL && guard++ < 4 * MAXI) {
            item_t *x = (item_t *)it;
            if (x->id < 0 || x->id >= c.nitems || c.items[x->id] != x) { hx_fail(res, "garbage-element", "drain found a non-item"); break; }
            if (seen[x->id]++) { hx_fail(res, "duplicate-element", "item %d is in the LIFO twice at the end", x->id); break; }
            if (n < MAXI) rev[n++] = x->id;
        }
        if (guard >= 4 * MAXI) hx_fail(res, "duplicate-element", "LIFO contains a cycle at the end");
        for (int i = 0; i < n; i++) final_obs.s[i] = (signed char)rev[n - 1 - i];
        final_obs.n = n;
        for (int t = 0; t < T && !res->vclass; t++) for (int j = 0; j < c.nowned[t]; j++)
            if (seen[c.owned[t][j]]++) { hx_fail(res, "duplicate-element", "item %d both owned by thread %d and elsewhere at the end", c.owned[t][j], t); break; }
        for (int i = 0; i < c.nitems && !res->vclass; i++)
            if (!seen[i]) hx_fail(res, "lost-element", "item %d is neither in the LIFO nor owned by a thread at the end", i);
    }
    for (int i = 0; i < c.nhist; i++) {
        lin_op_t *h = &c.hist[i];
        hx_hash(res, ((uint64_t)h->thr << 56) ^ ((uint64_t)h->op << 48) ^ ((uint64_t)(h->res + 1) << 32) ^ (uint64_t)h->arg[0]);
        if (h->op == OP_TRYPOP && h->res < 0) {
            /* count contention failures */
        }
    }
    if (!res->vclass) {
        int r = lin_check(&model, c.hist, c.nhist, &c, 2000000, m_final, NULL);
        if (r == 0) hx_fail(res, "non-linearizable", "history of %d ops has no linearization against the stack model", c.nhist);
        else if (r < 0) { res->discard = 1; res->discard_why = "checker-budget"; }
        else for (int i = 0; i < c.nhist; i++) if (c.hist[i].op == OP_TRYPOP && c.hist[i].res < 0 && c.hist[i].overlapped) sim_probe(PR_TRYPOP_FAIL_NONEMPTY);
    }
    sim_resume();
    for (int i = 0; i < c.nitems; i++) free(c.items[i]);
    PARSEC_OBJ_RELEASE(c.lifo);
}

static const hx_harness_t H = {
    .property = "C30", .name = "c30_lifo", .opnames = opnames, .nopnames = OP_N,
    .est_steps = 1500, .max_steps = 2000000, .gen = gen, .run = run,
    .probe_names = probe_names, .nprobes = PR_N,
};
int main(int argc, char **argv) { return hx_main(argc, argv, &H); }
