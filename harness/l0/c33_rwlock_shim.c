/* instrumented shim for C33.  The read-write lock is out of line (parsec/class/parsec_rwlock.c,
 * instrumented inside libparsec_b.a); the shim only adds the call sites and the two ways of
 * initialising a lock (run-time init and the static initialiser macro).  No logic here. */
#include "parsec/parsec_config.h"
#include "parsec/class/parsec_rwlock.h"

void shim_rw_init(parsec_atomic_rwlock_t *L) { parsec_atomic_rwlock_init(L); }
void shim_rw_static_init(parsec_atomic_rwlock_t *L)
{
    parsec_atomic_rwlock_t u = PARSEC_RWLOCK_UNLOCKED;
    *L = u;
}
void shim_rw_rdlock(parsec_atomic_rwlock_t *L) { parsec_atomic_rwlock_rdlock(L); }
void shim_rw_rdunlock(parsec_atomic_rwlock_t *L) { parsec_atomic_rwlock_rdunlock(L); }
void shim_rw_wrlock(parsec_atomic_rwlock_t *L) { parsec_atomic_rwlock_wrlock(L); }
void shim_rw_wrunlock(parsec_atomic_rwlock_t *L) { parsec_atomic_rwlock_wrunlock(L); }
