/* C37 driver: instrumented, linked once per simulated rank together with all of libparsec and renamed
 * (build_ranked), so every rank owns a private copy of parsec.c's registry statics (taskpool_array,
 * taskpool_array_size, taskpool_array_pos, taskpool_array_lock: all statically initialised, parsec_init
 * does nothing for them) and of the code that works on them.  Free of logic: one function per registry
 * operation, handed to the (plain, shared) harness through the table filled by rank_main.
 *
 * The table layout is duplicated in c37_tpid.c (c37_api_t) -- keep both in sync. */
#include "parsec/runtime.h"
#include "parsec/parsec_internal.h"
#include <mpi.h>
#include <stdlib.h>

typedef struct c37_api {
    void *(*tp_new)(void);
    void (*tp_free)(void *tp);
    long (*tp_id)(void *tp);
    int (*reserve)(void *tp);
    int (*reg)(void *tp);
    void (*unreg)(void *tp);
    void *(*lookup)(unsigned id);
    void (*sync)(void);
    void (*mpi_init)(void);
} c37_api_t;

/* a fake taskpool: only the fields the registry functions touch (taskpool_id; taskpool_name in a debug
 * message that is compiled out; tdm.module in an assert) -- initialised like parsec_taskpool_t's constructor */
static void *d_tp_new(void)
{
    parsec_taskpool_t *tp = calloc(1, sizeof(parsec_taskpool_t));
    tp->taskpool_id = (uint32_t)-1;
    tp->taskpool_name = (char *)"c37";
    return tp;
}
static void d_tp_free(void *tp) { free(tp); }
static long d_tp_id(void *tp) { return (long)((parsec_taskpool_t *)tp)->taskpool_id; }
static int d_reserve(void *tp) { return parsec_taskpool_reserve_id((parsec_taskpool_t *)tp); }
static int d_register(void *tp) { return parsec_taskpool_register((parsec_taskpool_t *)tp); }
static void d_unregister(void *tp) { parsec_taskpool_unregister((parsec_taskpool_t *)tp); }
static void *d_lookup(unsigned id) { return parsec_taskpool_lookup((uint32_t)id); }
static void d_sync(void) { parsec_taskpool_sync_ids(); }
static void d_mpi_init(void) { int prov; MPI_Init_thread(NULL, NULL, MPI_THREAD_MULTIPLE, &prov); }

void *rank_main(void *arg)
{
    c37_api_t *a = arg;
    a->tp_new = d_tp_new; a->tp_free = d_tp_free; a->tp_id = d_tp_id;
    a->reserve = d_reserve; a->reg = d_register; a->unreg = d_unregister;
    a->lookup = d_lookup; a->sync = d_sync; a->mpi_init = d_mpi_init;
    return NULL;
}
