/* C25: data repository entries are reclaimed exactly when unused (DESIGN 4, C25).
 * Real code (instrumented): parsec/datarepo.c, parsec/class/parsec_hash_table.c (bucket locks, resize),
 * parsec/mempool.c + mempool.h / lifo.h as inlined into datarepo.c.  Private fake execution streams (only
 * es->datarepo_mempools[nbdata] is used by the repository) -- no parsec_init.
 * Simulated: thread interleaving of 2-4 sim-threads.
 *
 * Legal-client discipline (DESIGN 3.6): a "pair" is one lookup_entry_and_create + one addto_usage_limit(n) by
 * the same thread; a use of a pair is issued only after the pair's create returned and at most n uses per pair
 * are ever issued; 1-3 pairs per key.  What the plan leaves undone is completed at the end (each thread
 * announces its own open pairs, thread 0 performs the remaining uses), so every run ends with every key unused.
 *
 * Oracle:
 *  - token holders (a thread about to announce or to use) look the key up first: the entry must be found, carry
 *    the key, not sit in any mempool free list, and still carry the tag the creator of that pair wrote into
 *    e->data[slot] (a reclaimed-and-recreated entry has its data[] zeroed): "entry-missing", "reclaimed-while-in-use",
 *    "premature-reclaim";
 *  - the history of create/addto/used_once/lookup calls (invoke/return stamps, returned entry pointers) must be
 *    linearizable (WGL) against the sequential repository model {exists, retained, usagecnt, usagelmt} per key, in
 *    which an entry disappears exactly when usagecnt == usagelmt and retained == 0, a create on an existing
 *    entry returns that entry, and a create of a new entry never returns an entry that is still in the table;
 *    the linearization must end in the observed final table content;
 *  - at the end (every pair announced, every announced use done) no key may be found ("not-reclaimed"), every
 *    element the thread-mempools ever created is back in exactly one free list, once ("double-reclaim",
 *    "reclaim-count").
 */
#define BUILDING_PARSEC 1 /* layout of parsec_lifo_t (this file stays uninstrumented) */
#include "../hx.h"
#include "../../oracle/lin.h"
#include "parsec/parsec_config.h"
#include "parsec/parsec_internal.h"
#include "parsec/execution_stream.h"
#include "parsec/datarepo.h"
#include "parsec/mempool.h"
#include "parsec/class/lifo.h"
#include <stdlib.h>
#include <string.h>

data_repo_entry_t *shim_repo_create(parsec_execution_stream_t *es, data_repo_t *r, parsec_key_t k);
void shim_repo_addto(data_repo_t *r, parsec_key_t k, uint32_t n);
void shim_repo_used_once(data_repo_t *r, parsec_key_t k);
data_repo_entry_t *shim_repo_lookup(data_repo_t *r, parsec_key_t k);

enum { OP_CREATE, OP_ADDTO, OP_USE, OP_LOOKUP, OP_N };
static const char *const opnames[] = {"create", "addto", "use", "lookup"};
enum { PR_CREATE_EXISTING, PR_RECLAIM_BY_USE, PR_RECLAIM_BY_ADDTO, PR_USE_BEFORE_ADDTO, PR_RECREATED, PR_LOOKUP_NULL, PR_RESIZED, PR_ENTRY_RECYCLED, PR_RETAINED2, PR_ZERO_LIMIT, PR_N };
static const char *const probe_names[] = {"create_found_existing_entry", "reclaimed_by_last_use", "reclaimed_by_addto", "use_before_its_addto",
    "key_recreated_after_reclaim", "plain_lookup_returned_null", "hash_table_resized", "mempool_element_reused_for_new_entry", "two_creators_retain_at_once", "pair_with_zero_uses"};

#define MAXP 8
#define MAXK 3
#define MAXT 5      /* 4 workers + the main thread */
#define NBDATA 4
#define MAXN 8
#define MAXENT 64
typedef struct { int key, creator, n, slot, created, announced, issued; data_repo_entry_t *e; } pair_t;
typedef struct { unsigned char exists[MAXK], retained[MAXK], cnt[MAXK], lmt[MAXK]; signed char ptr[MAXK]; } mstate_t;

typedef struct {
    const hx_plan_t *plan;
    hx_result_t *res;
    int T, nkeys, nnoise;
    data_repo_t *repo;
    parsec_mempool_t mp;
    parsec_execution_stream_t *es[MAXT];
    parsec_key_t keyval[MAXK], noisekey[MAXN];
    data_repo_entry_t *noise[MAXN];
    pair_t p[MAXP]; int np;
    int pairs_on_key[MAXK];
    int reclaimed_once[MAXK];
    data_repo_entry_t *ents[MAXENT]; int nents;
    lin_op_t hist[LIN_MAX_OPS]; int nhist; int overflow;
    uint32_t nb_bits0;
} ctx_t;
static ctx_t *G;
static mstate_t final_obs;

static void *TAG(ctx_t *c, pair_t *p) { return (void *)(uintptr_t)(0x7A600000u + (unsigned)(p - c->p) * 16u + 1u); }
static int ent_id(ctx_t *c, data_repo_entry_t *e)
{
    if (!e) return 0;
    for (int i = 0; i < c->nents; i++) if (c->ents[i] == e) return i + 1;
    if (c->nents >= MAXENT) return MAXENT;
    c->ents[c->nents++] = e;
    return c->nents;
}
static int in_free_list(ctx_t *c, const void *e)
{
    for (unsigned t = 0; t < c->mp.nb_thread_mempools; t++) {
        int n = 0;
        for (parsec_list_item_t *it = c->mp.thread_mempools[t].mempool.lifo_head.data.item; it && n < 4 * MAXENT; it = (parsec_list_item_t *)it->list_next, n++)
            if ((const void *)it == e) return 1;
    }
    return 0;
}
static lin_op_t *rec(ctx_t *c, int t, int op, int key, long arg1)
{
    static lin_op_t dummy;
    if (c->nhist >= LIN_MAX_OPS) { c->overflow = 1; return &dummy; }
    lin_op_t *h = &c->hist[c->nhist++];
    memset(h, 0, sizeof(*h));
    h->thr = t; h->op = op; h->arg[0] = key; h->arg[1] = arg1; h->narg = 2; h->res = -1;
    return h;
}

/* lookup by a thread that holds a token of pair p (an un-announced create or an announced, unused use) */
static int holder_lookup(ctx_t *c, int t, pair_t *p, const char *what)
{
    hx_result_t *res = c->res;
    lin_op_t *h = rec(c, t, OP_LOOKUP, p->key, 0);
    h->inv = sim_stamp();
    data_repo_entry_t *e = shim_repo_lookup(c->repo, c->keyval[p->key]);
    h->ret = sim_stamp();
    h->res = ent_id(c, e);
    if (!e) { hx_fail(res, "entry-missing", "thread %d is about to %s pair %d of key %d but the entry is not findable (n=%d, issued=%d, announced=%d)", t, what, (int)(p - c->p), p->key, p->n, p->issued, p->announced); return 0; }
    if (e->ht_item.key != c->keyval[p->key]) { hx_fail(res, "wrong-entry", "lookup of key %d returned an entry with another key", p->key); return 0; }
    if (in_free_list(c, e)) { hx_fail(res, "reclaimed-while-in-use", "thread %d is about to %s pair %d of key %d: the entry found sits in a mempool free list", t, what, (int)(p - c->p), p->key); return 0; }
    if ((void *)e->data[p->slot] != TAG(c, p)) {
        hx_fail(res, "premature-reclaim", "thread %d is about to %s pair %d of key %d: the entry found does not carry the creator's tag in data[%d] (it was reclaimed and re-created while this pair still held it)", t, what, (int)(p - c->p), p->key, p->slot);
        return 0;
    }
    return 1;
}

static void do_create(ctx_t *c, int t, int key, int n)
{
    hx_result_t *res = c->res;
    if (c->np >= MAXP) return;
    if (c->pairs_on_key[key] >= 3) { int k2 = -1; for (int k = 0; k < c->nkeys; k++) if (c->pairs_on_key[k] < 3) { k2 = k; break; } if (k2 < 0) return; key = k2; }
    pair_t *p = &c->p[c->np++];
    *p = (pair_t){key, t, n, c->pairs_on_key[key]++, 0, 0, 0, NULL};
    if (n == 0) sim_probe(PR_ZERO_LIMIT);
    lin_op_t *h = rec(c, t, OP_CREATE, key, 0);
    h->inv = sim_stamp();
    data_repo_entry_t *e = shim_repo_create(c->es[t], c->repo, c->keyval[key]);
    h->ret = sim_stamp();
    int known = 0;
    for (int i = 0; i < c->nents; i++) known |= c->ents[i] == e;
    h->res = ent_id(c, e);
    if (!e) { hx_fail(res, "garbage-entry", "lookup_entry_and_create returned NULL"); return; }
    for (int i = 0; i < c->nnoise; i++) if (c->noise[i] == e) { hx_fail(res, "double-handout", "create of key %d returned the entry of a retained bystander key", key); return; }
    if (e->ht_item.key != c->keyval[key]) { hx_fail(res, "wrong-entry", "create of key %d returned an entry with another key", key); return; }
    if (in_free_list(c, e)) { hx_fail(res, "reclaimed-while-in-use", "create of key %d returned an entry that sits in a mempool free list", key); return; }
    if (e->retained < 1) { hx_fail(res, "not-retained", "create of key %d returned an entry with retained=%d", key, e->retained); return; }
    /* probes */
    int other = 0;
    for (int i = 0; i < c->np - 1; i++) if (c->p[i].key == key && c->p[i].e == e && c->p[i].created && !c->p[i].announced) other = 1;
    if (other) sim_probe(PR_RETAINED2);
    int tagged = 0;
    for (int s = 0; s < NBDATA; s++) tagged |= e->data[s] != NULL;
    if (tagged) sim_probe(PR_CREATE_EXISTING);
    else { if (known) sim_probe(PR_ENTRY_RECYCLED); if (p->slot > 0) sim_probe(PR_RECREATED); }
    e->data[p->slot] = TAG(c, p);
    p->e = e;
    p->created = 1;
}
static void do_addto(ctx_t *c, int t, pair_t *p)
{
    if (!holder_lookup(c, t, p, "announce")) return;
    lin_op_t *h = rec(c, t, OP_ADDTO, p->key, p->n);
    p->announced = 1;      /* at invoke: from now on the retain of this pair may be gone at any instant */
    h->inv = sim_stamp();
    shim_repo_addto(c->repo, c->keyval[p->key], (uint32_t)p->n);
    h->ret = sim_stamp();
}
static void do_use(ctx_t *c, int t, pair_t *p)
{
    p->issued++;           /* the token is taken before anything else: never more uses than announced */
    if (!p->announced) sim_probe(PR_USE_BEFORE_ADDTO);
    if (!holder_lookup(c, t, p, "use")) return;
    lin_op_t *h = rec(c, t, OP_USE, p->key, 0);
    h->inv = sim_stamp();
    shim_repo_used_once(c->repo, c->keyval[p->key]);
    h->ret = sim_stamp();
}

static void worker(int t, void *arg)
{
    ctx_t *c = arg;
    hx_result_t *res = c->res;
    for (int k = 0; k < c->plan->nops; k++) {
        const hx_op_t *o = &c->plan->ops[k];
        if (o->thr != t) continue;
        if (res->vclass || c->overflow) return;
        switch (o->op) {
        case OP_CREATE: do_create(c, t, (int)(o->a % c->nkeys), (int)(o->b % 4)); break;
        case OP_ADDTO: {
            pair_t *cand[MAXP]; int nc = 0;
            for (int i = 0; i < c->np; i++) if (c->p[i].creator == t && c->p[i].created && !c->p[i].announced) cand[nc++] = &c->p[i];
            if (nc) do_addto(c, t, cand[o->a % nc]);
            break;
        }
        case OP_USE: {
            pair_t *cand[MAXP]; int nc = 0;
            for (int i = 0; i < c->np; i++) if (c->p[i].created && c->p[i].issued < c->p[i].n) cand[nc++] = &c->p[i];
            if (nc) do_use(c, t, cand[o->a % nc]);
            break;
        }
        case OP_LOOKUP: {
            int key = (int)(o->a % c->nkeys);
            lin_op_t *h = rec(c, t, OP_LOOKUP, key, 0);
            h->inv = sim_stamp();
            data_repo_entry_t *e = shim_repo_lookup(c->repo, c->keyval[key]);
            h->ret = sim_stamp();
            h->res = ent_id(c, e);
            if (!e) sim_probe(PR_LOOKUP_NULL);
            break;
        }
        default: break;
        }
    }
    /* the creator itself must announce every pair it opened */
    for (int i = 0; i < c->np && !res->vclass && !c->overflow; i++)
        if (c->p[i].creator == t && c->p[i].created && !c->p[i].announced) do_addto(c, t, &c->p[i]);
}

/* ---- sequential model ---- */
static void m_init(void *st, void *ctx) { (void)ctx; memset(st, 0, sizeof(mstate_t)); }
static void m_reclaim(mstate_t *s, int k) { if (s->cnt[k] == s->lmt[k] && s->retained[k] == 0) { s->exists[k] = 0; s->ptr[k] = 0; s->cnt[k] = s->lmt[k] = 0; } }
static int m_apply(void *st, const lin_op_t *op, void *ctx)
{
    (void)ctx;
    mstate_t *s = st;
    int k = (int)op->arg[0];
    switch (op->op) {
    case OP_CREATE:
        if (op->res <= 0) return 0;
        if (s->exists[k]) { if (s->ptr[k] != op->res) return 0; s->retained[k]++; return 1; }
        for (int j = 0; j < MAXK; j++) if (s->exists[j] && s->ptr[j] == op->res) return 0;   /* an entry still in the table handed out again */
        s->exists[k] = 1; s->ptr[k] = (signed char)op->res; s->retained[k] = 1; s->cnt[k] = s->lmt[k] = 0;
        return 1;
    case OP_ADDTO:
        if (!s->exists[k] || !s->retained[k]) return 0;
        s->lmt[k] = (unsigned char)(s->lmt[k] + op->arg[1]); s->retained[k]--;
        m_reclaim(s, k);
        return 1;
    case OP_USE:
        if (!s->exists[k]) return 0;
        s->cnt[k]++;
        m_reclaim(s, k);
        return 1;
    case OP_LOOKUP:
        return s->exists[k] ? op->res == s->ptr[k] : op->res == 0;
    }
    return 0;
}
static uint64_t m_hash(const void *st, void *ctx)
{
    (void)ctx;
    const unsigned char *b = st;
    uint64_t h = 0xcbf29ce484222325ULL;
    for (size_t i = 0; i < sizeof(mstate_t); i++) h = (h ^ b[i]) * 0x100000001b3ULL;
    return h;
}
static int m_final(const void *st, void *ctx)
{
    ctx_t *c = ctx;
    const mstate_t *s = st;
    for (int k = 0; k < c->nkeys; k++) if (s->exists[k] != final_obs.exists[k] || (s->exists[k] && s->ptr[k] != final_obs.ptr[k])) return 0;
    return 1;
}
static const lin_model_t model = {sizeof(mstate_t), m_init, m_apply, m_hash};

static void gen(hx_plan_t *p, hx_rng_t *r)
{
    int T = (int)hx_range(r, 2, 4);
    int nkeys = hx_chance(r, 55) ? 1 : hx_chance(r, 75) ? 2 : 3;
    hx_set_knob(p, "threads", T);
    hx_set_knob(p, "keys", nkeys);
    hx_set_knob(p, "noise", hx_chance(r, 50) ? 0 : hx_range(r, 1, MAXN));
    hx_set_knob(p, "hash_hint", 1 << hx_below(r, 4));          /* 1,2,4,8 -> 2..8 buckets */
    hx_set_knob(p, "collisions", hx_chance(r, 50) ? hx_range(r, 1, 2) : 16);
    hx_set_knob(p, "keybase", hx_below(r, 1000));
    /* build the op multiset: per key 1-3 pairs, per pair create + addto (same thread, in this order) + n uses */
    typedef struct { int thr, op; long a, b; } gop_t;
    gop_t ops[80]; int n = 0;
    int seq_thr[16], seq_n[16], seq_key[16], npairs = 0;
    for (int k = 0; k < nkeys; k++) {
        int np = (int)hx_range(r, 1, 3);
        if (nkeys == 3 && np == 3) np = 2;    /* MAXP */
        for (int j = 0; j < np; j++) { seq_thr[npairs] = (int)hx_below(r, T); seq_n[npairs] = (int)hx_below(r, 4); seq_key[npairs] = k; npairs++; }
    }
    int uses = 0;
    for (int i = 0; i < npairs; i++) uses += seq_n[i];
    int nl = (int)hx_range(r, 0, 4);
    /* random order of: creates, addtos (explicit ones for ~70% of the pairs, the rest is announced at thread end), uses, lookups */
    int ncreate = npairs, naddto = 0;
    for (int i = 0; i < npairs; i++) naddto += hx_chance(r, 70);
    int pc = 0;
    while (ncreate + naddto + uses + nl > 0 && n < 80) {
        long tot = ncreate + naddto + uses + nl, x = hx_below(r, tot);
        if (x < ncreate) { ops[n++] = (gop_t){seq_thr[pc], OP_CREATE, seq_key[pc], seq_n[pc]}; pc++; ncreate--; }
        else if (x < ncreate + naddto) { ops[n++] = (gop_t){seq_thr[hx_below(r, npairs)], OP_ADDTO, hx_below(r, 1000), 0}; naddto--; }
        else if (x < ncreate + naddto + uses) { ops[n++] = (gop_t){(int)hx_below(r, T), OP_USE, hx_below(r, 1000), 0}; uses--; }
        else { ops[n++] = (gop_t){(int)hx_below(r, T), OP_LOOKUP, hx_below(r, 1000), 0}; nl--; }
    }
    for (int i = 0; i < n; i++) hx_add_op(p, ops[i].thr, ops[i].op, ops[i].a, ops[i].b, 0);
}

static void run(const hx_plan_t *p, hx_result_t *res)
{
    static ctx_t c;
    memset(&c, 0, sizeof(c));
    G = &c;
    c.plan = p; c.res = res;
    c.T = (int)hx_knob(p, "threads", 2);
    int mt = hx_max_thread(p);
    if (mt >= c.T) c.T = mt + 1;
    if (c.T < 1) c.T = 1;
    if (c.T > MAXT - 1) c.T = MAXT - 1;
    c.nkeys = (int)hx_knob(p, "keys", 1);
    if (c.nkeys < 1) c.nkeys = 1;
    if (c.nkeys > MAXK) c.nkeys = MAXK;
    c.nnoise = (int)hx_knob(p, "noise", 0);
    if (c.nnoise > MAXN) c.nnoise = MAXN;
    if (c.nnoise < 0) c.nnoise = 0;
    long kb = hx_knob(p, "keybase", 0);
    for (int k = 0; k < c.nkeys; k++) c.keyval[k] = (parsec_key_t)(kb * 7 + 1 + k);
    for (int i = 0; i < c.nnoise; i++) c.noisekey[i] = (parsec_key_t)(kb * 7 + 100 + i * 3);
    const int M = c.T;    /* index of the main thread's stream / thread-mempool */

    sim_pause();
    c.repo = data_repo_create_nothreadsafe((unsigned)hx_knob(p, "hash_hint", 2), parsec_hash_table_generic_key_fn, NULL, NBDATA);
    /* parsec_hash_tables_init() (MCA registration) is part of parsec_init; set what it would have set */
    c.repo->table.max_collisions_hint = (int)hx_knob(p, "collisions", 16);
    if (c.repo->table.max_collisions_hint < 1) c.repo->table.max_collisions_hint = 1;   /* 0 = grow on every insertion up to the cap */
    c.repo->table.max_table_nb_bits = 8;     /* tables of at most 128 buckets: keeps a run short */
    c.repo->table.warning_issued = 1;        /* the "table cannot grow" warning goes through parsec_warning, whose first call
                                              * in a process performs lazy initialisation: a run would depend on earlier runs */
    c.nb_bits0 = c.repo->table.rw_hash->nb_bits;
    parsec_mempool_construct(&c.mp, NULL, sizeof(data_repo_entry_t) + (NBDATA - 1) * sizeof(void *), offsetof(data_repo_entry_t, data_repo_mempool_owner), (unsigned)(c.T + 1));
    for (int t = 0; t <= c.T; t++) {
        c.es[t] = calloc(1, sizeof(parsec_execution_stream_t));
        c.es[t]->th_id = t;
        c.es[t]->datarepo_mempools[NBDATA] = &c.mp.thread_mempools[t];
    }
    /* bystander keys: retained for the whole run (populate the buckets, provoke resizes, must never be handed out again) */
    for (int i = 0; i < c.nnoise && !res->vclass; i++) {
        c.noise[i] = shim_repo_create(c.es[M], c.repo, c.noisekey[i]);
        if (!c.noise[i] || shim_repo_lookup(c.repo, c.noisekey[i]) != c.noise[i]) hx_fail(res, "entry-missing", "bystander key %d not findable right after its creation", i);
    }
    sim_resume();

    if (!res->vclass) hx_run_threads(c.T, worker, &c);

    sim_pause();
    /* complete the remaining uses (every pair is announced by now) */
    for (int i = 0; i < c.np && !res->vclass && !c.overflow; i++)
        while (c.p[i].created && c.p[i].issued < c.p[i].n && !res->vclass && !c.overflow) do_use(&c, M, &c.p[i]);
    if (c.repo->table.rw_hash->nb_bits != c.nb_bits0) sim_probe(PR_RESIZED);
    if (c.overflow && !res->vclass) { res->discard = 1; res->discard_why = "history-too-long"; }
    memset(&final_obs, 0, sizeof(final_obs));
    if (!res->vclass && !res->discard) {
        /* bystanders: still there, untouched; release them */
        for (int i = 0; i < c.nnoise && !res->vclass; i++) {
            if (shim_repo_lookup(c.repo, c.noisekey[i]) != c.noise[i]) { hx_fail(res, "entry-missing", "retained bystander key %d is no longer findable", i); break; }
            shim_repo_addto(c.repo, c.noisekey[i], 0);
            if (shim_repo_lookup(c.repo, c.noisekey[i]) != NULL) { hx_fail(res, "not-reclaimed", "bystander key %d still findable after its only creator announced 0 uses", i); break; }
        }
        for (int k = 0; k < c.nkeys && !res->vclass; k++) {
            data_repo_entry_t *e = shim_repo_lookup(c.repo, c.keyval[k]);
            final_obs.exists[k] = e != NULL;
            final_obs.ptr[k] = (signed char)ent_id(&c, e);
            if (e && c.pairs_on_key[k]) {
                int done = 1;
                for (int i = 0; i < c.np; i++) if (c.p[i].key == k && !(c.p[i].created && c.p[i].announced && c.p[i].issued == c.p[i].n)) done = 0;
                if (done) hx_fail(res, "not-reclaimed", "key %d: every creator announced its limit and every announced use happened, but the entry is still in the repository (usagecnt=%d usagelmt=%d retained=%d)", k, e->usagecnt, e->usagelmt, e->retained);
            }
        }
    }
    for (int i = 0; i < c.nhist; i++) {
        lin_op_t *h = &c.hist[i];
        hx_hash(res, ((uint64_t)h->thr << 56) ^ ((uint64_t)h->op << 48) ^ ((uint64_t)h->arg[0] << 40) ^ ((uint64_t)(h->res + 1) << 8) ^ (uint64_t)h->arg[1]);
    }
    /* mempool conservation: every element ever created is in exactly one free list, once (or still in the table) */
    if (!res->vclass && !res->discard) {
        int pop = 0, in_table = 0;
        uint64_t created = 0;
        const void *seen[4 * MAXENT];
        for (int k = 0; k < c.nkeys; k++) in_table += final_obs.exists[k];
        for (int t = 0; t <= c.T && !res->vclass; t++) {
            created += c.mp.thread_mempools[t].nb_elt;
            int n = 0;
            for (parsec_list_item_t *it = c.mp.thread_mempools[t].mempool.lifo_head.data.item; it; it = (parsec_list_item_t *)it->list_next) {
                if (++n > 2 * MAXENT || pop >= 4 * MAXENT) { hx_fail(res, "double-reclaim", "free list of thread-mempool %d does not terminate (an entry was pushed twice)", t); break; }
                for (int j = 0; j < pop; j++) if (seen[j] == (const void *)it) { hx_fail(res, "double-reclaim", "an entry is in the mempool free lists twice"); break; }
                if (res->vclass) break;
                if (((data_repo_entry_t *)it)->data_repo_mempool_owner != &c.mp.thread_mempools[t]) { hx_fail(res, "double-reclaim", "an entry of another thread-mempool sits in the free list of thread-mempool %d", t); break; }
                seen[pop++] = it;
            }
        }
        if (!res->vclass && (uint64_t)(pop + in_table) != created)
            hx_fail(res, "reclaim-count", "%llu entries were created by the mempools, %d are back in the free lists and %d are in the repository", (unsigned long long)created, pop, in_table);
    }
    if (!res->vclass && !res->discard) {
        int r = lin_check(&model, c.hist, c.nhist, &c, 3000000, m_final, NULL);
        if (r == 0) hx_fail(res, "non-linearizable", "history of %d repository calls has no linearization against the model (entry gone early, kept too long, or handed out twice)", c.nhist);
        else if (r < 0) { res->discard = 1; res->discard_why = "checker-budget"; }
    }
    /* probes that need the whole history: which call made the entry disappear is visible from later results only;
     * approximate from the counters of pairs: last op kind per key in stamp order */
    if (!res->vclass && !res->discard) {
        for (int k = 0; k < c.nkeys; k++) {
            uint64_t last = 0; int lastop = -1;
            for (int i = 0; i < c.nhist; i++) if (c.hist[i].arg[0] == k && (c.hist[i].op == OP_USE || c.hist[i].op == OP_ADDTO) && c.hist[i].inv >= last) { last = c.hist[i].inv; lastop = c.hist[i].op; }
            if (lastop == OP_USE) sim_probe(PR_RECLAIM_BY_USE);
            if (lastop == OP_ADDTO) sim_probe(PR_RECLAIM_BY_ADDTO);
        }
    }
    /* after a violation the PaRSEC objects are leaked (they may be inconsistent) */
    if (!res->vclass) {
        int empty = 1;
        for (int k = 0; k < c.nkeys; k++) empty &= !final_obs.exists[k];
        if (empty && !res->discard) { data_repo_destroy_nothreadsafe(c.repo); parsec_mempool_destruct(&c.mp); }
    }
    sim_resume();
    for (int t = 0; t < MAXT; t++) free(c.es[t]);
    G = NULL;
}

static const hx_harness_t H = {
    .property = "C25", .name = "c25_datarepo", .opnames = opnames, .nopnames = OP_N,
    .est_steps = 1200, .max_steps = 4000000, .gen = gen, .run = run,
    .probe_names = probe_names, .nprobes = PR_N,
};
/* a crash inside a broken component (asserts are compiled out, so e.g. a vanished entry / index node is
 * dereferenced) is turned into a verdict of class "crash" by hx's signal handlers */
int main(int argc, char **argv) { return hx_main(argc, argv, &H); }
