/* C33: the runtime read-write lock excludes correctly and makes progress (DESIGN 4, C33).
 *
 * Real code: parsec/class/parsec_rwlock.c, the configured implementation (PARSEC_RWLOCK_IMPL,
 * currently the phase-fair ticket lock), unmodified and instrumented.  Simulated: the thread
 * scheduler (preemption at every access of the lock words), the clock and nanosleep (the lock's
 * back-off after 1000 spins).
 *
 * Workload: 2-6 sim-threads, each executing a list of complete lock cycles
 *     [pre-delay]  rdlock|wrlock   [hold: nothing / yield / simulated sleep]   rdunlock|wrunlock
 * on one of 1-2 locks.  Every op is a complete cycle, so any subset of the plan is a legal client.
 *
 * Safety oracle: occupancy counters kept by this (uninstrumented, hence atomic) file.  A thread
 * counts itself in immediately after the acquire call returns (no scheduling point in between)
 * and counts itself out immediately before it calls release.  The counted interval is therefore
 * a subset of the interval in which the thread really holds the lock, so two conflicting counted
 * intervals that overlap prove that the lock admitted a writer together with a writer or reader.
 *
 * Progress oracle ("no-progress"): the lock only spins (volatile polls, nanosleep(100ns) after
 * 1000 polls), so a lost hand-over never shows up as an all-blocked deadlock.  The main thread
 * monitors the per-thread phase.  State C := every worker is either finished or inside an
 * acquire call, and nobody is inside a critical section, between two ops or inside a release call.
 * In C the lock words can only be changed by the waiters themselves and every thread that ever
 * held the lock has completed its release, so any correct read-write lock (each of the four
 * implementations in parsec_rwlock.c) lets one of the waiters in after a handful of that
 * waiter's own steps.  We flag a violation only if C persists, with not a single acquisition
 * completing, for STUCK_STEPS (60000) scheduling points.  During such a period only waiters run;
 * every spinning waiter hits a forced decision point at every second poll (spin hint) or a
 * nanosleep, where the scheduler rotates (PCT: the yielding thread drops below all others; random
 * walk: uniform choice among the others; replay: round robin), so each of the <= 6 waiters
 * executes thousands of steps in the window -- a waiter starved for the whole window has
 * probability < 6 * (5/6)^10000 under random walk and is impossible under PCT / replay.  Thread
 * stalls (a waiter withheld for up to 10 ms simulated) would break that argument, so plans carry
 * sim_stalls=0 (a slow holder or a late arrival is produced by the plan's own delays instead) and
 * the no-progress verdict is disabled when stalls are switched on from the command line; such a
 * hang then ends in simcore's step budget and is only counted as "budget hit", never as a verdict.
 * The step budget (max_steps) is ~100x the longest legitimate run.
 *
 * Not checked: bounded bypass / phase fairness as such (on a finite workload "every waiter
 * eventually acquires" is equivalent to "the workload completes"); weak-memory effects (SC only).
 */
#include "../hx.h"
#include "parsec/parsec_config.h"
#include "parsec/class/parsec_rwlock.h"
#include <pthread.h>
#include <stdlib.h>
#include <string.h>

void shim_rw_init(parsec_atomic_rwlock_t *L);
void shim_rw_static_init(parsec_atomic_rwlock_t *L);
void shim_rw_rdlock(parsec_atomic_rwlock_t *L);
void shim_rw_rdunlock(parsec_atomic_rwlock_t *L);
void shim_rw_wrlock(parsec_atomic_rwlock_t *L);
void shim_rw_wrunlock(parsec_atomic_rwlock_t *L);

enum { OP_RD, OP_WR, OP_N };
static const char *const opnames[] = {"rd", "wr"};
enum { PR_SHARED, PR_W_WAIT_R, PR_R_WAIT_W, PR_W_WAIT_W, PR_R_BEHIND_W, PR_N };
static const char *const probe_names[] = {"two_readers_inside", "writer_arrived_while_readers_inside", "reader_arrived_while_writer_inside",
                                          "writer_arrived_while_writer_inside", "reader_arrived_while_reader_inside_and_writer_waiting"};

#define MAXT 6
#define MAXL 2
#define STUCK_STEPS 60000ULL
#define MONITOR_PERIOD_NS 4000ULL

enum { S_IDLE, S_ACQ_R, S_ACQ_W, S_IN, S_REL, S_DONE };

typedef struct {
    const hx_plan_t *plan;
    hx_result_t *res;
    int T, nlocks;
    parsec_atomic_rwlock_t *locks;  /* nlocks */
    int readers[MAXL], writers[MAXL];
    int rd_holder[MAXL], wr_holder[MAXL];   /* last thread counted in, for messages */
    int state[MAXT], state_lock[MAXT];
    uint64_t acquired;               /* completed acquisitions (progress counter) */
    int finished[MAXT];
} ctx_t;

static int never(void *a) { (void)a; return 0; }
static void park_forever(void) { sim_block_on(never, NULL, 0, "parked after violation"); }

static void hold(long a)
{
    switch (a % 6) {
    case 0: break;
    case 1: sim_yield(); break;
    case 2: sim_delay(100 + (uint64_t)(a % 7) * 60); break;
    case 3: sim_delay(1000 + (uint64_t)(a % 5) * 500); break;
    case 4: sim_yield(); sim_yield(); break;
    case 5: sim_delay(40); sim_yield(); break;
    }
}

static void worker(int t, void *arg)
{
    ctx_t *c = arg;
    for (int k = 0; k < c->plan->nops; k++) {
        const hx_op_t *o = &c->plan->ops[k];
        if (o->thr != t) continue;
        if (c->res->vclass) break;
        if (o->op != OP_RD && o->op != OP_WR) continue;
        int l = (int)(labs(o->c) % c->nlocks);
        parsec_atomic_rwlock_t *L = &c->locks[l];
        switch (labs(o->b) % 4) {           /* arrival time */
        case 1: sim_yield(); break;
        case 2: sim_delay(150 + (uint64_t)(labs(o->b) % 9) * 40); break;
        case 3: sim_delay(1200); break;
        default: break;
        }
        if (c->res->vclass) break;
        if (o->op == OP_RD) {
            if (c->writers[l]) sim_probe(PR_R_WAIT_W);
            if (c->readers[l]) for (int u = 0; u < c->T; u++) if (c->state[u] == S_ACQ_W && c->state_lock[u] == l) { sim_probe(PR_R_BEHIND_W); break; }
            c->state_lock[t] = l; c->state[t] = S_ACQ_R;
            shim_rw_rdlock(L);
            /* ---- atomic with the return of rdlock ---- */
            c->state[t] = S_IN; c->acquired++;
            hx_hash(c->res, ((uint64_t)t << 8) ^ ((uint64_t)l << 4) ^ 1);
            if (c->writers[l]) {
                hx_fail(c->res, "reader-with-writer", "thread %d got the read lock %d while thread %d holds the write lock", t, l, c->wr_holder[l]);
                park_forever();
            }
            c->readers[l]++; c->rd_holder[l] = t;
            if (c->readers[l] >= 2) sim_probe(PR_SHARED);
            hold(labs(o->a));
            if (c->writers[l]) {    /* a writer counted itself in while we were inside: it reports; be defensive */
                hx_fail(c->res, "writer-with-reader", "write lock %d granted to thread %d while reader %d is inside", l, c->wr_holder[l], t);
                park_forever();
            }
            c->readers[l]--;
            c->state[t] = S_REL;
            shim_rw_rdunlock(L);
            c->state[t] = S_IDLE;
        } else {
            if (c->readers[l]) sim_probe(PR_W_WAIT_R);
            if (c->writers[l]) sim_probe(PR_W_WAIT_W);
            c->state_lock[t] = l; c->state[t] = S_ACQ_W;
            shim_rw_wrlock(L);
            /* ---- atomic with the return of wrlock ---- */
            c->state[t] = S_IN; c->acquired++;
            hx_hash(c->res, ((uint64_t)t << 8) ^ ((uint64_t)l << 4) ^ 2);
            if (c->writers[l]) {
                hx_fail(c->res, "writer-with-writer", "thread %d got the write lock %d while thread %d holds the write lock", t, l, c->wr_holder[l]);
                park_forever();
            }
            if (c->readers[l]) {
                hx_fail(c->res, "writer-with-reader", "thread %d got the write lock %d while %d reader(s) (last: thread %d) are inside", t, l, c->readers[l], c->rd_holder[l]);
                park_forever();
            }
            c->writers[l]++; c->wr_holder[l] = t;
            hold(labs(o->a));
            if (c->writers[l] != 1 || c->readers[l]) {
                hx_fail(c->res, c->readers[l] ? "reader-with-writer" : "writer-with-writer", "occupancy of lock %d changed to %d writer(s), %d reader(s) while thread %d holds the write lock",
                        l, c->writers[l], c->readers[l], t);
                park_forever();
            }
            c->writers[l]--;
            c->state[t] = S_REL;
            shim_rw_wrunlock(L);
            c->state[t] = S_IDLE;
        }
    }
    c->state[t] = S_DONE;
}

/* ---- worker group that can be abandoned after a violation (threads may be parked or spinning) ---- */
typedef struct { ctx_t *c; int idx; } wk_t;
static void *wk_tramp(void *a) { wk_t *w = a; worker(w->idx, w->c); w->c->finished[w->idx] = 1; return NULL; }
static int all_finished(ctx_t *c) { for (int i = 0; i < c->T; i++) if (!c->finished[i]) return 0; return 1; }
static int wk_pred(void *a) { ctx_t *c = a; return c->res->vclass != NULL || all_finished(c); }

static void gen(hx_plan_t *p, hx_rng_t *r)
{
    int T = (int)hx_range(r, 2, MAXT);
    hx_set_knob(p, "threads", T);
    hx_set_knob(p, "locks", hx_chance(r, 25) ? 2 : 1);
    hx_set_knob(p, "static_init", hx_chance(r, 30));
    hx_set_knob(p, "sim_stalls", 0);            /* see the progress-oracle comment */
    int wr_pct = (int)hx_range(r, 10, 70);
    int nops = (int)hx_range(r, T, 6 * T);
    if (nops > 30) nops = 30;
    for (int i = 0; i < nops; i++) {
        int t = (int)hx_below(r, T);
        hx_add_op(p, t, hx_chance(r, wr_pct) ? OP_WR : OP_RD, hx_below(r, 1000), hx_chance(r, 50) ? 0 : hx_below(r, 1000), hx_below(r, 1000));
    }
}

static void run(const hx_plan_t *p, hx_result_t *res)
{
    static ctx_t c;
    memset(&c, 0, sizeof(c));
    c.plan = p; c.res = res;
    c.T = (int)hx_knob(p, "threads", 2);
    if (c.T < 1) c.T = 1;
    if (c.T > MAXT) c.T = MAXT;
    c.nlocks = (int)hx_knob(p, "locks", 1);
    if (c.nlocks < 1) c.nlocks = 1;
    if (c.nlocks > MAXL) c.nlocks = MAXL;
    int verdict_on_stuck = hx_knob(p, "sim_stalls", -1) == 0;
    c.locks = (parsec_atomic_rwlock_t *)malloc(sizeof(parsec_atomic_rwlock_t) * MAXL);
    memset((void *)c.locks, 0xA5, sizeof(parsec_atomic_rwlock_t) * MAXL);   /* init must not rely on zeroed memory */
    for (int l = 0; l < c.nlocks; l++) {
        if (hx_knob(p, "static_init", 0)) shim_rw_static_init(&c.locks[l]); else shim_rw_init(&c.locks[l]);
    }
    pthread_t pt[MAXT];
    static wk_t wk[MAXT];
    for (int i = 0; i < c.T; i++) { wk[i] = (wk_t){&c, i}; pthread_create(&pt[i], NULL, wk_tramp, &wk[i]); }

    /* monitor (sim-thread 0) */
    int in_c = 0;
    uint64_t c_steps0 = 0, c_acq0 = 0;
    for (;;) {
        sim_block_on(wk_pred, &c, sim_now() + MONITOR_PERIOD_NS, "C33 monitor");
        if (res->vclass || all_finished(&c)) break;
        int waiting = 0, other = 0;
        for (int i = 0; i < c.T; i++) {
            if (c.state[i] == S_ACQ_R || c.state[i] == S_ACQ_W) waiting++;
            else if (c.state[i] != S_DONE) other++;
        }
        if (waiting && !other) {
            if (!in_c || c.acquired != c_acq0) { in_c = 1; c_steps0 = sim_steps(); c_acq0 = c.acquired; }
            else if (verdict_on_stuck && sim_steps() - c_steps0 > STUCK_STEPS) {
                char who[160]; int n = 0;
                who[0] = 0;
                for (int i = 0; i < c.T && n < 140; i++)
                    if (c.state[i] == S_ACQ_R || c.state[i] == S_ACQ_W) n += snprintf(who + n, sizeof(who) - n, " t%d:%s(lock %d)", i, c.state[i] == S_ACQ_R ? "rdlock" : "wrlock", c.state_lock[i]);
                hx_fail(res, "no-progress", "nobody holds or is releasing a lock, all other threads finished, yet no acquisition completed in %llu scheduling points; waiting:%s",
                        (unsigned long long)(sim_steps() - c_steps0), who);
                break;
            }
        } else in_c = 0;
    }
    if (res->vclass) return;    /* abandoned: workers may be parked or spinning; nothing is freed (the process ends after a violation) */
    for (int i = 0; i < c.T; i++) pthread_join(pt[i], NULL);
    /* quiescent end state: occupancy zero, and the lock is reusable by a single thread in both modes */
    for (int l = 0; l < c.nlocks; l++) {
        if (c.readers[l] || c.writers[l]) hx_fail(res, "harness-bug", "occupancy counters not zero at the end");
        shim_rw_wrlock(&c.locks[l]); shim_rw_wrunlock(&c.locks[l]);
        shim_rw_rdlock(&c.locks[l]); shim_rw_rdlock(&c.locks[l]); shim_rw_rdunlock(&c.locks[l]); shim_rw_rdunlock(&c.locks[l]);
        shim_rw_wrlock(&c.locks[l]); shim_rw_wrunlock(&c.locks[l]);
    }
    hx_hash(res, c.acquired);
    free((void *)c.locks);
}

static const hx_harness_t H = {
    .property = "C33", .name = "c33_rwlock", .opnames = opnames, .nopnames = OP_N,
    .est_steps = 1500, .max_steps = 3000000, .gen = gen, .run = run,
    .fork_per_run = 1,   /* a violating run abandons parked/spinning sim-threads; only safe if the process ends with the run */
    .probe_names = probe_names, .nprobes = PR_N,
};
int main(int argc, char **argv) { return hx_main(argc, argv, &H); }
