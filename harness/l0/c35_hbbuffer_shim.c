/* C35 instrumented shim.  hbbuffer.c and maxheap.c are out-of-line and already instrumented in
 * libparsec_b.a; only the parent-store side (the schedulers' inline wrappers around the shared
 * system dequeue / the upper-level buffer) and the dequeue pops need a non-inline home. */
#include "parsec/parsec_config.h"
#include "parsec/parsec_internal.h"
#include "parsec/class/dequeue.h"
#include "parsec/hbbuffer.h"
#include "parsec/maxheap.h"
#include "parsec/mca/sched/sched_local_queues_utils.h"

/* the real overflow wrappers used by sched_ltq / lhq / lfq ... */
void s35_push_in_queue(void *dequeue, parsec_list_item_t *elt, int32_t distance) { parsec_mca_sched_push_in_queue_wrapper(dequeue, elt, distance); }
void s35_push_in_buffer(void *hbbuffer, parsec_list_item_t *elt, int32_t distance)
{
#if defined(PARSEC_HAVE_HWLOC)
    parsec_mca_sched_push_in_buffer_wrapper(hbbuffer, elt, distance);
#else
    parsec_hbbuffer_push_all((parsec_hbbuffer_t *)hbbuffer, elt, distance);
#endif
}
parsec_list_item_t *s35_dequeue_pop_front(parsec_dequeue_t *d) { return parsec_dequeue_pop_front(d); }
parsec_list_item_t *s35_dequeue_try_pop_front(parsec_dequeue_t *d) { return parsec_dequeue_try_pop_front(d); }
size_t s35_task_prio_offset(void) { return parsec_execution_context_priority_comparator; }
