/* instrumented shim for C27: one non-inline function per arena / mempool operation (no logic).
 * arena.c, data.c, mempool.c are out-of-line in libparsec (instrumented); mempool.h's allocate/free and
 * the object release macro are inline and get instrumented here. */
#include "parsec/parsec_config.h"
#include "parsec/parsec_internal.h"
#include "parsec/arena.h"
#include "parsec/data_internal.h"
#include "parsec/mempool.h"

int shim_arena_alloc(parsec_data_copy_t *copy, parsec_arena_t *arena, size_t count)
{ return parsec_arena_allocate_device_private(copy, arena, count, 0, PARSEC_DATATYPE_NULL); }
/* the path of data.c: the copy destructor hands the chunk back with parsec_arena_release() */
void shim_copy_release(parsec_data_copy_t *copy) { PARSEC_OBJ_RELEASE(copy); }
void shim_arena_release(parsec_data_copy_t *copy) { parsec_arena_release(copy); }
void *shim_mp_alloc(parsec_thread_mempool_t *tm) { return parsec_thread_mempool_allocate(tm); }
void shim_mp_free(parsec_mempool_t *mp, void *elt) { parsec_mempool_free(mp, elt); }
void shim_tmp_free(parsec_thread_mempool_t *tm, void *elt) { parsec_thread_mempool_free(tm, elt); }
