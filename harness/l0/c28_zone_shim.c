/* instrumented shim for C28: zone_malloc.c and parsec_rbtree.c are out-of-line in libparsec (already
 * instrumented); the shim only gives the harness one call site per operation. No logic here. */
#include "parsec/parsec_config.h"
#include "parsec/utils/zone_malloc.h"
zone_malloc_t *shim_zone_init(void *base, int nseg, size_t unit) { return zone_malloc_init(base, nseg, unit); }
void *shim_zone_malloc(zone_malloc_t *z, size_t sz) { return zone_malloc(z, sz); }
void shim_zone_free(zone_malloc_t *z, void *p) { zone_free(z, p); }
size_t shim_zone_in_use(zone_malloc_t *z) { return zone_in_use(z); }
void *shim_zone_fini(zone_malloc_t **z) { return zone_malloc_fini(z); }
