/* C41: info registries return what was set (DESIGN 4, C41).
 * Real code: parsec/class/info.c (out of line, instrumented by the pipeline) with the locked list
 * and the rwlock it uses.  Simulated: thread interleaving.  One forked process per run: several
 * of the failure modes of this component are use-after-free/realloc races that end in a crash,
 * which must be reported as a violation ("crash"), not as an infrastructure failure.
 *
 * Client discipline (DESIGN 3.6):
 *  - a name is registered/unregistered only by its owner thread (name n belongs to n % T);
 *  - parsec_info_get() dereferences the entry of the id it is given, so an id may only be used
 *    while it is registered: a thread pins the name (harness bookkeeping, atomic with the call)
 *    for the duration of a set/get/test_and_set, and the owner unregisters only an unpinned name;
 *  - NULL is stored only in infos without a constructor (with a constructor a concurrent
 *    NULL store makes "get" legitimately return NULL, which we do not want to have to model);
 *  - a private object array is used by its owner thread only; shared arrays by everybody.
 *
 * Contract checked (info.h / info.c):
 *  - register: a name that is not registered gets an id >= 0 different from the ids of all
 *    currently registered names; a registered name yields PARSEC_INFO_ID_UNDEFINED;
 *  - lookup: the id of the name, or UNDEFINED; cb_data is the one given at registration;
 *  - unregister(id): id (and the cb_data) if registered, else UNDEFINED; with a destructor, it is
 *    called exactly on the non-NULL values stored for this id in every live object array, and
 *    these slots read NULL afterwards; without a destructor the slots keep their value;
 *  - per (array, id) slot: set stores (its return value, "the old value", is only checked when
 *    no other mutator of the same slot overlaps the call: info.c reads and writes the slot in
 *    two steps under the *read* lock); test_and_set(new, old) returns `new` iff the slot held
 *    `old` and now holds `new`, otherwise a value the slot held (after the failed compare: the
 *    value is re-read, so with an overlapping mutator it may even equal `old`); get returns the
 *    stored value, or if the slot is NULL and the info has a constructor, installs and returns
 *    the constructed value; a constructed value that lost the installation race is destructed. */
#include "../hx.h"
#include "../../oracle/lin.h"
#include "parsec/parsec_config.h"
#include "parsec/class/info.h"
#include <stdlib.h>
#include <string.h>

enum { OP_REG, OP_REGDUP, OP_UNREG, OP_LOOKUP, OP_SET, OP_GET, OP_TAS, OP_OANEW, OP_OADEL, OP_N };
static const char *const opnames[] = {"register", "register_dup", "unregister", "lookup", "set", "get", "test_and_set", "oa_new", "oa_del"};
enum { PR_GROW, PR_GROW_CONCURRENT, PR_TAS_OK, PR_TAS_FAIL, PR_CTOR_INSTALLED, PR_CTOR_RACE_LOST, PR_ID_REUSE, PR_DTOR_SWEEP, PR_DUP_REFUSED,
       PR_UNREG_NONMAX, PR_LOOKUP_MISS, PR_SLOT_OVERLAP, PR_N };
static const char *const probe_names[] = {"array_grew", "array_grew_while_other_thread_inside", "test_and_set_succeeded", "test_and_set_failed",
                                          "constructor_value_installed", "constructor_race_lost", "id_reused_by_other_name", "unregister_destructed_values",
                                          "duplicate_register_refused", "unregister_of_non_max_id", "lookup_of_unregistered_name", "overlapping_mutators_on_one_slot"};

#define NN 8            /* info names */
#define MAXT 4
#define NSH 3           /* max shared arrays; private array of thread t = NSH + t */
#define MAXOA (NSH + MAXT)
#define MAXID 12
#define NV 250          /* value ids 1..NV; 0 = NULL */

/* model operations */
enum { M_REG, M_UNREG, M_LOOKUP, M_SET, M_GET, M_TAS, M_OANEW, M_OADEL };

/* values: pointers with a non-zero low byte, so that partial clobbering is visible */
static struct val { long pad; long tag; } vals[NV + 1] __attribute__((aligned(256)));
static void *valptr(int v) { return v ? (void *)&vals[v].tag : NULL; }
static int valdecode(const void *p)
{
    if (!p) return 0;
    long off = (const char *)p - (const char *)&vals[0].tag;
    if (off <= 0 || off % (long)sizeof(struct val) || off / (long)sizeof(struct val) > NV) return -1;
    return (int)(off / (long)sizeof(struct val));
}

typedef struct {
    const hx_plan_t *plan;
    hx_result_t *res;
    parsec_info_t *nfo;
    parsec_info_object_array_t *oa[MAXOA];
    int live[MAXOA];
    int inflight[MAXOA];
    int T, nshared;
    int reg[NN], iid[NN], users[NN], has_ctor[NN], has_dtor[NN];
    int init_iid[NN];
    int id_last_name[MAXID];
    int nextval;
    int destructed[NV + 1];
    int seen[MAXT][MAXOA][MAXID];
    long nametag[NN], cbtag[NN], oatag[MAXOA];
    lin_op_t hist[LIN_MAX_OPS];
    int ndes[LIN_MAX_OPS], des[LIN_MAX_OPS][MAXOA + 1];
    int nhist;
} ctx_t;
static ctx_t C;
static const char *const names[NN] = {"alpha", "beta", "gamma", "delta", "epsilon", "zeta", "eta", "theta"};

/* per-thread context of the call in progress (callbacks run inside the real call) */
static __thread struct { int oa, name, ctor_val, ndes, des[MAXOA + 1]; } tl;

static void *ctor(void *obj, void *cb_data)
{
    ctx_t *c = &C;
    if (obj != &c->oatag[tl.oa] || cb_data != &c->nametag[tl.name])
        hx_fail(c->res, "bad-callback-arg", "constructor called with obj/cons_data of another array/info (expected array %d, info %s)", tl.oa, names[tl.name]);
    if (c->nextval >= NV) return NULL;
    tl.ctor_val = ++c->nextval;
    return valptr(tl.ctor_val);
}
static void dtor(void *elt, void *cb_data)
{
    ctx_t *c = &C;
    int v = valdecode(elt);
    if (v <= 0) { hx_fail(c->res, "garbage-value", "destructor called on %p which is not a value that was ever stored", elt); return; }
    if (cb_data != &c->nametag[tl.name]) hx_fail(c->res, "bad-callback-arg", "destructor of info %s called with another des_data", names[tl.name]);
    if (c->destructed[v]++) hx_fail(c->res, "double-destruct", "value %d destructed twice", v);
    if (tl.ndes <= MAXOA) tl.des[tl.ndes++] = v;
}

static lin_op_t *record(ctx_t *c, int t, int op, uint64_t inv, uint64_t ret, long res, long a0, long a1, long a2, long a4)
{
    lin_op_t *h = &c->hist[c->nhist++];
    memset(h, 0, sizeof(*h));
    h->thr = t; h->op = op; h->inv = inv; h->ret = ret; h->res = res;
    h->arg[0] = a0; h->arg[1] = a1; h->arg[2] = a2; h->arg[4] = a4; h->narg = 5;
    return h;
}
static int decode_or_fail(ctx_t *c, void *p, const char *what, int j, int id)
{
    int v = valdecode(p);
    if (v < 0) hx_fail(c->res, "garbage-value", "%s(array %d, id %d) returned %p which is not a value that was ever stored", what, j, id, p);
    return v;
}

static void worker(int t, void *arg)
{
    ctx_t *c = arg;
    for (int i = 0; i < c->plan->nops; i++) {
        const hx_op_t *o = &c->plan->ops[i];
        if (o->thr != t) continue;
        if (c->nhist + 1 > LIN_MAX_OPS || c->nextval + 8 >= NV) break;
        if (c->res->vclass) return;
        switch (o->op) {
        case OP_REG:
        case OP_REGDUP: {
            int cand[NN], n = 0, want = o->op == OP_REGDUP;
            for (int k = t; k < NN; k += c->T) if (c->reg[k] == want) cand[n++] = k;
            if (!n) continue;
            int k = cand[o->a % n];
            tl.name = k;
            uint64_t inv = sim_stamp();
            int id = parsec_info_register(c->nfo, names[k], c->has_dtor[k] ? dtor : NULL, &c->nametag[k], c->has_ctor[k] ? ctor : NULL, &c->nametag[k], &c->cbtag[k]);
            uint64_t ret = sim_stamp();
            record(c, t, M_REG, inv, ret, id, k, 0, 0, 0);
            if (want) { if (id == PARSEC_INFO_ID_UNDEFINED) sim_probe(PR_DUP_REFUSED); break; }
            if (id >= MAXID) { hx_fail(c->res, "id-out-of-range", "register(%s) returned id %d with at most %d names", names[k], id, NN); return; }
            if (id >= 0) {
                /* reg[q] == 1 means q's registration has returned and its unregistration has not been
                 * called yet: q holds its id during this whole call */
                for (int q = 0; q < NN; q++) if (q != k && c->reg[q] == 1 && c->iid[q] == id) {
                    hx_fail(c->res, "duplicate-id", "register(%s) returned id %d which is the id of %s, still registered", names[k], id, names[q]);
                    return;
                }
                if (c->id_last_name[id] >= 0 && c->id_last_name[id] != k) sim_probe(PR_ID_REUSE);
                c->id_last_name[id] = k;
                c->iid[k] = id;
                c->reg[k] = 1;
            }
            break;
        }
        case OP_UNREG: {
            int id, k = -1;
            if (o->b % 8 == 0) id = 50 + t;        /* an id nobody has */
            else {
                int cand[NN], n = 0;
                for (int q = t; q < NN; q += c->T) if (c->reg[q] == 1 && !c->users[q]) cand[n++] = q;
                if (!n) continue;
                k = cand[o->a % n];
                id = c->iid[k];
                c->reg[k] = 0;                      /* nobody can pin it from now on */
                if (id != c->nfo->max_id) sim_probe(PR_UNREG_NONMAX);
            }
            void *cb = NULL;
            tl.name = k < 0 ? 0 : k; tl.ndes = 0;
            uint64_t inv = sim_stamp();
            int r = parsec_info_unregister(c->nfo, id, &cb);
            uint64_t ret = sim_stamp();
            int hi = c->nhist;
            record(c, t, M_UNREG, inv, ret, r, id, k >= 0 && c->has_dtor[k], 0, 0);
            c->ndes[hi] = tl.ndes;
            memcpy(c->des[hi], tl.des, sizeof(tl.des));
            if (tl.ndes) sim_probe(PR_DTOR_SWEEP);
            if (k >= 0 && r == id && cb != &c->cbtag[k]) hx_fail(c->res, "wrong-cb-data", "unregister(%s) did not return the cb_data given at registration", names[k]);
            break;
        }
        case OP_LOOKUP: {
            int k = (int)(o->a % NN);
            void *cb = NULL;
            uint64_t inv = sim_stamp();
            int r = parsec_info_lookup(c->nfo, names[k], &cb);
            uint64_t ret = sim_stamp();
            record(c, t, M_LOOKUP, inv, ret, r, k, 0, 0, 0);
            if (r >= 0 && cb != &c->cbtag[k]) hx_fail(c->res, "wrong-cb-data", "lookup(%s) did not return the cb_data given at registration", names[k]);
            if (r < 0) sim_probe(PR_LOOKUP_MISS);
            break;
        }
        case OP_SET:
        case OP_GET:
        case OP_TAS: {
            int cand[NN], n = 0, oas[MAXOA], no = 0;
            for (int q = 0; q < NN; q++) if (c->reg[q] == 1) cand[n++] = q;
            if (!n) continue;
            int k = cand[o->a % n], id = c->iid[k];
            for (int q = 0; q < c->nshared; q++) oas[no++] = q;
            if (c->live[NSH + t]) { oas[no++] = NSH + t; if (o->b % 3 == 0) oas[0] = NSH + t; }
            int j = oas[o->b % no];
            parsec_info_object_array_t *oa = c->oa[j];
            c->users[k]++;                          /* pin */
            c->inflight[j]++;
            tl.oa = j; tl.name = k; tl.ctor_val = 0; tl.ndes = 0;
            int known = oa->known_infos, v = 0, old = 0, r;
            uint64_t inv, ret;
            if (o->op == OP_SET) {
                v = (o->c % 5 == 0 && !c->has_ctor[k]) ? 0 : ++c->nextval;
                inv = sim_stamp();
                r = decode_or_fail(c, parsec_info_set(oa, id, valptr(v)), "set", j, id);
                ret = sim_stamp();
                record(c, t, M_SET, inv, ret, r, j, id, v, 0);
                c->seen[t][j][id] = v;
            } else if (o->op == OP_TAS) {
                old = o->c % 3 == 0 ? 0 : c->seen[t][j][id];
                v = ++c->nextval;
                inv = sim_stamp();
                r = decode_or_fail(c, parsec_info_test_and_set(oa, id, valptr(v), valptr(old)), "test_and_set", j, id);
                ret = sim_stamp();
                record(c, t, M_TAS, inv, ret, r, j, id, v, old);
                sim_probe(r == v ? PR_TAS_OK : PR_TAS_FAIL);
                if (r >= 0) c->seen[t][j][id] = r;
            } else {
                inv = sim_stamp();
                r = decode_or_fail(c, parsec_info_get(oa, id), "get", j, id);
                ret = sim_stamp();
                int cv = tl.ctor_val;
                record(c, t, M_GET, inv, ret, r, j, id, cv, c->has_ctor[k]);
                if (cv && r == cv) {
                    sim_probe(PR_CTOR_INSTALLED);
                    if (c->destructed[cv]) hx_fail(c->res, "destructed-live-value", "get installed constructed value %d and destructed it", cv);
                } else if (cv) {
                    sim_probe(PR_CTOR_RACE_LOST);
                    if (c->has_dtor[k] && c->destructed[cv] != 1)
                        hx_fail(c->res, "constructed-leak", "get constructed value %d, did not install it and did not destruct it", cv);
                }
                if (r >= 0) c->seen[t][j][id] = r;
            }
            if (oa->known_infos > known) { sim_probe(PR_GROW); if (c->inflight[j] > 1) sim_probe(PR_GROW_CONCURRENT); }
            c->inflight[j]--;
            c->users[k]--;                          /* unpin */
            if (r < 0) return;
            break;
        }
        case OP_OANEW: {
            int j = NSH + t;
            if (c->live[j]) continue;
            uint64_t inv = sim_stamp();
            c->oa[j] = PARSEC_OBJ_NEW(parsec_info_object_array_t);
            parsec_info_object_array_init(c->oa[j], c->nfo, &c->oatag[j]);
            uint64_t ret = sim_stamp();
            record(c, t, M_OANEW, inv, ret, 0, j, 0, 0, 0);
            c->live[j] = 1;
            memset(c->seen[t][j], 0, sizeof(c->seen[t][j]));
            break;
        }
        case OP_OADEL: {
            int j = NSH + t;
            if (!c->live[j]) continue;
            c->live[j] = 0;
            uint64_t inv = sim_stamp();
            PARSEC_OBJ_RELEASE(c->oa[j]);
            uint64_t ret = sim_stamp();
            record(c, t, M_OADEL, inv, ret, 0, j, 0, 0, 0);
            break;
        }
        default: continue;
        }
    }
}

/* ---- sequential model ---- */
typedef struct { signed char nm[NN]; unsigned char live[MAXOA]; unsigned char val[MAXOA][MAXID]; } st_t;
static void m_init(void *st, void *ctx)
{
    ctx_t *c = ctx;
    st_t *s = st;
    memset(s, 0, sizeof(*s));
    for (int k = 0; k < NN; k++) s->nm[k] = (signed char)c->init_iid[k];
    for (int j = 0; j < c->nshared; j++) s->live[j] = 1;
}
static int m_apply(void *st, const lin_op_t *op, void *ctx)
{
    ctx_t *c = ctx;
    st_t *s = st;
    long r = op->res;
    switch (op->op) {
    case M_REG: {
        int k = (int)op->arg[0];
        if (s->nm[k] >= 0) return r == PARSEC_INFO_ID_UNDEFINED;
        if (r < 0 || r >= MAXID) return 0;
        for (int q = 0; q < NN; q++) if (s->nm[q] == r) return 0;      /* ids of registered names are distinct */
        s->nm[k] = (signed char)r;
        return 1;
    }
    case M_LOOKUP: return s->nm[op->arg[0]] == r;
    case M_UNREG: {
        int id = (int)op->arg[0], k = -1, hi = (int)(op - c->hist), used = 0;
        for (int q = 0; q < NN; q++) if (s->nm[q] == id) k = q;
        if (k < 0) return r == PARSEC_INFO_ID_UNDEFINED && c->ndes[hi] == 0;
        if (r != id) return 0;
        s->nm[k] = -1;
        if (op->arg[1]) {
            for (int j = 0; j < MAXOA; j++) if (s->live[j] && s->val[j][id]) {
                int f = 0;
                for (int q = 0; q < c->ndes[hi]; q++) if (c->des[hi][q] == s->val[j][id]) f = 1;
                if (!f) return 0;
                used++;
                s->val[j][id] = 0;
            }
        }
        return used == c->ndes[hi];
    }
    case M_SET: {
        unsigned char *p = &s->val[op->arg[0]][op->arg[1]];
        if (!op->arg[3] && *p != r) return 0;
        *p = (unsigned char)op->arg[2];
        return 1;
    }
    case M_TAS: {
        unsigned char *p = &s->val[op->arg[0]][op->arg[1]];
        if (r == op->arg[2]) { if (*p != op->arg[4]) return 0; *p = (unsigned char)r; return 1; }
        return *p == r && (r != op->arg[4] || op->arg[3]);
    }
    case M_GET: {
        unsigned char *p = &s->val[op->arg[0]][op->arg[1]];
        if (op->arg[2] && r == op->arg[2]) { if (*p) return 0; *p = (unsigned char)r; return 1; }
        if (*p != r) return 0;
        return r != 0 || !op->arg[4];
    }
    case M_OANEW: s->live[op->arg[0]] = 1; memset(s->val[op->arg[0]], 0, MAXID); return 1;
    case M_OADEL: s->live[op->arg[0]] = 0; memset(s->val[op->arg[0]], 0, MAXID); return 1;
    }
    return 0;
}
static uint64_t m_hash(const void *st, void *ctx)
{
    (void)ctx;
    const unsigned char *b = st;
    uint64_t h = 0xcbf29ce484222325ULL;
    for (size_t i = 0; i < sizeof(st_t); i++) h = (h ^ b[i]) * 0x100000001b3ULL;
    return h;
}
/* observed final content (filled before lin_check) */
static st_t final_obs;
static int m_final(const void *st, void *ctx) { (void)ctx; return !memcmp(st, &final_obs, sizeof(st_t)); }
static const lin_model_t model = {sizeof(st_t), m_init, m_apply, m_hash};

static void gen(hx_plan_t *p, hx_rng_t *r)
{
    int T = (int)hx_range(r, 2, 4);
    hx_set_knob(p, "threads", T);
    hx_set_knob(p, "shared", hx_range(r, 1, NSH));
    hx_set_knob(p, "pre", hx_range(r, 0, 3));
    hx_set_knob(p, "oa_first", hx_chance(r, 30));
    hx_set_knob(p, "ctor_mask", (long)(hx_rand(r) & hx_rand(r) & 0xff));
    hx_set_knob(p, "dtor_mask", (long)(hx_rand(r) & 0xff));
    int nops = (int)hx_range(r, 6, 40);
    for (int i = 0; i < nops; i++) {
        int t = (int)hx_below(r, T);
        int k = (int)hx_below(r, 100);
        int op = k < 16 ? OP_REG : k < 19 ? OP_REGDUP : k < 29 ? OP_UNREG : k < 37 ? OP_LOOKUP : k < 55 ? OP_SET : k < 75 ? OP_GET : k < 92 ? OP_TAS : k < 97 ? OP_OANEW : OP_OADEL;
        hx_add_op(p, t, op, hx_below(r, 1000), hx_below(r, 1000), hx_below(r, 1000));
    }
}

static void run(const hx_plan_t *p, hx_result_t *res)
{
    ctx_t *c = &C;
    memset(c, 0, sizeof(*c));
    c->plan = p; c->res = res;
    c->T = (int)hx_knob(p, "threads", 2);
    if (c->T < 1) c->T = 1;
    if (c->T > MAXT) c->T = MAXT;
    c->nshared = (int)hx_knob(p, "shared", 1);
    if (c->nshared < 1) c->nshared = 1;
    if (c->nshared > NSH) c->nshared = NSH;
    int pre = (int)hx_knob(p, "pre", 0), oa_first = (int)hx_knob(p, "oa_first", 0);
    if (pre < 0) pre = 0;
    if (pre > NN) pre = NN;
    long cm = hx_knob(p, "ctor_mask", 0), dm = hx_knob(p, "dtor_mask", 0);
    for (int k = 0; k < NN; k++) { c->has_ctor[k] = (int)(cm >> k & 1); c->has_dtor[k] = (int)(dm >> k & 1); c->init_iid[k] = -1; }
    for (int i = 0; i < MAXID; i++) c->id_last_name[i] = -1;

    sim_pause();
    c->nfo = PARSEC_OBJ_NEW(parsec_info_t);
    for (int phase = 0; phase < 2; phase++) {
        if ((phase == 0) == (oa_first != 0)) {
            for (int j = 0; j < c->nshared; j++) {
                c->oa[j] = PARSEC_OBJ_NEW(parsec_info_object_array_t);
                parsec_info_object_array_init(c->oa[j], c->nfo, &c->oatag[j]);
                c->live[j] = 1;
            }
        } else {
            for (int k = 0; k < pre; k++) {
                tl.name = k;
                int id = parsec_info_register(c->nfo, names[k], c->has_dtor[k] ? dtor : NULL, &c->nametag[k], c->has_ctor[k] ? ctor : NULL, &c->nametag[k], &c->cbtag[k]);
                if (id != k) { hx_fail(res, "setup-register", "sequential registration %d returned id %d", k, id); break; }
                c->reg[k] = 1; c->iid[k] = c->init_iid[k] = id; c->id_last_name[id] = k;
            }
        }
    }
    sim_resume();

    if (!res->vclass) hx_run_threads(c->T, worker, c);

    sim_pause();
    /* which slot operations overlap another mutator of the same slot (see header comment) */
    for (int i = 0; i < c->nhist; i++) {
        lin_op_t *a = &c->hist[i];
        if (a->op != M_SET && a->op != M_GET && a->op != M_TAS) continue;
        for (int j = 0; j < c->nhist; j++) {
            lin_op_t *b = &c->hist[j];
            if (i == j || b->arg[0] != a->arg[0] || b->arg[1] != a->arg[1]) continue;
            if (!(b->op == M_SET || b->op == M_TAS || (b->op == M_GET && b->arg[4]))) continue;
            if (b->inv < a->ret && a->inv < b->ret) { a->arg[3] = 1; sim_probe(PR_SLOT_OVERLAP); break; }
        }
    }
    for (int i = 0; i < c->nhist; i++) {
        lin_op_t *h = &c->hist[i];
        hx_hash(res, ((uint64_t)h->thr << 56) ^ ((uint64_t)h->op << 48) ^ ((uint64_t)(h->res + 2) << 32) ^ ((uint64_t)h->arg[0] << 24) ^ ((uint64_t)h->arg[1] << 16) ^
                     ((uint64_t)h->arg[2] << 8) ^ (uint64_t)h->arg[4]);
    }
    /* quiescent final content, read directly */
    if (!res->vclass) {
        memset(&final_obs, 0, sizeof(final_obs));
        for (int k = 0; k < NN; k++) final_obs.nm[k] = (signed char)(c->reg[k] == 1 ? c->iid[k] : -1);
        for (int j = 0; j < MAXOA && !res->vclass; j++) {
            if (!c->live[j]) continue;
            final_obs.live[j] = 1;
            for (int id = 0; id < MAXID && id < c->oa[j]->known_infos; id++) {
                int v = valdecode(c->oa[j]->info_objects[id]);
                if (v < 0) { hx_fail(res, "garbage-value", "at the end slot (array %d, id %d) holds %p which is not a value that was ever stored", j, id, c->oa[j]->info_objects[id]); break; }
                final_obs.val[j][id] = (unsigned char)v;
            }
        }
    }
    if (!res->vclass) {
        int r = lin_check(&model, c->hist, c->nhist, c, 3000000, m_final, NULL);
        if (r == 0) {
            /* distinguish "no linearization at all" from "the final content does not match" */
            int r2 = lin_check(&model, c->hist, c->nhist, c, 3000000, NULL, NULL);
            if (r2 == 0) hx_fail(res, "non-linearizable", "history of %d calls has no linearization against the registry + slot model", c->nhist);
            else if (r2 > 0) hx_fail(res, "final-state-mismatch", "history of %d calls is linearizable but the final registry/slot content differs from every linearization", c->nhist);
            else { res->discard = 1; res->discard_why = "checker-budget"; }
        } else if (r < 0) { res->discard = 1; res->discard_why = "checker-budget"; }
    }
    /* tear down (skipped after a violation: the structures may be inconsistent, the process exits anyway) */
    if (!res->vclass) {
        for (int k = 0; k < NN; k++) if (c->reg[k] == 1) {
            tl.name = k; tl.ndes = 0;
            if (parsec_info_unregister(c->nfo, c->iid[k], NULL) != c->iid[k]) hx_fail(res, "lost-registration", "final unregister(%s) failed", names[k]);
        }
        for (int j = 0; j < MAXOA; j++) if (c->live[j]) PARSEC_OBJ_RELEASE(c->oa[j]);
        PARSEC_OBJ_RELEASE(c->nfo);
    }
    sim_resume();
}

static const hx_harness_t H = {
    .property = "C41", .name = "c41_info", .opnames = opnames, .nopnames = OP_N,
    .est_steps = 800, .max_steps = 2000000, .fork_per_run = 1, .gen = gen, .run = run,
    .probe_names = probe_names, .nprobes = PR_N,
};
int main(int argc, char **argv) { return hx_main(argc, argv, &H); }
