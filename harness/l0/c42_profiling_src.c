/* C42: the real trace writer, compiled from the working tree of the repository under test (the include is resolved
 * through -I$VERIF_REPO) with the profiling macros of a profiling-enabled build: -DPARSEC_PROF_TRACE on the command
 * line (registry.d/C42.py), PARSEC_PROFILING_USE_MMAP and PARSEC_PROFILING_USE_HELPER_THREAD from the generated
 * parsec_config.h (both ON in the baseline cache).  Instrumented like every libparsec source.  This object defines
 * every global symbol of libparsec's own profiling.c.o, so that archive member is never pulled in by the linker.
 *
 * Below the include: read-only accessors to file-static state, used by the harness to stay a legal client (an event
 * must be shorter than the usable part of a buffer) and for reach probes.  They change nothing. */
#include "parsec/profiling.c"

size_t c42_event_buffer_size(void) { return event_buffer_size; }
size_t c42_event_avail_space(void) { return event_avail_space; }
int c42_stream_buffers_allocated(const parsec_profiling_stream_t *s) { return s->buffers_freelist ? s->buffers_freelist->nb_allocated : 0; }
int c42_helper_thread_started(void)
{
#if defined(PARSEC_PROFILING_USE_HELPER_THREAD)
    return io_helper_thread_started;
#else
    return 0;
#endif
}
int c42_uses_mmap(void)
{
#if defined(PARSEC_PROFILING_USE_MMAP)
    return 1;
#else
    return 0;
#endif
}
