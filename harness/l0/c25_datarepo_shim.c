/* instrumented shim for C25: datarepo.c is out-of-line in libparsec (instrumented, with the mempool and
 * hash-table bucket operations it inlines); the shim gives the harness one call site per operation. */
#include "parsec/parsec_config.h"
#include "parsec/parsec_internal.h"
#include "parsec/execution_stream.h"
#include "parsec/datarepo.h"
data_repo_entry_t *shim_repo_create(parsec_execution_stream_t *es, data_repo_t *r, parsec_key_t k) { return data_repo_lookup_entry_and_create(es, r, k); }
void shim_repo_addto(data_repo_t *r, parsec_key_t k, uint32_t n) { data_repo_entry_addto_usage_limit(r, k, n); }
void shim_repo_used_once(data_repo_t *r, parsec_key_t k) { data_repo_entry_used_once(r, k); }
data_repo_entry_t *shim_repo_lookup(data_repo_t *r, parsec_key_t k) { return data_repo_lookup_entry(r, k); }
