/* C31: lists and dequeues keep their contents and order (DESIGN 4, C31).
 *
 * Real code: parsec/class/list.h, list_item.h, dequeue.h, fifo.h (all inline; executed through the
 * instrumented shim c31_list_shim.c) + class constructors from parsec/class/parsec_list.c.
 * Simulated: thread interleaving at every memory access of the real code.
 *
 * One list object per run, used in one of four disciplines (knob "mode"):
 *   0 list   : list.h used as an unsorted sequence (push/chain front/back, pops, remove, iterate,
 *              unchain, add_after, sort)
 *   1 sorted : list.h used as a sorted list -- every insertion is push_sorted / chain_sorted, which
 *              is the documented precondition of those functions ("Insert an item into a sorted
 *              list"); so the list is sorted (non-increasing) at every quiescent point
 *   2 dequeue: dequeue.h API only        3 fifo: fifo.h API only
 * T = 1 plans additionally use the nolock variants (op argument c, bit 0), add_before/add_after at
 * arbitrary positions, nolock_remove's return value and parsec_list(_nolock)_sort.
 *
 * Oracle
 *  - T > 1: WGL linearizability of the recorded history against the sequence model below, with the
 *    linearization required to end in the content observed at the end (walked with the world stopped).
 *  - T = 1: the model is stepped with every operation and compared with the real list (forward
 *    and backward links) after every operation.
 *  - sorted insertion, as documented in list.h: "add item before the first element of list that
 *    is strictly smaller", i.e. after all existing elements of equal priority; chain_sorted =
 *    the same for each element of the ring, in ring order.  Stability is judged against the
 *    linearization order because it is part of the model's transition.
 *  - ring_push_sorted: the ring (read from the returned head) must be the previous ring plus the
 *    item, non-increasing.  list_item.h documents insertion BEFORE existing elements of equal
 *    priority; the property only asks that the ring stays ordered, so the tie position is
 *    recorded by probes, not judged.
 *  - sort: the result must be a permutation of the content, ordered by priority.  Direction: the
 *    one the implementation documents ("natural order"; mergesort comments: "First element of p is
 *    lower (or same); e must come from p") = non-decreasing value.  Stability is NOT part of the
 *    property statement, so it is only enforced with knob strict_sort=1 (never generated; see
 *    the report: the real mergesort takes from q on ties, i.e. it is not stable although its
 *    comment says "(or same)"); without the knob a reordering of ties is counted by a probe.
 *  - conservation: every item is, at the end, in exactly one place (list, a thread's hands, a
 *    thread's private ring).
 *  Deliberate relaxations: try_pop_* may return NULL when it overlapped another operation (the
 *  trylock failed).
 *  Concurrent sort (T > 1, mode list, knob conc_sort=1, 40% of those plans).  pop_front / pop_back test
 *  emptiness without the lock; since fix 96a1a25 the mergesort keeps head / tail pointing into the ring
 *  of items while it sorts, so a concurrent pop cannot see a non-empty list as empty and the sort is
 *  judged like every other operation.  Two variants:
 *   - real_sort=0: OP_SORT = s31_sort_snapshot() (the shim repeats parsec_list_sort's body and reads the
 *     result before it drops the lock), history judged by WGL as above;
 *   - real_sort=1 (half of the conc_sort plans): OP_SORT = the REAL parsec_list_sort().  It returns
 *     nothing, so there is no observation to put into a history: these plans are CONSERVATION-ONLY (as
 *     C30 has).  Judged: every pointer handed out by an operation is an item nobody else holds; at the
 *     final quiescent point every item is in exactly one place, the forward walk of the list agrees with
 *     the backward links, and -- if no insertion was invoked or returned after the invocation of the
 *     last sort (pops / removes do not disturb an order) -- the content is ordered by priority
 *     (non-decreasing, the documented direction; ties in any order).  No linearizability verdict.
 */
#include "../hx.h"
#include "../../oracle/lin.h"
#include "parsec/parsec_config.h"
#include "parsec/class/list.h"
#include "parsec/class/dequeue.h"
#include "parsec/class/fifo.h"
#include <stdlib.h>
#include <string.h>

typedef parsec_list_item_t it_t;
/* shim prototypes */
void s31_push_front(parsec_list_t *, it_t *); void s31_push_back(parsec_list_t *, it_t *);
void s31_chain_front(parsec_list_t *, it_t *); void s31_chain_back(parsec_list_t *, it_t *);
it_t *s31_pop_front(parsec_list_t *); it_t *s31_pop_back(parsec_list_t *);
it_t *s31_try_pop_front(parsec_list_t *); it_t *s31_try_pop_back(parsec_list_t *);
void s31_push_sorted(parsec_list_t *, it_t *, size_t); void s31_chain_sorted(parsec_list_t *, it_t *, size_t);
it_t *s31_unchain(parsec_list_t *); int s31_is_empty(parsec_list_t *); void s31_sort(parsec_list_t *, size_t);
void s31_add_after(parsec_list_t *, it_t *, it_t *); it_t *s31_ghost(parsec_list_t *);
int s31_snapshot(parsec_list_t *, it_t **, int); int s31_remove_if_present(parsec_list_t *, it_t *);
int s31_sort_snapshot(parsec_list_t *, size_t, it_t **, int);
void s31_nl_push_front(parsec_list_t *, it_t *); void s31_nl_push_back(parsec_list_t *, it_t *);
void s31_nl_chain_front(parsec_list_t *, it_t *); void s31_nl_chain_back(parsec_list_t *, it_t *);
it_t *s31_nl_pop_front(parsec_list_t *); it_t *s31_nl_pop_back(parsec_list_t *);
void s31_nl_push_sorted(parsec_list_t *, it_t *, size_t); void s31_nl_chain_sorted(parsec_list_t *, it_t *, size_t);
it_t *s31_nl_unchain(parsec_list_t *); int s31_nl_is_empty(parsec_list_t *); void s31_nl_sort(parsec_list_t *, size_t);
void s31_nl_add_before(parsec_list_t *, it_t *, it_t *); void s31_nl_add_after(parsec_list_t *, it_t *, it_t *);
it_t *s31_nl_remove(parsec_list_t *, it_t *); int s31_nl_contains(parsec_list_t *, it_t *);
int s31_nl_snapshot(parsec_list_t *, it_t **, int); int s31_nl_rev_snapshot(parsec_list_t *, it_t **, int);
void s31_dq_push_front(parsec_dequeue_t *, it_t *); void s31_dq_push_back(parsec_dequeue_t *, it_t *);
void s31_dq_chain_front(parsec_dequeue_t *, it_t *); void s31_dq_chain_back(parsec_dequeue_t *, it_t *);
it_t *s31_dq_pop_front(parsec_dequeue_t *); it_t *s31_dq_pop_back(parsec_dequeue_t *);
it_t *s31_dq_try_pop_front(parsec_dequeue_t *); it_t *s31_dq_try_pop_back(parsec_dequeue_t *);
int s31_dq_is_empty(parsec_dequeue_t *);
void s31_dq_nl_push_front(parsec_dequeue_t *, it_t *); void s31_dq_nl_push_back(parsec_dequeue_t *, it_t *);
void s31_dq_nl_chain_front(parsec_dequeue_t *, it_t *); void s31_dq_nl_chain_back(parsec_dequeue_t *, it_t *);
it_t *s31_dq_nl_pop_front(parsec_dequeue_t *); it_t *s31_dq_nl_pop_back(parsec_dequeue_t *);
int s31_dq_nl_is_empty(parsec_dequeue_t *);
void s31_ff_push(parsec_fifo_t *, it_t *); void s31_ff_chain(parsec_fifo_t *, it_t *);
it_t *s31_ff_pop(parsec_fifo_t *); it_t *s31_ff_try_pop(parsec_fifo_t *); int s31_ff_is_empty(parsec_fifo_t *);
void s31_ff_nl_push(parsec_fifo_t *, it_t *); void s31_ff_nl_chain(parsec_fifo_t *, it_t *);
it_t *s31_ff_nl_pop(parsec_fifo_t *); int s31_ff_nl_is_empty(parsec_fifo_t *);
it_t *s31_item_singleton(it_t *); it_t *s31_ring_push(it_t *, it_t *); it_t *s31_ring_push_sorted(it_t *, it_t *, size_t);

enum { M_LIST, M_SORTED, M_DEQUE, M_FIFO, M_N };
enum { OP_PUSH_FRONT, OP_PUSH_BACK, OP_CHAIN_FRONT, OP_CHAIN_BACK, OP_POP_FRONT, OP_POP_BACK, OP_TRY_POP_FRONT,
       OP_TRY_POP_BACK, OP_PUSH_SORTED, OP_CHAIN_SORTED, OP_REMOVE, OP_ITERATE, OP_UNCHAIN, OP_IS_EMPTY,
       OP_ADD_AFTER_GHOST, OP_SORT, OP_ADD_POS, OP_RING_PUSH, OP_RING_FLUSH, OP_N };
static const char *const opnames[] = {"push_front", "push_back", "chain_front", "chain_back", "pop_front", "pop_back",
    "try_pop_front", "try_pop_back", "push_sorted", "chain_sorted", "remove", "iterate", "unchain", "is_empty",
    "add_after_ghost", "sort", "add_pos", "ring_push", "ring_flush"};
/* which op is meaningful in which mode */
static const unsigned char op_modes[OP_N] = {
    [OP_PUSH_FRONT] = 1 << M_LIST | 1 << M_DEQUE, [OP_PUSH_BACK] = 1 << M_LIST | 1 << M_DEQUE | 1 << M_FIFO,
    [OP_CHAIN_FRONT] = 1 << M_LIST | 1 << M_DEQUE, [OP_CHAIN_BACK] = 1 << M_LIST | 1 << M_DEQUE | 1 << M_FIFO,
    [OP_POP_FRONT] = 15, [OP_POP_BACK] = 1 << M_LIST | 1 << M_SORTED | 1 << M_DEQUE, [OP_TRY_POP_FRONT] = 15,
    [OP_TRY_POP_BACK] = 1 << M_LIST | 1 << M_SORTED | 1 << M_DEQUE, [OP_PUSH_SORTED] = 1 << M_SORTED,
    [OP_CHAIN_SORTED] = 1 << M_SORTED, [OP_REMOVE] = 1 << M_LIST | 1 << M_SORTED, [OP_ITERATE] = 1 << M_LIST | 1 << M_SORTED,
    [OP_UNCHAIN] = 1 << M_LIST | 1 << M_SORTED, [OP_IS_EMPTY] = 15, [OP_ADD_AFTER_GHOST] = 1 << M_LIST,
    [OP_SORT] = 1 << M_LIST, [OP_ADD_POS] = 1 << M_LIST, [OP_RING_PUSH] = 15, [OP_RING_FLUSH] = 15};

enum { PR_TRYPOP_CONTENDED, PR_POP_EMPTY, PR_SORTED_TIE, PR_CHAIN_SORTED_RESTART, PR_REMOVE_HIT, PR_REMOVE_MISS,
       PR_UNCHAIN_GE2, PR_SORT_TIES, PR_SORT_TIES_REORDERED, PR_RING_TIE, PR_RING_NEW_HEAD, PR_NOLOCK_OP,
       PR_REAL_SORT, PR_REAL_SORT_OVERLAP, PR_REAL_SORT_JUDGED, PR_N };
static const char *const probe_names[] = {"trypop_failed_on_contention", "pop_on_empty", "sorted_insert_with_tie",
    "chain_sorted_restart_from_head", "remove_hit", "remove_miss", "unchain_len_ge2", "sort_with_ties",
    "sort_reordered_ties(unstable)", "ring_push_sorted_before_equal", "ring_push_sorted_new_head", "nolock_variant_used",
    "real_parsec_list_sort_with_other_threads", "real_parsec_list_sort_overlapped_another_operation", "final_order_judged_after_real_sort"};

#define MAXI 48
#define MAXT 4
#define MAXRING 8
typedef struct { parsec_list_item_t super; int prio; int id; } item_t;
#define OFF offsetof(item_t, prio)

typedef struct { int n; signed char s[MAXI]; } seq_t;

typedef struct {
    const hx_plan_t *plan;
    hx_result_t *res;
    parsec_list_t *list;
    it_t *ghost;
    int mode, T, nitems, strict_sort, conc_sort;
    /* conservation-only plans (real parsec_list_sort, T > 1): no history verdict; sorts = real sorts that
     * returned; unsorted = an insertion was invoked or returned after the invocation of the last sort */
    int cons_only, sorts, unsorted;
    item_t *items[MAXI];
    int prio[MAXI];
    int owned[MAXT][MAXI], nowned[MAXT];
    int ring[MAXT][MAXRING], nring[MAXT];
    it_t *ringp[MAXT];
    lin_op_t hist[LIN_MAX_OPS];
    signed char snap[LIN_MAX_OPS][MAXI];
    int nsnap[LIN_MAX_OPS];
    int nhist;
    seq_t init, cur;
} ctx_t;

/* ------------------------------------------------------------------ sequence model */
static int seq_find(const seq_t *s, int id) { for (int i = 0; i < s->n; i++) if (s->s[i] == id) return i; return -1; }
static void seq_ins(seq_t *s, int pos, int id)
{
    if (s->n >= MAXI) return;
    memmove(&s->s[pos + 1], &s->s[pos], (size_t)(s->n - pos));
    s->s[pos] = (signed char)id;
    s->n++;
}
static void seq_del(seq_t *s, int pos) { memmove(&s->s[pos], &s->s[pos + 1], (size_t)(s->n - pos - 1)); s->n--; }
/* list.h: "add item before the first element of list that is strictly smaller" */
static int seq_push_sorted(seq_t *s, int id, const int *prio)
{
    int i = 0, tie = 0;
    while (i < s->n && !(prio[s->s[i]] < prio[id])) { if (prio[s->s[i]] == prio[id]) tie = 1; i++; }
    seq_ins(s, i, id);
    return tie;
}
static int same_as_snap(const seq_t *s, const ctx_t *c, int hi)
{
    if (c->nsnap[hi] != s->n) return 0;
    return !memcmp(s->s, c->snap[hi], (size_t)s->n);
}
/* sort verdict: 0 bad, 1 good; *reordered = ties not in their previous relative order */
static int sort_ok(const seq_t *s, const ctx_t *c, int hi, int *reordered, int *ties)
{
    int n = s->n;
    const signed char *o = c->snap[hi];
    if (c->nsnap[hi] != n) return 0;
    unsigned long long seen = 0;
    for (int i = 0; i < n; i++) {
        if (o[i] < 0 || o[i] >= c->nitems || (seen >> o[i] & 1) || seq_find(s, o[i]) < 0) return 0;   /* permutation */
        seen |= 1ULL << o[i];
        if (i && c->prio[o[i - 1]] > c->prio[o[i]]) return 0;                                         /* non-decreasing */
    }
    /* stable ascending order of s */
    signed char st[MAXI];
    for (int i = 0; i < n; i++) {
        int j = i;
        while (j > 0 && c->prio[st[j - 1]] > c->prio[s->s[i]]) { st[j] = st[j - 1]; j--; }
        st[j] = s->s[i];
    }
    *reordered = memcmp(st, o, (size_t)n) != 0;
    *ties = 0;
    for (int i = 1; i < n; i++) if (c->prio[st[i - 1]] == c->prio[st[i]]) *ties = 1;
    return 1;
}

static void m_init(void *st, void *ctx) { *(seq_t *)st = ((ctx_t *)ctx)->init; }
static int m_apply(void *st, const lin_op_t *op, void *ctx)
{
    ctx_t *c = ctx;
    seq_t *s = st;
    int hi = (int)(op - c->hist);
    switch (op->op) {
    case OP_PUSH_FRONT: case OP_ADD_AFTER_GHOST: seq_ins(s, 0, (int)op->arg[0]); return 1;
    case OP_PUSH_BACK: seq_ins(s, s->n, (int)op->arg[0]); return 1;
    case OP_CHAIN_FRONT: for (int j = op->narg - 1; j >= 0; j--) seq_ins(s, 0, (int)op->arg[j]); return 1;
    case OP_CHAIN_BACK: for (int j = 0; j < op->narg; j++) seq_ins(s, s->n, (int)op->arg[j]); return 1;
    case OP_PUSH_SORTED: seq_push_sorted(s, (int)op->arg[0], c->prio); return 1;
    case OP_CHAIN_SORTED: for (int j = 0; j < op->narg; j++) seq_push_sorted(s, (int)op->arg[j], c->prio); return 1;
    case OP_POP_FRONT: case OP_TRY_POP_FRONT:
        if (op->res < 0) return s->n == 0 || (op->op == OP_TRY_POP_FRONT && op->overlapped);
        if (!s->n || s->s[0] != op->res) return 0;
        seq_del(s, 0); return 1;
    case OP_POP_BACK: case OP_TRY_POP_BACK:
        if (op->res < 0) return s->n == 0 || (op->op == OP_TRY_POP_BACK && op->overlapped);
        if (!s->n || s->s[s->n - 1] != op->res) return 0;
        seq_del(s, s->n - 1); return 1;
    case OP_REMOVE: {
        int pos = seq_find(s, (int)op->arg[0]);
        if (op->res == 0) return pos < 0;
        if (pos < 0) return 0;
        /* T = 1 nolock variant: arg[1] = 1 + id of the returned predecessor (0 = ghost), checked if narg == 2 */
        if (op->narg == 2 && op->arg[1] != (pos == 0 ? 0 : s->s[pos - 1] + 1)) return 0;
        seq_del(s, pos); return 1;
    }
    case OP_ITERATE: return same_as_snap(s, c, hi);
    case OP_UNCHAIN: if (!same_as_snap(s, c, hi)) return 0; s->n = 0; return 1;
    case OP_IS_EMPTY: return (op->res != 0) == (s->n == 0);
    case OP_SORT: {
        int re = 0, ties = 0;
        if (!sort_ok(s, c, hi, &re, &ties)) return 0;
        if (re && c->strict_sort) return 0;
        memcpy(s->s, c->snap[hi], (size_t)s->n);
        return 1;
    }
    case OP_ADD_POS: {   /* arg0 = new id, arg1 = position id or -1 (ghost), arg2 = 0 before / 1 after */
        int pos;
        if (op->arg[1] < 0) pos = op->arg[2] ? 0 : s->n;          /* after ghost = front, before ghost = back */
        else { pos = seq_find(s, (int)op->arg[1]); if (pos < 0) return 0; if (op->arg[2]) pos++; }
        seq_ins(s, pos, (int)op->arg[0]); return 1;
    }
    }
    return 0;
}
static uint64_t m_hash(const void *st, void *ctx)
{
    (void)ctx;
    const seq_t *s = st;
    uint64_t h = 0xcbf29ce484222325ULL ^ (uint64_t)s->n;
    for (int i = 0; i < s->n; i++) h = (h ^ (uint64_t)(s->s[i] + 1)) * 0x100000001b3ULL;
    return h;
}
static seq_t final_obs;
static int m_final(const void *st, void *ctx)
{
    (void)ctx;
    const seq_t *s = st;
    return s->n == final_obs.n && !memcmp(s->s, final_obs.s, (size_t)s->n);
}
static const lin_model_t model = {sizeof(seq_t), m_init, m_apply, m_hash};

/* ------------------------------------------------------------------ observation helpers (world stopped) */
static int id_of(const ctx_t *c, const volatile void *p)
{
    for (int i = 0; i < c->nitems; i++) if ((const volatile void *)c->items[i] == p) return i;
    return -1;
}
/* walk the real list; returns 0 and fills out, or fails the run */
static int walk_list(ctx_t *c, seq_t *out, const char *when)
{
    out->n = 0;
    const volatile parsec_list_item_t *prev = c->ghost, *it = c->ghost->list_next;
    unsigned long long seen = 0;
    while (it != c->ghost) {
        int id = id_of(c, it);
        if (id < 0) { hx_fail(c->res, "garbage-element", "%s: list contains a pointer that is not an item (after %d elements)", when, out->n); return -1; }
        if (seen >> id & 1) { hx_fail(c->res, "duplicate-element", "%s: item %d is linked twice in the list", when, id); return -1; }
        seen |= 1ULL << id;
        if (it->list_prev != prev) { hx_fail(c->res, "broken-links", "%s: list_prev of item %d does not point to its predecessor", when, id); return -1; }
        out->s[out->n++] = (signed char)id;
        prev = it;
        it = it->list_next;
    }
    if (c->ghost->list_prev != prev) { hx_fail(c->res, "broken-links", "%s: the tail pointer does not designate the last element", when); return -1; }
    return 0;
}
static void seq_str(const ctx_t *c, const seq_t *s, char *buf, size_t sz)
{
    size_t k = 0;
    buf[0] = 0;
    for (int i = 0; i < s->n && k + 16 < sz; i++) k += (size_t)snprintf(buf + k, sz - k, "%s%d(p%d)", i ? " " : "", s->s[i], c->prio[s->s[i]]);
}
/* take ownership of a ring returned by real code / record it; returns count or -1 */
static int ring_ids(ctx_t *c, it_t *ring, signed char *out, int max, const char *when)
{
    int n = 0;
    const volatile parsec_list_item_t *it = ring, *prev = ring->list_prev;
    do {
        int id = id_of(c, it);
        if (id < 0) { hx_fail(c->res, "garbage-element", "%s: ring contains a pointer that is not an item", when); return -1; }
        if (n >= max) { hx_fail(c->res, "duplicate-element", "%s: ring does not close after %d elements", when, n); return -1; }
        if (it->list_prev != prev) { hx_fail(c->res, "broken-links", "%s: ring list_prev of item %d is inconsistent", when, id); return -1; }
        out[n++] = (signed char)id;
        prev = it;
        it = it->list_next;
    } while (it != ring);
    return n;
}
static int own_check(ctx_t *c, int t, int id, const char *what)
{
    for (int tt = 0; tt < c->T; tt++) {
        for (int j = 0; j < c->nowned[tt]; j++)
            if (c->owned[tt][j] == id) { hx_fail(c->res, "duplicate-element", "%s gave item %d to thread %d while thread %d holds it", what, id, t, tt); return -1; }
        for (int j = 0; j < c->nring[tt]; j++)
            if (c->ring[tt][j] == id) { hx_fail(c->res, "duplicate-element", "%s gave item %d to thread %d while it is in thread %d's private ring", what, id, t, tt); return -1; }
    }
    return 0;
}
static long umod(long a, long n) { return n > 0 ? ((a % n) + n) % n : 0; }
static int take_owned(ctx_t *c, int t, long a)
{
    if (!c->nowned[t]) return -1;
    int pos = (int)umod(a, c->nowned[t]);
    int id = c->owned[t][pos];
    c->owned[t][pos] = c->owned[t][--c->nowned[t]];
    return id;
}

/* ------------------------------------------------------------------ dispatch real calls by mode */
#define L(c) ((c)->list)
static void d_push_front(ctx_t *c, int nl, it_t *i)
{
    if (c->mode == M_DEQUE) { if (nl) s31_dq_nl_push_front(L(c), i); else s31_dq_push_front(L(c), i); }
    else { if (nl) s31_nl_push_front(L(c), i); else s31_push_front(L(c), i); }
}
static void d_push_back(ctx_t *c, int nl, it_t *i)
{
    if (c->mode == M_DEQUE) { if (nl) s31_dq_nl_push_back(L(c), i); else s31_dq_push_back(L(c), i); }
    else if (c->mode == M_FIFO) { if (nl) s31_ff_nl_push(L(c), i); else s31_ff_push(L(c), i); }
    else { if (nl) s31_nl_push_back(L(c), i); else s31_push_back(L(c), i); }
}
static void d_chain_front(ctx_t *c, int nl, it_t *r)
{
    if (c->mode == M_DEQUE) { if (nl) s31_dq_nl_chain_front(L(c), r); else s31_dq_chain_front(L(c), r); }
    else { if (nl) s31_nl_chain_front(L(c), r); else s31_chain_front(L(c), r); }
}
static void d_chain_back(ctx_t *c, int nl, it_t *r)
{
    if (c->mode == M_DEQUE) { if (nl) s31_dq_nl_chain_back(L(c), r); else s31_dq_chain_back(L(c), r); }
    else if (c->mode == M_FIFO) { if (nl) s31_ff_nl_chain(L(c), r); else s31_ff_chain(L(c), r); }
    else { if (nl) s31_nl_chain_back(L(c), r); else s31_chain_back(L(c), r); }
}
static it_t *d_pop_front(ctx_t *c, int nl)
{
    if (c->mode == M_DEQUE) return nl ? s31_dq_nl_pop_front(L(c)) : s31_dq_pop_front(L(c));
    if (c->mode == M_FIFO) return nl ? s31_ff_nl_pop(L(c)) : s31_ff_pop(L(c));
    return nl ? s31_nl_pop_front(L(c)) : s31_pop_front(L(c));
}
static it_t *d_pop_back(ctx_t *c, int nl)
{
    if (c->mode == M_DEQUE) return nl ? s31_dq_nl_pop_back(L(c)) : s31_dq_pop_back(L(c));
    return nl ? s31_nl_pop_back(L(c)) : s31_pop_back(L(c));
}
static it_t *d_try_pop_front(ctx_t *c)
{
    if (c->mode == M_DEQUE) return s31_dq_try_pop_front(L(c));
    if (c->mode == M_FIFO) return s31_ff_try_pop(L(c));
    return s31_try_pop_front(L(c));
}
static it_t *d_try_pop_back(ctx_t *c) { return c->mode == M_DEQUE ? s31_dq_try_pop_back(L(c)) : s31_try_pop_back(L(c)); }
static int d_is_empty(ctx_t *c, int nl)
{
    if (c->mode == M_DEQUE) return nl ? s31_dq_nl_is_empty(L(c)) : s31_dq_is_empty(L(c));
    if (c->mode == M_FIFO) return nl ? s31_ff_nl_is_empty(L(c)) : s31_ff_is_empty(L(c));
    return nl ? s31_nl_is_empty(L(c)) : s31_is_empty(L(c));
}

/* build a ring out of owned items with the real list_item functions; ids go to h->arg */
static it_t *build_ring(ctx_t *c, int t, int n, long pick, lin_op_t *h)
{
    it_t *ring = NULL;
    for (int j = 0; j < n; j++) {
        int id = take_owned(c, t, pick + 7 * j);
        h->arg[h->narg++] = id;
        it_t *it = &c->items[id]->super;
        if (!ring) ring = s31_item_singleton(it);
        else s31_ring_push(ring, it);
    }
    return ring;
}

/* ------------------------------------------------------------------ one operation */
static void do_op(ctx_t *c, int t, const hx_op_t *o)
{
    if (o->op < 0 || o->op >= OP_N || !(op_modes[o->op] >> c->mode & 1)) return;
    int seq1 = c->T == 1;
    int nl = seq1 && (o->c & 1);                 /* nolock variants only when nobody else can touch the list */
    /* the operation is recorded in locals and appended to the shared history when it has
     * returned (other threads run, and append, while the real call is in progress) */
    lin_op_t hloc, *h = &hloc;
    signed char lsnap[MAXI];
    int lnsnap = 0;
    memset(h, 0, sizeof(*h));
    h->thr = t; h->op = o->op; h->res = -1;
    it_t *buf[MAXI + 1];
    char when[64];
    snprintf(when, sizeof(when), "thread %d %s", t, opnames[o->op]);

    switch (o->op) {
    case OP_PUSH_FRONT: case OP_PUSH_BACK: case OP_PUSH_SORTED: case OP_ADD_AFTER_GHOST: {
        int id = take_owned(c, t, o->a);
        if (id < 0) return;
        it_t *it = &c->items[id]->super;
        h->arg[0] = id; h->narg = 1;
        c->unsorted = 1;
        h->inv = sim_stamp();
        if (o->op == OP_PUSH_FRONT) d_push_front(c, nl, it);
        else if (o->op == OP_PUSH_BACK) d_push_back(c, nl, it);
        else if (o->op == OP_PUSH_SORTED) { if (nl) s31_nl_push_sorted(L(c), it, OFF); else s31_push_sorted(L(c), it, OFF); }
        else { if (nl) s31_nl_add_after(L(c), c->ghost, it); else s31_add_after(L(c), s31_ghost(L(c)), it); }
        h->ret = sim_stamp();
        c->unsorted = 1;
        break;
    }
    case OP_CHAIN_FRONT: case OP_CHAIN_BACK: case OP_CHAIN_SORTED: {
        int n = (int)(1 + umod(o->a, 4));
        if (n > c->nowned[t]) n = c->nowned[t];
        if (!n) return;
        it_t *ring = build_ring(c, t, n, o->b, h);
        if (o->op == OP_CHAIN_SORTED)
            for (int j = 1; j < n; j++) if (c->prio[h->arg[j]] > c->prio[h->arg[j - 1]]) sim_probe(PR_CHAIN_SORTED_RESTART);
        c->unsorted = 1;
        h->inv = sim_stamp();
        if (o->op == OP_CHAIN_FRONT) d_chain_front(c, nl, ring);
        else if (o->op == OP_CHAIN_BACK) d_chain_back(c, nl, ring);
        else { if (nl) s31_nl_chain_sorted(L(c), ring, OFF); else s31_chain_sorted(L(c), ring, OFF); }
        h->ret = sim_stamp();
        c->unsorted = 1;
        break;
    }
    case OP_POP_FRONT: case OP_POP_BACK: case OP_TRY_POP_FRONT: case OP_TRY_POP_BACK: {
        if (o->op == OP_TRY_POP_FRONT || o->op == OP_TRY_POP_BACK) nl = 0;
        h->inv = sim_stamp();
        it_t *it = o->op == OP_POP_FRONT ? d_pop_front(c, nl) : o->op == OP_POP_BACK ? d_pop_back(c, nl)
                 : o->op == OP_TRY_POP_FRONT ? d_try_pop_front(c) : d_try_pop_back(c);
        h->ret = sim_stamp();
        if (it) {
            int id = id_of(c, it);
            if (id < 0) { hx_fail(c->res, "garbage-element", "%s returned a pointer that is not an item", when); return; }
            if (own_check(c, t, id, when)) return;
            c->owned[t][c->nowned[t]++] = id;
            h->res = id;
        } else if (o->op == OP_POP_FRONT || o->op == OP_POP_BACK) sim_probe(PR_POP_EMPTY);
        break;
    }
    case OP_REMOVE: {
        int id = (int)umod(o->a, c->nitems);
        it_t *it = &c->items[id]->super;
        h->arg[0] = id; h->narg = 1;
        h->inv = sim_stamp();
        if (nl) {
            h->res = s31_nl_contains(L(c), it);
            if (h->res) {
                it_t *pred = s31_nl_remove(L(c), it);   /* documented: returns the predecessor of item in list */
                int pid = pred == c->ghost ? -1 : id_of(c, pred);
                if (pred != c->ghost && pid < 0) { hx_fail(c->res, "garbage-element", "%s: nolock_remove returned a pointer that is not an item", when); return; }
                h->arg[1] = pid + 1; h->narg = 2;
            }
        } else h->res = s31_remove_if_present(L(c), it);
        h->ret = sim_stamp();
        if (h->res) {
            if (own_check(c, t, id, when)) return;
            c->owned[t][c->nowned[t]++] = id;
            sim_probe(PR_REMOVE_HIT);
        } else sim_probe(PR_REMOVE_MISS);
        break;
    }
    case OP_ITERATE: case OP_UNCHAIN: case OP_SORT: {
        int n = 0;
        if (o->op == OP_SORT && !seq1 && !c->conc_sort) return;
        h->inv = sim_stamp();
        if (o->op == OP_ITERATE) {
            n = nl ? s31_nl_snapshot(L(c), buf, MAXI) : s31_snapshot(L(c), buf, MAXI);
            h->ret = sim_stamp();
            if (nl && n <= MAXI) {   /* reverse iterator must see the mirror image */
                it_t *rb[MAXI + 1];
                int rn = s31_nl_rev_snapshot(L(c), rb, MAXI);
                int bad = rn != n;
                for (int i = 0; i < n && !bad; i++) bad = rb[i] != buf[n - 1 - i];
                if (bad) { hx_fail(c->res, "broken-links", "%s: reverse iteration is not the mirror image of forward iteration", when); return; }
            }
        } else if (o->op == OP_UNCHAIN) {
            it_t *ring = nl ? s31_nl_unchain(L(c)) : s31_unchain(L(c));
            h->ret = sim_stamp();
            if (ring) {
                signed char ids[MAXI];
                n = ring_ids(c, ring, ids, c->nitems, when);
                if (n < 0) return;
                for (int i = 0; i < n; i++) {
                    if (own_check(c, t, ids[i], when)) return;
                    c->owned[t][c->nowned[t]++] = ids[i];
                    buf[i] = &c->items[ids[i]]->super;
                }
                if (n >= 2) sim_probe(PR_UNCHAIN_GE2);
            }
        } else {
            if (seq1) {
                if (nl) s31_nl_sort(L(c), OFF); else s31_sort(L(c), OFF);
                h->ret = sim_stamp();
                seq_t w;
                if (walk_list(c, &w, when)) return;
                n = w.n;
                for (int i = 0; i < n; i++) buf[i] = &c->items[w.s[i]]->super;
            } else if (c->cons_only) {
                /* the real locked sort, racing with the other threads; nothing is returned, nothing is observed here */
                c->unsorted = 0;
                s31_sort(L(c), OFF);
                h->ret = sim_stamp();
                c->sorts++;
                sim_probe(PR_REAL_SORT);
            } else {
                n = s31_sort_snapshot(L(c), OFF, buf, MAXI);
                h->ret = sim_stamp();
            }
        }
        if (n > MAXI) { hx_fail(c->res, "duplicate-element", "%s visited more than %d elements: the list is cyclic", when, MAXI); return; }
        for (int i = 0; i < n; i++) {
            int id = id_of(c, buf[i]);
            if (id < 0) { hx_fail(c->res, "garbage-element", "%s visited a pointer that is not an item", when); return; }
            lsnap[i] = (signed char)id;
        }
        lnsnap = n;
        h->res = n;
        break;
    }
    case OP_IS_EMPTY:
        h->inv = sim_stamp();
        h->res = d_is_empty(c, nl) ? 1 : 0;
        h->ret = sim_stamp();
        break;
    case OP_ADD_POS: {      /* T = 1 only: positional insertion needs a stable position */
        if (!seq1) return;
        int id = take_owned(c, t, o->a);
        if (id < 0) return;
        int k = (int)umod(o->b, c->cur.n + 1);
        int after = (int)(o->c >> 1 & 1);
        int pid = k == c->cur.n ? -1 : c->cur.s[k];
        it_t *pos = pid < 0 ? c->ghost : &c->items[pid]->super;
        h->arg[0] = id; h->arg[1] = pid; h->arg[2] = after; h->narg = 3;
        h->inv = sim_stamp();
        if (after) s31_nl_add_after(L(c), pos, &c->items[id]->super); else s31_nl_add_before(L(c), pos, &c->items[id]->super);
        h->ret = sim_stamp();
        nl = 1;
        break;
    }
    case OP_RING_PUSH: {    /* thread-private ring built with parsec_list_item_ring_push_sorted */
        if (c->nring[t] >= MAXRING) return;
        int id = take_owned(c, t, o->a);
        if (id < 0) return;
        it_t *old = c->ringp[t];
        c->ringp[t] = s31_ring_push_sorted(old, &c->items[id]->super, OFF);
        /* property: "ring sorted insertion keeps the ring ordered".  The observed ring (from the
         * returned head) must be the old ring with the new item inserted somewhere, and be
         * non-increasing.  Where the item lands among equal priorities is not judged (list_item.h
         * documents "before the first p such that A_LOWER_PRIORITY_THAN_B(item, p) is false",
         * i.e. before its equals; a probe records that this is what happens). */
        int n = c->nring[t], i = -1;
        signed char ids[MAXRING + 1];
        int rn = ring_ids(c, c->ringp[t], ids, n + 1, when);
        if (rn < 0) return;
        int bad = rn != n + 1;
        for (int j = 0, k = 0; j < rn && !bad; j++) {
            if (ids[j] == id && i < 0) { i = j; continue; }
            if (k >= n || ids[j] != c->ring[t][k++]) bad = 1;
        }
        if (i < 0) bad = 1;
        for (int j = 1; j < rn && !bad; j++) if (c->prio[ids[j - 1]] < c->prio[ids[j]]) bad = 1;
        if (bad) {
            char a[160] = "", b[160] = "";
            size_t ka = 0, kb = 0;
            for (int j = 0; j < rn; j++) ka += (size_t)snprintf(a + ka, sizeof(a) - ka, " %d(p%d)", ids[j], c->prio[ids[j]]);
            for (int j = 0; j < n; j++) kb += (size_t)snprintf(b + kb, sizeof(b) - kb, " %d(p%d)", c->ring[t][j], c->prio[c->ring[t][j]]);
            hx_fail(c->res, "wrong-ring-order", "ring_push_sorted of item %d(p%d) into [%s ] gave [%s ]: not the old ring plus the item in non-increasing order", id, c->prio[id], b, a);
            return;
        }
        if (i + 1 < rn && c->prio[ids[i + 1]] == c->prio[id]) sim_probe(PR_RING_TIE);           /* landed before an equal */
        if (i == 0 && n) sim_probe(PR_RING_NEW_HEAD);
        for (int j = 0; j < rn; j++) c->ring[t][j] = ids[j];
        c->nring[t] = rn;
        hx_hash(c->res, 0x5100ULL ^ (uint64_t)id << 8 ^ (uint64_t)i);
        return;     /* not part of the list history */
    }
    case OP_RING_FLUSH: {   /* hand the private ring to the list */
        int n = c->nring[t];
        if (!n) return;
        it_t *ring = c->ringp[t];
        for (int j = 0; j < n; j++) h->arg[h->narg++] = c->ring[t][j];
        c->nring[t] = 0; c->ringp[t] = NULL;
        int front = (o->a & 1) && (c->mode == M_LIST || c->mode == M_DEQUE);
        h->op = c->mode == M_SORTED ? OP_CHAIN_SORTED : front ? OP_CHAIN_FRONT : OP_CHAIN_BACK;
        c->unsorted = 1;
        h->inv = sim_stamp();
        if (c->mode == M_SORTED) { if (nl) s31_nl_chain_sorted(L(c), ring, OFF); else s31_chain_sorted(L(c), ring, OFF); }
        else if (front) d_chain_front(c, nl, ring);
        else d_chain_back(c, nl, ring);
        h->ret = sim_stamp();
        c->unsorted = 1;
        break;
    }
    default: return;
    }
    if (nl) sim_probe(PR_NOLOCK_OP);
    if (c->cons_only) {
        /* conservation-only plan: the history is not judged; the stamps are kept for the overlap probe */
        hx_hash(c->res, ((uint64_t)h->thr << 56) ^ ((uint64_t)h->op << 48) ^ ((uint64_t)(h->res + 1) << 32) ^ ((uint64_t)h->arg[0] << 8) ^ (uint64_t)h->narg);
        if (c->nhist < LIN_MAX_OPS) c->hist[c->nhist++] = hloc;
        return;
    }
    if (!seq1 && c->nhist >= LIN_MAX_OPS) { c->res->discard = 1; c->res->discard_why = "history-too-long"; return; }
    int hi = seq1 ? 0 : c->nhist;
    c->hist[hi] = hloc;
    h = &c->hist[hi];
    memcpy(c->snap[hi], lsnap, sizeof(lsnap));
    c->nsnap[hi] = lnsnap;
    hx_hash(c->res, ((uint64_t)h->thr << 56) ^ ((uint64_t)h->op << 48) ^ ((uint64_t)(h->res + 1) << 32) ^ ((uint64_t)h->arg[0] << 8) ^ (uint64_t)h->narg);

    if (seq1) {
        /* sequential plan: step the model and compare with the real list after every operation */
        seq_t before = c->cur;
        if (h->op == OP_PUSH_SORTED || h->op == OP_CHAIN_SORTED) {
            seq_t tmp = c->cur;
            for (int j = 0; j < h->narg; j++) if (seq_push_sorted(&tmp, (int)h->arg[j], c->prio)) sim_probe(PR_SORTED_TIE);
        }
        if (h->op == OP_SORT) {
            int re = 0, ties = 0;
            if (sort_ok(&c->cur, c, 0, &re, &ties)) { if (ties) sim_probe(PR_SORT_TIES); if (re) sim_probe(PR_SORT_TIES_REORDERED); }
        }
        if (!m_apply(&c->cur, h, c)) {
            char a[400], b[400];
            seq_t obs;
            obs.n = c->nsnap[0]; memcpy(obs.s, c->snap[0], (size_t)obs.n);
            seq_str(c, &before, a, sizeof(a)); seq_str(c, &obs, b, sizeof(b));
            const char *cls = h->op == OP_SORT ? "wrong-sort" : "wrong-result";
            hx_fail(c->res, cls, "%s (arg %ld, result %ld%s) is impossible on content [%s]; observed [%s]", when, h->arg[0], h->res,
                    nl ? ", nolock variant" : "", a, b);
            return;
        }
        seq_t w;
        if (walk_list(c, &w, when)) return;
        if (w.n != c->cur.n || memcmp(w.s, c->cur.s, (size_t)w.n)) {
            char a[300], b[300], d[300];
            seq_str(c, &before, d, sizeof(d)); seq_str(c, &w, a, sizeof(a)); seq_str(c, &c->cur, b, sizeof(b));
            hx_fail(c->res, "wrong-content", "after %s (arg %ld%s) on [%s]: list is [%s], model says [%s]", when, h->arg[0], nl ? ", nolock variant" : "", d, a, b);
            return;
        }
        if (c->mode == M_SORTED)
            for (int i = 1; i < w.n; i++) if (c->prio[w.s[i - 1]] < c->prio[w.s[i]]) { hx_fail(c->res, "not-sorted", "after %s the sorted list is not non-increasing at position %d", when, i); return; }
    } else c->nhist++;
}

static void worker(int t, void *arg)
{
    ctx_t *c = arg;
    for (int k = 0; k < c->plan->nops; k++) {
        const hx_op_t *o = &c->plan->ops[k];
        if (o->thr != t) continue;
        if (c->res->vclass) return;
        if (c->T > 1 && !c->cons_only && c->nhist >= LIN_MAX_OPS) break;
        do_op(c, t, o);
    }
}

/* ------------------------------------------------------------------ plan generation */
typedef struct { int op, w; } wop_t;
static const wop_t w_list[] = {{OP_PUSH_FRONT, 10}, {OP_PUSH_BACK, 10}, {OP_CHAIN_FRONT, 6}, {OP_CHAIN_BACK, 6}, {OP_POP_FRONT, 12},
    {OP_POP_BACK, 12}, {OP_TRY_POP_FRONT, 6}, {OP_TRY_POP_BACK, 6}, {OP_REMOVE, 8}, {OP_ITERATE, 6}, {OP_UNCHAIN, 3}, {OP_IS_EMPTY, 3},
    {OP_ADD_AFTER_GHOST, 4}, {OP_SORT, 7}, {OP_ADD_POS, 7}, {OP_RING_PUSH, 6}, {OP_RING_FLUSH, 3}, {-1, 0}};
static const wop_t w_sorted[] = {{OP_PUSH_SORTED, 25}, {OP_CHAIN_SORTED, 12}, {OP_POP_FRONT, 12}, {OP_POP_BACK, 10}, {OP_TRY_POP_FRONT, 5},
    {OP_TRY_POP_BACK, 5}, {OP_REMOVE, 8}, {OP_ITERATE, 8}, {OP_UNCHAIN, 2}, {OP_IS_EMPTY, 2}, {OP_RING_PUSH, 8}, {OP_RING_FLUSH, 4}, {-1, 0}};
static const wop_t w_deque[] = {{OP_PUSH_FRONT, 14}, {OP_PUSH_BACK, 14}, {OP_CHAIN_FRONT, 7}, {OP_CHAIN_BACK, 7}, {OP_POP_FRONT, 15},
    {OP_POP_BACK, 15}, {OP_TRY_POP_FRONT, 7}, {OP_TRY_POP_BACK, 7}, {OP_IS_EMPTY, 4}, {OP_RING_PUSH, 6}, {OP_RING_FLUSH, 4}, {-1, 0}};
static const wop_t w_fifo[] = {{OP_PUSH_BACK, 30}, {OP_CHAIN_BACK, 12}, {OP_POP_FRONT, 30}, {OP_TRY_POP_FRONT, 12}, {OP_IS_EMPTY, 5},
    {OP_RING_PUSH, 7}, {OP_RING_FLUSH, 4}, {-1, 0}};
static const wop_t *const w_tabs[M_N] = {w_list, w_sorted, w_deque, w_fifo};
static const int prio_bases[] = {-3, 0, 1, 50, 0x7ffffff0 - 4};

static void gen(hx_plan_t *p, hx_rng_t *r)
{
    int k = (int)hx_below(r, 100);
    int T = k < 30 ? 1 : k < 60 ? 2 : k < 85 ? 3 : 4;
    k = (int)hx_below(r, 100);
    int mode = k < 30 ? M_LIST : k < 70 ? M_SORTED : k < 85 ? M_DEQUE : M_FIFO;
    hx_set_knob(p, "threads", T);
    hx_set_knob(p, "mode", mode);
    hx_set_knob(p, "initial", hx_range(r, 0, 5));
    hx_set_knob(p, "per_thread", T == 1 ? hx_range(r, 3, 12) : hx_range(r, 1, 4));
    hx_set_knob(p, "prio_range", hx_range(r, 1, 4));
    hx_set_knob(p, "prio_base", hx_below(r, 5));
    hx_set_knob(p, "prio_seed", hx_below(r, 1000000));
    const wop_t *tab = w_tabs[mode];
    int tot = 0;
    for (int i = 0; tab[i].op >= 0; i++) tot += tab[i].w;
    int nops = T == 1 ? (int)hx_range(r, 8, 50) : (int)hx_range(r, 4, 22);
    for (int i = 0; i < nops; i++) {
        int t = (int)hx_below(r, T);
        int x = (int)hx_below(r, tot), op = tab[0].op;
        for (int j = 0; tab[j].op >= 0; j++) { if (x < tab[j].w) { op = tab[j].op; break; } x -= tab[j].w; }
        hx_add_op(p, t, op, hx_below(r, 1000), hx_below(r, 1000), hx_below(r, 4));
    }
    /* drawn last so that the op stream of a seed does not depend on it */
    int conc = mode == M_LIST && T > 1 && hx_below(r, 100) < 40;
    hx_set_knob(p, "conc_sort", conc);
    /* half of them: the real parsec_list_sort, conservation-only verdict (see header).  No history bound
     * there, so some more operations, mostly sorts and insertions / pops that can collide with them,
     * on a list that has something to sort */
    int real = conc && hx_below(r, 100) < 50;
    hx_set_knob(p, "real_sort", real);
    if (real) {
        static const wop_t w_rs[] = {{OP_SORT, 36}, {OP_PUSH_FRONT, 12}, {OP_PUSH_BACK, 12}, {OP_POP_FRONT, 10}, {OP_POP_BACK, 10},
            {OP_CHAIN_FRONT, 5}, {OP_CHAIN_BACK, 5}, {OP_REMOVE, 4}, {OP_ITERATE, 3}, {OP_UNCHAIN, 3}, {-1, 0}};
        int rtot = 0;
        for (int i = 0; w_rs[i].op >= 0; i++) rtot += w_rs[i].w;
        hx_set_knob(p, "initial", hx_range(r, 2, 9));
        hx_set_knob(p, "per_thread", hx_range(r, 2, 5));
        int extra = (int)hx_range(r, 4, 14);
        for (int i = 0; i < extra; i++) {
            int t = (int)hx_below(r, T);
            int x = (int)hx_below(r, rtot), op = w_rs[0].op;
            for (int j = 0; w_rs[j].op >= 0; j++) { if (x < w_rs[j].w) { op = w_rs[j].op; break; } x -= w_rs[j].w; }
            hx_add_op(p, t, op, hx_below(r, 1000), hx_below(r, 1000), hx_below(r, 4));
        }
        /* spread them over the threads' lists */
        for (int i = p->nops - 1; i > 0; i--) {
            int j = (int)hx_below(r, i + 1);
            hx_op_t tmp = p->ops[i]; p->ops[i] = p->ops[j]; p->ops[j] = tmp;
        }
    }
}

/* ------------------------------------------------------------------ run */
static void run(const hx_plan_t *p, hx_result_t *res)
{
    static ctx_t c;
    memset(&c, 0, sizeof(c));
    c.plan = p; c.res = res;
    int T = (int)hx_knob(p, "threads", 2), init = (int)hx_knob(p, "initial", 0), per = (int)hx_knob(p, "per_thread", 1);
    if (T < 1) T = 1;
    if (T > MAXT) T = MAXT;
    if (init < 0) init = 0;
    if (per < 0) per = 0;
    c.T = T;
    c.mode = (int)hx_knob(p, "mode", 0);
    if (c.mode < 0 || c.mode >= M_N) c.mode = 0;
    c.strict_sort = (int)hx_knob(p, "strict_sort", 0);
    c.conc_sort = (int)hx_knob(p, "conc_sort", 0);
    c.cons_only = T > 1 && c.mode == M_LIST && c.conc_sort && hx_knob(p, "real_sort", 0) != 0;
    c.nitems = init + T * per;
    if (c.nitems > MAXI || c.nitems < 1) { res->discard = 1; res->discard_why = "item-count"; return; }
    long prange = hx_knob(p, "prio_range", 3), pbi = hx_knob(p, "prio_base", 1);
    uint64_t ps = (uint64_t)hx_knob(p, "prio_seed", 1) * 0x9E3779B97F4A7C15ULL + 99;
    if (prange < 1) prange = 1;
    if (pbi < 0 || pbi >= (long)(sizeof(prio_bases) / sizeof(prio_bases[0]))) pbi = 1;

    /* one object of each class in every run: class initialisation is lazy (first OBJ_NEW in the
     * process), and a run must not behave differently because it is the first of its mode */
    parsec_list_t *objs[3] = {PARSEC_OBJ_NEW(parsec_list_t), (parsec_list_t *)PARSEC_OBJ_NEW(parsec_dequeue_t), (parsec_list_t *)PARSEC_OBJ_NEW(parsec_fifo_t)};
    c.list = objs[c.mode == M_DEQUE ? 1 : c.mode == M_FIFO ? 2 : 0];
    c.ghost = &c.list->ghost_element;
    for (int i = 0; i < c.nitems; i++) {
        c.items[i] = (item_t *)calloc(1, sizeof(item_t));
        PARSEC_OBJ_CONSTRUCT(&c.items[i]->super, parsec_list_item_t);
        c.items[i]->id = i;
        c.prio[i] = c.items[i]->prio = prio_bases[pbi] + (int)(sim_splitmix(&ps) % (uint64_t)prange);
    }
    for (int i = 0; i < init; i++) {
        if (c.mode == M_SORTED) { s31_push_sorted(c.list, &c.items[i]->super, OFF); seq_push_sorted(&c.init, i, c.prio); }
        else { d_push_back(&c, 0, &c.items[i]->super); seq_ins(&c.init, c.init.n, i); }
    }
    c.cur = c.init;
    for (int t = 0; t < T; t++) for (int j = 0; j < per; j++) c.owned[t][c.nowned[t]++] = init + t * per + j;

    hx_run_threads(T, worker, &c);

    sim_pause();
    /* quiescent point: content, links, conservation, sortedness */
    int seen[MAXI] = {0};
    if (!res->vclass && !walk_list(&c, &final_obs, "at the end")) {
        for (int i = 0; i < final_obs.n; i++) seen[(int)final_obs.s[i]]++;
        for (int t = 0; t < T && !res->vclass; t++) {
            for (int j = 0; j < c.nowned[t] && !res->vclass; j++)
                if (seen[c.owned[t][j]]++) hx_fail(res, "duplicate-element", "item %d is held by thread %d and is also elsewhere at the end", c.owned[t][j], t);
            for (int j = 0; j < c.nring[t] && !res->vclass; j++)
                if (seen[c.ring[t][j]]++) hx_fail(res, "duplicate-element", "item %d is in thread %d's private ring and also elsewhere at the end", c.ring[t][j], t);
        }
        for (int i = 0; i < c.nitems && !res->vclass; i++)
            if (!seen[i]) hx_fail(res, "lost-element", "item %d(p%d) is neither in the list nor held by a thread at the end", i, c.prio[i]);
        if (c.mode == M_SORTED)
            for (int i = 1; i < final_obs.n && !res->vclass; i++)
                if (c.prio[(int)final_obs.s[i - 1]] < c.prio[(int)final_obs.s[i]])
                    hx_fail(res, "not-sorted", "quiescent list built only by sorted insertions is not non-increasing at position %d", i);
        for (int i = 0; i < final_obs.n; i++) hx_hash(res, (uint64_t)final_obs.s[i] + 1);
    }
    if (!res->vclass && c.cons_only) {
        /* conservation-only plan: content, links and conservation have been judged above.  Order: every
         * insertion had returned before the last real sort was invoked => that sort ordered everything
         * that is still there (ties in any order; direction as documented, see header) */
        if (c.sorts && !c.unsorted) {
            sim_probe(PR_REAL_SORT_JUDGED);
            for (int i = 1; i < final_obs.n && !res->vclass; i++)
                if (c.prio[(int)final_obs.s[i - 1]] > c.prio[(int)final_obs.s[i]]) {
                    char a[300];
                    seq_str(&c, &final_obs, a, sizeof(a));
                    hx_fail(res, "wrong-sort", "no insertion after the last parsec_list_sort, but the quiescent list [%s] is not ordered by priority at position %d", a, i);
                }
        }
        for (int i = 0, hit = 0; i < c.nhist && !hit; i++) if (c.hist[i].op == OP_SORT)
            for (int j = 0; j < c.nhist && !hit; j++)
                if (j != i && c.hist[j].inv < c.hist[i].ret && c.hist[i].inv < c.hist[j].ret) { sim_probe(PR_REAL_SORT_OVERLAP); hit = 1; }
    } else if (!res->vclass && T > 1) {
        int order[LIN_MAX_OPS];
        int r = lin_check(&model, c.hist, c.nhist, &c, 3000000, m_final, order);
        if (r == 0) {
            if (getenv("C31_DEBUG"))
                for (int i = 0; i < c.nhist; i++) {
                    lin_op_t *h = &c.hist[i];
                    fprintf(stderr, "  [%d] thr %d %s inv %llu ret %llu res %ld args", i, h->thr, opnames[h->op], (unsigned long long)h->inv, (unsigned long long)h->ret, h->res);
                    for (int j = 0; j < h->narg; j++) fprintf(stderr, " %ld", h->arg[j]);
                    fprintf(stderr, " snap");
                    for (int j = 0; j < c.nsnap[i]; j++) fprintf(stderr, " %d", c.snap[i][j]);
                    fprintf(stderr, "\n");
                }
            char a[300];
            seq_str(&c, &final_obs, a, sizeof(a));
            hx_fail(res, "non-linearizable", "history of %d ops (mode %d) has no linearization against the sequence model ending in [%s]", c.nhist, c.mode, a);
        } else if (r < 0) { res->discard = 1; res->discard_why = "checker-budget"; }
        else {
            seq_t s = c.init;
            for (int i = 0; i < c.nhist; i++) {
                lin_op_t *h = &c.hist[order[i]];
                if ((h->op == OP_TRY_POP_FRONT || h->op == OP_TRY_POP_BACK) && h->res < 0 && s.n) sim_probe(PR_TRYPOP_CONTENDED);
                if (h->op == OP_PUSH_SORTED || h->op == OP_CHAIN_SORTED) {
                    seq_t tmp = s;
                    for (int j = 0; j < h->narg; j++) if (seq_push_sorted(&tmp, (int)h->arg[j], c.prio)) sim_probe(PR_SORTED_TIE);
                }
                if (h->op == OP_SORT) {
                    int re = 0, ties = 0;
                    if (sort_ok(&s, &c, order[i], &re, &ties)) { if (ties) sim_probe(PR_SORT_TIES); if (re) sim_probe(PR_SORT_TIES_REORDERED); }
                }
                m_apply(&s, h, &c);
            }
        }
    }
    sim_resume();
    /* leave the list empty for its destructor, free everything */
    c.ghost->list_next = c.ghost; c.ghost->list_prev = c.ghost;
    for (int i = 0; i < c.nitems; i++) free(c.items[i]);
    for (int i = 0; i < 3; i++) PARSEC_OBJ_RELEASE(objs[i]);
}

static const hx_harness_t H = {
    .property = "C31", .name = "c31_list", .opnames = opnames, .nopnames = OP_N,
    .est_steps = 400, .max_steps = 3000000, .gen = gen, .run = run,
    .probe_names = probe_names, .nprobes = PR_N,
};
int main(int argc, char **argv) { return hx_main(argc, argv, &H); }
