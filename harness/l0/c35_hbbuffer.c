/* C35: task buffers and heaps keep every task and prefer the best (DESIGN 4, C35).
 *
 * Real code: parsec/hbbuffer.c, parsec/maxheap.c (out-of-line, instrumented in libparsec_b.a), the
 * schedulers' overflow wrappers (sched_local_queues_utils.h) and parsec/class/dequeue.h+list.h for
 * the parent store (through the instrumented shim).  Simulated: thread interleaving.
 *
 * Two scenarios (knob "scenario"):
 *  0 tasks : 1-3 level-0 hbbuffers of 1-8 slots, optionally one shared level-1 hbbuffer between
 *            them and the system dequeue (the parent store).  1-4 sim-threads push_all /
 *            push_all_by_priority (rings sorted by decreasing priority, as the function's comments
 *            require) / pop_best on any buffer and pop the system queue.  Elements are fake
 *            parsec_task_t (only the list item and ->priority are ever touched by this code).
 *  1 heaps : the sched_ltq protocol.  One hbbuffer per thread, parent = system dequeue.  Buffers
 *            hold parsec_heap_t; a heap is owned exclusively by the thread that obtained it from
 *            parsec_hbbuffer_pop_best / the system queue until the push_all that returns it, and
 *            only its owner calls heap_insert / heap_remove / heap_split_and_steal (maxheap has no
 *            synchronisation of its own).  Operations are copies of sched_ltq_schedule /
 *            sched_ltq_select's three stages, plus "insert into an owned heap".
 * Plans are cut into segments by "quiesce" ops: all threads are joined, the structure is audited
 * and pop_best is judged, then the next segment starts.
 *
 * Oracle
 *  - every object returned by a pop must be a live object that is inside the structure (not in
 *    any thread's hands): garbage-element / duplicate-element, checked at the instant of return;
 *  - conservation at every quiescent point and at the end (direct inspection of the buffer slots,
 *    the dequeue links and the heap trees with the world stopped): buffer U parent U hands ==
 *    everything, each exactly once (lost-element / duplicate-element);
 *  - at quiescent points parsec_hbbuffer_pop_best must return an element of the highest priority
 *    the buffer holds, and NULL only if it holds nothing (not-best / pop-best-missed);
 *  - whenever a heap changes hands (before every push, after every pop, at the audits) its top
 *    must be the maximum of the tasks reachable in its tree and heap->priority (what pop_best
 *    compares) must be the top's priority (heap-top-not-max); in the final drain heap_remove must
 *    produce each heap's tasks in non-increasing priority and every task exactly once.
 *  Concurrent pop_best results are deliberately NOT judged for priority (the scan is not atomic and
 *  hbbuffer.c documents that push_all_by_priority may expel a better element under ABA).
 */
#include "../hx.h"
#include "parsec/parsec_config.h"
#include "parsec/parsec_internal.h"
#include "parsec/class/dequeue.h"
#include "parsec/hbbuffer.h"
#include "parsec/maxheap.h"
#include <stdlib.h>
#include <string.h>

void s35_push_in_queue(void *dequeue, parsec_list_item_t *elt, int32_t distance);
void s35_push_in_buffer(void *hbbuffer, parsec_list_item_t *elt, int32_t distance);
parsec_list_item_t *s35_dequeue_pop_front(parsec_dequeue_t *d);
parsec_list_item_t *s35_dequeue_try_pop_front(parsec_dequeue_t *d);
size_t s35_task_prio_offset(void);

enum { SC_TASKS, SC_HEAPS };
enum { OP_PUSH_ALL, OP_PUSH_PRIO, OP_POP_BEST, OP_SYSQ_POP, OP_OCCUPANCY, OP_SCHEDULE, OP_SELECT, OP_STEAL, OP_SYSQ_STEAL,
       OP_INSERT, OP_QUIESCE, OP_N };
static const char *const opnames[] = {"push_all", "push_all_by_priority", "pop_best", "sysq_pop", "occupancy", "ltq_schedule",
    "ltq_select_local", "ltq_steal", "ltq_sysq", "heap_insert_owned", "quiesce"};
static const unsigned char op_scen[OP_N] = {1, 1, 1, 1, 1, 2, 2, 2, 2, 2, 3};

enum { PR_OVERFLOW, PR_EJECT, PR_UPSTREAM, PR_L1_STORED, PR_POP_NULL, PR_QPOP_CHOICE, PR_QPOP_EMPTY, PR_SYSQ_GOT, PR_SPLIT3,
       PR_SPLIT2, PR_HEAP_DESTROYED, PR_STEAL_OK, PR_SYSQ_HEAP, PR_HEAP_GE32, PR_INSERT_OWNED, PR_HEAP_RING_GE2, PR_N };
static const char *const probe_names[] = {"overflow_to_parent(distance0)", "by_priority_ejected_resident", "pushed_upstream(distance>0)",
    "level1_buffer_held_elements", "pop_best_null_in_concurrent_phase", "quiescent_pop_with_distinct_priorities", "quiescent_pop_on_empty",
    "sysq_pop_got_element", "heap_split_ge3", "heap_steal_size2", "heap_destroyed", "steal_from_other_queue_ok", "heap_taken_from_sysq",
    "heap_ge32_tasks_changed_hands", "insert_into_travelled_heap", "schedule_ring_ge2_heaps"};

#define MAXTASK 200
#define MAXT 4
#define MAXBUF 5
#define MAXHEAP 256
#define MAXPUSH 64

typedef struct { parsec_task_t t; int id; } ftask_t;
struct ctx;
typedef struct { struct ctx *c; int kind; void *real; } pstore_t;   /* kind 0: system dequeue, 1: upper hbbuffer */

typedef struct ctx {
    const hx_plan_t *plan;
    hx_result_t *res;
    int scen, T, ntasks, nb, l1;             /* nb buffers in total; l1 = index of the level-1 buffer or -1 */
    parsec_hbbuffer_t *buf[MAXBUF];
    int bsize[MAXBUF];
    pstore_t pst[MAXBUF];
    parsec_dequeue_t *sysq;
    ftask_t *pool;
    int prio[MAXTASK];
    int where[MAXTASK];                      /* >= 0: in that thread's hands; -1: inside the structure */
    int owned[MAXT][MAXTASK], nowned[MAXT];
    parsec_heap_t *heaps[MAXHEAP];
    int hstate[MAXHEAP];                     /* >= 0 owner thread, -1 inside the structure */
    int nheapslots;
    size_t off_task, off_heap;
    int seg_lo, seg_hi;
    unsigned mark[MAXTASK], stamp;
} ctx_t;

static __thread int tl_t;
static __thread int tl_dist0;
static __thread const int *tl_push_ids;
static __thread int tl_npush;

static long umod(long a, long n) { return n > 0 ? ((a % n) + n) % n : 0; }
#define FAILED(c) ((c)->res->vclass != NULL)

/* ------------------------------------------------------------------ object identification */
static int task_id(const ctx_t *c, const volatile void *p)
{
    uintptr_t a = (uintptr_t)p, b = (uintptr_t)c->pool;
    if (a < b || a >= b + (uintptr_t)c->ntasks * sizeof(ftask_t) || (a - b) % sizeof(ftask_t)) return -1;
    return (int)((a - b) / sizeof(ftask_t));
}
static parsec_list_item_t *task_item(ctx_t *c, int id) { return &c->pool[id].t.super; }
static int heap_idx(const ctx_t *c, const volatile void *p)
{
    if (!p) return -1;
    for (int i = 0; i < c->nheapslots; i++) if ((const volatile void *)c->heaps[i] == p) return i;
    return -1;
}
static int heap_reg(ctx_t *c, parsec_heap_t *h, int owner)
{
    int i;
    for (i = 0; i < c->nheapslots; i++) if (!c->heaps[i]) break;
    if (i == c->nheapslots) { if (c->nheapslots >= MAXHEAP) return -1; c->nheapslots++; }
    c->heaps[i] = h; c->hstate[i] = owner;
    return i;
}
static void heap_unreg(ctx_t *c, int i) { c->heaps[i] = NULL; sim_probe(PR_HEAP_DESTROYED); }

/* walk one heap's tree (world stopped).  seen != NULL: global audit counters */
static int walk_heap(ctx_t *c, parsec_heap_t *h, const char *when, int *seen, int *count_out)
{
    parsec_task_t *stack[MAXTASK + 2];
    int sp = 0, count = 0, maxp = 0;
    if (!h->top) { hx_fail(c->res, "heap-corrupt", "%s: heap in circulation has no top (size field %u)", when, h->size); return -1; }
    c->stamp++;
    stack[sp++] = h->top;
    while (sp) {
        parsec_task_t *n = stack[--sp];
        int id = task_id(c, n);
        if (id < 0) { hx_fail(c->res, "garbage-element", "%s: heap tree contains a pointer that is not a task", when); return -1; }
        if (c->mark[id] == c->stamp) { hx_fail(c->res, "duplicate-element", "%s: task %d is reachable twice in one heap tree", when, id); return -1; }
        c->mark[id] = c->stamp;
        if (c->where[id] >= 0) { hx_fail(c->res, "duplicate-element", "%s: task %d is in a heap tree and in thread %d's hands", when, id, c->where[id]); return -1; }
        if (seen && seen[id]++) { hx_fail(c->res, "duplicate-element", "%s: task %d found in two places", when, id); return -1; }
        if (!count || c->prio[id] > maxp) maxp = c->prio[id];
        count++;
        if (n->super.list_prev) stack[sp++] = (parsec_task_t *)n->super.list_prev;
        if (n->super.list_next) stack[sp++] = (parsec_task_t *)n->super.list_next;
        if (sp > MAXTASK) { hx_fail(c->res, "heap-corrupt", "%s: heap tree is larger than the number of tasks", when); return -1; }
    }
    int tid = task_id(c, h->top);
    if (c->prio[tid] != maxp) { hx_fail(c->res, "heap-top-not-max", "%s: heap top is task %d (priority %d) but its tree holds priority %d (%d tasks)", when, tid, c->prio[tid], maxp, count); return -1; }
    if ((int)h->priority != c->prio[tid]) { hx_fail(c->res, "heap-top-not-max", "%s: heap->priority is %d but the top task %d has priority %d", when, (int)h->priority, tid, c->prio[tid]); return -1; }
    if (count >= 32) sim_probe(PR_HEAP_GE32);
    if (count_out) *count_out = count;
    return 0;
}

static void got_task(ctx_t *c, int t, const volatile void *p, const char *when)
{
    int id = task_id(c, p);
    if (id < 0) { hx_fail(c->res, "garbage-element", "%s returned a pointer that is not a task", when); return; }
    if (c->where[id] >= 0) { hx_fail(c->res, "duplicate-element", "%s returned task %d (priority %d) which thread %d already holds", when, id, c->prio[id], c->where[id]); return; }
    c->where[id] = t;
    c->owned[t][c->nowned[t]++] = id;
    hx_hash(c->res, 0x7000ULL ^ (uint64_t)t << 20 ^ (uint64_t)id);
}
/* a heap arrives in thread t's hands */
static int got_heap_n(ctx_t *c, int t, parsec_heap_t *h, const char *when, int *count);
static int got_heap(ctx_t *c, int t, parsec_heap_t *h, const char *when) { return got_heap_n(c, t, h, when, NULL); }
static int got_heap_n(ctx_t *c, int t, parsec_heap_t *h, const char *when, int *count)
{
    int i = heap_idx(c, h);
    if (i < 0) { hx_fail(c->res, "garbage-element", "%s returned a pointer that is not a live heap", when); return -1; }
    if (c->hstate[i] >= 0) { hx_fail(c->res, "duplicate-element", "%s returned heap #%d which thread %d owns", when, i, c->hstate[i]); return -1; }
    c->hstate[i] = t;
    hx_hash(c->res, 0x8000ULL ^ (uint64_t)t << 20 ^ (uint64_t)i);
    return walk_heap(c, h, when, NULL, count);
}
/* heap_remove / heap_split_and_steal free the heap object iff they empty it, i.e. iff it holds one
 * task.  The registry entry must be dropped BEFORE the call: the allocator may give the same
 * address to another thread's heap_create while the call is still in progress, and the registry
 * is keyed by address.  after_call() reconciles if the real code did something else. */
static int before_consume(ctx_t *c, int hi, int count) { if (hi >= 0 && count == 1) { heap_unreg(c, hi); return 1; } return 0; }
static int after_consume(ctx_t *c, int t, int hi, int dropped, parsec_heap_t *heap_now, parsec_heap_t *heap_was)
{
    if (hi < 0) return 0;
    if (dropped && heap_now) {      /* one task, yet the heap survived */
        if (heap_now != heap_was || heap_reg(c, heap_now, t) < 0) { hx_fail(c->res, "heap-corrupt", "heap holding one task was not destroyed by the removal of that task"); return -1; }
    } else if (!dropped && !heap_now) heap_unreg(c, hi);
    return 0;
}
/* thread t is about to push heap h */
static int give_heap(ctx_t *c, parsec_heap_t *h, const char *when)
{
    int i = heap_idx(c, h);
    if (i < 0) { hx_fail(c->res, "garbage-element", "%s: heap to push is not registered (harness)", when); return -1; }
    if (walk_heap(c, h, when, NULL, NULL)) return -1;
    c->hstate[i] = -1;
    return 0;
}
static int take_owned(ctx_t *c, int t, long a)
{
    if (!c->nowned[t]) return -1;
    int pos = (int)umod(a, c->nowned[t]);
    int id = c->owned[t][pos];
    c->owned[t][pos] = c->owned[t][--c->nowned[t]];
    return id;
}

/* ------------------------------------------------------------------ parent store (called by real hbbuffer code) */
static void h_parent_push(void *store, parsec_list_item_t *elt, int32_t distance)
{
    pstore_t *ps = store;
    ctx_t *c = ps->c;
    if (FAILED(c)) return;
    /* the overflow must be a well-formed ring of objects that are inside the structure */
    int n = 0, foreign = 0;
    const volatile parsec_list_item_t *it = elt, *prev = elt->list_prev;
    c->stamp++;
    do {
        if (c->scen == SC_TASKS) {
            int id = task_id(c, it);
            if (id < 0) { hx_fail(c->res, "garbage-element", "overflow ring given to the parent store contains a pointer that is not a task"); return; }
            if (c->where[id] >= 0) { hx_fail(c->res, "duplicate-element", "overflow ring contains task %d which thread %d holds", id, c->where[id]); return; }
            if (c->mark[id] == c->stamp) { hx_fail(c->res, "duplicate-element", "overflow ring contains task %d twice", id); return; }
            c->mark[id] = c->stamp;
            int mine = 0;
            for (int j = 0; j < tl_npush; j++) if (tl_push_ids[j] == id) mine = 1;
            if (!mine) foreign = 1;
        } else {
            int i = heap_idx(c, it);
            if (i < 0) { hx_fail(c->res, "garbage-element", "overflow ring given to the parent store contains a pointer that is not a live heap"); return; }
            if (c->hstate[i] >= 0) { hx_fail(c->res, "duplicate-element", "overflow ring contains heap #%d which thread %d owns", i, c->hstate[i]); return; }
        }
        if (it->list_prev != prev) { hx_fail(c->res, "broken-overflow-ring", "overflow ring given to the parent store has inconsistent list_prev links"); return; }
        if (++n > MAXTASK) { hx_fail(c->res, "broken-overflow-ring", "overflow ring given to the parent store does not close"); return; }
        prev = it;
        it = it->list_next;
    } while (it != elt);
    if (tl_dist0) sim_probe(PR_OVERFLOW); else sim_probe(PR_UPSTREAM);
    if (foreign) sim_probe(PR_EJECT);
    /* forward exactly as the schedulers do: parsec_mca_sched_push_in_queue_wrapper (system dequeue) or
     * parsec_mca_sched_push_in_buffer_wrapper (upper-level buffer, plain push_all: the only combination in /repo) */
    if (ps->kind == 0) s35_push_in_queue(ps->real, elt, distance);
    else s35_push_in_buffer(ps->real, elt, distance);
}

/* ring of private items, order ids[0..n-1] */
static parsec_list_item_t *make_ring(parsec_list_item_t **its, int n)
{
    for (int j = 0; j < n; j++) {
        its[j]->list_next = its[(j + 1) % n];
        its[j]->list_prev = its[(j + n - 1) % n];
    }
    return its[0];
}
static void real_push(ctx_t *c, int bi, parsec_list_item_t *ring, int dist, int by_prio, const int *ids, int n)
{
    tl_dist0 = dist == 0; tl_push_ids = ids; tl_npush = n;
    if (by_prio) parsec_hbbuffer_push_all_by_priority(c->buf[bi], ring, dist);
    else parsec_hbbuffer_push_all(c->buf[bi], ring, dist);
    tl_npush = 0; tl_push_ids = NULL;
}
static int dist_of(long code) { code = umod(code, 10); return code < 7 ? 0 : code < 9 ? 1 : 2; }

/* ------------------------------------------------------------------ scenario 0 operations */
static void op_tasks(ctx_t *c, int t, const hx_op_t *o)
{
    char when[80];
    int bi = (int)umod(o->a, c->nb);
    switch (o->op) {
    case OP_PUSH_ALL: case OP_PUSH_PRIO: {
        int n = (int)(1 + umod(o->b, 6));
        if (n > c->nowned[t]) n = c->nowned[t];
        if (!n) return;
        int ids[MAXPUSH];
        parsec_list_item_t *its[MAXPUSH];
        for (int j = 0; j < n; j++) ids[j] = take_owned(c, t, o->b / 7 + 3 * j);
        if (o->op == OP_PUSH_PRIO)      /* "list is in decreasing priority order" */
            for (int i = 1; i < n; i++) { int x = ids[i], j = i; while (j > 0 && c->prio[ids[j - 1]] < c->prio[x]) { ids[j] = ids[j - 1]; j--; } ids[j] = x; }
        for (int j = 0; j < n; j++) { its[j] = task_item(c, ids[j]); c->where[ids[j]] = -1; hx_hash(c->res, 0x6000ULL ^ (uint64_t)ids[j]); }
        real_push(c, bi, make_ring(its, n), dist_of(o->c), o->op == OP_PUSH_PRIO, ids, n);
        break;
    }
    case OP_POP_BEST: {
        snprintf(when, sizeof(when), "thread %d pop_best(buffer %d)", t, bi);
        parsec_list_item_t *p = parsec_hbbuffer_pop_best(c->buf[bi], (off_t)c->off_task);
        if (p) got_task(c, t, p, when); else sim_probe(PR_POP_NULL);
        break;
    }
    case OP_SYSQ_POP: {
        snprintf(when, sizeof(when), "thread %d system-queue pop", t);
        parsec_list_item_t *p = (o->a & 1) ? s35_dequeue_try_pop_front(c->sysq) : s35_dequeue_pop_front(c->sysq);
        if (p) { got_task(c, t, p, when); sim_probe(PR_SYSQ_GOT); }
        break;
    }
    case OP_OCCUPANCY: {
        long long r = parsec_hbbuffer_approx_occupency(c->buf[bi]);
        if (r < 0 || r > c->bsize[bi]) hx_fail(c->res, "wrong-occupancy", "approx_occupency of buffer %d (size %d) returned %lld", bi, c->bsize[bi], r);
        break;
    }
    }
}

/* ------------------------------------------------------------------ scenario 1 operations (sched_ltq protocol) */
static void singleton(parsec_heap_t *h) { h->list_item.list_next = (parsec_list_item_t *)h; h->list_item.list_prev = (parsec_list_item_t *)h; }
static void push_heaps(ctx_t *c, int bi, parsec_heap_t *ring, int dist) { real_push(c, bi, (parsec_list_item_t *)ring, dist, 0, NULL, 0); }

static void op_heaps(ctx_t *c, int t, const hx_op_t *o)
{
    char when[96];
    int q = t;                                      /* own queue */
    switch (o->op) {
    case OP_SCHEDULE: {                             /* = sched_ltq_schedule, grouping decided by the plan */
        int maxn = umod(o->b, 10) < 6 ? 6 : 64;
        int n = (int)(1 + umod(o->a, maxn));
        if (n > c->nowned[t]) n = c->nowned[t];
        if (!n) return;
        uint64_t gs = (uint64_t)o->b * 0x9E3779B97F4A7C15ULL + 7;
        int split_pct = (int)umod(o->b / 10, 4) * 15;          /* 0, 15, 30, 45 % chance of a new heap per task */
        parsec_heap_t *heap = heap_create(), *first_h = heap, *made[MAXPUSH];
        int nmade = 0;
        if (heap_reg(c, heap, t) < 0) { c->res->discard = 1; c->res->discard_why = "too-many-heaps"; return; }
        made[nmade++] = heap;
        for (int j = 0; j < n; j++) {
            int id = take_owned(c, t, o->a / 3 + 5 * j);
            c->where[id] = -1;
            hx_hash(c->res, 0x6100ULL ^ (uint64_t)id);
            heap_insert(heap, &c->pool[id].t);
            if (j + 1 < n && nmade < MAXPUSH && (int)(sim_splitmix(&gs) % 100) < split_pct) {
                parsec_heap_t *nh = heap_create();
                if (heap_reg(c, nh, t) < 0) { c->res->discard = 1; c->res->discard_why = "too-many-heaps"; return; }
                made[nmade++] = nh;
                heap->list_item.list_next->list_prev = (parsec_list_item_t *)nh;
                nh->list_item.list_prev = (parsec_list_item_t *)heap;
                nh->list_item.list_next = (parsec_list_item_t *)heap->list_item.list_next;
                heap->list_item.list_next = (parsec_list_item_t *)nh;
                heap = nh;
            }
        }
        if (nmade >= 2) sim_probe(PR_HEAP_RING_GE2);
        snprintf(when, sizeof(when), "thread %d ltq_schedule before push", t);
        for (int j = 0; j < nmade; j++) if (give_heap(c, made[j], when)) return;
        push_heaps(c, q, first_h, dist_of(o->c) ? 1 : 0);
        break;
    }
    case OP_SELECT: {                               /* stage 1 of sched_ltq_select */
        snprintf(when, sizeof(when), "thread %d pop_best(own queue)", t);
        parsec_heap_t *heap = (parsec_heap_t *)parsec_hbbuffer_pop_best(c->buf[q], (off_t)c->off_heap);
        int hi = -1, cnt = 0;
        if (heap) { if (got_heap_n(c, t, heap, when, &cnt)) return; hi = heap_idx(c, heap); } else sim_probe(PR_POP_NULL);
        parsec_heap_t *was = heap;
        int dropped = before_consume(c, hi, cnt);
        parsec_task_t *task = heap_remove(&heap);
        if (after_consume(c, t, hi, dropped, heap, was)) return;
        snprintf(when, sizeof(when), "thread %d heap_remove", t);
        if (task) got_task(c, t, task, when);
        if (FAILED(c)) return;
        if (heap) { if (give_heap(c, heap, when)) return; push_heaps(c, q, heap, 0); }
        break;
    }
    case OP_STEAL: case OP_SYSQ_STEAL: {            /* stages 2 and 3 of sched_ltq_select */
        parsec_heap_t *heap, *new_heap = NULL;
        int v = -1;
        if (o->op == OP_STEAL) {
            if (c->nb < 2) return;
            v = (int)((t + 1 + umod(o->a, c->nb - 1)) % c->nb);
            snprintf(when, sizeof(when), "thread %d pop_best(queue of thread %d)", t, v);
            heap = (parsec_heap_t *)parsec_hbbuffer_pop_best(c->buf[v], (off_t)c->off_heap);
        } else {
            snprintf(when, sizeof(when), "thread %d system-queue pop", t);
            heap = (parsec_heap_t *)s35_dequeue_pop_front(c->sysq);
            if (heap) sim_probe(PR_SYSQ_HEAP);
        }
        int hi = -1, before = 0;
        if (heap) { if (got_heap_n(c, t, heap, when, &before)) return; hi = heap_idx(c, heap); } else sim_probe(PR_POP_NULL);
        parsec_heap_t *was = heap;
        int dropped = before_consume(c, hi, before);
        parsec_task_t *task = heap_split_and_steal(&heap, &new_heap);
        if (after_consume(c, t, hi, dropped, heap, was)) return;
        snprintf(when, sizeof(when), "thread %d heap_split_and_steal (heap of %d)", t, before);
        if (task) got_task(c, t, task, when);
        if (FAILED(c)) return;
        if (new_heap) {
            sim_probe(PR_SPLIT3);
            if (heap_reg(c, new_heap, t) < 0) { c->res->discard = 1; c->res->discard_why = "too-many-heaps"; return; }
        } else if (heap) sim_probe(PR_SPLIT2);
        if (heap) {
            if (v >= 0) {
                if (task) sim_probe(PR_STEAL_OK);
                if (new_heap) {      /* two singletons: new heap back to the victim, old heap to our queue */
                    singleton(heap); singleton(new_heap);
                    if (give_heap(c, new_heap, when)) return;
                    push_heaps(c, v, new_heap, 0);
                }
                if (give_heap(c, heap, when)) return;
                push_heaps(c, q, heap, 0);
            } else {                 /* system queue stage pushes the (one or two element) ring as it is */
                if (new_heap && give_heap(c, new_heap, when)) return;
                if (give_heap(c, heap, when)) return;
                push_heaps(c, q, heap, 0);
            }
        }
        break;
    }
    case OP_INSERT: {                               /* owner inserts into a heap that has travelled */
        if (!c->nowned[t]) return;
        snprintf(when, sizeof(when), "thread %d pop_best(own queue) for insert", t);
        parsec_heap_t *heap = (parsec_heap_t *)parsec_hbbuffer_pop_best(c->buf[q], (off_t)c->off_heap);
        if (!heap) { sim_probe(PR_POP_NULL); return; }
        if (got_heap(c, t, heap, when)) return;
        int k = (int)(1 + umod(o->a, 4));
        for (int j = 0; j < k && c->nowned[t] && heap->size < 64; j++) {
            int id = take_owned(c, t, o->b + j);
            c->where[id] = -1;
            hx_hash(c->res, 0x6200ULL ^ (uint64_t)id);
            heap_insert(heap, &c->pool[id].t);
            sim_probe(PR_INSERT_OWNED);
        }
        snprintf(when, sizeof(when), "thread %d after heap_insert", t);
        if (give_heap(c, heap, when)) return;
        push_heaps(c, q, heap, 0);
        break;
    }
    }
}

static void worker(int t, void *arg)
{
    ctx_t *c = arg;
    tl_t = t;
    for (int k = c->seg_lo; k < c->seg_hi; k++) {
        const hx_op_t *o = &c->plan->ops[k];
        if (o->thr != t || o->op < 0 || o->op >= OP_N || o->op == OP_QUIESCE) continue;
        if (!(op_scen[o->op] >> c->scen & 1)) continue;
        if (FAILED(c) || c->res->discard) return;
        if (c->scen == SC_TASKS) op_tasks(c, t, o); else op_heaps(c, t, o);
    }
}

/* ------------------------------------------------------------------ audits (world quiescent) */
/* everything is in exactly one place */
static void audit(ctx_t *c, const char *when)
{
    int seen[MAXTASK] = {0};
    int hseen[MAXHEAP] = {0};
    char w[128];
    if (FAILED(c)) return;
    for (int b = 0; b <= c->nb && !FAILED(c); b++) {
        /* slots of buffer b, then (b == nb) the system dequeue */
        int n = 0;
        const volatile parsec_list_item_t *ghost = &c->sysq->ghost_element, *it = ghost->list_next, *prev = ghost;
        for (int s = 0;; s++) {
            const volatile void *p;
            if (b < c->nb) { if (s >= c->bsize[b]) break; p = c->buf[b]->items[s]; if (!p) continue; snprintf(w, sizeof(w), "%s: buffer %d slot %d", when, b, s); }
            else {
                if (it == ghost) { if (ghost->list_prev != prev) hx_fail(c->res, "broken-links", "%s: system queue tail pointer is wrong", when); break; }
                p = it;
                snprintf(w, sizeof(w), "%s: system queue position %d", when, n);
                if (++n > MAXTASK + 1) { hx_fail(c->res, "duplicate-element", "%s: system queue does not end", when); break; }
            }
            if (c->scen == SC_TASKS) {
                int id = task_id(c, p);
                if (id < 0) { hx_fail(c->res, "garbage-element", "%s holds a pointer that is not a task", w); break; }
                if (seen[id]++) { hx_fail(c->res, "duplicate-element", "%s holds task %d which is also elsewhere", w, id); break; }
                if (c->where[id] >= 0) { hx_fail(c->res, "duplicate-element", "%s holds task %d which thread %d has in hands", w, id, c->where[id]); break; }
            } else {
                int i = heap_idx(c, p);
                if (i < 0) { hx_fail(c->res, "garbage-element", "%s holds a pointer that is not a live heap", w); break; }
                if (hseen[i]++) { hx_fail(c->res, "duplicate-element", "%s holds heap #%d which is also elsewhere", w, i); break; }
                if (c->hstate[i] >= 0) { hx_fail(c->res, "duplicate-element", "%s holds heap #%d which thread %d owns", w, i, c->hstate[i]); break; }
                if (walk_heap(c, c->heaps[i], w, seen, NULL)) break;
            }
            if (b == c->nb) {
                if (it->list_prev != prev) { hx_fail(c->res, "broken-links", "%s: list_prev is inconsistent", w); break; }
                prev = it; it = it->list_next;
            }
        }
    }
    if (FAILED(c)) return;
    if (c->l1 >= 0) for (int s = 0; s < c->bsize[c->l1]; s++) if (c->buf[c->l1]->items[s]) { sim_probe(PR_L1_STORED); break; }
    if (c->scen == SC_HEAPS)
        for (int i = 0; i < c->nheapslots; i++)
            if (c->heaps[i] && !hseen[i]) {
                hx_fail(c->res, "lost-element", "%s: heap #%d (%u tasks) is in no buffer, not in the system queue and no thread owns it", when, i, c->heaps[i]->size);
                return;
            }
    for (int t = 0; t < c->T; t++) for (int j = 0; j < c->nowned[t]; j++) {
        int id = c->owned[t][j];
        if (seen[id]++) { hx_fail(c->res, "duplicate-element", "%s: task %d is in thread %d's hands and also inside the structure", when, id, t); return; }
    }
    for (int id = 0; id < c->ntasks; id++)
        if (!seen[id]) { hx_fail(c->res, "lost-element", "%s: task %d (priority %d) is in no buffer, no parent store, no heap and nobody's hands", when, id, c->prio[id]); return; }
}

static int obj_prio(ctx_t *c, const volatile void *p)
{
    if (c->scen == SC_TASKS) { int id = task_id(c, p); return id < 0 ? 0 : c->prio[id]; }
    return (int)((const volatile parsec_heap_t *)p)->priority;
}
/* quiescent pop_best on buffer b: must return an element of the maximum priority it holds */
static void quiescent_pops(ctx_t *c, int b, int npops, const char *when)
{
    size_t off = c->scen == SC_TASKS ? c->off_task : c->off_heap;
    for (int k = 0; k < npops && !FAILED(c); k++) {
        int held = 0, maxp = 0, distinct = 0;
        for (int s = 0; s < c->bsize[b]; s++) {
            const volatile void *p = c->buf[b]->items[s];
            if (!p) continue;
            int pr = obj_prio(c, p);
            if (held && pr != maxp) distinct = 1;
            if (!held || pr > maxp) maxp = pr;
            held++;
        }
        parsec_list_item_t *r = parsec_hbbuffer_pop_best(c->buf[b], (off_t)off);
        if (!held) {
            sim_probe(PR_QPOP_EMPTY);
            if (r) hx_fail(c->res, "garbage-element", "%s: pop_best on empty buffer %d returned an element", when, b);
            return;
        }
        if (!r) { hx_fail(c->res, "pop-best-missed", "%s: quiescent pop_best on buffer %d returned NULL although it holds %d elements", when, b, held); return; }
        if (distinct) sim_probe(PR_QPOP_CHOICE);
        char w[96];
        snprintf(w, sizeof(w), "%s: quiescent pop_best(buffer %d)", when, b);
        if (c->scen == SC_TASKS) {
            got_task(c, k % c->T, r, w);
            if (FAILED(c)) return;
            int id = task_id(c, r);
            if (c->prio[id] != maxp) { hx_fail(c->res, "not-best", "%s returned task %d of priority %d while the buffer holds priority %d", w, id, c->prio[id], maxp); return; }
        } else {
            if (got_heap(c, 0, (parsec_heap_t *)r, w)) return;
            int pr = (int)((parsec_heap_t *)r)->priority;
            if (pr != maxp) { hx_fail(c->res, "not-best", "%s returned a heap of priority %d while the buffer holds a heap of priority %d", w, pr, maxp); return; }
            if (give_heap(c, (parsec_heap_t *)r, w)) return;
            singleton((parsec_heap_t *)r);
            push_heaps(c, b, (parsec_heap_t *)r, 0);
        }
    }
}

/* final drain of scenario 1: every inserted task leaves exactly once, best first within a heap */
static void drain_heaps(ctx_t *c)
{
    for (int i = 0; i < c->nheapslots && !FAILED(c); i++) {
        parsec_heap_t *h = c->heaps[i];
        if (!h) continue;
        int last = 0, first = 1, guard = 0;
        c->hstate[i] = 0;
        while (h && !FAILED(c)) {
            parsec_task_t *task = heap_remove(&h);
            if (!task) { hx_fail(c->res, "heap-corrupt", "final drain: heap_remove returned no task from a live heap #%d", i); break; }
            char w[64];
            snprintf(w, sizeof(w), "final drain of heap #%d", i);
            got_task(c, 0, task, w);
            if (FAILED(c)) break;
            int pr = c->prio[task_id(c, task)];
            if (!first && pr > last) { hx_fail(c->res, "heap-top-not-max", "final drain: heap #%d produced priority %d after priority %d", i, pr, last); break; }
            first = 0; last = pr;
            if (++guard > MAXTASK) { hx_fail(c->res, "duplicate-element", "final drain: heap #%d never empties", i); break; }
        }
        c->heaps[i] = h;    /* NULL once the real code has destroyed it */
    }
    if (FAILED(c)) return;
    for (int id = 0; id < c->ntasks; id++)
        if (c->where[id] < 0) { hx_fail(c->res, "lost-element", "final drain: task %d (priority %d) never left its heap", id, c->prio[id]); return; }
}

/* ------------------------------------------------------------------ plan generation */
static const int prio_bases[] = {-2, 0, 100};
static void gen(hx_plan_t *p, hx_rng_t *r)
{
    int k = (int)hx_below(r, 100);
    int T = k < 20 ? 1 : k < 55 ? 2 : k < 80 ? 3 : 4;
    int scen = hx_chance(r, 45) ? SC_TASKS : SC_HEAPS;
    hx_set_knob(p, "threads", T);
    hx_set_knob(p, "scenario", scen);
    hx_set_knob(p, "prio_range", hx_range(r, 1, 6));
    hx_set_knob(p, "prio_base", hx_below(r, 3));
    hx_set_knob(p, "prio_seed", hx_below(r, 1000000));
    for (int i = 0; i < MAXBUF; i++) { char nm[16]; snprintf(nm, sizeof(nm), "size%d", i); hx_set_knob(p, nm, hx_range(r, 1, 8)); }
    if (scen == SC_TASKS) {
        hx_set_knob(p, "nbuf", hx_range(r, 1, 3));
        hx_set_knob(p, "level1", hx_chance(r, 40));
        hx_set_knob(p, "per_thread", hx_range(r, 2, 40 / T));
        int nops = (int)hx_range(r, 6, 40);
        for (int i = 0; i < nops; i++) {
            int x = (int)hx_below(r, 100);
            int op = x < 25 ? OP_PUSH_ALL : x < 50 ? OP_PUSH_PRIO : x < 78 ? OP_POP_BEST : x < 88 ? OP_SYSQ_POP : x < 92 ? OP_OCCUPANCY : OP_QUIESCE;
            hx_add_op(p, (int)hx_below(r, T), op, hx_below(r, 1000), hx_below(r, 1000), hx_below(r, 1000));
        }
    } else {
        int big = hx_chance(r, 35);
        int cap = 192 / T < 64 ? 192 / T : 64;
        hx_set_knob(p, "per_thread", big ? hx_range(r, 8, cap + (T == 1 ? 32 : 0)) : hx_range(r, 2, 12));
        int nops = (int)hx_range(r, 4, 30);
        for (int i = 0; i < nops; i++) {
            int x = (int)hx_below(r, 100);
            int op = x < 28 ? OP_SCHEDULE : x < 50 ? OP_SELECT : x < 70 ? OP_STEAL : x < 82 ? OP_SYSQ_STEAL : x < 93 ? OP_INSERT : OP_QUIESCE;
            hx_add_op(p, (int)hx_below(r, T), op, hx_below(r, 1000), hx_below(r, 1000), hx_below(r, 1000));
        }
    }
}

/* ------------------------------------------------------------------ run */
static void run(const hx_plan_t *p, hx_result_t *res)
{
    static ctx_t c;
    memset(&c, 0, sizeof(c));
    c.plan = p; c.res = res;
    c.T = (int)hx_knob(p, "threads", 2);
    if (c.T < 1) c.T = 1;
    if (c.T > MAXT) c.T = MAXT;
    c.scen = hx_knob(p, "scenario", 0) ? SC_HEAPS : SC_TASKS;
    int per = (int)hx_knob(p, "per_thread", 4);
    if (per < 1) per = 1;
    c.ntasks = per * c.T;
    if (c.ntasks > MAXTASK) { res->discard = 1; res->discard_why = "task-count"; return; }
    c.off_task = s35_task_prio_offset();
    c.off_heap = offsetof(parsec_heap_t, priority);
    long prange = hx_knob(p, "prio_range", 3), pbi = hx_knob(p, "prio_base", 1);
    uint64_t ps = (uint64_t)hx_knob(p, "prio_seed", 1) * 0x9E3779B97F4A7C15ULL + 5;
    if (prange < 1) prange = 1;
    if (pbi < 0 || pbi > 2) pbi = 1;
    tl_t = 0; tl_dist0 = 0; tl_npush = 0; tl_push_ids = NULL;

    c.sysq = PARSEC_OBJ_NEW(parsec_dequeue_t);
    c.pool = calloc((size_t)c.ntasks, sizeof(ftask_t));
    for (int i = 0; i < c.ntasks; i++) {
        PARSEC_OBJ_CONSTRUCT(&c.pool[i].t.super, parsec_list_item_t);
        c.pool[i].id = i;
        c.prio[i] = c.pool[i].t.priority = prio_bases[pbi] + (int)(sim_splitmix(&ps) % (uint64_t)prange);
        c.where[i] = i / per;
        c.owned[i / per][c.nowned[i / per]++] = i;
    }
    c.l1 = -1;
    if (c.scen == SC_TASKS) {
        int nbuf = (int)hx_knob(p, "nbuf", 1);
        if (nbuf < 1) nbuf = 1;
        if (nbuf > 3) nbuf = 3;
        c.nb = nbuf;
        if (hx_knob(p, "level1", 0)) { c.l1 = c.nb++; }
    } else c.nb = c.T;
    /* build top-down: the level-1 buffer (if any) first */
    for (int b = c.nb - 1; b >= 0; b--) {
        char nm[16];
        snprintf(nm, sizeof(nm), "size%d", b);
        int sz = (int)hx_knob(p, nm, 4);
        if (sz < 1) sz = 1;
        if (sz > 8) sz = 8;
        c.bsize[b] = sz;
        c.pst[b].c = &c;
        if (b != c.l1 && c.l1 >= 0) { c.pst[b].kind = 1; c.pst[b].real = c.buf[c.l1]; }
        else { c.pst[b].kind = 0; c.pst[b].real = c.sysq; }
        c.buf[b] = parsec_hbbuffer_new((size_t)sz, 1, h_parent_push, &c.pst[b]);
    }

    /* segments separated by quiesce ops */
    int lo = 0, nseg = 0;
    while (lo <= p->nops && !FAILED(&c) && !res->discard) {
        int hi = lo;
        while (hi < p->nops && p->ops[hi].op != OP_QUIESCE) hi++;
        c.seg_lo = lo; c.seg_hi = hi;
        int any = 0;
        for (int k = lo; k < hi; k++) if (p->ops[k].thr >= 0 && p->ops[k].thr < c.T) any = 1;
        if (any) hx_run_threads(c.T, worker, &c);
        if (FAILED(&c) || res->discard) break;
        char when[48];
        snprintf(when, sizeof(when), "quiescent point %d", nseg++);
        tl_t = 0;
        audit(&c, when);
        if (hi < p->nops) {
            const hx_op_t *qo = &p->ops[hi];
            int npops = (int)(1 + umod(qo->a, 3));
            for (int b = 0; b < c.nb && !FAILED(&c); b++) if (umod(qo->b >> b, 2) == 0 || c.nb == 1) quiescent_pops(&c, b, npops, when);
            audit(&c, when);
        }
        lo = hi + 1;
    }
    /* the end: judge pop_best on every buffer until empty, then the drain */
    if (!FAILED(&c) && !res->discard) {
        for (int b = 0; b < c.nb && !FAILED(&c); b++) {
            if (c.scen == SC_TASKS) quiescent_pops(&c, b, c.bsize[b] + 1, "at the end");
            else quiescent_pops(&c, b, 2, "at the end");
        }
        audit(&c, "at the end");
        if (c.scen == SC_HEAPS && !FAILED(&c)) drain_heaps(&c);
    }
    for (int t = 0; t < c.T; t++) hx_hash(res, (uint64_t)c.nowned[t] + 0x100ULL * (uint64_t)t);

    /* free everything (heaps that survived a failed run are released directly) */
    for (int i = 0; i < c.nheapslots; i++) if (c.heaps[i]) free(c.heaps[i]);
    for (int b = 0; b < c.nb; b++) parsec_hbbuffer_destruct(c.buf[b]);
    c.sysq->ghost_element.list_next = &c.sysq->ghost_element;
    c.sysq->ghost_element.list_prev = &c.sysq->ghost_element;
    PARSEC_OBJ_RELEASE(c.sysq);
    free(c.pool);
}

static const hx_harness_t H = {
    .property = "C35", .name = "c35_hbbuffer", .opnames = opnames, .nopnames = OP_N,
    .est_steps = 1200, .max_steps = 6000000, .gen = gen, .run = run,
    .probe_names = probe_names, .nprobes = PR_N,
};
int main(int argc, char **argv) { return hx_main(argc, argv, &H); }
