/* C32: the concurrent hash table is a linearizable map across resizes (DESIGN 4, C32).
 * Real code: parsec/class/parsec_hash_table.c (everything out of line, instrumented by the
 * pipeline), parsec_rwlock.c, and the MCA parameter system through which the two resize hints
 * are set (same way as tests/class/hash.c).  Simulated: thread interleaving.
 *
 * Client discipline (DESIGN 3.6): key k is owned by thread k % T; only the owner inserts or
 * removes it and it never inserts a key it knows to be present (the table requires unique
 * keys).  Any thread may find any key.  Inside a lock_bucket section only nolock_* calls on the
 * key that was locked are issued.  Each key has two item objects so that "find returns the
 * item inserted for that key" distinguishes a stale item from the current one. */
#include "../hx.h"
#include "../../oracle/lin.h"
#include "parsec/parsec_config.h"
#include "parsec/class/parsec_hash_table.h"
#include "parsec/utils/mca_param.h"
#include "parsec/utils/debug.h"
#include <fcntl.h>
#include <stddef.h>
#include <unistd.h>
#include <stdlib.h>
#include <string.h>

enum { OP_INS, OP_FIND, OP_REM, OP_LOCKED, OP_N };
static const char *const opnames[] = {"insert", "find", "remove", "locked"};
enum { PR_RESIZE, PR_DEPTH3, PR_FIND_OLD, PR_REMOVE_OLD, PR_FIND_OLD_OTHER_THREAD, PR_UNLINKED, PR_RESIZE_AT_UNLOCK, PR_MISS_WITH_OLD_TABLES, PR_N };
static const char *const probe_names[] = {"resize_happened", "three_or_more_generations", "find_served_from_old_table", "remove_served_from_old_table",
                                          "find_from_old_table_by_non_owner", "emptied_old_table_unlinked", "resize_seen_across_unlock_bucket", "miss_searched_old_tables"};

#define MAXK 16
#define MAXT 8
typedef struct { int id, key; long pad; parsec_hash_table_item_t hi; int visits; } item_t;

typedef struct {
    const hx_plan_t *plan;
    hx_result_t *res;
    parsec_hash_table_t *ht;
    int T, nk, mode;
    parsec_key_t keyval[MAXK];
    item_t *items[2 * MAXK];
    int present[MAXK];          /* item id or -1; written by the owner of the key only */
    int init_present[MAXK];
    lin_op_t hist[LIN_MAX_OPS];
    int nhist;
} ctx_t;

/* ---- key functions (called from the real code; uninstrumented = atomic) ---- */
static __thread int kh_calls;
static int key_index(const ctx_t *c, parsec_key_t key)
{
    for (int i = 0; i < c->nk; i++) if (c->keyval[i] == key) return i;
    return 0;
}
static uint64_t key_hash(parsec_key_t key, void *data)
{
    const ctx_t *c = data;
    kh_calls++;
    switch (c->mode) {
    case 1: return (uint64_t)c->keyval[key_index(c, key) & ~1];     /* pairs of keys share a 64-bit hash */
    case 2: return (uint64_t)c->keyval[key_index(c, key) % 3];      /* three hash values in all */
    case 3: return (uint64_t)c->keyval[0];                          /* one hash value: no resize can separate the keys */
    default: return (uint64_t)key;                                  /* identity, as the generic key functions */
    }
}
static int key_equal(parsec_key_t a, parsec_key_t b, void *data) { (void)data; return a == b; }
static char *key_print(char *buf, size_t n, parsec_key_t k, void *data) { (void)data; snprintf(buf, n, "%lx", (unsigned long)k); return buf; }

static int mc_index = -1, md_index = -1;
static void init(void)
{
    /* standalone use of the hash tables, as in tests/class/hash.c */
    parsec_debug_init();
    parsec_mca_param_init();
    parsec_hash_tables_init();
    mc_index = parsec_mca_param_find("parsec", NULL, "hash_table_max_collisions_hint");
    md_index = parsec_mca_param_find("parsec", NULL, "hash_table_max_table_nb_bits");
    if (mc_index < 0 || md_index < 0) { fprintf(stderr, "c32: hash table MCA parameters not found\n"); exit(2); }
    /* A table that cannot grow any more issues parsec_warning() once; the output layer allocates
     * its buffers lazily on first use.  Prime it here (stderr muted) so that no counted run
     * depends on whether an earlier run in this process already printed a warning. */
    fflush(stderr);
    int save = dup(2), nul = open("/dev/null", O_WRONLY);
    if (save >= 0 && nul >= 0) {
        dup2(nul, 2);
        parsec_warning("%s:%d -- priming the warning path of the output layer; %0400d", __FILE__, __LINE__, 0);
        fflush(stderr);
        dup2(save, 2);
    }
    if (save >= 0) close(save);
    if (nul >= 0) close(nul);
}

/* ---- helpers ---- */
static int decode(ctx_t *c, void *p, int k, const char *what)
{
    if (!p) return -1;
    for (int i = 0; i < 2 * c->nk; i++) if ((void *)c->items[i] == p) {
        if (c->items[i]->key != k) { hx_fail(c->res, "wrong-element", "%s(key %d) returned item %d which belongs to key %d", what, k, i, c->items[i]->key); return -2; }
        return i;
    }
    hx_fail(c->res, "garbage-element", "%s(key %d) returned a pointer that is not an item", what, k);
    return -2;
}
static void record(ctx_t *c, int t, int op, int k, int item, long res, uint64_t inv, uint64_t ret)
{
    lin_op_t *h = &c->hist[c->nhist++];
    memset(h, 0, sizeof(*h));
    h->thr = t; h->op = op; h->arg[0] = k; h->arg[1] = item; h->narg = 2; h->res = res; h->inv = inv; h->ret = ret;
}
/* the (a mod n)-th key owned by t whose presence matches want (0 absent, 1 present, 2 any); -1 if none */
static int pick_own(ctx_t *c, int t, long a, int want)
{
    int cand[MAXK], n = 0;
    for (int k = t; k < c->nk; k += c->T)
        if (want == 2 || (want == 1) == (c->present[k] >= 0)) cand[n++] = k;
    return n ? cand[a % n] : -1;
}

/* one find / insert / remove through the chosen API flavour; api 0 = locked API,
 * 1 = nolock_* with key (bucket locked by caller), 2 = nolock_*_handle */
static int do_find(ctx_t *c, int t, int api, parsec_key_handle_t *h, int k)
{
    parsec_key_t key = c->keyval[k];
    void *p;
    kh_calls = 0;
    uint64_t inv = sim_stamp();
    if (api == 0) p = parsec_hash_table_find(c->ht, key);
    else if (api == 1) p = parsec_hash_table_nolock_find(c->ht, key);
    else p = parsec_hash_table_nolock_find_handle(c->ht, h);
    uint64_t ret = sim_stamp();
    int base = api == 0 ? 2 : api == 1 ? 1 : 0;
    int id = decode(c, p, k, "find");
    if (id == -2) return -2;
    if (kh_calls > base) {
        if (id >= 0) { sim_probe(PR_FIND_OLD); if (k % c->T != t) sim_probe(PR_FIND_OLD_OTHER_THREAD); }
        else if (c->ht->rw_hash->next) sim_probe(PR_MISS_WITH_OLD_TABLES);
    }
    record(c, t, OP_FIND, k, -1, id, inv, ret);
    return id;
}
static void do_insert(ctx_t *c, int t, int api, parsec_key_handle_t *h, int k, int id)
{
    parsec_hash_table_item_t *it = &c->items[id]->hi;
    it->key = c->keyval[k];
    c->present[k] = id;
    uint64_t inv = sim_stamp();
    if (api == 0) parsec_hash_table_insert(c->ht, it);
    else if (api == 1) parsec_hash_table_nolock_insert(c->ht, it);
    else parsec_hash_table_nolock_insert_handle(c->ht, h, it);
    uint64_t ret = sim_stamp();
    record(c, t, OP_INS, k, id, -1, inv, ret);
}
static int do_remove(ctx_t *c, int t, int api, parsec_key_handle_t *h, int k)
{
    parsec_key_t key = c->keyval[k];
    void *p;
    c->present[k] = -1;
    kh_calls = 0;
    uint64_t inv = sim_stamp();
    if (api == 0) p = parsec_hash_table_remove(c->ht, key);
    else if (api == 1) p = parsec_hash_table_nolock_remove(c->ht, key);
    else p = parsec_hash_table_nolock_remove_handle(c->ht, h);
    uint64_t ret = sim_stamp();
    int base = api == 0 ? 2 : api == 1 ? 1 : 0;
    int id = decode(c, p, k, "remove");
    if (id == -2) return -2;
    if (id >= 0 && kh_calls > base) sim_probe(PR_REMOVE_OLD);
    record(c, t, OP_REM, k, -1, id, inv, ret);
    return id;
}

static void worker(int t, void *arg)
{
    ctx_t *c = arg;
    for (int i = 0; i < c->plan->nops; i++) {
        const hx_op_t *o = &c->plan->ops[i];
        if (o->thr != t) continue;
        if (c->nhist + 3 > LIN_MAX_OPS) break;
        if (c->res->vclass) return;
        switch (o->op) {
        case OP_INS: {
            int k = pick_own(c, t, o->a, 0);
            if (k < 0) continue;
            do_insert(c, t, 0, NULL, k, 2 * k + (int)(o->b & 1));
            break;
        }
        case OP_FIND:
            if (do_find(c, t, 0, NULL, (int)(o->a % c->nk)) == -2) return;
            break;
        case OP_REM: {
            int k = pick_own(c, t, o->a, (o->b % 4) ? 1 : 2);
            if (k < 0) k = pick_own(c, t, o->a, 2);
            if (k < 0) continue;
            if (do_remove(c, t, 0, NULL, k) == -2) return;
            break;
        }
        case OP_LOCKED: {
            /* lock_bucket ; nolock_* on the same key ; unlock_bucket.  b selects the script,
             * c the key/handle flavour. */
            int script = (int)(o->b % 4), api = 1 + (int)(o->c & 1);
            int k = script == 0 ? (int)(o->a % c->nk) : pick_own(c, t, o->a, 2);
            if (k < 0) continue;
            parsec_key_t key = c->keyval[k];
            parsec_key_handle_t h;
            if (api == 2) parsec_hash_table_lock_bucket_handle(c->ht, key, &h);
            else parsec_hash_table_lock_bucket(c->ht, key);
            uint32_t bits_before = c->ht->rw_hash->nb_bits;
            int bad = 0;
            if (script == 3) {          /* replace: remove, then insert the other item */
                int r = do_remove(c, t, api, &h, k);
                if (r == -2) bad = 1;
                else do_insert(c, t, api, &h, k, r >= 0 ? (r ^ 1) : 2 * k + (int)((o->c >> 1) & 1));
            } else {
                int r = do_find(c, t, api, &h, k);
                if (r == -2) bad = 1;
                else if (script == 1) { if (r < 0) do_insert(c, t, api, &h, k, 2 * k + (int)((o->c >> 1) & 1)); }   /* find-or-insert */
                else if (script == 2) {                                                                           /* toggle */
                    if (r >= 0) { if (do_remove(c, t, api, &h, k) == -2) bad = 1; }
                    else do_insert(c, t, api, &h, k, 2 * k + (int)((o->c >> 1) & 1));
                }
            }
            if (api == 2) parsec_hash_table_unlock_bucket_handle(c->ht, &h);
            else parsec_hash_table_unlock_bucket(c->ht, key);
            if (c->ht->rw_hash->nb_bits != bits_before) sim_probe(PR_RESIZE_AT_UNLOCK);
            if (bad) return;
            break;
        }
        default: continue;
        }
    }
}

/* ---- sequential model: map key -> item id ---- */
typedef struct { signed char m[MAXK]; } map_t;
static void m_init(void *st, void *ctx)
{
    ctx_t *c = ctx;
    map_t *s = st;
    for (int k = 0; k < MAXK; k++) s->m[k] = (signed char)(k < c->nk ? c->init_present[k] : -1);
}
static int m_apply(void *st, const lin_op_t *op, void *ctx)
{
    (void)ctx;
    map_t *s = st;
    int k = (int)op->arg[0];
    switch (op->op) {
    case OP_INS: if (s->m[k] != -1) return 0; s->m[k] = (signed char)op->arg[1]; return 1;
    case OP_FIND: return s->m[k] == op->res;
    case OP_REM: if (s->m[k] != op->res) return 0; s->m[k] = -1; return 1;
    }
    return 0;
}
static uint64_t m_hash(const void *st, void *ctx)
{
    (void)ctx;
    const map_t *s = st;
    uint64_t h = 0xcbf29ce484222325ULL;
    for (int k = 0; k < MAXK; k++) h = (h ^ (uint64_t)(s->m[k] + 2)) * 0x100000001b3ULL;
    return h;
}
static int m_final(const void *st, void *ctx)
{
    ctx_t *c = ctx;
    const map_t *s = st;
    for (int k = 0; k < c->nk; k++) if (s->m[k] != c->present[k]) return 0;
    return 1;
}
static const lin_model_t model = {sizeof(map_t), m_init, m_apply, m_hash};

/* ---- for_all callback ---- */
typedef struct { ctx_t *c; int garbage; } fa_t;
static void fa_cb(void *item, void *data)
{
    fa_t *f = data;
    for (int i = 0; i < 2 * f->c->nk; i++) if ((void *)f->c->items[i] == item) { f->c->items[i]->visits++; return; }
    f->garbage++;
}

static void gen(hx_plan_t *p, hx_rng_t *r)
{
    int T = (int)hx_range(r, 2, 4);
    int nk = T * (int)hx_range(r, 2, 4);
    if (nk > MAXK) nk = MAXK;
    int m = (int)hx_below(r, 100);
    hx_set_knob(p, "threads", T);
    hx_set_knob(p, "keys", nk);
    hx_set_knob(p, "bits", hx_chance(r, 70) ? hx_range(r, 1, 2) : 3);
    hx_set_knob(p, "hint", hx_range(r, 1, 4));
    hx_set_knob(p, "maxbits", hx_range(r, 9, 10));
    hx_set_knob(p, "mode", m < 40 ? 0 : m < 65 ? 1 : m < 90 ? 2 : 3);
    hx_set_knob(p, "spread", hx_below(r, 2));
    int dens = (int)hx_below(r, 4) * 30;           /* 0, 30, 60 or 90 % of the keys are stored initially */
    long mask = 0;
    for (int k = 0; k < nk; k++) if (hx_chance(r, dens)) mask |= 1L << k;
    hx_set_knob(p, "init_mask", mask);
    int nops = (int)hx_range(r, 6, 30);
    for (int i = 0; i < nops; i++) {
        int t = (int)hx_below(r, T);
        int k = (int)hx_below(r, 100);
        int op = k < 30 ? OP_INS : k < 60 ? OP_FIND : k < 78 ? OP_REM : OP_LOCKED;
        hx_add_op(p, t, op, hx_below(r, 1000), hx_below(r, 1000), hx_below(r, 1000));
    }
}

static void run(const hx_plan_t *p, hx_result_t *res)
{
    static ctx_t c;
    memset(&c, 0, sizeof(c));
    c.plan = p; c.res = res;
    c.T = (int)hx_knob(p, "threads", 2);
    if (c.T < 1) c.T = 1;
    if (c.T > MAXT) c.T = MAXT;
    c.nk = (int)hx_knob(p, "keys", 6);
    if (c.nk < 1) c.nk = 1;
    if (c.nk > MAXK) c.nk = MAXK;
    c.mode = (int)hx_knob(p, "mode", 0) & 3;
    int bits = (int)hx_knob(p, "bits", 1), hint = (int)hx_knob(p, "hint", 1), maxbits = (int)hx_knob(p, "maxbits", 10);
    if (bits < 1) bits = 1;
    if (bits > 4) bits = 4;
    if (hint < 1) hint = 1;
    if (maxbits < bits + 2) maxbits = bits + 2;
    if (maxbits > 12) maxbits = 12;
    long mask = hx_knob(p, "init_mask", 0);
    int spread = (int)hx_knob(p, "spread", 0);
    for (int k = 0; k < c.nk; k++) {
        c.keyval[k] = spread ? (parsec_key_t)((uint64_t)(k + 1) * 0x9E3779B97F4A7C15ULL) : (parsec_key_t)(k + 1);
        c.present[k] = c.init_present[k] = -1;
        for (int j = 0; j < 2; j++) {
            item_t *it = calloc(1, sizeof(item_t));
            it->id = 2 * k + j; it->key = k; it->hi.key = c.keyval[k];
            c.items[2 * k + j] = it;
        }
    }
    sim_pause();
    /* the legal way to set the hints: the MCA parameters read by parsec_hash_table_init */
    parsec_mca_param_set_int(mc_index, hint);
    parsec_mca_param_set_int(md_index, maxbits);
    parsec_key_fn_t kfn = {.key_equal = c.mode == 0 ? NULL : key_equal, .key_print = key_print, .key_hash = key_hash};
    c.ht = PARSEC_OBJ_NEW(parsec_hash_table_t);
    parsec_hash_table_init(c.ht, offsetof(item_t, hi), bits, kfn, &c);
    if (c.ht->max_collisions_hint != hint || c.ht->max_table_nb_bits != maxbits)
        hx_fail(res, "hint-not-applied", "table created with hint %d/maxbits %d instead of %d/%d", c.ht->max_collisions_hint, c.ht->max_table_nb_bits, hint, maxbits);
    for (int k = 0; k < c.nk; k++) if (mask >> k & 1) {
        int id = 2 * k + (k & 1);
        parsec_hash_table_insert(c.ht, &c.items[id]->hi);
        c.present[k] = c.init_present[k] = id;
    }
    sim_resume();

    hx_run_threads(c.T, worker, &c);

    sim_pause();
    for (int i = 0; i < c.nhist; i++) {
        lin_op_t *h = &c.hist[i];
        hx_hash(res, ((uint64_t)h->thr << 56) ^ ((uint64_t)h->op << 48) ^ ((uint64_t)(h->res + 2) << 32) ^ ((uint64_t)h->arg[0] << 8) ^ (uint64_t)(h->arg[1] + 1));
    }
    /* generations */
    int depth_free = 0, depth_next = 0;
    for (parsec_hash_table_head_t *h = c.ht->rw_hash; h; h = h->next_to_free) depth_free++;
    for (parsec_hash_table_head_t *h = c.ht->rw_hash; h; h = h->next) depth_next++;
    if (depth_free >= 2) sim_probe(PR_RESIZE);
    if (depth_free >= 3) sim_probe(PR_DEPTH3);
    if (depth_next < depth_free) sim_probe(PR_UNLINKED);
    hx_hash(res, (uint64_t)depth_free);

    if (!res->vclass) {
        int r = lin_check(&model, c.hist, c.nhist, &c, 2000000, m_final, NULL);
        if (r == 0) hx_fail(res, "non-linearizable", "history of %d calls has no linearization against the unique-key map", c.nhist);
        else if (r < 0) { res->discard = 1; res->discard_why = "checker-budget"; }
    }
    /* quiescent iteration: every stored item exactly once, nothing else */
    if (!res->vclass) {
        fa_t fa = {&c, 0};
        parsec_hash_table_for_all(c.ht, fa_cb, &fa);
        if (fa.garbage) hx_fail(res, "garbage-element", "for_all visited %d pointers that are not items", fa.garbage);
        for (int i = 0; i < 2 * c.nk && !res->vclass; i++) {
            int expect = c.present[c.items[i]->key] == i;
            if (c.items[i]->visits > 1) hx_fail(res, "duplicate-element", "for_all visited item %d (key %d) %d times", i, c.items[i]->key, c.items[i]->visits);
            else if (expect && !c.items[i]->visits) hx_fail(res, "lost-element", "for_all did not visit item %d (key %d) which is stored", i, c.items[i]->key);
            else if (!expect && c.items[i]->visits) hx_fail(res, "duplicate-element", "for_all visited item %d (key %d) which is not stored", i, c.items[i]->key);
        }
    }
    /* drain: every stored key can be removed once; afterwards the table is empty */
    int clean = !res->vclass;
    for (int k = 0; k < c.nk && clean; k++) {
        void *q = parsec_hash_table_remove(c.ht, c.keyval[k]);
        int id = decode(&c, q, k, "final remove");
        if (id == -2) break;
        if (id != c.present[k]) hx_fail(res, id < 0 ? "lost-element" : "duplicate-element", "final remove(key %d) returned item %d, expected %d", k, id, c.present[k]);
    }
    if (!res->vclass) {
        fa_t fa = {&c, 0};
        for (int i = 0; i < 2 * c.nk; i++) c.items[i]->visits = 0;
        parsec_hash_table_for_all(c.ht, fa_cb, &fa);
        int left = fa.garbage;
        for (int i = 0; i < 2 * c.nk; i++) left += c.items[i]->visits;
        if (left) hx_fail(res, "duplicate-element", "%d items still in the table after every key was removed", left);
    }
    /* after a violation the table may be inconsistent: leak it rather than walk it again */
    if (!res->vclass) PARSEC_OBJ_RELEASE(c.ht);  /* parsec_hash_table_fini */
    sim_resume();
    for (int i = 0; i < 2 * c.nk; i++) free(c.items[i]);
}

static const hx_harness_t H = {
    .property = "C32", .name = "c32_hash", .opnames = opnames, .nopnames = OP_N,
    .est_steps = 2000, .max_steps = 4000000, .gen = gen, .run = run, .init = init,
    .probe_names = probe_names, .nprobes = PR_N,
};
int main(int argc, char **argv) { return hx_main(argc, argv, &H); }
