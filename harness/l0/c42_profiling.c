/* C42: profiling traces read back exactly as written (DESIGN 4, C42).
 *
 * Real code (instrumented, unmodified, compiled from the tree under test by c42_profiling_src.c / c42_dbpreader_src.c
 * with -DPARSEC_PROF_TRACE + PARSEC_PROFILING_USE_MMAP + PARSEC_PROFILING_USE_HELPER_THREAD): parsec/profiling.c
 * (buffered event writer, per-stream buffer free lists, mmap'ed file back-end, I/O helper thread, dictionary / info /
 * thread sections, header), parsec/parsec_binary_profile.h, tools/profiling/dbpreader.c (the reader).  From libparsec:
 * class/list.c, parsec_object.c, utils/mca_param.c (the profile_* MCA parameters are set through PARSEC_MCA_* as a user
 * would).  parsec/dictionary.c is NOT involved: it is the PINS/"properties" dictionary; the event dictionary of the
 * binary trace lives in profiling.c.
 * Simulated: thread interleaving of 1-6 tracer sim-threads, the helper thread (created by profiling.c through
 * pthread_create, hence a sim-thread: its mutex/condvar queue, munmap + re-mmap of buffers and free-list pushes
 * interleave with the tracers at every instrumented access), the clock (timestamps).  Real: the file (open / ftruncate /
 * mmap / munmap / close / read on a small per-worker file under --out, removed after the run).  No I/O fault is injected.
 * parsec_profiling_init may be called once per process and leaves state behind: every run is a forked child.
 *
 * Legal-client discipline (profiling.h): init, dbp_start, dictionary keywords, global infos by the main thread; each
 * stream is created (thread safe) and then used by exactly one thread; parsec_profiling_start() after all streams
 * exist and before any event; dictionary keywords added later are added by one thread only (tracer 0) and a key is
 * used only after add_dictionary_keyword returned it; an event is always shorter than the usable part of a buffer;
 * PARSEC_PROFILING_EVENT_HAS_INFO is only passed together with an info pointer; names < 64, attributes 7..127 chars,
 * hr_id < 128; dbp_dump / fini by the main thread after every tracer has been joined.
 *
 * Oracle (the file is read with dbp_reader_open_files and the reader's accessors / iterators only):
 *  - no call of the writer reports an error, the reader opens the file without error, header hr_id and rank are equal;
 *  - the dictionary read back == {"N/A"} + the registered classes in key order: name, info length, convertor, and the
 *    attributes as far as the reader keeps them (its last 6 characters);
 *  - global infos and per-stream infos: same number, keys and values (in the file's order = reverse of insertion);
 *  - streams: exactly the streams that traced at least one event, each once, with the traced number of events;
 *  - per stream the i-th event decoded by the iterator == the i-th event traced: key, flags (| HAS_INFO when an info
 *    was given), event id, taskpool id, info length and every info byte; its timestamp lies between the simulated
 *    instants of invoke and return of the tracing call (relative to parsec_profiling_start) and is non-decreasing;
 *    after the last traced event the iterator ends (nothing extra).
 */
#include "../hx.h"
#include "parsec/parsec_config.h"
#include "parsec/profiling.h"
#include "parsec/utils/mca_param.h"
#include "parsec/utils/debug.h"
#include "tools/profiling/dbpreader.h"
#include <stdlib.h>
#include <string.h>
#include <unistd.h>
#include <signal.h>
#include <setjmp.h>

/* c42_profiling_src.c / c42_profiling_shim.c */
size_t c42_event_buffer_size(void);
size_t c42_event_avail_space(void);
int c42_stream_buffers_allocated(const parsec_profiling_stream_t *s);
int c42_helper_thread_started(void);
int c42_uses_mmap(void);
unsigned char c42_payload_byte(uint64_t s, size_t i);
void c42_payload_fill(unsigned char *d, uint64_t s, size_t size);
parsec_profiling_stream_t *shim_stream_init(size_t length, int idx);
int shim_trace(parsec_profiling_stream_t *s, int key, uint64_t eid, uint32_t tpid, const void *info, uint16_t flags);
int shim_trace_fn(parsec_profiling_stream_t *s, int key, uint64_t eid, uint32_t tpid, const uint64_t *seed, uint16_t flags);
int shim_ts_trace(int key, uint64_t eid, uint32_t tpid, const void *info, uint16_t flags);
int shim_ts_trace_fn(int key, uint64_t eid, uint32_t tpid, const uint64_t *seed, uint16_t flags);

enum { OP_TRACE, OP_REGCLASS, OP_PAUSE, OP_N };
static const char *const opnames[] = {"trace", "regclass", "pause"};
enum { PR_SWITCH, PR_SWITCH4, PR_EXACT_FIT, PR_ONE_SHORT, PR_FREELIST_EMPTY, PR_HELPER, PR_DICT_MULTI, PR_GINFO_SPAN, PR_THREADS_MULTI, PR_TS, PR_INFO_FN,
       PR_REG_CONCURRENT, PR_ZERO_LEN_INFO, PR_NO_INFO_ON_INFO_CLASS, PR_EMPTY_STREAM, PR_FINI_DUMP, PR_MAXLEN, PR_PAGES2, PR_N };
static const char *const probe_names[] = {"stream_switched_event_buffer", "stream_used_4_or_more_buffers", "event_filled_buffer_exactly", "event_one_byte_too_long_for_rest_of_buffer",
    "tracer_mapped_a_buffer_itself_freelist_empty", "helper_thread_running", "dictionary_spans_buffers", "global_info_value_spans_buffers", "thread_section_spans_buffers",
    "implicit_stream_variant_used", "info_fn_variant_used", "keyword_added_while_others_trace", "info_given_for_class_with_zero_length", "no_info_given_for_class_with_info",
    "stream_without_events", "dump_through_fini", "event_of_maximal_length", "two_pages_per_buffer"};

#define MAXT 6
#define MAXC 5
#define MAXG 5
#define MAXSI 3
#define MAXEV 6000
typedef struct { int cls, key, hasinfo; uint16_t flags; uint64_t eid, seed, t_lo, t_hi; uint32_t tpid; } ev_t;
typedef struct { char name[64], attr[128], *conv; int convlen, len, registered, ks, ke; } cls_t;
typedef struct { char key[64]; char *val; int vlen; } info_t;

typedef struct {
    const hx_plan_t *plan;
    hx_result_t *res;
    int T, ncls, pages, rank;
    uint64_t strseed;
    size_t avail;
    cls_t cls[MAXC];
    int nreg_order[MAXC], nreg;          /* classes in registration order */
    info_t ginfo[MAXG + 1]; int nginfo;
    info_t sinfo[MAXT][MAXSI + 1]; int nsinfo[MAXT];
    info_t big; int has_big;     /* an info of stream 0 that cannot fit a buffer: documented as "info ignored" + error return */
    parsec_profiling_stream_t *stream[MAXT];
    ev_t *ev[MAXT]; int nev[MAXT];
    long pos[MAXT]; int nbuf[MAXT];      /* probe-only replica of the writer's position arithmetic */
    int tracing;                          /* number of tracer threads currently inside their op loop */
    uint64_t s0, s1;                     /* simulated instants around parsec_profiling_start() */
    char hr[128], base[400], path[440];
} ctx_t;
static ctx_t C;
static const char *OUTDIR = ".";

static uint64_t mix(uint64_t x) { x += 0x9E3779B97F4A7C15ULL; x ^= x >> 30; x *= 0xBF58476D1CE4E5B9ULL; x ^= x >> 27; x *= 0x94D049BB133111EBULL; x ^= x >> 31; return x; }
static void fill_str(char *b, int len, uint64_t seed)
{
    static const char al[] = "abcdefghijklmnopqrstuvwxyzABCDEFGHIJKLMNOPQRSTUVWXYZ0123456789_{};";
    for (int i = 0; i < len; i++) b[i] = al[mix(seed + (uint64_t)i * 31) % (sizeof(al) - 1)];
    b[len] = 0;
}
static void setenv_int(const char *k, long v) { char b[32]; snprintf(b, sizeof(b), "%ld", v); setenv(k, b, 1); }

/* ------------------------------------------------------------------ workload */
static void build_strings(ctx_t *c, const hx_plan_t *p)
{
    static const char *const lk[MAXC] = {"len0", "len1", "len2", "len3", "len4"}, *const ck[MAXC] = {"conv0", "conv1", "conv2", "conv3", "conv4"};
    static const char *const gk[MAXG] = {"gv0", "gv1", "gv2", "gv3", "gv4"};
    long maxlen = (long)c->avail - (long)sizeof(uint64_t) * 3 - 1;      /* base event = 24 bytes; event length < avail */
    for (int i = 0; i < c->ncls; i++) {
        cls_t *k = &c->cls[i];
        uint64_t s = mix(c->strseed * 131 + (uint64_t)i);
        int nl = 8 + (int)(s % 56);                                      /* 8..63 */
        if (s % 7 == 0) nl = 63;
        int pre = snprintf(k->name, sizeof(k->name), "c42-k%d-", i);
        fill_str(k->name + pre, nl - pre, s ^ 0x11);
        int al = (s >> 8) % 5 == 0 ? 127 : 12 + (int)((s >> 16) % 40);
        fill_str(k->attr, al - 12, s ^ 0x22);
        snprintf(k->attr + al - 12, 13, "fill:#%06X", (unsigned)((s >> 24) & 0xFFFFFF));
        long cl = hx_knob(p, ck[i], -1);
        if (cl > 3000) cl = 3000;
        k->convlen = (int)cl;
        k->conv = NULL;
        if (cl >= 0) { k->conv = malloc((size_t)cl + 1); fill_str(k->conv, (int)cl, s ^ 0x33); }
        long l = hx_knob(p, lk[i], 0);
        if (l < 0) l = 0;
        if (l > maxlen) l = maxlen;
        k->len = (int)l;
        if (l == maxlen) sim_probe(PR_MAXLEN);
    }
    int ng = (int)hx_knob(p, "ginfos", 0);
    if (ng < 0) ng = 0;
    if (ng > MAXG) ng = MAXG;
    c->nginfo = ng;
    for (int i = 0; i < ng; i++) {
        info_t *g = &c->ginfo[i];
        uint64_t s = mix(c->strseed * 977 + (uint64_t)i);
        int kl = 4 + (int)(s % 36);
        int pre = snprintf(g->key, sizeof(g->key), "gk%d", i);
        fill_str(g->key + pre, kl - pre, s ^ 0x44);
        long vl = hx_knob(p, gk[i], 0);
        if (vl < 0) vl = 0;
        if (vl > 20000) vl = 20000;
        g->vlen = (int)vl;
        g->val = malloc((size_t)vl + 1);
        fill_str(g->val, (int)vl, s ^ 0x55);
    }
    int nsi = (int)hx_knob(p, "sinfo", 0), svl = (int)hx_knob(p, "svl", 0);
    if (nsi < 0) nsi = 0;
    if (nsi > MAXSI) nsi = MAXSI;
    if (svl < 0) svl = 0;
    if (svl > 600) svl = 600;       /* a stream's section (header + infos) must fit one buffer: see the final report */
    for (int t = 0; t < c->T; t++) {
        c->nsinfo[t] = nsi;
        for (int j = 0; j < nsi; j++) {
            info_t *g = &c->sinfo[t][j];
            uint64_t s = mix(c->strseed * 389 + (uint64_t)(t * 8 + j));
            int pre = snprintf(g->key, sizeof(g->key), "sk%d_%d", t, j);
            fill_str(g->key + pre, (int)(s % 10), s ^ 0x66);
            g->vlen = (int)((s >> 8) % (uint64_t)(svl + 1));
            g->val = malloc((size_t)g->vlen + 1);
            fill_str(g->val, g->vlen, s ^ 0x77);
        }
    }
    c->has_big = 0;
    if (hx_knob(p, "sinfo_big", 0)) {      /* a stream info that does not fit a buffer: the writer must drop it (warning), not hang */
        info_t *g = &c->big;
        snprintf(g->key, sizeof(g->key), "big");
        g->vlen = (int)c->avail;
        g->val = malloc((size_t)g->vlen + 1);
        fill_str(g->val, g->vlen, c->strseed ^ 0xBB);
        c->has_big = 1;
    }
    int hl = (int)hx_knob(p, "hrlen", 20);
    if (hl < 1) hl = 1;
    if (hl > 127) hl = 127;
    fill_str(c->hr, hl, c->strseed ^ 0x88);
}

static int register_class(ctx_t *c, int i)
{
    cls_t *k = &c->cls[i];
    int ks = -1, ke = -1;
    int rc = parsec_profiling_add_dictionary_keyword(k->name, k->attr, (size_t)k->len, k->conv, &ks, &ke);
    if (rc != 0) { hx_fail(c->res, "writer-error", "parsec_profiling_add_dictionary_keyword(%s) returned %d: %s", k->name, rc, parsec_profiling_strerror()); return -1; }
    if (ks < 2 || ke != ks + 1 || (ks & 1)) { hx_fail(c->res, "writer-error", "parsec_profiling_add_dictionary_keyword(%s) returned keys %d/%d", k->name, ks, ke); return -1; }
    for (int j = 0; j < c->ncls; j++) if (c->cls[j].registered && c->cls[j].ks == ks) { hx_fail(c->res, "dictionary-mismatch", "keyword %s received key %d, which keyword %s already holds", k->name, ks, c->cls[j].name); return -1; }
    k->ks = ks; k->ke = ke;
    k->registered = 1;
    c->nreg_order[c->nreg++] = i;
    return 0;
}

static void init_worker(int t, void *arg)
{
    ctx_t *c = arg;
    size_t length = (mix(c->strseed + (uint64_t)t) % 3) * 4096;
    c->stream[t] = shim_stream_init(length, t);
    if (!c->stream[t]) { hx_fail(c->res, "writer-error", "parsec_profiling_stream_init failed for stream %d: %s", t, parsec_profiling_strerror()); return; }
    for (int j = 0; j < c->nsinfo[t]; j++) {
        if (t == 0 && c->has_big && j == c->nsinfo[t] / 2) parsec_profiling_stream_add_information(c->stream[t], c->big.key, c->big.val);
        parsec_profiling_stream_add_information(c->stream[t], c->sinfo[t][j].key, c->sinfo[t][j].val);
    }
    if (t == 0 && c->has_big && c->nsinfo[t] == 0) parsec_profiling_stream_add_information(c->stream[t], c->big.key, c->big.val);
}

static void trace_worker(int t, void *arg)
{
    ctx_t *c = arg;
    hx_result_t *res = c->res;
    const hx_plan_t *p = c->plan;
    parsec_profiling_set_default_thread(c->stream[t]);
    c->tracing++;
    for (int n = 0; n < p->nops && !res->vclass; n++) {
        const hx_op_t *o = &p->ops[n];
        if (o->thr % c->T != t) continue;
        switch (o->op) {
        case OP_TRACE: {
            int reg[MAXC], nr = 0;
            for (int i = 0; i < c->ncls; i++) if (c->cls[i].registered) reg[nr++] = i;
            if (!nr) break;
            int ci = reg[o->a % nr];
            cls_t *k = &c->cls[ci];
            long b = o->b;
            int end = b & 1, hasinfo = (b >> 1) & 1, passflag = (b >> 2) & 1, variant = (b >> 6) & 3, count = (int)((b >> 8) & 63) + 1;
            uint16_t flags = (uint16_t)(((b >> 3) & 1 ? PARSEC_PROFILING_EVENT_RESCHEDULED : 0) | ((b >> 4) & 1 ? PARSEC_PROFILING_EVENT_COUNTER : 0) |
                                        ((b >> 5) & 1 ? PARSEC_PROFILING_EVENT_TIME_AT_START : 0) | (passflag && hasinfo ? PARSEC_PROFILING_EVENT_HAS_INFO : 0));
            if (hasinfo && k->len == 0) sim_probe(PR_ZERO_LEN_INFO);
            if (!hasinfo && k->len > 0) sim_probe(PR_NO_INFO_ON_INFO_CLASS);
            if (variant & 2) sim_probe(PR_TS);
            if (variant & 1) sim_probe(PR_INFO_FN);
            unsigned char *blob = NULL;
            if (hasinfo && !(variant & 1)) blob = malloc(k->len ? (size_t)k->len : 1);
            for (int j = 0; j < count && c->nev[t] < MAXEV && !res->vclass; j++) {
                ev_t *e = &c->ev[t][c->nev[t]];
                uint64_t s = mix((uint64_t)o->c * 1000003ULL + (uint64_t)j * 7919ULL + (uint64_t)t);
                e->cls = ci; e->key = end ? k->ke : k->ks; e->hasinfo = hasinfo; e->seed = s;
                e->flags = (uint16_t)(flags | (hasinfo ? PARSEC_PROFILING_EVENT_HAS_INFO : 0));
                e->eid = s % 11 == 0 ? 0 : s % 13 == 0 ? UINT64_MAX : mix(s ^ 0xE1D);
                e->tpid = s % 5 == 0 ? PROFILE_OBJECT_ID_NULL : (uint32_t)mix(s ^ 0x7F1D);
                if (blob) c42_payload_fill(blob, s, (size_t)k->len);
                /* probe-only replica of the buffer arithmetic */
                long el = 24 + (hasinfo ? k->len : 0);
                if (c->pos[t] + el > (long)c->avail) { if (c->pos[t] + el == (long)c->avail + 1) sim_probe(PR_ONE_SHORT); c->pos[t] = 0; c->nbuf[t]++; }
                c->pos[t] += el;
                if (c->pos[t] == (long)c->avail) sim_probe(PR_EXACT_FIT);
                int rc;
                uint64_t inv = sim_now();
                switch (variant) {
                case 0: rc = shim_trace(c->stream[t], e->key, e->eid, e->tpid, hasinfo ? blob : NULL, flags); break;
                case 1: rc = shim_trace_fn(c->stream[t], e->key, e->eid, e->tpid, hasinfo ? &s : NULL, flags); break;
                case 2: rc = shim_ts_trace(e->key, e->eid, e->tpid, hasinfo ? blob : NULL, flags); break;
                default: rc = shim_ts_trace_fn(e->key, e->eid, e->tpid, hasinfo ? &s : NULL, flags); break;
                }
                uint64_t ret = sim_now();
                e->t_lo = inv > c->s1 ? inv - c->s1 : 0;
                e->t_hi = ret - c->s0;
                if (rc != 0) { hx_fail(res, "writer-error", "stream %d: tracing call %d (variant %d, key %d, info length %d) returned %d although no fault is injected: %s", t, c->nev[t], variant, e->key, hasinfo ? k->len : 0, rc, parsec_profiling_strerror()); break; }
                c->nev[t]++;
            }
            free(blob);
            break;
        }
        case OP_REGCLASS:
            if (t != 0) break;      /* "all keywords should be inserted by one thread at most" */
            for (int i = 0; i < c->ncls; i++) if (!c->cls[i].registered) {
                if (c->tracing > 1) sim_probe(PR_REG_CONCURRENT);
                register_class(c, i);
                break;
            }
            break;
        case OP_PAUSE: sim_delay((uint64_t)(o->a % 20000)); break;
        default: break;
        }
    }
    c->tracing--;
}

/* ------------------------------------------------------------------ read back and compare */
static int same_info(hx_result_t *res, const char *what, int idx, const dbp_info_t *got, const info_t *want)
{
    const char *k = dbp_info_get_key(got), *v = dbp_info_get_value(got);
    if (!k || strcmp(k, want->key)) { hx_fail(res, "info-mismatch", "%s info %d: key read back '%.60s', written '%s'", what, idx, k ? k : "(null)", want->key); return 0; }
    if (!v || (int)strlen(v) != want->vlen || memcmp(v, want->val, (size_t)want->vlen)) {
        int d = 0; if (v) while (d < want->vlen && v[d] == want->val[d]) d++;
        hx_fail(res, "info-mismatch", "%s info %d (key %s): value read back has length %d, written %d; first difference at byte %d", what, idx, want->key, v ? (int)strlen(v) : -1, want->vlen, d);
        return 0;
    }
    return 1;
}

static void verify(ctx_t *c)
{
    hx_result_t *res = c->res;
    char *files[1] = {c->path};
    dbp_multifile_reader_t *dbp = dbp_reader_open_files(1, files);
    if (!dbp || dbp_reader_nb_files(dbp) != 1 || dbp_reader_last_error(dbp) != 0) {
        hx_fail(res, "reader-error", "dbp_reader_open_files: files=%d last_error=%d", dbp ? dbp_reader_nb_files(dbp) : -1, dbp ? dbp_reader_last_error(dbp) : 0);
        return;
    }
    dbp_file_t *f = dbp_reader_get_file(dbp, 0);
    if (dbp_file_error(f)) { hx_fail(res, "reader-error", "dbp_file_error=%d", dbp_file_error(f)); return; }
    if (strcmp(dbp_file_hr_id(f), c->hr) || dbp_file_get_rank(f) != c->rank) { hx_fail(res, "header-mismatch", "hr_id/rank read back '%s'/%d, written '%s'/%d", dbp_file_hr_id(f), dbp_file_get_rank(f), c->hr, c->rank); return; }

    /* dictionary */
    int nd = dbp_file_nb_dictionary_entries(f);
    if (nd != 1 + c->nreg || dbp_reader_nb_dictionary_entries(dbp) != nd) { hx_fail(res, "dictionary-mismatch", "%d dictionary entries read back (%d in the reader's global dictionary), 1 + %d written", nd, dbp_reader_nb_dictionary_entries(dbp), c->nreg); return; }
    for (int d = 0; d < nd; d++) {
        dbp_dictionary_t *e = dbp_file_get_dictionary(f, d);
        const char *wn = "N/A", *wa = "fill:#000000", *wc = "";
        int wl = 0;
        if (d > 0) {
            cls_t *k = NULL;
            for (int i = 0; i < c->ncls; i++) if (c->cls[i].registered && c->cls[i].ks == 2 * d) k = &c->cls[i];
            if (!k) { hx_fail(res, "dictionary-mismatch", "no registered keyword holds key %d", 2 * d); return; }
            wn = k->name; wa = k->attr; wc = k->conv ? k->conv : ""; wl = k->len;
        }
        const char *gn = dbp_dictionary_name(e), *ga = dbp_dictionary_attributes(e), *gc = dbp_dictionary_convertor(e);
        if (strcmp(gn, wn) || dbp_dictionary_keylen(e) != wl || strcmp(gc, wc) || strcmp(ga, wa + strlen(wa) - 6)) {
            hx_fail(res, "dictionary-mismatch", "entry %d read back: name '%.63s' info length %d convertor length %d attributes '...%.10s'; written: name '%s' info length %d convertor length %d attributes '...%s'",
                    d, gn, dbp_dictionary_keylen(e), (int)strlen(gc), ga, wn, wl, (int)strlen(wc), wa + strlen(wa) - 6);
            return;
        }
    }
    /* global infos: file order = reverse insertion order; the two oldest are hostname and cwd from parsec_profiling_init */
    int ni = dbp_file_nb_infos(f);
    if (ni != c->nginfo + 2) { hx_fail(res, "info-mismatch", "%d global infos read back, %d written (hostname, cwd + %d)", ni, c->nginfo + 2, c->nginfo); return; }
    for (int i = 0; i < c->nginfo; i++) if (!same_info(res, "global", i, dbp_file_get_info(f, i), &c->ginfo[c->nginfo - 1 - i])) return;
    if (strcmp(dbp_info_get_key(dbp_file_get_info(f, ni - 2)), "cwd") || strcmp(dbp_info_get_key(dbp_file_get_info(f, ni - 1)), "hostname")) { hx_fail(res, "info-mismatch", "the two oldest global infos are not cwd and hostname"); return; }

    /* streams */
    int seen[MAXT] = {0}, nth = dbp_file_nb_threads(f), want_th = 0;
    for (int t = 0; t < c->T; t++) want_th += c->nev[t] > 0;
    for (int i = 0; i < nth; i++) {
        dbp_thread_t *th = dbp_file_get_thread(f, i);
        const char *id = dbp_thread_get_hr_id(th);
        int t = -1;
        if (!id || sscanf(id, "c42 stream %d", &t) != 1 || t < 0 || t >= c->T || seen[t]++) { hx_fail(res, "extra-stream", "stream %d of %d in the file has name '%.40s' (unknown or duplicate)", i, nth, id ? id : "(null)"); return; }
        if (dbp_thread_nb_events(th) != c->nev[t]) { hx_fail(res, "event-count", "stream %d: the file announces %d events, %d were traced", t, dbp_thread_nb_events(th), c->nev[t]); return; }
        if (dbp_thread_nb_infos(th) != c->nsinfo[t]) { hx_fail(res, "info-mismatch", "stream %d: %d infos read back, %d written", t, dbp_thread_nb_infos(th), c->nsinfo[t]); return; }
        for (int j = 0; j < c->nsinfo[t]; j++) if (!same_info(res, "stream", j, dbp_thread_get_info(th, j), &c->sinfo[t][c->nsinfo[t] - 1 - j])) return;
        dbp_event_iterator_t *it = dbp_iterator_new_from_thread(th);
        uint64_t last = 0;
        for (int n = 0; n < c->nev[t]; n++) {
            const dbp_event_t *g = dbp_iterator_current(it);
            ev_t *e = &c->ev[t][n];
            cls_t *k = &c->cls[e->cls];
            if (!g) { hx_fail(res, "event-lost", "stream %d: the iterator ends after %d events, %d were traced (buffers used by the stream: about %d)", t, n, c->nev[t], c->nbuf[t] + 1); return; }
            int gl = dbp_event_info_len(g, f), wl = e->hasinfo ? k->len : 0;
            if (dbp_event_get_key(g) != e->key || dbp_event_get_flags(g) != e->flags || dbp_event_get_event_id(g) != e->eid || dbp_event_get_taskpool_id(g) != e->tpid || gl != wl) {
                hx_fail(res, "event-mismatch", "stream %d event %d of %d: read back key %d flags 0x%x id %llx taskpool %x info length %d; traced key %d flags 0x%x id %llx taskpool %x info length %d",
                        t, n, c->nev[t], dbp_event_get_key(g), dbp_event_get_flags(g), (unsigned long long)dbp_event_get_event_id(g), dbp_event_get_taskpool_id(g), gl,
                        e->key, e->flags, (unsigned long long)e->eid, e->tpid, wl);
                return;
            }
            const unsigned char *gi = dbp_event_get_info(g);
            if ((gi != NULL) != (e->hasinfo != 0)) { hx_fail(res, "event-mismatch", "stream %d event %d: info pointer %s, info %s", t, n, gi ? "present" : "absent", e->hasinfo ? "traced" : "not traced"); return; }
            static unsigned char want[2 * 65536];
            if (wl > (int)sizeof(want)) wl = (int)sizeof(want);
            c42_payload_fill(want, e->seed, (size_t)wl);
            if (wl && memcmp(gi, want, (size_t)wl)) for (int q = 0; q < wl; q++) if (gi[q] != want[q]) { hx_fail(res, "payload-mismatch", "stream %d event %d of %d (key %d): info byte %d of %d read back 0x%02x, traced 0x%02x", t, n, c->nev[t], e->key, q, wl, gi[q], c42_payload_byte(e->seed, (size_t)q)); return; }
            uint64_t ts = dbp_event_get_timestamp(g);
            if (ts < e->t_lo || ts > e->t_hi || ts < last) { hx_fail(res, "timestamp-mismatch", "stream %d event %d: timestamp %llu read back, the tracing call ran in [%llu,%llu], previous event of the stream has %llu", t, n, (unsigned long long)ts, (unsigned long long)e->t_lo, (unsigned long long)e->t_hi, (unsigned long long)last); return; }
            last = ts;
            dbp_iterator_next(it);
        }
        if (dbp_iterator_current(it)) { hx_fail(res, "extra-event", "stream %d: the iterator delivers an event after the %d traced ones (key %d)", t, c->nev[t], dbp_event_get_key(dbp_iterator_current(it))); return; }
        dbp_iterator_delete(it);
    }
    for (int t = 0; t < c->T; t++) if (c->nev[t] > 0 && !seen[t]) { hx_fail(res, "stream-missing", "stream %d traced %d events but is not in the file (%d streams read back, %d expected)", t, c->nev[t], nth, want_th); return; }
    dbp_reader_close_files(dbp);
    dbp_reader_destruct(dbp);
}

/* A file that does not decode can send the reader through wild offsets: turn a fault inside verify() into a verdict
 * of this run (with its plan and trace) instead of an anonymous dead child.  Only used in the forked child, after the
 * simulated threads are gone. */
static sigjmp_buf reader_jmp;
static volatile int reader_sig;
static void reader_fault(int sig) { reader_sig = sig; siglongjmp(reader_jmp, 1); }
static void verify_guarded(ctx_t *c)
{
    static char alt[1 << 16];
    stack_t ss = {.ss_sp = alt, .ss_size = sizeof(alt), .ss_flags = 0};
    sigaltstack(&ss, NULL);
    struct sigaction sa, old[4];
    static const int sigs[4] = {SIGSEGV, SIGBUS, SIGFPE, SIGABRT};
    memset(&sa, 0, sizeof(sa));
    sa.sa_handler = reader_fault;
    sa.sa_flags = SA_ONSTACK | SA_NODEFER;
    for (int i = 0; i < 4; i++) sigaction(sigs[i], &sa, &old[i]);
    if (sigsetjmp(reader_jmp, 1) == 0) verify(c);
    else hx_fail(c->res, "reader-crash", "signal %d inside tools/profiling/dbpreader.c while reading the file back (the file does not decode)", reader_sig);
    for (int i = 0; i < 4; i++) sigaction(sigs[i], &old[i], NULL);
}

/* ------------------------------------------------------------------ plan generation */
static long gen_len(hx_rng_t *r, long avail, int pages)
{
    long maxlen = avail - 25;
    int x = (int)hx_below(r, 100);
    if (x < 12) return 0;
    if (x < 40) return hx_range(r, 1, 64);
    if (x < 55 && pages == 1) { static const long ex[4] = {35, 45, 153, 1333}; return ex[hx_below(r, 4)] + hx_range(r, -1, 1); }   /* 4071 = 69*59 = 59*69 = 23*177 = 3*1357 */
    if (x < 72) { long d = hx_range(r, 2, 4); return avail / d - 24 + hx_range(r, -2, 2); }
    if (x < 84) return maxlen - hx_below(r, 40);
    if (x < 90) return maxlen;
    return hx_range(r, 1, maxlen);
}

static void gen(hx_plan_t *p, hx_rng_t *r)
{
    static const char *const lk[MAXC] = {"len0", "len1", "len2", "len3", "len4"}, *const ck[MAXC] = {"conv0", "conv1", "conv2", "conv3", "conv4"};
    static const char *const gk[MAXG] = {"gv0", "gv1", "gv2", "gv3", "gv4"};
    int T = (int)hx_range(r, 1, MAXT);
    int pages = hx_chance(r, 82) ? 1 : 2;
    long avail = pages * 4096L - 25;
    hx_set_knob(p, "threads", T);
    hx_set_knob(p, "pages", pages);
    hx_set_knob(p, "resize", hx_chance(r, 60) ? 1 : hx_range(r, 2, 4));
    int nc = (int)hx_range(r, 1, MAXC);
    hx_set_knob(p, "nclasses", nc);
    int pre = hx_chance(r, 60) ? nc : (int)hx_range(r, 0, nc);
    hx_set_knob(p, "pre", pre);
    int small_regime = hx_chance(r, 25), long_conv = hx_chance(r, 20);
    for (int i = 0; i < MAXC; i++) {
        hx_set_knob(p, lk[i], i < nc ? (small_regime ? (hx_chance(r, 30) ? 0 : hx_range(r, 1, 80)) : gen_len(r, avail, pages)) : 0);
        int x = (int)hx_below(r, 100);
        hx_set_knob(p, ck[i], i >= nc ? -1 : long_conv ? hx_range(r, 700, 1500) : x < 20 ? -1 : x < 30 ? 0 : x < 80 ? hx_range(r, 1, 60) : hx_range(r, 200, 1500));
    }
    int ng = (int)hx_range(r, 0, MAXG - 1);
    hx_set_knob(p, "ginfos", ng);
    for (int i = 0; i < MAXG; i++) {
        int x = (int)hx_below(r, 100);
        hx_set_knob(p, gk[i], i >= ng || x < 10 ? 0 : x < 50 ? hx_range(r, 1, 100) : x < 75 ? avail + hx_range(r, -60, 60) : x < 85 ? 2 * avail + hx_range(r, -40, 200) : hx_range(r, 1, 9000));
    }
    hx_set_knob(p, "late_info", hx_chance(r, 30));
    hx_set_knob(p, "sinfo", hx_chance(r, 50) ? 0 : hx_range(r, 1, MAXSI));
    hx_set_knob(p, "svl", hx_chance(r, 35) ? 600 : hx_chance(r, 50) ? 20 : hx_chance(r, 50) ? 0 : 400);
    hx_set_knob(p, "sinfo_big", hx_cli_knob("sinfo_big", hx_below(r, 100) < 12));
    hx_set_knob(p, "fini_dump", hx_chance(r, 25));
    hx_set_knob(p, "rank", hx_range(r, 0, 99));
    hx_set_knob(p, "hrlen", hx_chance(r, 15) ? 127 : hx_range(r, 1, 126));
    hx_set_knob(p, "strseed", hx_below(r, 1000000000));
    int nops = (int)hx_range(r, 2, 50);
    for (int i = 0; i < nops; i++) {
        int x = (int)hx_below(r, 100);
        if (x < (pre < nc ? 14 : 4)) hx_add_op(p, 0, OP_REGCLASS, 0, 0, 0);
        else if (x < 20) hx_add_op(p, (int)hx_below(r, T), OP_PAUSE, hx_range(r, 0, 20000), 0, 0);
        else {
            int y = (int)hx_below(r, 100);
            long rep = small_regime ? (y < 30 ? 0 : y < 60 ? hx_range(r, 1, 15) : hx_range(r, 16, 63)) : (y < 60 ? 0 : y < 85 ? hx_range(r, 1, 7) : hx_range(r, 8, 63));
            int v = (int)hx_below(r, 100);
            long b = hx_below(r, 2) | (long)hx_chance(r, 65) << 1 | (long)hx_chance(r, 50) << 2 | (long)hx_chance(r, 15) << 3 | (long)hx_chance(r, 15) << 4 | (long)hx_chance(r, 25) << 5 |
                     (long)(v < 50 ? 0 : v < 70 ? 1 : v < 85 ? 2 : 3) << 6 | rep << 8;
            hx_add_op(p, (int)hx_below(r, T), OP_TRACE, hx_below(r, 1000), b, hx_below(r, 1000000000));
        }
    }
}

/* ------------------------------------------------------------------ one run */
static void run(const hx_plan_t *p, hx_result_t *res)
{
    ctx_t *c = &C;
    memset(c, 0, sizeof(*c));
    c->plan = p; c->res = res;
    c->T = (int)hx_knob(p, "threads", 1);
    if (c->T < 1) c->T = 1;
    if (c->T > MAXT) c->T = MAXT;
    c->ncls = (int)hx_knob(p, "nclasses", 1);
    if (c->ncls < 1) c->ncls = 1;
    if (c->ncls > MAXC) c->ncls = MAXC;
    c->pages = (int)hx_knob(p, "pages", 1);
    if (c->pages < 1) c->pages = 1;
    if (c->pages > 4) c->pages = 4;
    c->rank = (int)hx_knob(p, "rank", 0);
    if (c->rank < 0) c->rank = 0;
    c->strseed = (uint64_t)hx_knob(p, "strseed", 1);
    long resize = hx_knob(p, "resize", 1);
    if (resize < 1) resize = 1;
    if (resize > 8) resize = 8;
    if (c->pages == 2) sim_probe(PR_PAGES2);

    /* buffer geometry through the MCA parameters profiling.c registers (read from the environment at registration) */
    setenv_int("PARSEC_MCA_profile_buffer_pages", c->pages);
    setenv_int("PARSEC_MCA_profile_file_resize", resize);
    int rc = parsec_profiling_init(c->rank);
    if (rc != 0) { hx_fail(res, "writer-error", "parsec_profiling_init returned %d", rc); return; }
    c->avail = c42_event_avail_space();
    build_strings(c, p);
    snprintf(c->base, sizeof(c->base), "%s/c42_%08x", OUTDIR, (unsigned)getppid());
    snprintf(c->path, sizeof(c->path), "%s-%d.prof", c->base, c->rank);
    rc = parsec_profiling_dbp_start(c->base, c->hr);
    if (rc != 0) { hx_fail(res, "writer-error", "parsec_profiling_dbp_start(%s) returned %d: %s", c->base, rc, parsec_profiling_strerror()); return; }
    if (c42_helper_thread_started()) sim_probe(PR_HELPER);
    int pre = (int)hx_knob(p, "pre", c->ncls);
    for (int i = 0; i < c->ncls && i < pre && !res->vclass; i++) register_class(c, i);
    for (int i = 0; i < c->nginfo; i++) parsec_profiling_add_information(c->ginfo[i].key, c->ginfo[i].val);
    for (int t = 0; t < c->T; t++) c->ev[t] = calloc(MAXEV, sizeof(ev_t));

    if (!res->vclass) hx_run_threads(c->T, init_worker, c);
    if (!res->vclass) {
        c->s0 = sim_now();
        parsec_profiling_start();
        c->s1 = sim_now();
        for (int t = 0; t < c->T; t++) c->pos[t] = 0;
        hx_run_threads(c->T, trace_worker, c);
    }
    if (!res->vclass) {
        for (int t = 0; t < c->T; t++) {
            if (c->nbuf[t] >= 1) sim_probe(PR_SWITCH);
            if (c->nbuf[t] >= 3) sim_probe(PR_SWITCH4);
            if (c->nev[t] == 0) sim_probe(PR_EMPTY_STREAM);
            if (c42_stream_buffers_allocated(c->stream[t]) > 2) sim_probe(PR_FREELIST_EMPTY);
        }
        if (hx_knob(p, "late_info", 0) && c->nginfo < MAXG + 1) {       /* as parsec_fini adds MEMORY_USAGE: single-threaded again */
            info_t *g = &c->ginfo[c->nginfo++];
            snprintf(g->key, sizeof(g->key), "late_info");
            g->vlen = (int)(mix(c->strseed ^ 0x99) % 300);
            g->val = malloc((size_t)g->vlen + 1);
            fill_str(g->val, g->vlen, c->strseed ^ 0xAA);
            parsec_profiling_add_information(g->key, g->val);
        }
        /* probe-only: section sizes */
        long dsz = 203, gsz = 0, tsz = 0;
        for (int i = 0; i < c->ncls; i++) if (c->cls[i].registered) dsz += 203 + (c->cls[i].convlen > 0 ? c->cls[i].convlen : 0);
        if (dsz >= (long)c->avail) sim_probe(PR_DICT_MULTI);
        for (int i = 0; i < c->nginfo; i++) { if (gsz + 11 + (long)strlen(c->ginfo[i].key) + c->ginfo[i].vlen > (long)c->avail) sim_probe(PR_GINFO_SPAN); gsz = (gsz + 11 + (long)strlen(c->ginfo[i].key) + c->ginfo[i].vlen) % (long)c->avail; }
        for (int t = 0; t < c->T; t++) if (c->nev[t]) { tsz += 160; for (int j = 0; j < c->nsinfo[t]; j++) tsz += 11 + (long)strlen(c->sinfo[t][j].key) + c->sinfo[t][j].vlen; }
        if (tsz >= (long)c->avail) sim_probe(PR_THREADS_MULTI);

        int via_fini = (int)hx_knob(p, "fini_dump", 0);
        if (via_fini) sim_probe(PR_FINI_DUMP);
        else {
            rc = parsec_profiling_dbp_dump();
            if (rc != 0 && !(c->has_big && strstr(parsec_profiling_strerror(), "info ignored"))) hx_fail(res, "writer-error", "parsec_profiling_dbp_dump returned %d although no fault is injected: %s", rc, parsec_profiling_strerror());
        }
        if (!res->vclass) {
            rc = parsec_profiling_fini();       /* dumps when dbp_dump was not called; stops and joins the helper thread */
            if (rc != 0 && !(c->has_big && strstr(parsec_profiling_strerror(), "info ignored"))) hx_fail(res, "writer-error", "parsec_profiling_fini returned %d although no fault is injected: %s", rc, parsec_profiling_strerror());
        }
    }
    for (int t = 0; t < c->T; t++) {
        hx_hash(res, ((uint64_t)t << 48) ^ (uint64_t)c->nev[t]);
        for (int n = 0; n < c->nev[t]; n++) hx_hash(res, c->ev[t][n].seed ^ ((uint64_t)c->ev[t][n].key << 32) ^ c->ev[t][n].flags);
    }
    if (!res->vclass) {
        sim_pause();
        verify_guarded(c);
        sim_resume();
    }
    if (!getenv("C42_KEEP")) unlink(c->path);
    for (int t = 0; t < c->T; t++) free(c->ev[t]);
}

static void init(void)
{
    /* pin the ambient inputs of parsec_mca_param_init: no user parameter file, no inherited PARSEC_MCA_* */
    setenv("HOME", OUTDIR, 1);
    extern char **environ;
    for (char **e = environ; *e;) {
        if (!strncmp(*e, "PARSEC_MCA_", 11)) { char nm[128]; snprintf(nm, sizeof(nm), "%.*s", (int)(strchr(*e, '=') - *e), *e); unsetenv(nm); e = environ; }
        else e++;
    }
    parsec_debug_init();
    parsec_mca_param_init();
}

static const hx_harness_t H = {
    .property = "C42", .name = "c42_profiling", .opnames = opnames, .nopnames = OP_N,
    .est_steps = 12000, .max_steps = 60000000, .gap_lo = 40, .gap_hi = 5000, .fork_per_run = 1, .gen = gen, .run = run, .init = init,
    .probe_names = probe_names, .nprobes = PR_N,
};
int main(int argc, char **argv)
{
    for (int i = 1; i + 1 < argc; i++) if (!strcmp(argv[i], "--out")) OUTDIR = argv[i + 1];
    return hx_main(argc, argv, &H);
}
