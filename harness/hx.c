#define _GNU_SOURCE
#include "hx.h"
#include <errno.h>
#include <pthread.h>
#include <stdarg.h>
#include <stdlib.h>
#include <string.h>
#include <sys/stat.h>
#include <sys/wait.h>
#include <time.h>
#include <unistd.h>

/* ------------------------------------------------------------------ plan helpers */
long hx_knob(const hx_plan_t *p, const char *name, long dflt)
{
    for (int i = 0; i < p->nknobs; i++) if (!strcmp(p->knobs[i].name, name)) return p->knobs[i].val;
    return dflt;
}
void hx_set_knob(hx_plan_t *p, const char *name, long val)
{
    for (int i = 0; i < p->nknobs; i++) if (!strcmp(p->knobs[i].name, name)) { p->knobs[i].val = val; return; }
    if (p->nknobs >= HX_MAX_KNOBS) { fprintf(stderr, "too many knobs\n"); exit(2); }
    snprintf(p->knobs[p->nknobs].name, sizeof(p->knobs[0].name), "%s", name);
    p->knobs[p->nknobs++].val = val;
}
void hx_add_op(hx_plan_t *p, int thr, int op, long a, long b, long c)
{
    if (p->nops >= HX_MAX_OPS) return;
    p->ops[p->nops++] = (hx_op_t){thr, op, a, b, c};
}
int hx_max_thread(const hx_plan_t *p)
{
    int m = -1;
    for (int i = 0; i < p->nops; i++) if (p->ops[i].thr > m) m = p->ops[i].thr;
    return m;
}
void hx_fail(hx_result_t *r, const char *vclass, const char *fmt, ...)
{
    if (r->vclass) return; /* keep the first */
    r->vclass = vclass;
    va_list ap;
    va_start(ap, fmt);
    vsnprintf(r->detail, sizeof(r->detail), fmt, ap);
    va_end(ap);
    for (char *c = r->detail; *c; c++) if (*c == '\n') *c = ' ';
}

typedef struct { hx_thread_fn fn; void *arg; int idx; } tg_t;
static void *tg_tramp(void *a) { tg_t *t = a; t->fn(t->idx, t->arg); return NULL; }
void hx_run_threads(int n, hx_thread_fn fn, void *arg)
{
    pthread_t pt[64];
    tg_t tg[64];
    if (n > 64) n = 64;
    for (int i = 0; i < n; i++) { tg[i] = (tg_t){fn, arg, i}; pthread_create(&pt[i], NULL, tg_tramp, &tg[i]); }
    for (int i = 0; i < n; i++) pthread_join(pt[i], NULL);
}

/* ------------------------------------------------------------------ plan text */
static const hx_harness_t *H;

static void plan_write(FILE *f, const hx_plan_t *p)
{
    for (int i = 0; i < p->nknobs; i++) fprintf(f, "K %s %ld\n", p->knobs[i].name, p->knobs[i].val);
    for (int i = 0; i < p->nops; i++) {
        const hx_op_t *o = &p->ops[i];
        const char *nm = (o->op >= 0 && o->op < H->nopnames) ? H->opnames[o->op] : "?";
        fprintf(f, "O %d %s %ld %ld %ld\n", o->thr, nm, o->a, o->b, o->c);
    }
    if (p->text) {
        const char *s = p->text;
        while (*s) {
            const char *e = strchr(s, '\n');
            size_t n = e ? (size_t)(e - s) : strlen(s);
            fprintf(f, "X %.*s\n", (int)n, s);
            s += n + (e ? 1 : 0);
        }
    }
}
static char *slurp(const char *path)
{
    FILE *f = fopen(path, "r");
    if (!f) { fprintf(stderr, "cannot open %s\n", path); exit(2); }
    fseek(f, 0, SEEK_END);
    long n = ftell(f);
    fseek(f, 0, SEEK_SET);
    char *s = malloc(n + 1);
    if (fread(s, 1, n, f) != (size_t)n) { fprintf(stderr, "short read\n"); exit(2); }
    s[n] = 0;
    fclose(f);
    return s;
}
static void plan_read(const char *path, hx_plan_t *p)
{
    char *s = slurp(path), *save = NULL;
    size_t tcap = strlen(s) + 2, tn = 0;
    char *text = malloc(tcap);
    text[0] = 0;
    p->nknobs = p->nops = 0;
    for (char *ln = strtok_r(s, "\n", &save); ln; ln = strtok_r(NULL, "\n", &save)) {
        if (ln[0] == 'K') {
            char nm[64]; long v;
            if (sscanf(ln + 1, " %63s %ld", nm, &v) == 2) hx_set_knob(p, nm, v);
        } else if (ln[0] == 'O') {
            int thr; char nm[64]; long a = 0, b = 0, c = 0;
            if (sscanf(ln + 1, " %d %63s %ld %ld %ld", &thr, nm, &a, &b, &c) >= 2) {
                int op = -1;
                for (int i = 0; i < H->nopnames; i++) if (!strcmp(nm, H->opnames[i])) op = i;
                if (op >= 0) hx_add_op(p, thr, op, a, b, c);
            }
        } else if (ln[0] == 'X') {
            const char *t = ln[1] == ' ' ? ln + 2 : ln + 1;
            tn += snprintf(text + tn, tcap - tn, "%s\n", t);
        }
    }
    if (tn) p->text = text; else { p->text = NULL; free(text); }
    free(s);
}

/* ------------------------------------------------------------------ run bookkeeping */
typedef struct {
    uint64_t seed;
    int verdict;        /* 0 ok, 1 violation, 2 discard, 3 deadlock, 4 budget */
    char vclass[64];
    char detail[1024];
    uint64_t hist_hash;
    sim_stats_t st;
    uint64_t probes[64];
    size_t trace_len;
} runrec_t;

static const char *outdir = ".";
static void print_agg(void);
static void agg_note_abort(int kind);
static uint64_t runs, viol;
static void install_crash_handlers(void);
static hx_plan_t *cur_plan;
static uint64_t cur_seed;
static int in_child;
static int in_replay_mode;
static char kn[HX_MAX_KNOBS][64];
static long kv[HX_MAX_KNOBS];
static int nk_global;
long hx_cli_knob(const char *name, long dflt)
{
    for (int i = 0; i < nk_global; i++) if (!strcmp(kn[i], name)) return kv[i];
    return dflt;
}
uint64_t hx_current_seed(void) { return cur_seed; }
static char scratch_dir[256];
static pid_t scratch_owner;
static void scratch_cleanup(void) { if (scratch_dir[0] && getpid() == scratch_owner) rmdir(scratch_dir); }
char *hx_scratch_dir(char *tmpl)
{
    char *d = mkdtemp(tmpl);
    if (d && !scratch_dir[0]) { snprintf(scratch_dir, sizeof(scratch_dir), "%s", d); scratch_owner = getpid(); atexit(scratch_cleanup); }
    return d;
}
int hx_in_replay(void) { return in_replay_mode; }
static int child_fd = -1;

static void dump_case(uint64_t seed, const hx_plan_t *p, const char *tag)
{
    char path[512];
    snprintf(path, sizeof(path), "%s/%s_%llu.plan", outdir, tag, (unsigned long long)seed);
    FILE *f = fopen(path, "w");
    if (f) { plan_write(f, p); fclose(f); }
    snprintf(path, sizeof(path), "%s/%s_%llu.trace", outdir, tag, (unsigned long long)seed);
    f = fopen(path, "w");
    if (f) { char *t = sim_trace_text(); fputs(t, f); free(t); fclose(f); }
}

static void write_rec(const runrec_t *r)
{
    if (child_fd >= 0) {
        const char *b = (const char *)r;
        size_t n = sizeof(*r);
        while (n) { ssize_t k = write(child_fd, b, n); if (k <= 0) break; b += k; n -= k; }
    }
}

void hx_abort_run(const char *vclass, const char *detail)
{
    runrec_t r;
    memset(&r, 0, sizeof(r));
    r.seed = cur_seed;
    r.verdict = 1;
    snprintf(r.vclass, sizeof(r.vclass), "%s", vclass);
    snprintf(r.detail, sizeof(r.detail), "%s", detail);
    for (char *c = r.detail; *c; c++) if (*c == '\n') *c = ' ';
    if (cur_plan) dump_case(cur_seed, cur_plan, in_replay_mode ? "replay" : "viol");
    if (in_child) { write_rec(&r); _exit(0); }
    runs++; viol++;
    if (in_replay_mode) printf("RESULT verdict=1 class=%s fp=0000000000000000 hist=0000000000000000 steps=0 switches=0 detail=%s\n", r.vclass, r.detail);
    else { printf("VIOL seed=%llu class=%s detail=%s\n", (unsigned long long)cur_seed, r.vclass, r.detail); print_agg(); }
    fflush(stdout);
    _exit(1);
}

static void on_abort(int kind, const char *detail)
{
    /* world is stopped; we are on some sim thread.  Report and leave the process. */
    runrec_t r;
    memset(&r, 0, sizeof(r));
    r.seed = cur_seed;
    int isviol = kind == SIM_END_DEADLOCK || kind == SIM_END_NOPROGRESS;
    r.verdict = isviol ? 3 : 4;
    snprintf(r.vclass, sizeof(r.vclass), "%s", kind == SIM_END_DEADLOCK ? "deadlock" : kind == SIM_END_NOPROGRESS ? "no-progress" : "budget");
    {
        char extra[512] = "";
        if (H->describe_abort) H->describe_abort(extra, sizeof(extra));
        snprintf(r.detail, sizeof(r.detail), "%s%s%s", kind == SIM_END_NOPROGRESS ? "no completion within the step budget with faults stopped and round-robin scheduling" : detail, extra[0] ? "; " : "", extra);
        if (H->annotate && cur_plan && !in_child) { char a[256] = ""; H->annotate(cur_plan, a, sizeof(a)); if (a[0]) { size_t l = strlen(r.detail); snprintf(r.detail + l, sizeof(r.detail) - l, " %s", a); } }
        for (char *c = r.detail; *c; c++) if (*c == '\n') *c = ' ';
        detail = r.detail;
    }
    dump_case(cur_seed, cur_plan, isviol ? "viol" : "budget");
    if (getenv("VERIF_DEBUG")) { fprintf(stderr, "[hx] abort kind=%d %s\n", kind, detail); sim_dump_threads(stderr); }
    if (in_child) { write_rec(&r); _exit(0); }
    agg_note_abort(kind);
    printf("ABORT seed=%llu kind=%s detail=%s\n", (unsigned long long)cur_seed, r.vclass, detail);
    if (isviol) { fflush(stdout); sim_dump_threads(stdout); }
    print_agg();
    fflush(stdout);
    _exit(isviol ? 3 : 4);
}

static void run_sim(uint64_t seed, hx_plan_t *p, const char *trace, runrec_t *rec)
{
    sim_params_t sp;
    memset(&sp, 0, sizeof(sp));
    sp.seed = seed;
    sp.strategy = (int)hx_knob(p, "sim_strategy", -1);
    sp.mean_gap = (double)hx_knob(p, "sim_mean_gap", 0);
    sp.pct_depth = (int)hx_knob(p, "sim_pct_depth", -1);
    sp.stalls = (int)hx_knob(p, "sim_stalls", -1);
    sp.pct_len = sp.stall_len = H->est_steps;
    sp.gap_lo = H->est_steps * 8.0 / 128; if (sp.gap_lo < 8) sp.gap_lo = 8;
    sp.gap_hi = H->est_steps * 8.0;
    if (H->gap_lo > 0) { sp.gap_lo = H->gap_lo; sp.gap_hi = H->gap_hi; }
    sp.max_steps = H->max_steps;
    sp.record = 1;
    sp.trace_text = trace;
    if (H->tune) H->tune(p, &sp);
    hx_result_t res;
    memset(&res, 0, sizeof(res));
    res.hist_hash = 0xcbf29ce484222325ULL;
    cur_plan = p;
    cur_seed = seed;
    sim_begin(&sp);
    H->run(p, &res);
    sim_end(&rec->st);
    rec->seed = seed;
    rec->hist_hash = res.hist_hash;
    rec->trace_len = sim_trace_len();
    for (int i = 0; i < 64; i++) rec->probes[i] = sim_probe_get(i);
    if (res.vclass) {
        rec->verdict = 1;
        snprintf(rec->vclass, sizeof(rec->vclass), "%s", res.vclass);
        snprintf(rec->detail, sizeof(rec->detail), "%s", res.detail);
    } else if (res.discard) {
        rec->verdict = 2;
        snprintf(rec->vclass, sizeof(rec->vclass), "%s", res.discard_why ? res.discard_why : "discard");
    } else rec->verdict = 0;
}

static void run_one_inner(uint64_t seed, hx_plan_t *p, const char *trace, runrec_t *rec, const char *dump_tag_on_viol);
static void run_one(uint64_t seed, hx_plan_t *p, const char *trace, runrec_t *rec, const char *dump_tag_on_viol)
{
    run_one_inner(seed, p, trace, rec, dump_tag_on_viol);
    if ((rec->verdict == 1 || rec->verdict == 3) && H->annotate) {
        char a[256] = "";
        H->annotate(p, a, sizeof(a));
        if (a[0]) {
            size_t l = strlen(rec->detail);
            snprintf(rec->detail + l, sizeof(rec->detail) - l, " %s", a);
        }
    }
}
static void run_one_inner(uint64_t seed, hx_plan_t *p, const char *trace, runrec_t *rec, const char *dump_tag_on_viol)
{
    memset(rec, 0, sizeof(*rec));
    if (!H->fork_per_run) {
        run_sim(seed, p, trace, rec);
        if (rec->verdict == 1 && dump_tag_on_viol) dump_case(seed, p, dump_tag_on_viol);
        return;
    }
    int fd[2];
    if (pipe(fd)) { perror("pipe"); exit(2); }
    fflush(stdout);
    fflush(stderr);
    pid_t pid = fork();
    if (pid == 0) {
        close(fd[0]);
        in_child = 1;
        child_fd = fd[1];
        run_sim(seed, p, trace, rec);
        if (rec->verdict == 1 && dump_tag_on_viol) dump_case(seed, p, dump_tag_on_viol);
        write_rec(rec);
        fflush(stdout);
        _exit(0);
    }
    close(fd[1]);
    size_t got = 0;
    char *b = (char *)rec;
    while (got < sizeof(*rec)) {
        ssize_t k = read(fd[0], b + got, sizeof(*rec) - got);
        if (k <= 0) break;
        got += k;
    }
    close(fd[0]);
    int status = 0;
    waitpid(pid, &status, 0);
    if (got < sizeof(*rec)) {
        /* child died without a record: crash inside simulated code */
        memset(rec, 0, sizeof(*rec));
        rec->seed = seed;
        if (WIFEXITED(status) && WEXITSTATUS(status) == 2) {
            rec->verdict = 5; /* infra */
            snprintf(rec->vclass, sizeof(rec->vclass), "infra");
        } else {
            rec->verdict = 1;
            snprintf(rec->vclass, sizeof(rec->vclass), "crash");
            if (WIFSIGNALED(status)) snprintf(rec->detail, sizeof(rec->detail), "child killed by signal %d", WTERMSIG(status));
            else snprintf(rec->detail, sizeof(rec->detail), "child exit status %d", WEXITSTATUS(status));
            /* no trace available: dump the plan only */
            if (dump_tag_on_viol) {
                char path[512];
                snprintf(path, sizeof(path), "%s/%s_%llu.plan", outdir, dump_tag_on_viol, (unsigned long long)seed);
                FILE *f = fopen(path, "w");
                if (f) { plan_write(f, p); fclose(f); }
            }
        }
    }
}

/* ------------------------------------------------------------------ fingerprint set */
typedef struct { uint64_t *tab; size_t cap, n; } fpset_t;
static int fpset_add(fpset_t *s, uint64_t v)
{
    if (!v) v = 1;
    if (s->n * 2 >= s->cap) {
        size_t nc = s->cap ? s->cap * 2 : 4096;
        uint64_t *nt = calloc(nc, sizeof(uint64_t));
        for (size_t i = 0; i < s->cap; i++) if (s->tab[i]) {
            size_t k = (s->tab[i] * 0x9E3779B97F4A7C15ULL) & (nc - 1);
            while (nt[k]) k = (k + 1) & (nc - 1);
            nt[k] = s->tab[i];
        }
        free(s->tab);
        s->tab = nt;
        s->cap = nc;
    }
    size_t k = (v * 0x9E3779B97F4A7C15ULL) & (s->cap - 1);
    while (s->tab[k]) { if (s->tab[k] == v) return 0; k = (k + 1) & (s->cap - 1); }
    s->tab[k] = v;
    s->n++;
    return 1;
}

static double wall(void)
{
    struct timespec ts;
    clock_gettime(CLOCK_MONOTONIC, &ts);
    return ts.tv_sec + ts.tv_nsec * 1e-9;
}


/* aggregate state (file scope so that an abnormal end can still report it) */
static fpset_t fps, fps_nt;
static uint64_t ok, discard, budget, nontrivial;
static uint64_t steps, switches, preempt, forced, sim_ns, cas_fail, spin_y, stalls, jumps, nsync;
static uint64_t strat[3], probes[64], maxthr, probe_runs[64];
static double t0;
static uint64_t agg_base, agg_offset;
static void print_agg(void);
/* ------------------------------------------------------------------ main */
static void usage(void)
{
    fprintf(stderr,
            "usage: harness --seeds BASE COUNT [--stride K --offset I] [--time-limit S] [--out DIR] [--fp]\n"
            "               [--knob name=val]... [--samples N] [--keep-going]\n"
            "       harness --plan FILE --seed S [--trace FILE] [--out DIR] [--knob name=val]...\n"
            "       harness --print-plan SEED\n");
    exit(2);
}

/* Runtime-level harnesses draw the mean preemption gap from a wide range because one run has 10^5..10^6 scheduling
 * points; races whose window is a couple of accesses wide are then almost never preempted inside.  15% of their plans
 * therefore ask for dense preemption (mean gap 4..63 accesses) through the plan knob sim_mean_gap.  Derived from the
 * seed alone, so that the plan generators' own random streams are untouched. */
static void dense_knob(const hx_harness_t *h, hx_plan_t *p, uint64_t seed)
{
    if (!h->fork_per_run || hx_knob(p, "sim_mean_gap", 0) != 0) return;
    uint64_t s0 = seed ^ 0xd3715e9a9ULL, x = sim_splitmix(&s0);
    if (x % 100 < 15) hx_set_knob(p, "sim_mean_gap", 4 + (long)((x >> 8) % 60));
}

int hx_main(int argc, char **argv, const hx_harness_t *h)
{
    H = h;
    sim_no_aslr(argc, argv);
    setvbuf(stdout, NULL, _IOLBF, 0);
    uint64_t base = 1, count = 0, stride = 1, offset = 0, one_seed = 0;
    double tlimit = 0;
    int want_fp = 0, samples = 2, keep_going = 0, have_seed = 0;
    const char *planf = NULL, *tracef = NULL;
    long print_plan = -1;
    int nk = 0;
    for (int i = 1; i < argc; i++) {
        if (!strcmp(argv[i], "--seeds") && i + 2 < argc) { base = strtoull(argv[i + 1], 0, 0); count = strtoull(argv[i + 2], 0, 0); i += 2; }
        else if (!strcmp(argv[i], "--stride") && i + 1 < argc) stride = strtoull(argv[++i], 0, 0);
        else if (!strcmp(argv[i], "--offset") && i + 1 < argc) offset = strtoull(argv[++i], 0, 0);
        else if (!strcmp(argv[i], "--time-limit") && i + 1 < argc) tlimit = atof(argv[++i]);
        else if (!strcmp(argv[i], "--out") && i + 1 < argc) outdir = argv[++i];
        else if (!strcmp(argv[i], "--fp")) want_fp = 1;
        else if (!strcmp(argv[i], "--keep-going")) keep_going = 1;
        else if (!strcmp(argv[i], "--samples") && i + 1 < argc) samples = atoi(argv[++i]);
        else if (!strcmp(argv[i], "--plan") && i + 1 < argc) planf = argv[++i];
        else if (!strcmp(argv[i], "--trace") && i + 1 < argc) tracef = argv[++i];
        else if (!strcmp(argv[i], "--seed") && i + 1 < argc) { one_seed = strtoull(argv[++i], 0, 0); have_seed = 1; }
        else if (!strcmp(argv[i], "--print-plan") && i + 1 < argc) print_plan = strtol(argv[++i], 0, 0);
        else if (!strcmp(argv[i], "--knob") && i + 1 < argc) {
            char *eq = strchr(argv[++i], '=');
            if (!eq || nk >= HX_MAX_KNOBS) usage();
            snprintf(kn[nk], sizeof(kn[nk]), "%.*s", (int)(eq - argv[i]), argv[i]);
            kv[nk++] = strtol(eq + 1, 0, 0);
        } else usage();
    }
    nk_global = nk;
    mkdir(outdir, 0777);
    sim_set_abort_handler(on_abort);
    if (!h->fork_per_run) install_crash_handlers();
    if (h->init) h->init();
    static hx_plan_t plan;
    static runrec_t rec;
    if (!h->fork_per_run && print_plan < 0) {
        /* warm-up run: absorbs lazy one-time initialisation (class registration, ...) so that
         * every counted run starts from the same process state whatever preceded it */
        hx_rng_t r = {0x77a5};
        memset(&plan, 0, sizeof(plan));
        h->gen(&plan, &r);
        run_sim(0, &plan, NULL, &rec);
        if (plan.text) free(plan.text);
    }

    if (print_plan >= 0) {
        uint64_t s0 = (uint64_t)print_plan ^ 0x5eed5eed5eedULL; hx_rng_t r = {sim_splitmix(&s0)};
        memset(&plan, 0, sizeof(plan));
        h->gen(&plan, &r);
        dense_knob(h, &plan, (uint64_t)print_plan);
        for (int k = 0; k < nk; k++) hx_set_knob(&plan, kn[k], kv[k]);
        plan_write(stdout, &plan);
        return 0;
    }
    if (planf) {
        in_replay_mode = 1;
        memset(&plan, 0, sizeof(plan));
        plan_read(planf, &plan);
        for (int k = 0; k < nk; k++) hx_set_knob(&plan, kn[k], kv[k]);
        char *trace = tracef ? slurp(tracef) : NULL;
        (void)have_seed;
        run_one(one_seed, &plan, trace, &rec, "replay");
        printf("RESULT verdict=%d class=%s fp=%016llx hist=%016llx steps=%llu switches=%llu detail=%s\n", rec.verdict,
               rec.vclass[0] ? rec.vclass : "-", (unsigned long long)rec.st.fingerprint, (unsigned long long)rec.hist_hash,
               (unsigned long long)rec.st.steps, (unsigned long long)rec.st.switches, rec.detail);
        return 0;
    }
    if (!count) usage();

    /* search mode */
    t0 = wall();
    agg_base = base; agg_offset = offset;
    int sampled = 0;
    for (uint64_t i = 0; i < count; i++) {
        uint64_t seed = base + offset + i * stride;
        if (tlimit > 0 && wall() - t0 > tlimit) break;
        uint64_t s0 = seed ^ 0x5eed5eed5eedULL; hx_rng_t r = {sim_splitmix(&s0)};
        if (plan.text) { free(plan.text); }
        memset(&plan, 0, sizeof(plan));
        h->gen(&plan, &r);
        dense_knob(h, &plan, seed);
        for (int k = 0; k < nk; k++) hx_set_knob(&plan, kn[k], kv[k]);
        run_one(seed, &plan, NULL, &rec, "viol");
        runs++;
        if (rec.verdict == 5) { printf("INFRA seed=%llu\n", (unsigned long long)seed); fflush(stdout); return 2; }
        steps += rec.st.steps; switches += rec.st.switches; preempt += rec.st.preemptions; forced += rec.st.forced_switches;
        sim_ns += rec.st.sim_ns; cas_fail += rec.st.cas_fail; spin_y += rec.st.spin_yields; stalls += rec.st.stalls_fired;
        jumps += rec.st.time_jumps; nsync += rec.st.nsync;
        if (rec.st.strategy >= 0 && rec.st.strategy < 3) strat[rec.st.strategy]++;
        if ((uint64_t)rec.st.nthreads > maxthr) maxthr = rec.st.nthreads;
        for (int k = 0; k < 64; k++) { probes[k] += rec.probes[k]; if (rec.probes[k]) probe_runs[k]++; }
        uint64_t fp = rec.st.fingerprint ^ (rec.hist_hash * 0x9E3779B97F4A7C15ULL);
        if (want_fp) printf("FP %llu %016llx %016llx %llu %llu %d\n", (unsigned long long)seed, (unsigned long long)rec.st.fingerprint,
                            (unsigned long long)rec.hist_hash, (unsigned long long)rec.st.steps, (unsigned long long)rec.st.switches, rec.verdict);
        if (rec.verdict == 0) {
            ok++;
            fpset_add(&fps, fp);
            if (rec.st.max_runnable >= 2 && rec.st.switches >= 2) { nontrivial++; fpset_add(&fps_nt, fp); }
            if (sampled < samples) {
                printf("SAMPLE seed=%llu steps=%llu switches=%llu threads=%d\n", (unsigned long long)seed,
                       (unsigned long long)rec.st.steps, (unsigned long long)rec.st.switches, rec.st.nthreads);
                plan_write(stdout, &plan);
                printf("ENDSAMPLE\n");
                sampled++;
            }
        } else if (rec.verdict == 2) discard++;
        else if (rec.verdict == 4) { budget++; }
        else {
            viol++;
            printf("VIOL seed=%llu class=%s detail=%s\n", (unsigned long long)seed, rec.vclass, rec.detail);
            fflush(stdout);
            if (!keep_going && !h->fork_per_run) break;     /* in-process state may be corrupt */
            if (!keep_going && viol >= 3) break;
        }
    }
    print_agg();
    return viol ? 1 : 0;
}

static void print_agg(void)
{
    double dt = wall() - t0;
    /* fingerprints to a file for cross-worker union */
    {
        char path[512];
        snprintf(path, sizeof(path), "%s/fps_%llu_%llu.bin", outdir, (unsigned long long)agg_base, (unsigned long long)agg_offset);
        FILE *f = fopen(path, "wb");
        if (f) {
            for (size_t i = 0; i < fps_nt.cap; i++) if (fps_nt.tab[i]) fwrite(&fps_nt.tab[i], 8, 1, f);
            fclose(f);
        }
    }
    printf("AGG {\"runs\":%llu,\"ok\":%llu,\"violations\":%llu,\"discarded\":%llu,\"budget_hit\":%llu,\"nontrivial\":%llu,"
           "\"distinct_fp\":%zu,\"distinct_fp_nontrivial\":%zu,\"steps\":%llu,\"switches\":%llu,\"preemptions\":%llu,\"forced_switches\":%llu,"
           "\"sim_ns\":%llu,\"cas_fail\":%llu,\"spin_yields\":%llu,\"stalls_fired\":%llu,\"time_jumps\":%llu,\"sync_events\":%llu,"
           "\"strategy_rw\":%llu,\"strategy_pct\":%llu,\"max_threads\":%llu,\"wall_s\":%.3f,\"probes\":{",
           (unsigned long long)runs, (unsigned long long)ok, (unsigned long long)viol, (unsigned long long)discard, (unsigned long long)budget,
           (unsigned long long)nontrivial, fps.n, fps_nt.n, (unsigned long long)steps, (unsigned long long)switches,
           (unsigned long long)preempt, (unsigned long long)forced, (unsigned long long)sim_ns, (unsigned long long)cas_fail,
           (unsigned long long)spin_y, (unsigned long long)stalls, (unsigned long long)jumps, (unsigned long long)nsync,
           (unsigned long long)strat[0], (unsigned long long)strat[1], (unsigned long long)maxthr, dt);
    for (int k = 0; k < H->nprobes; k++)
        printf("%s\"%s\":[%llu,%llu]", k ? "," : "", H->probe_names[k], (unsigned long long)probes[k], (unsigned long long)probe_runs[k]);
    printf("}}\n");
    fflush(stdout);
}

static void agg_note_abort(int kind)
{
    runs++;
    if (kind == SIM_END_DEADLOCK || kind == SIM_END_NOPROGRESS) viol++; else budget++;
}

/* a crash (SIGSEGV & co) inside simulated code in an in-process worker is a verdict of the
 * run that was executing, not an infrastructure failure */
#include <signal.h>
static void crash_handler(int sig)
{
    static volatile int once;
    if (once++) _exit(2);
    char path[512];
    if (cur_plan) {
        snprintf(path, sizeof(path), "%s/viol_%llu.plan", outdir, (unsigned long long)cur_seed);
        FILE *f = fopen(path, "w");
        if (f) { plan_write(f, cur_plan); fclose(f); }
    }
    runs++; viol++;
    printf("VIOL seed=%llu class=crash detail=signal %d inside simulated code\n", (unsigned long long)cur_seed, sig);
    print_agg();
    fflush(stdout);
    _exit(1);
}
static void install_crash_handlers(void)
{
    static char altstack[1 << 16];
    stack_t ss = {.ss_sp = altstack, .ss_size = sizeof(altstack), .ss_flags = 0};
    sigaltstack(&ss, NULL);
    struct sigaction sa;
    memset(&sa, 0, sizeof(sa));
    sa.sa_handler = crash_handler;
    sa.sa_flags = SA_ONSTACK | SA_NODEFER;
    int sigs[] = {SIGSEGV, SIGBUS, SIGFPE, SIGABRT, SIGILL};
    for (unsigned i = 0; i < sizeof(sigs) / sizeof(sigs[0]); i++) sigaction(sigs[i], &sa, NULL);
}
