/* hx: common harness driver (plans, CLI, search loop, result reporting).  Uninstrumented. */
#ifndef VERIF_HX_H
#define VERIF_HX_H
#include "../sim/core/sim.h"
#include <stdint.h>
#include <stdio.h>

#define HX_MAX_KNOBS 40
#define HX_MAX_OPS 4096
#define HX_MAX_TEXT (1 << 20)

typedef struct { char name[32]; long val; } hx_knob_t;
typedef struct { int thr; int op; long a, b, c; } hx_op_t;

typedef struct hx_plan {
    int nknobs;
    hx_knob_t knobs[HX_MAX_KNOBS];
    int nops;
    hx_op_t ops[HX_MAX_OPS];
    char *text;         /* free-form payload (e.g. an abstract PTG program); may be NULL */
} hx_plan_t;

typedef struct hx_result {
    const char *vclass;     /* NULL: property held on this run */
    char detail[1024];
    uint64_t hist_hash;     /* harness history hash (mixed into the fingerprint) */
    int discard;            /* 1: run discarded (budget / checker timeout), never a verdict */
    const char *discard_why;
} hx_result_t;

typedef struct hx_rng { uint64_t s; } hx_rng_t;
static inline uint64_t hx_rand(hx_rng_t *r) { return sim_splitmix(&r->s); }
static inline long hx_below(hx_rng_t *r, long n) { return n > 0 ? (long)(hx_rand(r) % (uint64_t)n) : 0; }
static inline long hx_range(hx_rng_t *r, long lo, long hi) { return lo + hx_below(r, hi - lo + 1); }
static inline int hx_chance(hx_rng_t *r, int pct) { return hx_below(r, 100) < pct; }

typedef struct hx_harness {
    const char *property;
    const char *name;
    const char *const *opnames;
    int nopnames;
    uint64_t est_steps;     /* rough run length in scheduling points (PCT / stall placement) */
    uint64_t max_steps;     /* step budget per run */
    double gap_lo, gap_hi;  /* range of the mean preemption gap in weight units (0: derived from est_steps) */
    int fork_per_run;       /* 1: each run in a forked child (runtime-level harnesses) */
    void (*gen)(hx_plan_t *p, hx_rng_t *r);
    /* run one plan under simulation; sim_begin has been called, the harness calls nothing of
     * the life cycle itself.  Fill res.  Called on sim-thread 0. */
    void (*run)(const hx_plan_t *p, hx_result_t *res);
    /* optional: names of reach probes (index = sim_probe id) */
    const char *const *probe_names;
    int nprobes;
    /* optional: called once before first run (after ASLR re-exec) */
    void (*init)(void);
    /* optional: extra sim parameter tuning from plan (e.g. quantum) */
    void (*tune)(const hx_plan_t *p, sim_params_t *sp);
    /* optional: called with the world stopped at an abnormal end (deadlock / no-progress) to
     * characterise the hang from the harness's own bookkeeping; writes into buf */
    void (*describe_abort)(char *buf, size_t n);
    /* optional: plan-derived annotation appended to the detail of every violation of a run
     * (lets known-findings be keyed by an input shape); computed in the parent process */
    void (*annotate)(const hx_plan_t *p, char *buf, size_t n);
} hx_harness_t;

int hx_main(int argc, char **argv, const hx_harness_t *h);
uint64_t hx_current_seed(void);   /* seed of the run being executed */
char *hx_scratch_dir(char *tmpl);  /* mkdtemp() whose directory is removed when the creating process exits */
long hx_cli_knob(const char *name, long dflt);   /* value of a --knob given on the command line (visible to gen) */
int hx_in_replay(void);           /* 1 when running an explicit plan (replay / minimisation) */

/* plan helpers */
long hx_knob(const hx_plan_t *p, const char *name, long dflt);
void hx_set_knob(hx_plan_t *p, const char *name, long val);
void hx_add_op(hx_plan_t *p, int thr, int op, long a, long b, long c);
int  hx_max_thread(const hx_plan_t *p);

/* result helpers */
void hx_fail(hx_result_t *r, const char *vclass, const char *fmt, ...) __attribute__((format(printf, 3, 4)));
/* end the current run at once with a violation (world stopped; never returns): for errors detected deep
 * inside simulated library code, e.g. by the simulated MPI */
void hx_abort_run(const char *vclass, const char *detail) __attribute__((noreturn));
static inline void hx_hash(hx_result_t *r, uint64_t v) { r->hist_hash = (r->hist_hash ^ v) * 0x100000001b3ULL; }

/* simple thread-group helper: run fn(i) on n sim threads (ids 1..n) and join them */
typedef void (*hx_thread_fn)(int idx, void *arg);
void hx_run_threads(int n, hx_thread_fn fn, void *arg);

#endif
