/* Accelerator driver (C43, C26): one PaRSEC process with 1-3 simdev devices; DTD task graph with GPU and CPU
 * chores.  Instrumented; rankified together with the B-dev library (build/devbuild.py).
 * Also defines the call-through monitors of the three ownership-transfer functions of data.c (the private
 * data.c of the B-dev variant defines them under verif_real_*). */
#include "parsec/runtime.h"
#include "parsec/interfaces/dtd/insert_function.h"
#include "parsec/data_dist/matrix/two_dim_rectangle_cyclic.h"
#include "parsec/data_dist/matrix/matrix.h"
#include "parsec/arena.h"
#include "parsec/data_internal.h"
#include "parsec/mca/device/device.h"
#include "parsec/mca/device/device_gpu.h"
#include "parsec/utils/zone_malloc.h"
#include <mpi.h>
#include <stdlib.h>
#include <string.h>
#include <stdio.h>
#include "sim/core/sim.h"
#include "sim/dev/simdev_parsec.h"
#include "harness/l3/dev_common.h"

static dev_shared_t *SH;
static int TILE_FULL;
static parsec_taskpool_t *TP;
static parsec_data_collection_t *DC;
static dev_closure_t CLOS[DEV_MAX_TASKS];

/* ------------------------------------------------------------------ C26 monitors */
int verif_real_parsec_data_start_transfer_ownership_to_copy(parsec_data_t *data, uint8_t device, uint8_t access_mode);
void verif_real_parsec_data_end_transfer_ownership_to_copy(parsec_data_t *data, uint8_t device, uint8_t access_mode);
int verif_real_parsec_data_transfer_ownership_to_copy(parsec_data_t *data, uint8_t device, uint8_t access_mode);

static void snap(dev_data_snap_t *s, parsec_data_t *d)
{
    memset(s, 0, sizeof(*s));
    s->key = (long)d->key;
    s->has_dc = NULL != d->dc;
    s->owner = d->owner_device;
    s->preferred = d->preferred_device;
    s->nb_copies = d->nb_copies;
    s->lock_held = 0 != d->lock;
    s->ndev = (int)parsec_nb_devices < DEV_MAX_DEVS ? (int)parsec_nb_devices : DEV_MAX_DEVS;
    for (int i = 0; i < s->ndev; i++) {
        parsec_data_copy_t *c = d->device_copies[i];
        if (NULL == c) continue;
        s->c[i].present = 1;
        s->c[i].coherency = c->coherency_state;
        s->c[i].status = c->data_transfer_status;
        s->c[i].readers = c->readers;
        s->c[i].version = c->version;
        s->c[i].flags = c->flags;
        s->c[i].ptr = c->device_private;
    }
}

/* The real functions run with preemption masked: they are specified as a sequential state machine executed
 * under data->lock, and the monitor needs the states immediately before and after the call.  (They take no
 * lock and never wait, so masking cannot hang.) */
int parsec_data_start_transfer_ownership_to_copy(parsec_data_t *data, uint8_t device, uint8_t access_mode)
{
    dev_data_snap_t pre, post;
    sim_pause();
    snap(&pre, data);
    int rc = verif_real_parsec_data_start_transfer_ownership_to_copy(data, device, access_mode);
    snap(&post, data);
    devh_xfer(XF_START, device, access_mode, rc, &pre, &post);
    sim_resume();
    return rc;
}

void parsec_data_end_transfer_ownership_to_copy(parsec_data_t *data, uint8_t device, uint8_t access_mode)
{
    dev_data_snap_t pre, post;
    sim_pause();
    snap(&pre, data);
    verif_real_parsec_data_end_transfer_ownership_to_copy(data, device, access_mode);
    snap(&post, data);
    devh_xfer(XF_END, device, access_mode, 0, &pre, &post);
    sim_resume();
}

/* lock; start; end; unlock in the real code (which calls the verif_real_* versions directly).  To observe it
 * as ONE transition the real function is run, preemption masked, at an instant where data->lock is free. */
int parsec_data_transfer_ownership_to_copy(parsec_data_t *data, uint8_t device, uint8_t access_mode)
{
    dev_data_snap_t pre, post;
    for (;;) {
        sim_pause();
        if (0 == data->lock) break;
        sim_resume();
        sim_yield();
    }
    snap(&pre, data);
    int rc = verif_real_parsec_data_transfer_ownership_to_copy(data, device, access_mode);
    snap(&post, data);
    devh_xfer(XF_BOTH, device, access_mode, rc, &pre, &post);
    sim_resume();
    return rc;
}

/* state of every tile and device at an abnormal end (called by the harness with the world stopped) */
static void dump_state(char *buf, unsigned long n)
{
    unsigned long l = 0;
    int full = -1, leaked = 0, waiting = 0, exhausted = -1;
    buf[0] = 0;
    for (int k = 0; k < SH->ntiles && l + 160 < n; k++) {
        parsec_data_t *d = DC ? DC->data_of(DC, k, 0) : NULL;
        if (NULL == d) continue;
        l += (unsigned long)snprintf(buf + l, n - l, " t%d{own=%d", k, d->owner_device);
        for (int i = 0; i < (int)parsec_nb_devices && l + 80 < n; i++) {
            parsec_data_copy_t *c = d->device_copies[i];
            if (c && i > 0 && 0 == c->readers && PARSEC_DATA_COHERENCY_INVALID != c->coherency_state && PARSEC_DATA_COHERENCY_OWNED != c->coherency_state &&
                ((parsec_list_item_t *)c)->list_next == (parsec_list_item_t *)c) leaked++;
            if (c) l += (unsigned long)snprintf(buf + l, n - l, " %d:c%d v%u r%d%s%s", i, (int)c->coherency_state, c->version, c->readers, c->data_transfer_status == PARSEC_DATA_STATUS_UNDER_TRANSFER ? "U" : "",
                                                i > 0 && ((parsec_list_item_t *)c)->list_next != (parsec_list_item_t *)c ? "L" : "");
        }
        l += (unsigned long)snprintf(buf + l, n - l, "}");
    }
    for (int i = 0; i < simdev_parsec_nb_modules() && l + 120 < n; i++) {
        parsec_device_gpu_module_t *g = simdev_parsec_module(i);
        int nl = 0, no = 0, np = 0;
        for (parsec_list_item_t *it = (parsec_list_item_t *)g->gpu_mem_lru.ghost_element.list_next; it != &g->gpu_mem_lru.ghost_element && nl < 100; it = (parsec_list_item_t *)it->list_next) nl++;
        for (parsec_list_item_t *it = (parsec_list_item_t *)g->gpu_mem_owned_lru.ghost_element.list_next; it != &g->gpu_mem_owned_lru.ghost_element && no < 100; it = (parsec_list_item_t *)it->list_next) no++;
        for (int s = 0; s < g->num_exec_streams; s++) {
            for (int e = 0; e < g->exec_stream[s]->max_events; e++) if (g->exec_stream[s]->tasks[e]) {
                parsec_gpu_task_t *gt = g->exec_stream[s]->tasks[e];
                int id = -1;
                if (PARSEC_GPU_TASK_TYPE_KERNEL == gt->task_type && gt->ec) parsec_dtd_unpack_args(gt->ec, &id);
                if (l + 40 < n) l += (unsigned long)snprintf(buf + l, n - l, " s%d[task %d type %x st %d]", s, id, gt->task_type, gt->last_status);
                np++;
            }
            int nf = 0;
            for (parsec_list_item_t *it = (parsec_list_item_t *)g->exec_stream[s]->fifo_pending->ghost_element.list_next; it != &g->exec_stream[s]->fifo_pending->ghost_element && nf < 50; it = (parsec_list_item_t *)it->list_next) {
                parsec_gpu_task_t *gt = (parsec_gpu_task_t *)it;
                int id = -1;
                if (PARSEC_GPU_TASK_TYPE_KERNEL == gt->task_type && gt->ec) parsec_dtd_unpack_args(gt->ec, &id);
                if (l + 40 < n) l += (unsigned long)snprintf(buf + l, n - l, " s%d-fifo[task %d st %d]", s, id, gt->last_status);
                nf++;
            }
        }
        l += (unsigned long)snprintf(buf + l, n - l, " dev%d{mutex=%d lru=%d owned_lru=%d parked=%d epoch=%lu inuse=%lu}", g->super.device_index, g->mutex, nl, no, np,
                                     (unsigned long)g->data_avail_epoch, g->memory ? (unsigned long)zone_in_use(g->memory) : 0UL);
        if (0 == nl && no > 0 && g->mutex > 0) full = g->super.device_index;
        if (g->mutex > 0) waiting = 1;
        /* exhausted = not even one more tile fits (with half-tile blocks a lone free block does not help) */
        if (g->mutex > 0 && g->memory && zone_in_use(g->memory) + (size_t)SH->nelems * sizeof(int64_t) > (size_t)g->mem_nb_blocks * g->mem_block_size) exhausted = g->super.device_index;
    }
    if (full < 0 && leaked > 0 && waiting && l + 200 < n)
        l += (unsigned long)snprintf(buf + l, n - l, " [lru-leak: %d clean device copies without reader are in no LRU (dropped by reserve_space, never pushed back) while a task waits for device memory]", leaked);
    if (!waiting && l + 20 < n) l += (unsigned long)snprintf(buf + l, n - l, " [devices-idle]");
    if (full < 0 && !(leaked > 0 && waiting) && exhausted >= 0 && l + 200 < n)
        l += (unsigned long)snprintf(buf + l, n - l, " [device-memory-exhausted: no further tile fits into the memory of device %d, a task waits in the device pipeline and nothing can be evicted]", exhausted);
    if (full >= 0 && l + 200 < n)
        snprintf(buf + l, n - l, " [device-memory-full-of-dirty-copies: device %d has no clean copy to evict, only OWNED ones, a task is waiting for memory in the device pipeline and no write-back is ever issued]", full);
}

/* ------------------------------------------------------------------ chores */
static int cpu_body(parsec_execution_stream_t *es, parsec_task_t *t)
{
    (void)es;
    int id = -1;
    int64_t *p[DEV_MAX_PARAMS] = {0, 0, 0};
    parsec_dtd_unpack_args(t, &id, &p[0], &p[1], &p[2]);
    (void)devh_body(id, SH->tasks[id].nparams, p);
    return PARSEC_HOOK_RETURN_DONE;
}

static int gpu_kernel(parsec_device_gpu_module_t *gpu_device, parsec_gpu_task_t *gpu_task, parsec_gpu_exec_stream_t *gpu_stream)
{
    parsec_task_t *t = gpu_task->ec;
    int id = -1;
    int64_t *host[DEV_MAX_PARAMS] = {0, 0, 0};
    parsec_dtd_unpack_args(t, &id, &host[0], &host[1], &host[2]);
    dev_closure_t *c = &CLOS[id];
    c->task_id = id;
    c->nparams = SH->tasks[id].nparams;
    c->pdev = gpu_device->super.device_index;
    for (int i = 0; i < c->nparams; i++) c->ptr[i] = (int64_t *)parsec_dtd_get_dev_ptr(t, i);
    devh_kernel_submit(id, c->pdev, c->nparams, c->ptr);
    if (0 != simdev_parsec_launch(gpu_device, gpu_stream, devh_kernel_run, c)) return PARSEC_HOOK_RETURN_ERROR;
    return PARSEC_HOOK_RETURN_DONE;
}

/* one task class per signature; at most 24 fit in a DTD taskpool: 1 and 2 parameters with every mode
 * combination (12), 3 parameters with 6 fixed combinations */
static const int SIG3[6][3] = {{M_IN, M_IN, M_INOUT}, {M_IN, M_IN, M_OUT}, {M_IN, M_INOUT, M_INOUT}, {M_INOUT, M_IN, M_IN}, {M_IN, M_OUT, M_IN}, {M_IN, M_IN, M_IN}};
static parsec_task_class_t *CLASSES[18];

static int sig_of(const dev_task_desc_t *d)
{
    if (1 == d->nparams) return d->mode[0];
    if (2 == d->nparams) return 3 + d->mode[0] * 3 + d->mode[1];
    for (int s = 0; s < 6; s++) if (SIG3[s][0] == d->mode[0] && SIG3[s][1] == d->mode[1] && SIG3[s][2] == d->mode[2]) return 12 + s;
    return -1;
}
static int optype(int m) { return (M_IN == m ? PARSEC_INPUT : M_OUT == m ? PARSEC_OUTPUT : PARSEC_INOUT) | TILE_FULL; }

static parsec_task_class_t *class_of(const dev_task_desc_t *d)
{
    int s = sig_of(d);
    if (s < 0) return NULL;
    if (NULL != CLASSES[s]) return CLASSES[s];
    char name[16];
    snprintf(name, sizeof(name), "sig%d", s);
    parsec_task_class_t *tc;
    switch (d->nparams) {
    case 1: tc = parsec_dtd_create_task_class(TP, name, sizeof(int), PARSEC_VALUE, PASSED_BY_REF, optype(d->mode[0]), PARSEC_DTD_ARG_END); break;
    case 2: tc = parsec_dtd_create_task_class(TP, name, sizeof(int), PARSEC_VALUE, PASSED_BY_REF, optype(d->mode[0]), PASSED_BY_REF, optype(d->mode[1]), PARSEC_DTD_ARG_END); break;
    default: tc = parsec_dtd_create_task_class(TP, name, sizeof(int), PARSEC_VALUE, PASSED_BY_REF, optype(d->mode[0]), PASSED_BY_REF, optype(d->mode[1]),
                                               PASSED_BY_REF, optype(d->mode[2]), PARSEC_DTD_ARG_END); break;
    }
    /* "first added is tested first" (tests/dsl/dtd/dtd_test_cuda_task_insert.c) */
    if (PARSEC_SUCCESS != parsec_dtd_task_class_add_chore(TP, tc, PARSEC_DEV_CUDA, gpu_kernel)) devh_event(98, s, 0);
    if (PARSEC_SUCCESS != parsec_dtd_task_class_add_chore(TP, tc, PARSEC_DEV_CPU, cpu_body)) devh_event(98, s, 1);
    CLASSES[s] = tc;
    return tc;
}

#define TILE(i) PARSEC_DTD_TILE_OF_KEY(DC, DC->data_key(DC, d->tile[i], 0))
#define FLAG(i) (d->pushout[i] ? PARSEC_PUSHOUT : PARSEC_DTD_EMPTY_FLAG)
static void insert_desc(const dev_task_desc_t *d)
{
    if (2 == d->is_flush) { parsec_dtd_data_flush_all(TP, DC); return; }
    if (1 == d->is_flush) { parsec_dtd_data_flush(TP, TILE(0)); return; }
    if (d->is_flush || d->nparams < 1) return;
    parsec_task_class_t *tc = class_of(d);
    if (NULL == tc) return;
    int id = d->id;
    int dt = SEL_CPU == d->sel ? PARSEC_DEV_CPU : SEL_GPU == d->sel ? PARSEC_DEV_CUDA : PARSEC_DEV_ALL;
    if (d->advise_dev > 0 && d->advise_dev <= simdev_parsec_nb_modules())
        parsec_advise_data_on_device(DC->data_of(DC, d->tile[0], 0), simdev_parsec_module(d->advise_dev - 1)->super.device_index, PARSEC_DEV_DATA_ADVICE_PREFERRED_DEVICE);
    devh_event(1, id, 0);
    switch (d->nparams) {
    case 1: parsec_dtd_insert_task_with_task_class(TP, tc, d->priority, dt, PARSEC_DTD_EMPTY_FLAG, &id, FLAG(0), TILE(0), PARSEC_DTD_ARG_END); break;
    case 2: parsec_dtd_insert_task_with_task_class(TP, tc, d->priority, dt, PARSEC_DTD_EMPTY_FLAG, &id, FLAG(0), TILE(0), FLAG(1), TILE(1), PARSEC_DTD_ARG_END); break;
    default: parsec_dtd_insert_task_with_task_class(TP, tc, d->priority, dt, PARSEC_DTD_EMPTY_FLAG, &id, FLAG(0), TILE(0), FLAG(1), TILE(1), FLAG(2), TILE(2), PARSEC_DTD_ARG_END); break;
    }
    devh_event(2, id, 0);
}

void *rank_main(void *arg)
{
    dev_rank_arg_t *ra = arg;
    SH = ra->sh;
    sim_set_rank(0);
    int prov, world, rank;
    MPI_Init_thread(NULL, NULL, MPI_THREAD_SERIALIZED, &prov);
    MPI_Comm_size(MPI_COMM_WORLD, &world);
    MPI_Comm_rank(MPI_COMM_WORLD, &rank);
    parsec_context_t *ctx = parsec_init(SH->nthreads, NULL, NULL);
    if (!ctx) { devh_event(99, 0, 0); return NULL; }
    devh_register_dump(dump_state);
    SH->nb_parsec_devices = (int)parsec_nb_devices;
    for (int i = 0; i < (int)parsec_nb_devices && i < DEV_MAX_DEVS; i++) SH->dev_type[i] = parsec_mca_device_get(i)->type;
    devh_event(10, (long)parsec_nb_devices, simdev_parsec_nb_modules());
    int ne = SH->nelems, nt = SH->ntiles;
    parsec_matrix_block_cyclic_t *m = calloc(1, sizeof(*m));
    parsec_matrix_block_cyclic_init(m, PARSEC_MATRIX_DOUBLE, PARSEC_MATRIX_TILE, rank, ne, 1, nt * ne, 1, 0, 0, nt * ne, 1, world, 1, 1, 1, 0, 0);
    m->mat = parsec_data_allocate((size_t)m->super.nb_local_tiles * (size_t)m->super.bsiz * sizeof(double));
    DC = &m->super.super;
    parsec_data_collection_set_key(DC, "A");
    for (int k = 0; k < nt; k++) {
        parsec_data_t *dt = DC->data_of(DC, k, 0);
        int64_t *ptr = PARSEC_DATA_COPY_GET_PTR(parsec_data_get_copy(dt, 0));
        for (int j = 0; j < ne; j++) ptr[j] = 1000 * (int64_t)(k + 1) + j;
    }
    parsec_dtd_data_collection_init(DC);
    TP = parsec_dtd_taskpool_new();
    parsec_arena_datatype_t *adt = parsec_matrix_adt_new_rect(parsec_datatype_double_t, ne, 1, ne);
    parsec_dtd_attach_arena_datatype(ctx, adt, &TILE_FULL);
    parsec_context_add_taskpool(ctx, TP);
    parsec_context_start(ctx);
    memset(CLASSES, 0, sizeof(CLASSES));
    for (int i = 0; i < SH->ntasks; i++) if (!SH->tasks[i].is_flush) insert_desc(&SH->tasks[i]);
    if (!SH->flush_after_wait) for (int i = 0; i < SH->ntasks; i++) if (SH->tasks[i].is_flush) insert_desc(&SH->tasks[i]);
    devh_event(6, 0, 0);            /* every task inserted: the harness opens the gate */
    if (SH->flush_after_wait) {
        /* flush tasks are writers: inserted up front each of them would return AGAIN from prepare_input (and be re-queued
         * through the scheduler) for as long as a reader of its tile is outstanding, i.e. for the whole run: with a handful of
         * threads that retry traffic slows the one thread that can make progress by orders of magnitude (KF-DTD-AGAIN-LIVELOCK
         * family; not an accelerator matter).  On one rank a wait before the flush is legal (docs/doxygen/dtd.md). */
        parsec_taskpool_wait(TP);
        devh_event(3, 0, 0);
        for (int i = 0; i < SH->ntasks; i++) if (SH->tasks[i].is_flush) insert_desc(&SH->tasks[i]);
    }
    parsec_taskpool_wait(TP);
    devh_event(4, 0, 0);
    for (int s = 0; s < 18; s++) if (NULL != CLASSES[s]) parsec_dtd_task_class_release(TP, CLASSES[s]);
    parsec_context_wait(ctx);
    devh_event(5, 0, 0);
    for (int i = 0; i < (int)parsec_nb_devices && i < DEV_MAX_DEVS; i++) {
        SH->dev_executed[i] = parsec_mca_device_get(i)->executed_tasks;
        SH->dev_evictions[i] = parsec_mca_device_get(i)->nb_evictions;
    }
    for (int k = 0; k < nt; k++) {
        parsec_data_t *dt = DC->data_of(DC, k, 0);
        int64_t *ptr = PARSEC_DATA_COPY_GET_PTR(parsec_data_get_copy(dt, 0));
        for (int j = 0; j < ne; j++) SH->final_[k][j] = ptr[j];
        SH->final_valid[k] = 1;
    }
    parsec_taskpool_free(TP);
    parsec_dtd_data_collection_fini(DC);
    parsec_dtd_free_arena_datatype(ctx, TILE_FULL);
    parsec_data_free(m->mat);
    parsec_tiled_matrix_destroy(&m->super);
    free(m);
    devh_event(7, 0, 0);
    parsec_fini(&ctx);
    MPI_Finalize();
    SH->rank_done = 1;
    return NULL;
}
