/* shared between the (rankified, instrumented) accelerator driver and the (plain) harness (C43, C26) */
#ifndef DEV_COMMON_H
#define DEV_COMMON_H
#include <stdint.h>
#define DEV_MAX_TILES 8
#define DEV_MAX_PARAMS 3
#define DEV_MAX_TASKS 96
#define DEV_MAX_ELEMS 4
#define DEV_MAX_DEVS 5          /* PaRSEC device indices: 0 = cpu-cores, 1.. = simdev devices */

enum { M_IN = 0, M_OUT = 1, M_INOUT = 2 };
enum { SEL_CPU = 0, SEL_GPU = 1, SEL_ALL = 2 };

typedef struct dev_task_desc {
    int id;
    int nparams;
    int tile[DEV_MAX_PARAMS];
    int mode[DEV_MAX_PARAMS];
    int pushout[DEV_MAX_PARAMS];  /* PARSEC_PUSHOUT on this flow (decided by the legality pass) */
    int sel;                      /* device_type given at insertion: CPU only, GPU only, or any chore */
    int delay;                    /* simulated ns of CPU-body stretch */
    int priority;
    int is_flush;                 /* 1: flush of tile[0]; 2: flush_all */
    int advise_dev;               /* >0: before inserting, advise tile[0] PREFERRED_DEVICE = simdev #(advise_dev-1) */
    int prefetch_dev;             /* >0: before inserting, advise tile[0] PREFETCH on simdev #(prefetch_dev-1) */
} dev_task_desc_t;

typedef struct dev_shared {
    int nthreads, ntiles, nelems;
    int ntasks;
    dev_task_desc_t tasks[DEV_MAX_TASKS];
    int ndev;
    int flush_after_wait;         /* 1: taskpool_wait, then flush_all, then wait again (steered modes); 0: flush_all inserted with the tasks */
    /* results */
    int64_t final_[DEV_MAX_TILES][DEV_MAX_ELEMS];
    int final_valid[DEV_MAX_TILES];
    int rank_done;
    int nb_parsec_devices;        /* parsec_nb_devices seen by the driver */
    int dev_type[DEV_MAX_DEVS];
    uint64_t dev_executed[DEV_MAX_DEVS], dev_evictions[DEV_MAX_DEVS];
} dev_shared_t;

typedef struct dev_rank_arg { dev_shared_t *sh; int rank; } dev_rank_arg_t;

/* snapshot of one parsec_data_t for the coherence monitors (C26) */
typedef struct dev_copy_snap {
    int present;
    int coherency;      /* parsec_data_coherency_t: 0 INVALID, 1 OWNED, 2 EXCLUSIVE, 4 SHARED */
    int status;         /* data_transfer_status: 0 NOT, 1 UNDER, 2 COMPLETE */
    int readers;
    unsigned version;
    int flags;
    void *ptr;
} dev_copy_snap_t;
typedef struct dev_data_snap {
    long key;
    int has_dc;
    int owner, preferred, nb_copies, ndev;
    int lock_held;
    dev_copy_snap_t c[DEV_MAX_DEVS];
} dev_data_snap_t;

enum { XF_START = 0, XF_END = 1, XF_BOTH = 2 };

/* harness callbacks (shared, uninstrumented, world stopped) */
int  devh_body(int task_id, int nparams, int64_t **ptrs);                       /* CPU chore */
void devh_kernel_submit(int task_id, int pdev, int nparams, int64_t **dev_ptrs);/* GPU chore called by the device manager */
void devh_kernel_run(void *closure, int simdev, int stream);                     /* at the kernel's completion time */
void devh_event(int kind, long a, long b);
void devh_register_dump(void (*fn)(char *buf, unsigned long n));   /* driver-side state dump for hang reports */
void devh_xfer(int which, int device, int mode, int rc, const dev_data_snap_t *pre, const dev_data_snap_t *post);

typedef struct dev_closure {
    int task_id, nparams, pdev;
    int64_t *ptr[DEV_MAX_PARAMS];
} dev_closure_t;
#endif
