/* Accelerator harness (C43, C26): the whole runtime + the real generic GPU device layer (device_gpu.c,
 * transfer_gpu.c) over 1-3 simulated accelerators (sim/dev), one rank.
 * Real: everything in libparsec incl. the DTD GPU submit path, device.c, data.c, zone_malloc.c.
 * Simulated: thread scheduling, clock, MPI (1 rank), the accelerator back-end (memory, streams, events, kernels).
 * knob `prop` selects which oracle classes are reported: 43 (values + poison + coherence monitors) or 26
 * (coherence monitors only). */
#define _GNU_SOURCE
#include "../hx.h"
#include "../../sim/mpi/simmpi.h"
#include "../../sim/dev/simdev.h"
#include "dev_common.h"
#include <pthread.h>
#include <stdlib.h>
#include <string.h>
#include <stdio.h>
#include <unistd.h>

extern int hx_rank_count;
extern void *(*hx_rank_mains[])(void *);

enum { OP_TASK, OP_N };
static const char *const opnames[] = {"task"};

/* reach probes */
enum { PR_GPU_TASK, PR_CPU_TASK, PR_EVICTION, PR_D2D, PR_D2H, PR_H2D, PR_W2R, PR_MULTI_DEV_USED, PR_NOPUSHOUT_CHAIN, PR_QUERY_LAG, PR_ALL_ON_CPU, PR_ALL_ON_GPU,
       PR_XF_START_XFER, PR_XF_START_NOXFER, PR_XF_END, PR_XF_BOTH, PR_XF_TARGET_OWNED, PR_XF_TARGET_SHARED, PR_XF_TARGET_INVALID, PR_XF_SRC_GPU, PR_XF_SRC_CPU,
       PR_XF_WRITE, PR_XF_READ, PR_XF_RW, PR_XF_UNDER, PR_XF_NOLOCK, PR_TINY_MEM, PR_N };
static const char *const probe_names[] = {"task_ran_on_gpu", "task_ran_on_cpu", "device_evicted_a_copy", "d2d_copy", "d2h_copy", "h2d_copy", "w2r_writeback_d2h_without_pushout",
    "two_devices_ran_tasks", "gpu_writer_without_pushout", "event_query_lagged", "any_chore_task_ran_on_cpu", "any_chore_task_ran_on_gpu",
    "xfer_start_requested_transfer", "xfer_start_no_transfer", "xfer_end", "xfer_start_end_combined", "xfer_target_owned", "xfer_target_shared", "xfer_target_invalid",
    "xfer_source_is_gpu", "xfer_source_is_cpu", "xfer_write_only", "xfer_read_only", "xfer_read_write", "xfer_target_under_transfer", "xfer_called_without_data_lock",
    "device_memory_le_3_tiles"};

/* ip, llp, ll: KF-DTD-AGAIN-LIVELOCK.  rnd: the same retry livelock (flush tasks / writers returning AGAIN are re-queued
 * while the tasks that would release the readers wait) shows up in 5-7% of the rnd runs of this harness, also with
 * CPU-only plans (knob force_sel=0), i.e. it is not an accelerator matter: see sim/dev/NOTES.md */
static const char *const SCHEDS[] = {"lfq", "ap", "gd", "lhq", "ltq", "pbq", "spq", "rnd"};
#define NSCHED 6          /* spq / rnd only on request (knobs allow_spq=1 sched=6, allow_rnd=1 sched=7) */

/* spq is not used either (full space included: seed 3000839, mode 0, the device manager completing a task waits for ever for
 * the list lock that the polling thread keeps taking): writers that poll (AGAIN) for outstanding readers are re-queued at the lowest priority
 * into its single sorted list, where a re-queued task that has become data-ready sits behind the other pollers for ever once
 * there are as many pollers as threads (seed 1004362: mode 2, 3 threads, accelerator idle, task 10 data-ready and never selected;
 * same retry livelock as KF-DTD-AGAIN-LIVELOCK, recorded there for ip/llp/ll), and in the serialised modes 3/4 the polling alone
 * made the slowest runs crawl for 70-80 M scheduling points (the 6 slowest of 6376 mode-4 runs were all spq). */
static const char *sched_of(const hx_plan_t *p)
{
    return SCHEDS[hx_knob(p, "sched", 0) % (hx_knob(p, "allow_rnd", 0) ? 8 : hx_knob(p, "allow_spq", 0) ? 7 : NSCHED)];
}

static dev_shared_t SH;
static hx_result_t *RES;
static int PROP;
static int GATE_OPEN;
static int DIRTY_DOWNGRADED[DEV_MAX_TILES];   /* tile whose only newest copy (OWNED, on a device) was made SHARED by a read-only access */
static void (*DUMP)(char *, unsigned long);
void devh_register_dump(void (*fn)(char *, unsigned long)) { DUMP = fn; }
static size_t TILE_BYTES;

/* ---- reference: sequential execution in insertion order ---- */
typedef struct { int64_t in_expect[DEV_MAX_PARAMS]; int64_t out_val[DEV_MAX_PARAMS]; } ref_task_t;
static ref_task_t REF[DEV_MAX_TASKS];
static int64_t ref_final[DEV_MAX_TILES];

static int64_t mix(int64_t a, int64_t b)
{
    uint64_t s = (uint64_t)a * 0x9E3779B97F4A7C15ULL ^ (uint64_t)b;
    return (int64_t)(sim_splitmix(&s) & 0xffffffffffffULL);
}
static int reads(int m) { return m == M_IN || m == M_INOUT; }
static int writes(int m) { return m == M_OUT || m == M_INOUT; }
static int64_t initial_of(int tile) { return 1000 * (int64_t)(tile + 1); }

static void compute_reference(void)
{
    int64_t val[DEV_MAX_TILES];
    for (int k = 0; k < SH.ntiles; k++) val[k] = initial_of(k);
    for (int i = 0; i < SH.ntasks; i++) {
        dev_task_desc_t *d = &SH.tasks[i];
        if (d->is_flush) continue;
        int64_t h = d->id + 1;
        for (int p = 0; p < d->nparams; p++) {
            REF[i].in_expect[p] = val[d->tile[p]];
            if (reads(d->mode[p])) h = mix(h, val[d->tile[p]] + 7 * p);
        }
        for (int p = 0; p < d->nparams; p++) if (writes(d->mode[p])) {
            REF[i].out_val[p] = mix(h, 100 + p);
            val[d->tile[p]] = REF[i].out_val[p];
        }
    }
    for (int k = 0; k < SH.ntiles; k++) ref_final[k] = val[k];
}

/* ---- observation ---- */
typedef struct { uint64_t begin, end; int count, pdev, on_gpu; uint64_t submit; } obs_t;
static obs_t OBS[DEV_MAX_TASKS];
static int c43(void) { return PROP == 43; }

void devh_event(int kind, long a, long b)
{
    sim_hash_event(((uint64_t)kind << 48) ^ ((uint64_t)a << 8) ^ (uint64_t)b);
    if (getenv("VERIF_DEV_TRACE")) fprintf(stderr, "[dev t=%llu] event %d a=%ld b=%ld\n", (unsigned long long)sim_now(), kind, a, b);
    if (kind == 6) { GATE_OPEN = 1; simdev_hold(0); }
    if (kind == 99) hx_fail(RES, "init-failed", "parsec_init returned NULL");
    if (kind == 98) hx_fail(RES, "add-chore-failed", "parsec_dtd_task_class_add_chore refused the %s chore of signature %ld", b ? "CPU" : "GPU", a);
    if (kind == 10 && b != SH.ndev) hx_fail(RES, "device-not-registered", "%ld simdev modules after parsec_init, %d configured (parsec_nb_devices=%ld)", b, SH.ndev, a);
}

/* classify a wrong input value: which version of the tile is it? */
static void wrong_input(const char *who, int id, int i, int64_t b, int poison_class)
{
    dev_task_desc_t *d = &SH.tasks[id];
    int later = -1, older = -1;
    for (int j = 0; j < SH.ntasks; j++) {
        dev_task_desc_t *e = &SH.tasks[j];
        if (e->is_flush || j == id) continue;
        for (int q = 0; q < e->nparams; q++) if (e->tile[q] == d->tile[i] && writes(e->mode[q]) && REF[j].out_val[q] == b) { if (j > id) later = j; else older = j; }
    }
    if (b == initial_of(d->tile[i])) older = -2;
    /* who produced the expected version, and where */
    char tag[200] = "";
    if (DIRTY_DOWNGRADED[d->tile[i]]) snprintf(tag, sizeof(tag), " [dirty-copy-downgraded-by-read]");
    else for (int j = 0; j < id; j++) {
        dev_task_desc_t *e = &SH.tasks[j];
        for (int q = 0; q < e->nparams && !e->is_flush; q++)
            if (e->tile[q] == d->tile[i] && writes(e->mode[q]) && REF[j].out_val[q] == REF[id].in_expect[i] && OBS[j].on_gpu && !e->pushout[q])
                snprintf(tag, sizeof(tag), " [input-produced-on-device %d without pushout (task %d), consumer on device %d]", OBS[j].pdev, j, !strcmp(who, "kernel") ? OBS[id].pdev : 0);
    }
    if (poison_class && simdev_is_poison(b)) {
        hx_fail(RES, !strcmp(who, "kernel") ? "kernel-read-poison" : "cpu-read-poison", "task %d param %d (tile %d) read the poison pattern of freed device memory; sequential execution gives %lld%s",
                id, i, d->tile[i], (long long)REF[id].in_expect[i], tag);
    } else if (later >= 0)
        hx_fail(RES, !strcmp(who, "kernel") ? "kernel-future-input" : "cpu-future-input", "task %d param %d (tile %d) read %lld = the value written by LATER-inserted task %d; sequential execution gives %lld%s",
                id, i, d->tile[i], (long long)b, later, (long long)REF[id].in_expect[i], tag);
    else if (older != -1)
        hx_fail(RES, !strcmp(who, "kernel") ? "kernel-stale-input" : "cpu-stale-input", "task %d param %d (tile %d) read the stale value %lld (from %s %d); sequential execution gives %lld (newest version)%s",
                id, i, d->tile[i], (long long)b, older == -2 ? "the initial contents, task" : "earlier task", older, (long long)REF[id].in_expect[i], tag);
    else
        hx_fail(RES, !strcmp(who, "kernel") ? "kernel-wrong-input" : "cpu-wrong-input", "task %d param %d (tile %d, mode %d) read %lld, sequential execution gives %lld%s",
                id, i, d->tile[i], d->mode[i], (long long)b, (long long)REF[id].in_expect[i], tag);
}

/* the common "computation" of a task at pointers p (CPU body or kernel closure) */
static void compute(const char *who, int id, int nparams, int64_t **p)
{
    dev_task_desc_t *d = &SH.tasks[id];
    int64_t h = d->id + 1;
    for (int i = 0; i < nparams; i++) {
        if (!p[i]) { hx_fail(RES, "null-data", "task %d param %d has a NULL data pointer (%s)", id, i, who); continue; }
        if (!reads(d->mode[i])) continue;
        int64_t b = p[i][0];
        if (c43() && b != REF[id].in_expect[i]) wrong_input(who, id, i, b, 1);
        for (int j = 1; j < SH.nelems; j++) if (c43() && p[i][j] != b + j)
            hx_fail(RES, "torn-data", "task %d param %d (tile %d): element %d is %lld, element 0 is %lld (%s)", id, i, d->tile[i], j, (long long)p[i][j], (long long)b, who);
        h = mix(h, b + 7 * i);
    }
    for (int i = 0; i < nparams; i++) if (p[i] && writes(d->mode[i])) {
        int64_t v = mix(h, 100 + i);
        for (int j = 0; j < SH.nelems; j++) p[i][j] = v + j;
    }
}

int devh_body(int id, int nparams, int64_t **p)
{
    if (id < 0 || id >= SH.ntasks) { hx_fail(RES, "garbage-task", "CPU body called with task id %d", id); return 0; }
    /* gate: no task completes before the last insertion returned (steers around KF-DTD-WAR-RACE, which needs a
     * reader completing while later tasks on the same tile are still being inserted) */
    while (!GATE_OPEN) sim_delay(2000);
    simdev_progress();          /* device operations due by now have landed */
    dev_task_desc_t *d = &SH.tasks[id];
    obs_t *o = &OBS[id];
    o->count++;
    o->begin = sim_stamp();
    o->pdev = 0;
    sim_hash_event(0xB0000 ^ (uint64_t)id);
    sim_probe(PR_CPU_TASK);
    if (d->sel == SEL_ALL) sim_probe(PR_ALL_ON_CPU);
    if (d->sel == SEL_GPU) hx_fail(RES, "wrong-device", "task %d was inserted for the accelerator only but its CPU chore ran", id);
    if (o->count > 1) hx_fail(RES, "task-ran-twice", "task %d ran %d times (CPU body)", id, o->count);
    for (int i = 0; i < nparams; i++) if (p[i] && simdev_which(p[i]) >= 0)
        hx_fail(RES, "cpu-body-got-device-pointer", "task %d param %d: the CPU chore was handed a pointer into the memory of simulated device %d", id, i, simdev_which(p[i]));
    compute("cpu", id, nparams, p);
    if (d->delay) sim_delay((uint64_t)d->delay); else sim_yield();
    o->end = sim_stamp();
    if (getenv("VERIF_DEV_TRACE")) fprintf(stderr, "[dev t=%llu] CPU task %d done\n", (unsigned long long)sim_now(), id);
    return 0;
}

void devh_kernel_submit(int id, int pdev, int nparams, int64_t **ptrs)
{
    (void)nparams; (void)ptrs;
    if (id < 0 || id >= SH.ntasks) { hx_fail(RES, "garbage-task", "GPU chore called with task id %d", id); return; }
    OBS[id].submit = sim_stamp();
    sim_hash_event(0xC0000 ^ ((uint64_t)pdev << 24) ^ (uint64_t)id);
    if (getenv("VERIF_DEV_TRACE")) fprintf(stderr, "[dev t=%llu] GPU task %d submitted on parsec device %d\n", (unsigned long long)sim_now(), id, pdev);
}

void devh_kernel_run(void *closure, int simdev, int stream)
{
    dev_closure_t *c = closure;
    int id = c->task_id;
    (void)stream;
    if (id < 0 || id >= SH.ntasks) { hx_fail(RES, "garbage-task", "kernel closure with task id %d", id); return; }
    dev_task_desc_t *d = &SH.tasks[id];
    obs_t *o = &OBS[id];
    o->count++;
    o->begin = sim_stamp();
    o->pdev = c->pdev;
    o->on_gpu = 1;
    sim_hash_event(0xD0000 ^ ((uint64_t)simdev << 24) ^ (uint64_t)id);
    sim_probe(PR_GPU_TASK);
    if (d->sel == SEL_ALL) sim_probe(PR_ALL_ON_GPU);
    if (d->sel == SEL_CPU) hx_fail(RES, "wrong-device", "task %d was inserted for the CPU only but its accelerator chore ran", id);
    if (o->count > 1) hx_fail(RES, "task-ran-twice", "task %d ran %d times (kernel)", id, o->count);
    for (int i = 0; i < c->nparams; i++) if (c->ptr[i] && !simdev_owns(simdev, c->ptr[i]))
        hx_fail(RES, "kernel-pointer-outside-device", "task %d param %d: kernel on simulated device %d was given %p, which is %s", id, i, simdev, (void *)c->ptr[i],
                simdev_which(c->ptr[i]) >= 0 ? "memory of another device" : "host memory");
    compute("kernel", id, c->nparams, c->ptr);
    o->end = sim_stamp();
    if (getenv("VERIF_DEV_TRACE")) fprintf(stderr, "[dev t=%llu] GPU task %d ran on simdev %d\n", (unsigned long long)sim_now(), id, simdev);
}

static void copy_tap(int dev, int stream, int dir, void *dst, const void *src, size_t n)
{
    (void)n;
    if (getenv("VERIF_DEV_TRACE")) fprintf(stderr, "[dev t=%llu] COPY done dev %d stream %d %s: %p (dev %d) <- %p (dev %d) first=%lld\n", (unsigned long long)sim_now(), dev, stream,
                                           dir == SIMDEV_H2D ? "H2D" : dir == SIMDEV_D2H ? "D2H" : "D2D", dst, simdev_which(dst), src, simdev_which(src), (long long)*(const int64_t *)dst);
    sim_probe(dir == SIMDEV_H2D ? PR_H2D : dir == SIMDEV_D2H ? PR_D2H : PR_D2D);
}

/* ---- C26: coherence monitors around every ownership transfer call ---- */
#define COH_INVALID 0
#define COH_OWNED 1
#define COH_EXCLUSIVE 2
#define COH_SHARED 4
#define ACC_READ 4
#define ACC_WRITE 8
static const char *cohname(int c) { return c == COH_INVALID ? "INVALID" : c == COH_OWNED ? "OWNED" : c == COH_EXCLUSIVE ? "EXCLUSIVE" : c == COH_SHARED ? "SHARED" : "?"; }
static void snap_str(char *b, size_t n, const dev_data_snap_t *s)
{
    size_t l = (size_t)snprintf(b, n, "owner=%d", s->owner);
    for (int i = 0; i < s->ndev && l < n; i++) {
        if (!s->c[i].present) continue;
        l += (size_t)snprintf(b + l, n - l, " [%d:%s v%u%s r%d]", i, cohname(s->c[i].coherency), s->c[i].version, s->c[i].status == 1 ? " UNDER" : "", s->c[i].readers);
    }
}
static int valid(const dev_data_snap_t *s, int i) { return i >= 0 && i < s->ndev && s->c[i].present && s->c[i].coherency != COH_INVALID; }

void devh_xfer(int which, int T, int mode, int rc, const dev_data_snap_t *pre, const dev_data_snap_t *post)
{
    static const char *const wn[] = {"start_transfer_ownership", "end_transfer_ownership", "transfer_ownership(start+end)"};
    char a[256], b[256];
    int rd = (mode & ACC_READ) != 0, wr = (mode & ACC_WRITE) != 0;
    sim_hash_event(0xE000000000ULL ^ ((uint64_t)which << 32) ^ ((uint64_t)T << 24) ^ ((uint64_t)mode << 16) ^ (uint64_t)(rc + 2) ^ ((uint64_t)pre->key << 40));
    if (which == XF_START) sim_probe(rc >= 0 ? PR_XF_START_XFER : PR_XF_START_NOXFER);
    if (which == XF_END) sim_probe(PR_XF_END);
    if (which == XF_BOTH) sim_probe(PR_XF_BOTH);
    if (!pre->lock_held && which != XF_BOTH) sim_probe(PR_XF_NOLOCK);
    if (T < 0 || T >= pre->ndev || !pre->c[T].present) { hx_fail(RES, "c26-no-target-copy", "%s(device %d, mode %d) on data %ld without a copy on that device", wn[which], T, mode, pre->key); return; }
    if (which != XF_END) {
        sim_probe(pre->c[T].coherency == COH_OWNED ? PR_XF_TARGET_OWNED : pre->c[T].coherency == COH_INVALID ? PR_XF_TARGET_INVALID : PR_XF_TARGET_SHARED);
        sim_probe(rd && wr ? PR_XF_RW : wr ? PR_XF_WRITE : PR_XF_READ);
        if (pre->c[T].status == 1) sim_probe(PR_XF_UNDER);
        if (rc >= 0) sim_probe(rc == 0 ? PR_XF_SRC_CPU : PR_XF_SRC_GPU);
    }
    if (getenv("VERIF_DEV_TRACE")) {
        snap_str(a, sizeof(a), pre); snap_str(b, sizeof(b), post);
        fprintf(stderr, "[dev t=%llu] %s tile %ld dev %d mode %s%s rc %d: %s -> %s\n", (unsigned long long)sim_now(), wn[which], pre->key, T, rd ? "R" : "", wr ? "W" : "", rc, a, b);
    }
    if (which != XF_START && rd && !wr && T > 0 && pre->c[T].coherency == COH_OWNED && post->c[T].coherency != COH_OWNED && pre->key >= 0 && pre->key < DEV_MAX_TILES) {
        int backed = 0;
        for (int i = 0; i < pre->ndev; i++) if (i != T && valid(pre, i) && pre->c[i].version >= pre->c[T].version) backed = 1;
        if (!backed) DIRTY_DOWNGRADED[pre->key] = 1;
    }
    if (RES->vclass) return;
    snap_str(a, sizeof(a), pre); snap_str(b, sizeof(b), post);
    /* (1) at most one owner */
    int nown = 0;
    for (int i = 0; i < post->ndev; i++) if (post->c[i].present && post->c[i].coherency == COH_OWNED) nown++;
    if (nown > 1) { hx_fail(RES, "c26-two-owners", "after %s(device %d, %s%s) on tile %ld two copies are OWNED: before {%s} after {%s}", wn[which], T, rd ? "R" : "", wr ? "W" : "", pre->key, a, b); return; }
    if (which != XF_END) {
        /* newest version among the valid copies before the call */
        unsigned newest = 0; int any = 0;
        for (int i = 0; i < pre->ndev; i++) if (valid(pre, i)) { if (!any || pre->c[i].version > newest) newest = pre->c[i].version; any = 1; }
        int under = pre->c[T].status == 1;   /* a transfer into the target is already in flight: the caller ignores the answer */
        /* (2) transfer requested iff the target is not up to date.  Accesses that do not read need no transfer
         * whatever the state of the target (relaxation: "exactly when" is read as applying to accesses that read). */
        if (rd && !under) {
            int uptodate = valid(pre, T) && pre->c[T].version >= newest;
            if (uptodate && rc >= 0) { hx_fail(RES, "c26-needless-transfer", "%s(device %d, %s%s) on tile %ld requested a transfer from device %d although the target copy is up to date: {%s}", wn[which], T, rd ? "R" : "", wr ? "W" : "", pre->key, rc, a); return; }
            if (!uptodate && rc < 0) {
                /* signature tags of the shapes seen on the unchanged tree (sim/dev/NOTES.md) */
                int anyowned = 0;
                for (int i = 0; i < pre->ndev; i++) if (pre->c[i].present && pre->c[i].coherency == COH_OWNED) anyowned = 1;
                const char *tag = pre->key >= 0 && pre->key < DEV_MAX_TILES && DIRTY_DOWNGRADED[pre->key] ? " [dirty-copy-downgraded-by-read: the only newest copy of this tile lost its OWNED state on a read-only access of its own device, then left the device without write-back]" :
                                  !valid(pre, T) && pre->owner == T ? " [stale-owner-device: target copy is new/INVALID but owner_device still names its device]"
                                : valid(pre, T) && !anyowned ? " [stale-shared-copy: older SHARED copy and no OWNED copy]" : "";
                hx_fail(RES, "c26-missing-transfer", "%s(device %d, %s%s) on tile %ld requested no transfer although the target copy is not up to date (newest valid version %u): {%s}%s", wn[which], T, rd ? "R" : "", wr ? "W" : "", pre->key, newest, a, tag);
                return;
            }
        }
        if (!rd && rc >= 0) { hx_fail(RES, "c26-needless-transfer", "%s(device %d, W) on tile %ld requested a transfer from device %d for a write-only access: {%s}", wn[which], T, pre->key, rc, a); return; }
        /* (3) the source named holds the newest version */
        if (rc >= 0 && !under) {
            if (rc == T || !valid(pre, rc)) {
                hx_fail(RES, "c26-bad-source", "%s(device %d, %s%s) on tile %ld named device %d as the source, which %s: {%s}%s", wn[which], T, rd ? "R" : "", wr ? "W" : "", pre->key, rc, rc == T ? "is the target itself" : "holds no valid copy", a,
                        rc != T && rc == pre->owner && !(rc < pre->ndev && pre->c[rc].present) ? " [stale-owner-device: owner_device still names a device whose copy was evicted]" : "");
                return;
            }
            if (pre->c[rc].version != newest) { hx_fail(RES, "c26-stale-source", "%s(device %d, %s%s) on tile %ld named device %d (version %u) as the source but the newest valid version is %u: {%s}", wn[which], T, rd ? "R" : "", wr ? "W" : "", pre->key, rc, pre->c[rc].version, newest, a); return; }
        }
        /* (4) a write access makes the target the owner */
        if (wr && post->owner != T) { hx_fail(RES, "c26-writer-not-owner", "after %s(device %d, %s%s) on tile %ld owner_device is %d: before {%s} after {%s}", wn[which], T, rd ? "R" : "", wr ? "W" : "", pre->key, post->owner, a, b); return; }
    }
    if (which != XF_START) {
        if (wr && post->c[T].coherency != COH_OWNED) { hx_fail(RES, "c26-writer-not-owner", "after %s(device %d, %s%s) on tile %ld the target copy is %s, not OWNED: before {%s} after {%s}", wn[which], T, rd ? "R" : "", wr ? "W" : "", pre->key, cohname(post->c[T].coherency), a, b); return; }
        if (rd && !wr && post->c[T].coherency == COH_INVALID) { hx_fail(RES, "c26-reader-left-invalid", "after %s(device %d, R) on tile %ld the target copy is INVALID: before {%s} after {%s}", wn[which], T, pre->key, a, b); return; }
    }
}

/* ---- plan <-> shared ---- */
static const int SIG3[6][3] = {{M_IN, M_IN, M_INOUT}, {M_IN, M_IN, M_OUT}, {M_IN, M_INOUT, M_INOUT}, {M_INOUT, M_IN, M_IN}, {M_IN, M_OUT, M_IN}, {M_IN, M_IN, M_IN}};

static void plan_to_shared(const hx_plan_t *p)
{
    memset(&SH, 0, sizeof(SH));
    SH.nthreads = (int)hx_knob(p, "nthreads", 2);
    if (SH.nthreads < 1) SH.nthreads = 1;
    SH.ntiles = (int)hx_knob(p, "ntiles", 4);
    if (SH.ntiles > DEV_MAX_TILES) SH.ntiles = DEV_MAX_TILES;
    if (SH.ntiles < 1) SH.ntiles = 1;
    SH.nelems = (int)hx_knob(p, "nelems", 2);
    if (SH.nelems > DEV_MAX_ELEMS) SH.nelems = DEV_MAX_ELEMS;
    if (SH.nelems < 1) SH.nelems = 1;
    SH.ndev = (int)hx_knob(p, "ndev", 1);
    if (SH.ndev < 1) SH.ndev = 1;
    if (SH.ndev > 3) SH.ndev = 3;
    if (hx_knob(p, "mode", 0) == 2 || hx_knob(p, "mode", 0) == 3) SH.ndev = 1;
    /* modes 3/4 run one accelerator task at a time: more than 4 threads only add polling (AGAIN retries, idle selects) */
    if (hx_knob(p, "mode", 0) >= 3 && SH.nthreads > 4) SH.nthreads = 2 + SH.nthreads % 3;
    if (hx_knob(p, "mode", 0) >= 3 && SH.nthreads < 2) SH.nthreads = 2;     /* more threads than polling writers (at most one) */
    int peer = (int)hx_knob(p, "peer", 1);
    int always_pushout = (int)hx_knob(p, "always_pushout", 0) || (SH.ndev > 1 && !peer);
    if (hx_knob(p, "mode", 0) == 3) always_pushout = 0;     /* the resident tile stays dirty on the device until its last writer */
    int n = 0;
    for (int i = 0; i < p->nops && n < DEV_MAX_TASKS - 2; i++) {
        const hx_op_t *o = &p->ops[i];
        if (o->op != OP_TASK) continue;
        dev_task_desc_t *d = &SH.tasks[n];
        memset(d, 0, sizeof(*d));
        d->id = n;
        int np = (int)(o->b & 0xf);
        if (np < 1) np = 1;
        if (np > DEV_MAX_PARAMS) np = DEV_MAX_PARAMS;
        int m2 = 0;
        for (int k = 0; k < np; k++) {
            int f = (int)((o->a >> (8 * k)) & 0xff);
            int tile = (f & 0x1f) % SH.ntiles, mode = ((f >> 5) & 3) % 3, dup = 0;
            for (int q = 0; q < m2; q++) if (d->tile[q] == tile) dup = 1;     /* one tile in several parameters: KF-DTD-REPEATED-TILE */
            if (!dup) { d->tile[m2] = tile; d->mode[m2] = mode; m2++; }
        }
        d->nparams = m2;
        if (m2 == 3) { int s = (d->mode[0] * 9 + d->mode[1] * 3 + d->mode[2]) % 6; for (int k = 0; k < 3; k++) d->mode[k] = SIG3[s][k]; }
        d->sel = (int)((o->b >> 4) & 0xf) % 3;
        if (hx_knob(p, "force_sel", -1) >= 0) d->sel = (int)hx_knob(p, "force_sel", 0) % 3;     /* experiments */
        int adv = (int)((o->b >> 8) & 0xf);
        d->advise_dev = adv ? 1 + (adv - 1) % SH.ndev : 0;
        d->delay = (int)(o->c & 0xfffff);
        d->priority = (int)((o->c >> 20) & 0xff);
        n++;
    }
    /* Steering (knob `mode`): the full space (mode 0) runs into the recorded accelerator-layer findings of
     * sim/dev/NOTES.md within a few runs; modes 1-4 are sub-spaces that stay clear of them by construction.
     *  1  accelerators only READ (every parameter of a task that may run on an accelerator is IN), CPU tasks write;
     *     1-3 devices whose memory holds every tile (no eviction)
     *  2  one device whose memory holds every tile (no eviction); accelerator and CPU tasks read and write
     *  3  one device, tiny memory; tiles 0 and 1 are "device resident": EVERY accelerator task uses tile 0 INOUT (so
     *     accelerator tasks run one at a time and a reservation never fails), some also tile 1 INOUT, plus at most one other
     *     tile IN; CPU tasks never touch tiles 0/1 and write the other tiles; the resident copies stay dirty on the device
     *     until their last writer pushes them out (tile 1 sits idle in between: a wrongly evictable dirty copy is lost)
     *  4  1-3 devices, tiny memory, accelerators only READ; tile 0 is a token: every accelerator task reads the token
     *     version written by a CPU task inserted just before it, so accelerator tasks run one at a time (write-after-read
     *     on the token) and a reservation never fails, while copies are evicted and staged in again all the time
     * In modes 1-4 all priorities are equal (a re-queued AGAIN task goes behind the ready ones). */
    int mode = (int)hx_knob(p, "mode", 0);
    SH.flush_after_wait = (int)hx_knob(p, "flush_after_wait", mode ? 1 : 0);
    if (mode) for (int i = 0; i < n; i++) SH.tasks[i].priority = 0;
    if (mode == 1 || mode == 3 || mode == 4) {
        static dev_task_desc_t out[DEV_MAX_TASKS];
        int m = 0;
        for (int i = 0; i < n && m < DEV_MAX_TASKS - 4; i++) {
            dev_task_desc_t d = SH.tasks[i];
            if (mode >= 3 && d.sel == SEL_ALL) d.sel = SEL_GPU;
            int q = 0, uses1 = 0;
            for (int k = 0; k < d.nparams; k++) {
                if (mode >= 3 && d.tile[k] == 0) continue;                         /* tile 0 is handled below */
                if (mode == 3 && d.tile[k] == 1) { uses1 = 1; continue; }          /* so is tile 1 in mode 3 */
                if (d.sel != SEL_CPU) d.mode[k] = M_IN;
                d.tile[q] = d.tile[k]; d.mode[q] = d.mode[k]; q++;
            }
            d.nparams = q;
            if (mode == 3 && d.sel != SEL_CPU) {
                /* (streaming tile IN)? , tile 0 INOUT, (tile 1 INOUT)? */
                if (d.nparams > 1) d.nparams = 1;
                d.tile[d.nparams] = 0; d.mode[d.nparams] = M_INOUT; d.nparams++;
                if (uses1 && SH.ntiles > 2) { d.tile[d.nparams] = 1; d.mode[d.nparams] = M_INOUT; d.nparams++; }
            }
            if (mode == 4 && d.sel != SEL_CPU) {
                if (d.nparams > 2) d.nparams = 2;
                for (int k = d.nparams; k > 0; k--) { d.tile[k] = d.tile[k - 1]; d.mode[k] = d.mode[k - 1]; }
                d.tile[0] = 0; d.mode[0] = M_IN;
                d.nparams++;
                if (mode == 4) {            /* the CPU task that writes the token version this accelerator task reads */
                    dev_task_desc_t *c = &out[m];
                    memset(c, 0, sizeof(*c));
                    c->id = m; c->nparams = 1; c->tile[0] = 0; c->mode[0] = M_OUT; c->sel = SEL_CPU;
                    m++;
                }
            }
            if (d.nparams == 3) {
                int ok = 0;
                for (int z = 0; z < 6; z++) if (SIG3[z][0] == d.mode[0] && SIG3[z][1] == d.mode[1] && SIG3[z][2] == d.mode[2]) ok = 1;
                if (!ok) d.nparams = 2;
            }
            if (!d.nparams) continue;
            d.advise_dev = mode == 3 ? 0 : d.advise_dev;
            out[m] = d; out[m].id = m; m++;
        }
        memcpy(SH.tasks, out, sizeof(out[0]) * (size_t)m);
        n = m;
    }
    if (mode >= 3) {
        /* modes 3/4: the accelerator tasks run one after the other, so a CPU writer of a tile that an accelerator task reads
         * would poll (AGAIN) until that -- possibly far away -- reader is done; with several such writers and 2-4 threads that
         * is the KF-DTD-AGAIN-LIVELOCK situation (seed 1004420: lfq, 2 threads, ready task never selected).  Once an
         * accelerator task has read a tile, later CPU tasks only read it.  (The token of mode 4 keeps its one polling writer.) */
        int gpu_read[DEV_MAX_TILES] = {0};
        for (int i = 0; i < n; i++) {
            dev_task_desc_t *d = &SH.tasks[i];
            for (int k = 0; k < d->nparams; k++) {
                int t = d->tile[k];
                if (d->sel != SEL_CPU) { if (t > (mode == 3 ? 1 : 0)) gpu_read[t] = 1; }
                else if (gpu_read[t] && t > 0) d->mode[k] = M_IN;
            }
            if (d->nparams == 3) {
                int ok = 0;
                for (int z = 0; z < 6; z++) if (SIG3[z][0] == d->mode[0] && SIG3[z][1] == d->mode[1] && SIG3[z][2] == d->mode[2]) ok = 1;
                if (!ok) d->nparams = 2;
            }
        }
    }
    if (hx_knob(p, "init_writers", 1)) {
        /* every tile is first written by a CPU task: a reader of the INITIAL version of a tile hangs below a fake parent task
         * that completes during the insertion, which is the one completion the gate cannot hold back (KF-DTD-WAR-RACE with a
         * parentless reader: seeds 1000608, 1004449 -- the writer inserted after such a reader ran before it) */
        static dev_task_desc_t out2[DEV_MAX_TASKS];
        int m = 0;
        for (int k = 0; k < SH.ntiles && m < DEV_MAX_TASKS - 2; k++) {
            dev_task_desc_t *c = &out2[m];
            memset(c, 0, sizeof(*c));
            c->id = m; c->nparams = 1; c->tile[0] = k; c->mode[0] = M_OUT; c->sel = SEL_CPU;
            m++;
        }
        for (int i = 0; i < n && m < DEV_MAX_TASKS - 2; i++) { out2[m] = SH.tasks[i]; out2[m].id = m; m++; }
        memcpy(SH.tasks, out2, sizeof(out2[0]) * (size_t)m);
        n = m;
    }
    /* PARSEC_PUSHOUT: the discipline of tests/dsl/dtd/dtd_test_new_tile.c and dtd_test_simple_gemm.c.  The value
     * written by a task that may run on an accelerator must be pushed out iff some consumer of that version (the
     * readers up to and including the next writer, or the final flush) may run on the CPU: the CPU side never
     * pulls, "copy versions should be synchronized already from a pushout" (scheduling.c). */
    for (int i = 0; i < n; i++) {
        dev_task_desc_t *d = &SH.tasks[i];
        for (int k = 0; k < d->nparams; k++) {
            if (!writes(d->mode[k]) || d->sel == SEL_CPU) continue;
            int need = always_pushout, closed = 0;
            for (int j = i + 1; j < n && !need && !closed; j++) {
                dev_task_desc_t *e = &SH.tasks[j];
                for (int q = 0; q < e->nparams; q++) if (e->tile[q] == d->tile[k]) {
                    if (e->sel != SEL_GPU) need = 1;
                    if (writes(e->mode[q])) closed = 1;
                }
            }
            if (!closed) need = 1;      /* the final flush is a CPU task */
            d->pushout[k] = need;
        }
    }
    dev_task_desc_t *f = &SH.tasks[n];
    memset(f, 0, sizeof(*f));
    f->id = n; f->is_flush = 2;
    n++;
    SH.ntasks = n;
}

static void gen(hx_plan_t *p, hx_rng_t *r)
{
    hx_set_knob(p, "prop", 43);
    long cm = hx_cli_knob("mode", -1);
    int md = (int)hx_below(r, 100);
    hx_set_knob(p, "mode", cm >= 0 ? cm : md < 30 ? 1 : md < 55 ? 2 : md < 75 ? 3 : 4);
    hx_set_knob(p, "nthreads", hx_chance(r, 75) ? hx_range(r, 1, 4) : hx_range(r, 5, 8));
    int nt = (int)hx_range(r, 2, 8);
    hx_set_knob(p, "ntiles", nt);
    hx_set_knob(p, "nelems", hx_range(r, 1, 4));
    hx_set_knob(p, "sched", hx_below(r, NSCHED));
    int ndev = hx_chance(r, 45) ? 1 : (int)hx_range(r, 2, 3);
    hx_set_knob(p, "ndev", ndev);
    hx_set_knob(p, "nstreams", hx_range(r, 3, 6));
    hx_set_knob(p, "memtiles", hx_chance(r, 60) ? hx_range(r, 3, 4) : hx_range(r, 5, 8));   /* >= 3 = the most tiles one task uses */
    hx_set_knob(p, "halfblock", hx_chance(r, 30));
    hx_set_knob(p, "peer", hx_chance(r, 70));
    hx_set_knob(p, "always_pushout", hx_chance(r, 25));
    static const long lat[] = {200, 2000, 20000, 100000};
    hx_set_knob(p, "copy_lat", lat[hx_below(r, 4)]);
    hx_set_knob(p, "copy_jit", hx_chance(r, 30) ? 0 : lat[hx_below(r, 4)]);
    hx_set_knob(p, "kern_lat", lat[hx_below(r, 4)]);
    hx_set_knob(p, "kern_jit", hx_chance(r, 30) ? 0 : lat[hx_below(r, 4)]);
    hx_set_knob(p, "heavy", hx_chance(r, 30) ? hx_range(r, 2, 20) : 0);
    hx_set_knob(p, "qlag", hx_chance(r, 40) ? hx_range(r, 5, 50) : 0);
    static const long d2h[] = {1, 2, 20};
    hx_set_knob(p, "d2h_max", d2h[hx_below(r, 3)]);
    hx_set_knob(p, "sort_pending", hx_chance(r, 25));
    hx_set_knob(p, "skip_empty", hx_chance(r, 75));
    int n = (int)hx_range(r, 2, 26);
    int gpu_pct = (int)hx_range(r, 30, 90), all_pct = hx_chance(r, 50) ? (int)hx_range(r, 0, 40) : 0;
    for (int i = 0; i < n; i++) {
        int np = hx_chance(r, 50) ? 1 : hx_chance(r, 65) ? 2 : 3;
        if (np > nt) np = nt;
        long a = 0;
        int used[DEV_MAX_PARAMS];
        for (int k = 0; k < np; k++) {
            int tile = (int)hx_below(r, nt);
            for (;;) { int dup = 0; for (int q = 0; q < k; q++) if (used[q] == tile) dup = 1; if (!dup) break; tile = (tile + 1) % nt; }
            used[k] = tile;
            int q = (int)hx_below(r, 100);
            int mode = q < 40 ? M_IN : q < 55 ? M_OUT : M_INOUT;
            a |= (long)((tile & 0x1f) | (mode << 5)) << (8 * k);
        }
        int q = (int)hx_below(r, 100);
        int sel = q < all_pct ? SEL_ALL : q < all_pct + (100 - all_pct) * gpu_pct / 100 ? SEL_GPU : SEL_CPU;
        int adv = ndev > 1 && hx_chance(r, 20) ? 1 + (int)hx_below(r, ndev) : 0;
        long b = np | (sel << 4) | (adv << 8);
        long c = (hx_chance(r, 60) ? hx_range(r, 0, 3000) : hx_range(r, 3000, 100000)) | (hx_below(r, 4) << 20);
        hx_add_op(p, 0, OP_TASK, a, b, c);
    }
}

static void setenv_int(const char *k, long v) { char b[32]; snprintf(b, sizeof(b), "%ld", v); setenv(k, b, 1); }

static void init(void)
{
    setenv("HWLOC_SYNTHETIC", "pack:1 core:16 pu:1", 1);
    setenv("HWLOC_THISSYSTEM", "0", 1);
    char tmpl[] = "/tmp/verif_home_XXXXXX";
    char *d = hx_scratch_dir(tmpl);
    if (d) setenv("HOME", d, 1);
    extern char **environ;
    for (char **e = environ; *e;) {
        if (!strncmp(*e, "PARSEC_MCA_", 11)) { char nm[128]; snprintf(nm, sizeof(nm), "%.*s", (int)(strchr(*e, '=') - *e), *e); unsetenv(nm); e = environ; }
        else e++;
    }
}

static void *rank_tramp(void *a)
{
    sim_set_rank(0);
    return hx_rank_mains[0](a);
}

static void run(const hx_plan_t *p, hx_result_t *res)
{
    RES = res;
    PROP = (int)hx_knob(p, "prop", 43);
    plan_to_shared(p);
    compute_reference();
    memset(OBS, 0, sizeof(OBS));
    DUMP = NULL;
    memset(DIRTY_DOWNGRADED, 0, sizeof(DIRTY_DOWNGRADED));
    GATE_OPEN = 0;
    setenv("PARSEC_MCA_mca_sched", sched_of(p), 1);
    setenv_int("PARSEC_MCA_device_skip_empty_events", hx_knob(p, "skip_empty", 1));
    simmpi_cfg_t mcfg;
    memset(&mcfg, 0, sizeof(mcfg));
    mcfg.lat_base_ns = 1000;
    mcfg.eager_limit = 65536;
    simmpi_reset(1, hx_current_seed(), &mcfg);
    simdev_cfg_t dc;
    memset(&dc, 0, sizeof(dc));
    TILE_BYTES = (size_t)SH.nelems * 8;
    long memtiles = hx_knob(p, "memtiles", 4);
    if (memtiles < DEV_MAX_PARAMS) memtiles = DEV_MAX_PARAMS;
    long md = hx_knob(p, "mode", 0);
    if ((md == 1 || md == 2) && memtiles < SH.ntiles) memtiles = SH.ntiles;
    if (md == 3 || md == 4) memtiles = 3 + memtiles % 3;          /* 3..5 tiles: the one task in flight needs at most 2 (mode 3) / 3 (mode 4) */
    dc.ndev = SH.ndev;
    dc.nstreams = (int)hx_knob(p, "nstreams", 4);
    dc.block_bytes = hx_knob(p, "halfblock", 0) && SH.nelems % 2 == 0 ? TILE_BYTES / 2 : TILE_BYTES;
    dc.mem_bytes = (size_t)memtiles * TILE_BYTES;
    dc.copy_base_ns = (uint64_t)hx_knob(p, "copy_lat", 2000);
    dc.copy_jitter_ns = (uint64_t)hx_knob(p, "copy_jit", 2000);
    dc.kern_base_ns = (uint64_t)hx_knob(p, "kern_lat", 2000);
    dc.kern_jitter_ns = (uint64_t)hx_knob(p, "kern_jit", 2000);
    dc.heavy_pct = (int)hx_knob(p, "heavy", 0);
    dc.query_lag_pct = (int)hx_knob(p, "qlag", 0);
    dc.query_lag_max = 3;
    dc.peer_access = (int)hx_knob(p, "peer", 1);
    dc.d2h_max_flows = (int)hx_knob(p, "d2h_max", 20);
    dc.sort_pending = (int)hx_knob(p, "sort_pending", 0);
    dc.devtype_level_zero = (int)hx_knob(p, "level_zero", 0);
    simdev_reset(&dc, hx_current_seed());
    simdev_install_timer(simmpi_next_event);
    simdev_set_copy_tap(copy_tap);
    simdev_hold(1);
    if (memtiles <= 3) sim_probe(PR_TINY_MEM);
    for (int i = 0; i < SH.ntasks; i++) for (int k = 0; k < SH.tasks[i].nparams; k++)
        if (writes(SH.tasks[i].mode[k]) && SH.tasks[i].sel != SEL_CPU && !SH.tasks[i].pushout[k]) sim_probe(PR_NOPUSHOUT_CHAIN);
    if (getenv("VERIF_DEV_TRACE")) for (int i = 0; i < SH.ntasks; i++) {
        dev_task_desc_t *d = &SH.tasks[i];
        fprintf(stderr, "[plan] task %d %s:", i, d->is_flush ? "FLUSH_ALL" : d->sel == SEL_CPU ? "cpu" : d->sel == SEL_GPU ? "gpu" : "any");
        for (int k = 0; k < d->nparams; k++) fprintf(stderr, " t%d/%s%s (in %lld out %lld)", d->tile[k], d->mode[k] == M_IN ? "IN" : d->mode[k] == M_OUT ? "OUT" : "INOUT", d->pushout[k] ? "+PUSHOUT" : "",
                                                     (long long)REF[i].in_expect[k], writes(d->mode[k]) ? (long long)REF[i].out_val[k] : -1LL);
        fprintf(stderr, "%s\n", d->advise_dev ? " [advise]" : "");
    }
    pthread_t pt;
    dev_rank_arg_t ra = {&SH, 0};
    pthread_create(&pt, NULL, rank_tramp, &ra);
    pthread_join(pt, NULL);
    /* ---- end-of-run oracles ---- */
    const simdev_stats_t *st = simdev_stats();
    if (st->lagged_queries) sim_probe(PR_QUERY_LAG);
    int devs_used = 0;
    for (int i = 1; i < DEV_MAX_DEVS; i++) { if (SH.dev_executed[i]) devs_used++; if (SH.dev_evictions[i]) sim_probe(PR_EVICTION); }
    if (devs_used > 1) sim_probe(PR_MULTI_DEV_USED);
    if (st->copies_d2h) {
        /* D2H copies beyond the pushed-out flows are write-backs of the W2R (eviction) path */
        uint64_t pushed = 0;
        for (int i = 0; i < SH.ntasks; i++) if (OBS[i].on_gpu) for (int k = 0; k < SH.tasks[i].nparams; k++) if (SH.tasks[i].pushout[k]) pushed++;
        if (st->copies_d2h > pushed) sim_probe(PR_W2R);
    }
    for (int i = 0; i < SH.ntasks && !res->vclass; i++) {
        dev_task_desc_t *d = &SH.tasks[i];
        if (d->is_flush) continue;
        if (OBS[i].count != 1) hx_fail(res, OBS[i].count ? "task-ran-twice" : "task-lost", "task %d ran %d times", i, OBS[i].count);
        hx_hash(res, ((uint64_t)i << 32) ^ (uint64_t)OBS[i].pdev ^ (OBS[i].begin << 8));
    }
    if (c43() && !res->vclass) {
        for (int k = 0; k < SH.ntiles && !res->vclass; k++) {
            if (!SH.final_valid[k]) { hx_fail(res, "wrong-final", "tile %d: no final value published", k); break; }
            for (int j = 0; j < SH.nelems; j++) if (SH.final_[k][j] != ref_final[k] + j) {
                int64_t got = SH.final_[k][0];
                int stale = got == initial_of(k);
                for (int t = 0; t < SH.ntasks; t++) for (int q = 0; q < SH.tasks[t].nparams; q++)
                    if (!SH.tasks[t].is_flush && SH.tasks[t].tile[q] == k && writes(SH.tasks[t].mode[q]) && REF[t].out_val[q] == got) stale = 1;
                hx_fail(res, simdev_is_poison(SH.final_[k][j]) ? "final-is-poison" : stale ? "stale-final" : "wrong-final",
                        "tile %d element %d on the host is %lld after flush_all + wait; sequential execution gives %lld%s", k, j, (long long)SH.final_[k][j],
                        (long long)(ref_final[k] + j), stale ? " (the host holds an OLDER version: the newest one was never written back)" : "");
                break;
            }
        }
    }
    if (!res->vclass && !SH.rank_done) hx_fail(res, "rank-not-finished", "the driver did not reach the end of its program");
    if (!res->vclass && simdev_pending()) hx_fail(res, "device-ops-pending", "%d device operations still queued after parsec_fini", simdev_pending());
}

static void annotate(const hx_plan_t *p, char *buf, size_t n)
{
    plan_to_shared(p);
    snprintf(buf, n, "[mode=%ld sched=%s threads=%d ndev=%d memtiles=%ld peer=%ld]", hx_knob(p, "mode", 0), sched_of(p), SH.nthreads, SH.ndev, hx_knob(p, "memtiles", 4), hx_knob(p, "peer", 1));
}

static void describe_abort(char *buf, size_t n)
{
    int done = 0, total = 0, running = 0, gpu_submitted = 0, first_missing = -1;
    for (int i = 0; i < SH.ntasks; i++) {
        if (SH.tasks[i].is_flush) continue;
        total++;
        if (OBS[i].end) done++;
        else { if (OBS[i].count) running++; else if (OBS[i].submit) gpu_submitted++; if (first_missing < 0) first_missing = i; }
    }
    /* an unfinished, not started task all of whose earlier conflicting tasks have finished is data-ready */
    int starved = -1;
    for (int i = 0; i < SH.ntasks && starved < 0; i++) {
        dev_task_desc_t *d = &SH.tasks[i];
        if (d->is_flush || OBS[i].count || OBS[i].submit) continue;
        int ready = 1;
        for (int j = 0; j < i && ready; j++) {
            dev_task_desc_t *e = &SH.tasks[j];
            if (e->is_flush || OBS[j].end) continue;
            for (int a = 0; a < d->nparams && ready; a++) for (int b = 0; b < e->nparams; b++)
                if (d->tile[a] == e->tile[b] && (writes(d->mode[a]) || writes(e->mode[b]))) { ready = 0; break; }
        }
        if (ready) starved = i;
    }
    snprintf(buf, n, "%d of %d tasks done (%d in their body, %d kernels submitted but not completed); first unfinished task %d (%s); gate %s; %d device ops queued",
             done, total, running, gpu_submitted, first_missing, first_missing >= 0 ? (SH.tasks[first_missing].sel == SEL_CPU ? "cpu" : SH.tasks[first_missing].sel == SEL_GPU ? "gpu" : "any") : "-",
             GATE_OPEN ? "open" : "closed", simdev_pending());
    if (DUMP) {
        static char st[4096];
        DUMP(st, sizeof(st));
        if (getenv("VERIF_DEV_TRACE")) fprintf(stderr, "[dev] state at abort:%s\n", st);
        size_t l = strlen(buf);
        char *tg = strstr(st, " [device-memory-full-of-dirty-copies");
        if (!tg) tg = strstr(st, " [lru-leak");
        if (!tg) tg = strstr(st, " [device-memory-exhausted");
        if (!tg && strstr(st, " [devices-idle]") && starved >= 0 && l + 200 < n) {
            /* nothing is in any device pipeline: the hang (or crawl) is on the host side of the runtime (DTD / scheduler) */
            snprintf(buf + l, n - l, "; task %d (%s) is data-ready but was never started while every device is idle: ready-but-starved [devices-idle]", starved,
                     SH.tasks[starved].sel == SEL_CPU ? "cpu" : "gpu");
            tg = NULL;
        }
        if (tg && l + 1 < n) snprintf(buf + l, n - l, "%s", tg);
    }
}

static void tune(const hx_plan_t *p, sim_params_t *sp)
{
    sp->quantum_ns = 20;
    /* 1-2 % of the runs make no progress until the fair round-robin tail starts (a PCT priority or a stall keeps the one
     * thread that matters off the baton while the others poll); the serialised modes then need up to ~20 M more points.
     * Tail after 40 M as everywhere else, but 80 M points of it instead of 40 M. */
    sp->max_steps = (uint64_t)hx_knob(p, "max_steps", 120000000);
    sp->tail_after = (uint64_t)hx_knob(p, "tail_after", 40000000);
}

static const hx_harness_t H = {
    .property = "C43", .name = "dev", .opnames = opnames, .nopnames = OP_N,
    .est_steps = 6000000, .max_steps = 120000000, .gap_lo = 150, .gap_hi = 60000, .fork_per_run = 1, .gen = gen, .run = run, .init = init, .tune = tune,
    .describe_abort = describe_abort, .annotate = annotate, .probe_names = probe_names, .nprobes = PR_N,
};
int main(int argc, char **argv) { return hx_main(argc, argv, &H); }
