NOT_APPLICABLE = {
 "C19": "pure function of (m,n,ld,uplo,diag): no schedule, clock, fault or second party for a simulator to control",
 "C20": "pure functions of the distribution parameters evaluated per rank without communication",
 "C23": "key uniqueness is a pure function of program text and parameter values",
 "C24": "deterministic single-threaded batch compiler; input generation only, nothing to simulate",
 "C36": "unsynchronised sequential data structure quantified over one caller's histories and inputs; no schedule, fault, clock or second party",
 "C38": "pure function of argv, environment and file contents",
 "C39": "pure string functions",
 "C40": "pure function of the map specification and core count; nothing depends on interleaving",
}
NOT_BUILT = {}
