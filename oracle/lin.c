#include "lin.h"
#include <stdlib.h>
#include <string.h>

typedef struct { uint64_t mask, sh; } memo_t;
typedef struct {
    const lin_model_t *m;
    lin_op_t *ops;
    int n;
    void *ctx;
    long nodes, max_nodes;
    memo_t *memo;
    size_t mcap, mn;
    int (*check_final)(const void *, void *);
    int *order;
    char *states;   /* stack of states, depth n+1 */
} lc_t;

static int memo_add(lc_t *c, uint64_t mask, uint64_t sh)
{
    if (c->mn * 2 >= c->mcap) {
        size_t nc = c->mcap ? c->mcap * 2 : 1024;
        memo_t *nt = calloc(nc, sizeof(memo_t));
        for (size_t i = 0; i < c->mcap; i++) if (c->memo[i].mask | c->memo[i].sh) {
            size_t k = ((c->memo[i].mask * 0x9E3779B97F4A7C15ULL) ^ c->memo[i].sh) & (nc - 1);
            while (nt[k].mask | nt[k].sh) k = (k + 1) & (nc - 1);
            nt[k] = c->memo[i];
        }
        free(c->memo);
        c->memo = nt;
        c->mcap = nc;
    }
    if (!(mask | sh)) sh = 1;
    size_t k = ((mask * 0x9E3779B97F4A7C15ULL) ^ sh) & (c->mcap - 1);
    while (c->memo[k].mask | c->memo[k].sh) {
        if (c->memo[k].mask == mask && c->memo[k].sh == sh) return 0;
        k = (k + 1) & (c->mcap - 1);
    }
    c->memo[k] = (memo_t){mask, sh};
    c->mn++;
    return 1;
}

static int dfs(lc_t *c, uint64_t mask, int depth)
{
    if (depth == c->n) return c->check_final ? c->check_final(c->states + (size_t)depth * c->m->state_size, c->ctx) : 1;
    if (++c->nodes > c->max_nodes) return -1;
    /* minimal return stamp among pending ops */
    uint64_t minret = UINT64_MAX;
    for (int i = 0; i < c->n; i++) if (!(mask >> i & 1) && c->ops[i].ret < minret) minret = c->ops[i].ret;
    char *cur = c->states + (size_t)depth * c->m->state_size;
    char *nxt = cur + c->m->state_size;
    for (int i = 0; i < c->n; i++) {
        if (mask >> i & 1) continue;
        if (c->ops[i].inv > minret) continue;   /* some pending op returned before this one was invoked */
        memcpy(nxt, cur, c->m->state_size);
        if (!c->m->apply(nxt, &c->ops[i], c->ctx)) continue;
        uint64_t nm = mask | (1ULL << i);
        if (!memo_add(c, nm, c->m->hash(nxt, c->ctx))) continue;
        if (c->order) c->order[depth] = i;
        int r = dfs(c, nm, depth + 1);
        if (r) return r;
    }
    return 0;
}

int lin_check(const lin_model_t *m, lin_op_t *ops, int n, void *ctx, long max_nodes,
              int (*check_final)(const void *, void *), int *order_out)
{
    if (n > LIN_MAX_OPS) return -1;
    for (int i = 0; i < n; i++) {
        ops[i].overlapped = 0;
        for (int j = 0; j < n; j++) if (i != j && ops[j].inv < ops[i].ret && ops[i].inv < ops[j].ret) ops[i].overlapped = 1;
    }
    lc_t c = {m, ops, n, ctx, 0, max_nodes, NULL, 0, 0, check_final, order_out, NULL};
    c.states = malloc((size_t)(n + 2) * m->state_size);
    m->init(c.states, ctx);
    int r = dfs(&c, 0, 0);
    free(c.states);
    free(c.memo);
    return r;
}
