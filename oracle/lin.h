/* WGL linearizability checker with state memoisation (DESIGN 3.6).  Histories <= 64 ops. */
#ifndef VERIF_LIN_H
#define VERIF_LIN_H
#include <stdint.h>
#include <stddef.h>

#define LIN_MAX_OPS 64
#define LIN_MAX_ARGS 8

typedef struct lin_op {
    int thr, op;
    uint64_t inv, ret;          /* simcore global event stamps */
    long arg[LIN_MAX_ARGS];
    int narg;
    long res;
    int overlapped;             /* filled by lin_check: overlaps some other op in real time */
} lin_op_t;

typedef struct lin_model {
    size_t state_size;
    void (*init)(void *state, void *ctx);
    /* 1 if op (with its recorded result) is legal in state; mutates state accordingly */
    int (*apply)(void *state, const lin_op_t *op, void *ctx);
    uint64_t (*hash)(const void *state, void *ctx);
} lin_model_t;

/* returns 1 linearizable, 0 not linearizable, -1 node budget exhausted.
 * If final_state != NULL and result is 1 with check_final != NULL, a linearization is only
 * accepted when check_final(state) is true (lets the harness match the observed final content). */
int lin_check(const lin_model_t *m, lin_op_t *ops, int n, void *ctx, long max_nodes,
              int (*check_final)(const void *state, void *ctx), int *order_out);
#endif
