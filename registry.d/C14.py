REGISTRY["C14"] = l2("C14", "ce", ["harness/l2/ce_driver.c"], ["harness/l2/ce.c"], 4,
    real=["parsec/parsec_mpi_funnelled.c and parsec/parsec_comm_engine.c, instrumented, one private copy per simulated rank "
          "(tag registration, persistent receive pools and tested window, dynamic request FIFOs, put/get handshake and data-tag allocation, progress, fini), "
          "with the mempool / list / MCA-parameter code they use",
          "harness/l2/ce_driver.c (rankified with the library): the single funnelled thread of each rank; brings the engine up the way "
          "remote_dep_dequeue_init/_main do (parsec_comm_engine_init + tag_register + enable) without parsec_init"],
    bounds="2-4 ranks, 1-3 user tags (maximum lengths 1..65536), 3-90 ops per run: send_am of 0..max bytes (bursts of up to 30 to one peer and tag), "
           "put/get of 0 B..4 MiB (biased small, at most two above 256 KiB) between contiguous / vector / indexed layouts (1-3 instances, independent on both sides), "
           "issued from the plan loop, from inside an AM callback or deferred until can_serve, interleaved with progress calls and pauses; "
           "runtime_comm_mpi_am_posted_requests in {1,2,3,5,default}, am_tested 1..posted, dynamic in {1,2,3,5,8,default}, dynamic_recv 1..dynamic, mpi_tag_ub in {default,1,2,3,5,8} "
           "(data-tag roll-over), comm_mpi_overtake on/off; network latency/jitter/heavy tail/slow links, eager limit 0/64/64k/huge, partial and lagging Testsome, late send completion. "
           "Client discipline: tags registered before enable, one tag counter per data flow (put-only, get-only or lower-rank-initiates runs), a data tag is reused only after its "
           "previous transfer completed on both sides, get-only runs keep dynamic_recv < dynamic",
    quick=(100, 100000), thorough=(1500, 10000000),
    knobs=[])
