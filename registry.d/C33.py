REGISTRY["C33"] = l0("C33", "c33_rwlock",
    real=["parsec/class/parsec_rwlock.c (configured implementation PARSEC_RWLOCK_IMPL = phase-fair ticket lock; out of line, instrumented)",
          "parsec/class/parsec_rwlock.h (PARSEC_RWLOCK_UNLOCKED static initialiser, via instrumented shim)"],
    bounds="2-6 sim-threads, <= 30 complete rdlock/wrlock cycles on 1-2 locks, hold = nothing/yield/simulated sleep <= 3 us; "
           "occupancy-counter exclusion oracle; progress oracle = nobody inside/releasing + all others finished + no acquisition for 60000 scheduling points (thread stalls off)",
    assumptions=["C33 progress verdict relies on scheduler fairness among spinning waiters (forced decision at every second poll); thread-stall injection is disabled for this harness",
                 "C33 checks only the configured rwlock implementation (PARSEC_RWLOCK_IMPL), not the three alternatives in the same file"])
