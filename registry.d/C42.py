REGISTRY["C42"] = l0("C42", "c42_profiling",
    real=["parsec/profiling.c (compiled from the tree under test with -DPARSEC_PROF_TRACE, PARSEC_PROFILING_USE_MMAP and PARSEC_PROFILING_USE_HELPER_THREAD through harness/l0/c42_profiling_src.c; "
          "buffered event writer, per-stream buffer free lists, mmap file back-end, I/O helper thread, dictionary / global-info / thread sections, header)",
          "parsec/parsec_binary_profile.h", "tools/profiling/dbpreader.c + dbpreader.h (through harness/l0/c42_dbpreader_src.c: dbp_reader_open_files, dictionary / info / thread accessors, event iterators)",
          "parsec/class/list.c, parsec/class/parsec_object.c, parsec/utils/mca_param.c (profile_buffer_pages / profile_file_resize set through PARSEC_MCA_*)",
          "the file itself: real open / ftruncate / mmap / munmap / close on a per-worker file under --out (<= ~1 MB sparse, removed after each run)"],
    bounds="1-6 tracer sim-threads (one stream each) + the helper thread; 1-5 event classes (info length 0 .. buffer-25, lengths that fill a buffer exactly or miss by one, convertor NULL .. 1500 chars), "
           "0-5 of them registered by tracer 0 while the others trace; 2-50 tracing operations of 1-64 events (<= 6000 events per stream) through trace_flags / trace_flags_info_fn / the implicit-stream variants, "
           "random event ids, taskpool ids and flags; buffers of 1 or 2 pages, file_resize 1-4; 0-5 global infos with values of 0 .. 9000 bytes (across buffers), 0-3 infos per stream; "
           "dump through dbp_dump or fini; no I/O faults; every run in a forked child (parsec_profiling_init is once per process)",
    extra_instr=["harness/l0/c42_profiling_src.c", "harness/l0/c42_dbpreader_src.c"],
    defines=["-DPARSEC_PROF_TRACE"],
    libs=["-L/usr/lib/x86_64-linux-gnu/openmpi/lib", "-lmpi"],     # utils/mca_param.c drags most of libparsec in; MPI is never initialised
    quick=(60, 200000), thorough=(900, 20000000),
    knobs_cli=_os.environ.get("C42_KNOBS", "").split())     # e.g. C42_KNOBS="sinfo_big=1" ./check C42: a stream info larger than a buffer
