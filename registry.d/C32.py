REGISTRY["C32"] = l0("C32", "c32_hash",
    real=["parsec/class/parsec_hash_table.c (locked API, lock_bucket/nolock_*/unlock_bucket with and without handles, resize, old-table migration, for_all)",
          "parsec/class/parsec_rwlock.c (ticket rwlock)", "parsec/utils/mca_param.c (resize hints set through parsec_mca_param_set_int, as tests/class/hash.c does)"],
    bounds="2-4 sim-threads, <= 30 plan operations (<= 60 recorded calls), <= 16 keys partitioned among threads for insert/remove, any thread finds any key; "
           "1-3 initial bits, max_collisions_hint 1-4, max_table_nb_bits 9-10, four key-hash modes (identity, pairwise colliding, 3 hash values, constant); "
           "WGL linearizability against a unique-key map + quiescent for_all/drain conservation")
