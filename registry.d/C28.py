REGISTRY["C28"] = l0("C28", "c28_zone",
    real=["parsec/utils/zone_malloc.c", "parsec/class/parsec_rbtree.c", "parsec/class/list.h + lifo.h (as inlined into zone_malloc.c)", "parsec/class/parsec_object.c"],
    bounds="1-4 sim-threads (25% sequential), zones of 4-64 units, unit 1/8/64/512 bytes, 6-48 malloc/free operations, "
           "requests of 1..units units, cross-thread frees; failures judged post hoc against possibly-allocated blocks, "
           "best fit judged on calls that overlap nothing, structure + free index walked whenever the zone lock is free")
