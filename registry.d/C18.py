def _typed_prebuild(spec):
    from build import typed as _t
    return _t.prebuild(spec)

REGISTRY["C18"] = l2("C18", "typed", ["harness/l2/typed_driver.c"], ["harness/l2/typed.c"], 4,
    real=["ptgpp (the real PTG compiler: jdf.c, jdf2c.c, parsec.y) run on the typed-flow JDF programs of gen/typed/gen.py ([type = ..], [type_remote = ..] on output and input dependencies, NEW [type = ..])",
          "the generated data_lookup / iterate_successors / release_deps code with its reshape calls, instrumented",
          "all of libparsec, instrumented: parsec_reshape.c (reshape promises on predecessor / successor repositories, nested futures, inline reshape), class/parsec_datacopy_future.c, "
          "remote_dep_mpi.c (typed send, typed / packed reception, reshape on reception, reshape shifted to the communication thread or done in place), parsec_mpi_funnelled.c (parsec_mpi_sendrecv = the datatype conversion), "
          "arena.c, datarepo.c, data.c, data_dist/matrix/matrixtypes.c (parsec_matrix_define_triangle etc.), scheduling.c, scheduler modules, termdet",
          "harness/l2/typed_driver.c (rankified with the library and the generated code, one copy per simulated rank; creates the arena datatypes as tests/collections/reshape does)"],
    bounds="2 table-driven programs (producer owning the collection tile / producer flow from NEW [type = FULL]), each: producer P(k) fanning out on one flow to 8 first-level consumer classes "
           "(untyped, [type] on both sides / output only / input only, [type_remote], both with differing shapes, two classes sharing the sender's remote type but receiving with another datatype) "
           "and to a late reader R(k) of the original; 4-5 second-level consumer classes chained behind first-level ones; datatypes full tile (DEFAULT and a second full-tile datatype), "
           "lower / upper triangle with diagonal, a second lower datatype, upper without diagonal; per run: which classes exist, for which tiles (range), on which rank (affinity shift), which RW consumers scribble; "
           "tiles N x N of 8 bytes, N = 2..6, 1-6 tiles, 1-4 ranks x 1-4 threads, 11 schedulers, comm_coll_bcast in {default,0,1,2}, short_limit in {default 1 KiB, 0, 100, 300}, aggregate, "
           "comm_thread_multiple in {default, 0 (reshape on the communication thread), 1}, network latency/jitter/heavy tail/eager limit/partial+lagging Testsome/late send completion. "
           "Excluded as documented unsupported (tests/collections/reshape/testing_remote_multiple_outs_same_pred_flow.c): one flow instance sending two datatypes to one remote rank with short messages on "
           "(short messages are switched off for such plans). Not generated: dependencies whose two sides name different shapes (lower -> upper permutations), typed reads/writes of the collection ([type_data]). "
           "Plan shapes that used to fail on the pinned tree and are ordinary plans since the fixes e541dd0 / 95e4216: consumers on the producer's rank under differing [type = ..] on one flow instance "
           "(mixed local types), packed reception next to another output of the same flow instance on one rank. Shape '+differing-dest-sets-chain' (15% of the plans) is the open finding "
           "KF-PTG-CHAIN-BCAST-DIFFERING-SETS; other plans replace the chain/default broadcast topology by star/binomial when destination sets differ",
    # C18_KNOBS="shapes=<mask>" forces the shape mask (1 mixed local types, 2 differing destination sets under chain broadcast, 4 packed reception next to another output)
    quick=(120, 200000), thorough=(1800, 20000000), knobs=_os.environ.get("C18_KNOBS", "").split(), prebuild=_typed_prebuild)
