import os as _os_c10
REGISTRY["C10"] = l0("C10", "c10_termdet",
    real=["parsec/mca/termdet/local/termdet_local_module.c (all load/ready/state entry points, through tp->tdm.module)",
          "parsec/parsec.c (parsec_taskpool_t object class)", "parsec/class/parsec_object.c"],
    bounds="2-4 sim-threads, <= 14 operations per thread on one bare taskpool: addto_nb_tasks/addto_runtime_actions (+1..3 / -1..2), "
           "set_nb_tasks/set_runtime_actions (0..3, only when exclusive), token hand-off through a pool, one ready at a random point, "
           "taskpool_state polls; token-disciplined (legal) clients only",
    libs=["-L/usr/lib/x86_64-linux-gnu/openmpi/lib", "-lmpi"],
    # VERIF_C10_NO_OVERLAP=1 forces knob overlap=0 (ready only at a moment when no earlier load operation is
    # in flight): excludes the scenario of finding "stale-zero-termination" so that sensitivity runs can
    # look for other violations.  Default: scenario included.
    knobs_cli=(["overlap=0"] if _os_c10.environ.get("VERIF_C10_NO_OVERLAP") else []))
