MAT_REAL = ["all of libparsec, instrumented: data_dist/matrix/redistribute/{redistribute_wrapper.c, redistribute.jdf, redistribute_reshuffle.jdf} and data_dist/matrix/{apply.jdf, apply_wrapper.c, "
            "map_operator.c, reduce*.jdf, reduce_wrapper.c} as compiled by the real ptgpp in the pipeline's cmake build, the matrix collections (two_dim_rectangle_cyclic, sbc, two_dim_tabular, "
            "sym_two_dim_rectangle_cyclic), scheduling.c, scheduler modules, remote_dep*.c, parsec_mpi_funnelled.c, arena.c, datarepo.c, termdet modules",
            "harness/l2/mat_driver.c (rankified with the library, one copy per simulated rank; only calls public entry points)"]
REGISTRY["C21"] = l2("C21", "mat", ["harness/l2/mat_driver.c"], ["harness/l2/mat.c"], 4, MAT_REAL,
    "1-4 ranks x 1-4 worker threads, 11 schedulers; source and target PARSEC_MATRIX_DOUBLE (redistribute_internal.h fixes DTYPE to double) of 1x1..12x12 elements in tiles of 1..5 x 1..5 "
    "(partial last tiles, tile sizes equal in ~45% of the runs so that the reshuffle path is reachable), distributions 2D block-cyclic (every P x Q grid, k-cyclicity 1-3, grid origin), "
    "SBC (upper/lower, 1-3 ranks) and tabular; 1-2 calls of parsec_redistribute / parsec_redistribute_New+free per run with a random window (size, source and target displacements, "
    "aligned or not, 10% reaching into the stored padding of the last tiles, windows an SBC matrix does not store must be refused); comm knobs coll_bcast/short_limit/aggregate/thread_multiple, "
    "simulated network adversities. Oracle: every target tile published by its owner after each call == reference copy of the window, all other elements (incl. tile padding) keep their sentinel, source unchanged",
    knobs=["prop=21"])
