# `red` selects the reductions that are generated: bit 0 = the reduce.jdf tree (parsec_reduce_new, odd MT only), bit 1 = parsec_reduce_col_New, bit 2 = parsec_reduce_row_New.
# The column/row reductions of this tree never invoke the operator and index src/dest out of range (see the report of the harness author): they are only generated on request (--knob red=7).
REGISTRY["C22"] = l2("C22", "mat", ["harness/l2/mat_driver.c"], ["harness/l2/mat.c"], 4, MAT_REAL,
    "1-4 ranks x 1-4 worker threads, 11 schedulers; matrix of int or double tiles, 1-6 x 1-6 tiles of 1..5 x 1..5 elements (non-square grids, partial last tiles), distributions 2D block-cyclic "
    "(grids, k-cyclicity, origin), tabular, sym. block-cyclic and SBC (apply on the stored triangle only); 1-3 operations per run out of parsec_apply / parsec_apply_New+Destruct (full, upper, lower), "
    "parsec_map_operator_New (dest NULL / dest == src / aligned second matrix) and the reduce.jdf tree. Oracle: the test-owned operator is invoked exactly once per tile of the region, on the owner rank, "
    "with the tile's own memory, the caller's op_args and the documented uplo argument, never outside the region or outside the call; matrix contents after each operation == sequential model",
    knobs=["prop=22"])
