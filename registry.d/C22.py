# knobs of harness/l2/mat.c that matter for C22 (defaults are what this registration runs):
#  red (default 1): reductions that are generated; bit 0 = the reduce.jdf tree (parsec_reduce_new, only in the shape whose tile references are all legal: MT odd,
#      tile column 0 on one rank), bit 1 = parsec_reduce_col_New, bit 2 = parsec_reduce_row_New.  The reductions of this tree are stubs (the operator is never invoked,
#      the column/row variants index src and dest out of range), so bits 1 and 2 are only generated on request (--knob red=6/7) and then report
#      reduce-operator-never-called / reduce-wrong-result / crash.
#  mapempty (default 1): 0 drops parsec_map_operator calls on matrices of which some rank owns no tile.  With the default the check reports the genuine defect
#      "parsec_map_operator never terminates on a rank that owns no tile" (class no-progress, detail tag [map-operator-on-tileless-rank]); a known_findings.json entry
#      keyed on that tag turns it into a KNOWN-FINDING line.
# MAT_REAL is defined in registry.d/C21.py (fragments are executed in sorted order).
REGISTRY["C22"] = l2("C22", "mat", ["harness/l2/mat_driver.c"], ["harness/l2/mat.c"], 4, MAT_REAL,
    "1-4 ranks x 1-4 worker threads, 11 schedulers; matrix of int or double tiles, 1-6 x 1-6 tiles of 1..5 x 1..5 elements (non-square grids, partial last tiles), distributions 2D block-cyclic "
    "(grids, k-cyclicity, origin), tabular, sym. block-cyclic and SBC (apply on the stored triangle only); 1-3 operations per run out of parsec_apply / parsec_apply_New+Destruct (full, upper, lower), "
    "parsec_map_operator_New (dest NULL / dest == src / aligned second matrix) and the reduce.jdf tree. Oracle: the test-owned operator is invoked exactly once per tile of the region, on the owner rank, "
    "with the tile's own memory, the caller's op_args and the documented uplo argument, never outside the region or outside the call; matrix contents after each operation == sequential model",
    knobs=["prop=22"])
