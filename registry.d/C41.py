REGISTRY["C41"] = l0("C41", "c41_info",
    real=["parsec/class/info.c (register/unregister/lookup, object arrays, resize under the rwlock, set/get/test_and_set, constructor/destructor callbacks)",
          "parsec/class/list.h (locked list, inlined into info.c)", "parsec/class/parsec_rwlock.c (ticket rwlock)"],
    bounds="2-4 sim-threads, <= 40 operations, <= 8 info names (each owned by one thread for register/unregister, pinned while another thread uses its id), "
           "1-3 shared + one private object array per thread, 0-3 names registered before the arrays exist; "
           "WGL linearizability against registry (name -> distinct id) + per-slot register/CAS model with constructor/destructor accounting; one forked process per run",
    quick=(90, 400000))   # one forked process per run (crashes are verdicts here): ~5x slower than in-process, so a longer quick tier
