SCHED_REAL = ["parsec_init / parsec_fini (real start-up: parsec_set_scheduler -> module.install, __parsec_thread_init -> module.flow_init on every stream; the context is never started, PaRSEC's workers stay parked in the context barrier)",
              "parsec/scheduling.c (__parsec_schedule, __parsec_schedule_vp incl. next_task retention, __parsec_schedule_flush_private), instrumented",
              "parsec/mca/sched/{ap,gd,ip,lfq,lhq,ll,llp,ltq,pbq,rnd,spq}/sched_*_module.c selected through the MCA parameter mca_sched, parsec/hbbuffer.c, parsec/maxheap.c, "
              "parsec/class/{lifo,list,dequeue}.h, parsec/mempool.c (fake tasks are real parsec_task_t objects from the VP's task mempool), instrumented",
              "harness/l2/sched_driver.c (rankified with the library; client threads adopt the real execution streams; literal copy of the static inline __parsec_get_next_task)"]
REGISTRY["C08"] = l2("C08", "sched", ["harness/l2/sched_driver.c"], ["harness/l2/sched.c"], 1, SCHED_REAL,
    "11 scheduler modules; 1-16 execution streams in 1 VP (flat vpmap, 3 synthetic topologies) or 2 VPs (vpmap hwloc over a 2-package synthetic machine, 1-8 + 1-8 streams; "
    "vpmap rr:n:p:c and file: are unusable in this revision, see the harness report); 1-16 client threads (one per adopted stream) + optional communication-thread-style client; "
    "3-40 operations: schedule of a ring of 1-64 fake tasks (priorities from 1-200 values incl. negative, sorted or random ring order, distance 0-20) through module.schedule / "
    "__parsec_schedule on the own stream or on stream 0 of a VP, __parsec_schedule_vp(es | NULL) with per-VP rings and next_task retention (runtime_keep_highest_priority_task 0/1), "
    "select (module.select or the runtime's next_task-first rule), AGAIN-style reschedule at distance+1 with demoted priority, __parsec_schedule_flush_private, pauses; "
    "final quiescent drain over all streams until two empty rounds; <= 1536 tasks",
    knobs=["prop=8"])
