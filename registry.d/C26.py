def _dev_prebuild_c26(spec):
    from build import devbuild
    devbuild.prebuild(spec)

REGISTRY["C26"] = l2("C26", "dev", ["harness/l3/dev_driver.c", "sim/dev/simdev_parsec.c"], ["harness/l3/dev.c", "sim/dev/simdev.c"], 1,
    ["parsec/data.c: parsec_data_start/end_transfer_ownership_to_copy and parsec_data_transfer_ownership_to_copy, every call made by the real device layer (device_gpu.c stage-in / push completion) "
     "and by the DTD CPU submit path, observed through call-through monitors (private instrumented data.c with the three functions renamed, build/devbuild.py)",
     "the call sequences are produced by the real device_gpu.c / transfer_gpu.c / DTD over 1-3 simulated accelerators (engine of C43)"],
    "as C43 (same engine and workloads); coherence model checked at every call: at most one OWNED copy, transfer requested iff the target is not up to date (accesses that read), the source named holds the newest valid version, "
    "a write access makes the target the owner",
    knobs=["prop=26"] + _os.environ.get("DEV_KNOBS", "").split(), engine="simcore-L3", variant="Bdev", prebuild=_dev_prebuild_c26,
    stub=L2_STUB + ["accelerator back-end (sim/dev/simdev.c)"])
