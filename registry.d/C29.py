REGISTRY["C29"] = l0("C29", "c29_future",
    real=["parsec/class/parsec_future.c (base and countable futures; out of line, instrumented)",
          "parsec/class/parsec_datacopy_future.c (get_or_trigger, nested futures, destructor / cleanup; out of line, instrumented)",
          "parsec/class/parsec_future.h + parsec_object.h macros (via instrumented shim)", "parsec/class/parsec_list.c / list.h (nested-future list)"],
    bounds="1-8 sim-threads, <= 3 base + 2 countable (count 1-6) + 2 datacopy futures (1-4 shapes, synchronous / asynchronous / pre-set fulfilment), <= 40 ops "
           "(set/get/is_ready/get_or_trigger/complete); token discipline: one set per base future, or (30% of the plans, knob dup_set) 2-3 sets of distinct values by different threads on 3-6 base futures with dense preemption (the future must keep the first value for every reader and run its callback once), exactly count sets per countable future, one set per triggered datacopy future",
    assumptions=["C29 silences PaRSEC's diagnostic stream 0 (the benign 'already in a ready state' warning of a non-final countable set would otherwise print)",
                 "C29 get_or_trigger returning NULL is accepted whenever the target or any other nested future was incomplete at the call (library documents NULL = not fulfilled yet)"])
