REGISTRY["C27"] = l0("C27", "c27_arena",
    real=["parsec/arena.c (construct(_ex), allocate_device_private/get_chunk, release/release_chunk, destructor)",
          "parsec/data.c (data-copy destructor -> parsec_arena_release)", "parsec/mempool.c + mempool.h (via instrumented shim)",
          "parsec/class/lifo.h (as inlined into arena.c / mempool.c / shim)", "parsec/class/parsec_object.c"],
    bounds="2-4 sim-threads, 8-44 operations; arena: elem_size 1..1000, alignment 2..128, 1..4 elements per request, max_used in {unlimited,0..6}, "
           "max_released in {unlimited,0..3}, data_malloc refusing 1 request in 6, cross-thread release; mempool: 2-4 thread-mempools, "
           "payload 0..48 bytes, with/without object class, cross-thread free. parsec_arena_get_new_copy not driven (needs parsec_init)",
    libs=["-L/usr/lib/x86_64-linux-gnu/openmpi/lib", "-lmpi"])
