REGISTRY["C09"] = l2("C09", "sched", ["harness/l2/sched_driver.c"], ["harness/l2/sched.c"], 1, SCHED_REAL,
    "ap, ip, spq installed by a real parsec_init (context not started); 1-16 streams, 1-2 VPs; fill by 1-4 concurrent clients: 2-14 operations, rings of 1-64 tasks in sorted or random order, "
    "priorities from 1-200 values (mostly 1-4: many ties) incl. negative, distances 0-20 (ip: distance 0 only unless knob ip_dist=1, see harness header), schedules on the own stream or on stream 0 "
    "of a VP, selections and AGAIN-style reschedules at distance+1 during the fill; then ONE stream per VP drains with nobody else active; every returned task must be maximal among the "
    "pending tasks of its VP in the module's documented order (ties: ring order / order of non-overlapping calls; overlapping calls may tie either way; no tie rule for ip)",
    knobs=["prop=9"])
