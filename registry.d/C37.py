REGISTRY["C37"] = l2("C37", "c37_tpid", ["harness/l0/c37_tpid_shim.c"], ["harness/l0/c37_tpid.c"], 4,
    real=["parsec/parsec.c: parsec_taskpool_reserve_id / parsec_taskpool_register / parsec_taskpool_unregister / parsec_taskpool_lookup / "
          "parsec_taskpool_sync_ids(_context), taskpool_array growth, the spin lock of parsec/sys/atomic.h; instrumented, one private copy per simulated rank "
          "(rankified libparsec, no parsec_init: the registry statics need none)",
          "harness/l0/c37_tpid_shim.c (one call-through per registry operation, rankified with the library)"],
    bounds="component part (55% of the runs): 1 rank, 2-4 sim-threads; cluster part: 2-4 ranks x 1-3 sim-threads (<= 8 threads); 1-3 epochs of 3-16 operations "
           "(reserve incl. bulk reservations of up to 200, register, unregister, re-register, lookup of held / free / never-reserved identifiers), identifiers up to ~600 per rank "
           "(9 doublings of the array), epochs separated by a collective parsec_taskpool_sync_ids with concurrent lookups and, in half of the sync epochs, concurrent reserve / register / unregister by the other threads of the rank (the next-identifier comparison is skipped for an epoch with a concurrent reservation); MPI initialised or not (1 rank); "
           "per-identifier WGL linearizability + distinct identifiers + quiescent sweep of all identifiers + equal next identifier after sync; "
           "identifier 0 is only looked up with --knob id0=1",
    quick=(60, 200000), thorough=(900, 20000000), engine="simcore-L0+L2",
    knobs=_os.environ.get("C37_KNOBS", "").split())     # e.g. C37_KNOBS="id0=1" ./check C37: also look identifier 0 up (see the harness header)
