REGISTRY["C34"] = l0("C34", "c34_object",
    real=["parsec/class/parsec_object.h (parsec_obj_new, PARSEC_OBJ_CONSTRUCT, PARSEC_OBJ_RETAIN, PARSEC_OBJ_RELEASE, PARSEC_OBJ_DESTRUCT, inline parsec_obj_update and constructor/destructor chain walkers, via instrumented shim)",
          "parsec/class/parsec_object.c (parsec_class_initialize, parsec_obj_destruct, parsec_obj_destruct_and_free; instrumented)"],
    bounds="2-6 sim-threads, 1-3 initial + <= 5 created objects of two class families (all / sparse constructors+destructors) of depth 1-4, dynamic or caller-owned storage, "
           "<= 40 ops (new/retain/release/send/recv/use) under a token discipline with mailboxes; destructor log + token model + instantaneous reference-count bounds",
    assumptions=["C34 drives the inline (BUILDING_PARSEC) parsec_obj_update; the out-of-line copy parsec_obj_update_not_inline for external users is the same one-line fetch-add and is not driven",
                 "C34 class descriptors are initialised once per process before the first run (concurrent first use of a class is not explored)"])
