REGISTRY["C35"] = l0("C35", "c35_hbbuffer",
    real=["parsec/hbbuffer.c", "parsec/maxheap.c", "parsec/mca/sched/sched_local_queues_utils.h (overflow wrappers, via instrumented shim)",
          "parsec/class/dequeue.h + list.h (system queue = parent store, via instrumented shim)", "parsec/class/parsec_object.c"],
    bounds="1-4 sim-threads, <= 40 ops cut into quiescent segments; scenario tasks: 1-3 level-0 hbbuffers (+ optional shared level-1 "
           "buffer) of 1-8 slots over a system dequeue, <= 40 fake tasks, push_all / push_all_by_priority / pop_best / distances 0-2; "
           "scenario heaps (sched_ltq ownership protocol): one buffer of 1-8 slots per thread, heaps of 1-64 tasks built, split, "
           "stolen, popped and re-filled by their exclusive owner, <= 192 tasks; priorities from 1-6 values (ties) incl. negative")
