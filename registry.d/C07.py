REGISTRY["C07"] = l0("C07", "c07_deps",
    real=["parsec/parsec.c (parsec_update_deps_with_mask, parsec_update_deps_with_counter, parsec_check_IN_dependencies_with_mask/_with_counter, "
          "parsec_default_find_deps, parsec_hash_find_deps, parsec_release_local_OUT_dependencies)",
          "parsec/class/parsec_hash_table.c", "parsec/mempool.c", "parsec/class/lifo.h + list_item.h (inline, inside parsec.c)"],
    bounds="1-8 sim-threads, 1-5 instances of one synthetic task class with 1-7 input flows (data/ctl, guarded, from-collection, "
           "ctl gather 1-3, two deps on one ctl flow, write-only NEW), <= 12 releases per instance, mask and counter mode, "
           "index-array (1-2 levels) and hash-table (1-2 bits, collision hint 0-3, colliding hashes) dependency storage, "
           "update_deps called directly or through parsec_release_local_OUT_dependencies with private execution streams",
    libs=["-L/usr/lib/x86_64-linux-gnu/openmpi/lib", "-lmpi"])
