REGISTRY["C31"] = l0("C31", "c31_list",
    real=["parsec/class/list.h (inline, via instrumented shim: locked + nolock list, sorted insertion, mergesort)",
          "parsec/class/list_item.h (rings, ring_push_sorted)", "parsec/class/dequeue.h", "parsec/class/fifo.h",
          "parsec/class/parsec_list.c / parsec_dequeue.c / parsec_fifo.c (class constructors)", "parsec/class/parsec_object.c"],
    bounds="1-4 sim-threads on one list used as unsorted list / sorted list / dequeue / fifo; T>1: <= 22 ops, WGL linearizability "
           "against a sequence model (stable sorted insertion) + observed final content; T=1: <= 50 ops incl. nolock variants, "
           "add_before/after, nolock_remove, sort, model compared with the real list after every op; <= 48 items, priority "
           "domains of 1-4 values (many ties) at 5 offsets incl. negative and near INT_MAX; conservation",
    # concurrent sorts are generated (conc_sort: 40% of the multi-thread list plans; half of those run the real locked parsec_list_sort and are
    # judged for conservation, link integrity and final order only); C31_KNOBS="strict_sort=1" additionally demands a stable sort (not part of the property)
    knobs_cli=[k for k in __import__("os").environ.get("C31_KNOBS", "").split(",") if k])
