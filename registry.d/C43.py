def _dev_prebuild_c43(spec):
    from build import devbuild
    devbuild.prebuild(spec)

DEV_REAL = ["parsec/mca/device/device_gpu.c and transfer_gpu.c (never compiled in the baseline configuration), instrumented, built with -DPARSEC_HAVE_DEV_LEVEL_ZERO_SUPPORT (build/devbuild.py)",
            "parsec/interfaces/dtd/insert_function.c rebuilt with the same define (DTD GPU submit path), parsec/data.c (ownership transfers, called through monitors), "
            "parsec/mca/device/device.c (component discovery, parsec_select_best_device), parsec/utils/zone_malloc.c (device memory), scheduling.c, all the rest of libparsec",
            "harness/l3/dev_driver.c + sim/dev/simdev_parsec.c (MCA component device/simdev filling a parsec_device_gpu_module_t), rankified with the library"]
DEV_STUB = L2_STUB + ["accelerator back-end (sim/dev/simdev.c: device memory = host buffers managed by the real zone allocator, streams with seeded per-operation latencies, "
                      "copies performed at completion time, event query lag, kernels = harness closures run at completion time, freed device blocks poisoned)"]
DEV_BOUNDS = ("1 rank, 1-8 threads, 8 schedulers (ip/llp/ll excluded: KF-DTD-AGAIN-LIVELOCK), 1-3 simulated devices with 3-6 streams and 3-8 tiles of memory (allocation unit = 1 or 1/2 tile), "
              "2-8 tiles of 1-4 elements, 2-26 DTD insertions of 1-3 parameters (IN/OUT/INOUT) with CPU-only, accelerator-only or any-chore placement, PARSEC_PUSHOUT exactly where a later CPU consumer needs it "
              "(or everywhere), preferred-device advice, copy/kernel latency 0.2-200 us + heavy tail, event-query lag, peer access on/off, d2h_max_flows in {1,2,20}, skip_empty_events, sort_pending; "
              "no task completes before the last insertion (steers around KF-DTD-WAR-RACE), no tile twice in one task (KF-DTD-REPEATED-TILE)")
REGISTRY["C43"] = l2("C43", "dev", ["harness/l3/dev_driver.c", "sim/dev/simdev_parsec.c"], ["harness/l3/dev.c", "sim/dev/simdev.c"], 1, DEV_REAL, DEV_BOUNDS,
    knobs=["prop=43"], engine="simcore-L3", variant="Bdev", prebuild=_dev_prebuild_c43, stub=DEV_STUB)
