def _dev_prebuild_c43(spec):
    from build import devbuild
    devbuild.prebuild(spec)

DEV_REAL = ["parsec/mca/device/device_gpu.c and transfer_gpu.c (never compiled in the baseline configuration), instrumented, built with -DPARSEC_HAVE_DEV_LEVEL_ZERO_SUPPORT (build/devbuild.py)",
            "parsec/interfaces/dtd/insert_function.c rebuilt with the same define (DTD GPU submit path), parsec/data.c (ownership transfers, called through monitors), "
            "parsec/mca/device/device.c (component discovery, parsec_select_best_device), parsec/utils/zone_malloc.c (device memory), scheduling.c, all the rest of libparsec",
            "harness/l3/dev_driver.c + sim/dev/simdev_parsec.c (MCA component device/simdev filling a parsec_device_gpu_module_t), rankified with the library"]
DEV_STUB = L2_STUB + ["accelerator back-end (sim/dev/simdev.c: device memory = host buffers managed by the real zone allocator, streams with seeded per-operation latencies, "
                      "copies performed at completion time, event query lag, kernels = harness closures run at completion time, freed device blocks poisoned)"]
DEV_BOUNDS = ("1 rank, 1-8 threads, 7 schedulers (ip/llp/ll: KF-DTD-AGAIN-LIVELOCK; rnd: same retry livelock seen here with CPU-only plans), 1-3 simulated devices with 3-6 streams, "
              "2-8 tiles of 1-4 elements, 2-26 DTD insertions (+ token tasks) of 1-3 parameters (IN/OUT/INOUT) with CPU-only, accelerator-only or any-chore placement, PARSEC_PUSHOUT exactly where a later CPU consumer "
              "needs it (discipline of tests/dsl/dtd/dtd_test_new_tile.c) or everywhere, preferred-device advice, copy/kernel latency 0.2-200 us + heavy tail, event-query lag, peer access on/off, d2h_max_flows in {1,2,20}, "
              "skip_empty_events, sort_pending; allocation unit = 1 or 1/2 tile.  Plans are drawn from four sub-spaces that stay clear of the recorded accelerator-layer findings (sim/dev/NOTES.md): "
              "(1) accelerators read only, 1-3 devices, memory >= all tiles; (2) one device reading and writing, memory >= all tiles; (3) one device with 3-5 tiles of memory, two device-resident dirty tiles, accelerator tasks "
              "serialised through tile 0, LRU eviction of the streamed tiles; (4) 1-3 devices with 3-5 tiles of memory, accelerators read only and are serialised through a token tile, constant eviction and re-staging.  "
              "The full space is reachable with knob mode=0 (sim/dev/fullspace_check.py).  No task completes before the last insertion and every tile is first written by a CPU task (KF-DTD-WAR-RACE), no tile twice in one task (KF-DTD-REPEATED-TILE); "
              "flush_all after a first taskpool_wait, modes 3/4 with 2-4 threads, without spq and with at most one polling writer (KF-DTD-AGAIN-LIVELOCK family); step budget 120 M with the fair tail after 40 M")
REGISTRY["C43"] = l2("C43", "dev", ["harness/l3/dev_driver.c", "sim/dev/simdev_parsec.c"], ["harness/l3/dev.c", "sim/dev/simdev.c"], 1, DEV_REAL, DEV_BOUNDS,
    knobs=["prop=43"] + _os.environ.get("DEV_KNOBS", "").split(), engine="simcore-L3", variant="Bdev", prebuild=_dev_prebuild_c43, stub=DEV_STUB)
