REGISTRY["C25"] = l0("C25", "c25_datarepo",
    real=["parsec/datarepo.c", "parsec/class/parsec_hash_table.c (bucket locks, rwlock, resize)", "parsec/mempool.c + mempool.h + class/lifo.h (as inlined into datarepo.c)",
          "parsec/class/parsec_object.c"],
    bounds="2-4 sim-threads, 1-3 keys with 1-3 create/addto_usage_limit pairs each (0-3 uses per pair), 0-4 plain lookups, 0-8 retained bystander keys, "
           "2-16 initial buckets, resize threshold 1/2/16 (tables grow up to 128 buckets); private execution streams, no parsec_init; WGL linearizability (<= 64 calls) against the "
           "{retained, usagecnt, usagelmt} model + token-holder lookups + mempool free-list scan",
    libs=["-L/usr/lib/x86_64-linux-gnu/openmpi/lib", "-lmpi"])
