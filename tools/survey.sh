#!/bin/bash
# tools/survey.sh <exe> <nworkers> <seeds-per-worker> [harness args...]: class histogram of violations (keep-going)
H=$1; NW=$2; N=$3; shift 3
rm -rf /tmp/survey; mkdir -p /tmp/survey
for w in $(seq 0 $((NW-1))); do $H --seeds 70000 $N --stride $NW --offset $w --out /tmp/survey/w$w --samples 0 --keep-going "$@" > /tmp/survey/out$w.txt 2>/dev/null & done; wait
cat /tmp/survey/out*.txt | grep -a "^VIOL" | sed 's/.*class=\([^ ]*\) .*\(\[sched=[a-z]* \).*ranks=\([0-9]\).*/\1 ranks=\3/' | sort | uniq -c | sort -rn
cat /tmp/survey/out*.txt | grep -a "^AGG" | python3 -c "
import sys,json
r=o=v=b=0
for l in sys.stdin:
    a=json.loads(l[4:]); r+=a['runs'];o+=a['ok'];v+=a['violations'];b+=a['budget_hit']
print('runs',r,'ok',o,'viol',v,'budget',b)"
