#!/usr/bin/env python3
"""Regenerate MANIFEST.json from registry.py + notapplicable.py (keeps it valid at all times)."""
import json, os, sys
V = os.path.dirname(os.path.dirname(os.path.abspath(__file__)))
sys.path.insert(0, V)
from registry import REGISTRY
from notapplicable import NOT_APPLICABLE, NOT_BUILT

props = [json.loads(l)["id"] for l in open(os.path.join(V, "properties.jsonl"))]
# harnesses still under development / not yet validated are not claimed
PENDING = set(open(os.path.join(V, "pending.txt")).read().split()) if os.path.exists(os.path.join(V, "pending.txt")) else set()
for _p in PENDING:
    REGISTRY.pop(_p, None)
checks = []
for pid in props:
    if pid not in REGISTRY:
        continue
    s = REGISTRY[pid]
    checks.append({
        "property_id": pid,
        "quick_cmd": "./check %s --tier quick" % pid,
        "thorough_cmd": "./check %s --tier thorough" % pid,
        "evidence_file": "/verif/evidence/%s.json" % pid,
        "replay_cmd_template": "./check --replay {path}",
        "engine": s.get("engine", "simcore-L0"),
        "level_claimed": {"category": "exploration",
                          "text": s.get("level_text", "Seeded search over simulated schedules (and injected legal adversities) of the real code, judged by an executable reference model / history oracle; a clean batch is evidence, not proof."),
                          "design_ref": "DESIGN.md section 4, " + pid},
        "level_note": s.get("level_note", "Trusted base: simcore scheduler and tsan-hook instrumentation (sequentially consistent memory), the harness plan interpreter and oracle. Bounds: " + s.get("bounds", "")),
        "technique": s.get("technique", "deterministic simulation: seeded serialising scheduler over instrumented real code + reference-model oracle"),
    })
na = []
for pid in props:
    if pid in REGISTRY:
        continue
    if pid in NOT_APPLICABLE:
        na.append({"property_id": pid, "reason": NOT_APPLICABLE[pid]})
    else:
        na.append({"property_id": pid, "reason": NOT_BUILT.get(pid, "simulation engine for this property not built yet (DESIGN.md 3.11); not claimed")})
m = {"version": 1,
     "setup_cmd": "python3 tools/setup.py",
     "hooks": {"guard": "PARSEC_VERIF_SIM",
               "enable": "checks configure their own build tree /verif/_work/A with -DPARSEC_VERIF_SIM in CMAKE_C_FLAGS and recompile every libparsec source with tsan-style instrumentation; no hook commit exists in /repo (all seams are compile-time instrumentation or link-time --wrap)",
               "baseline_off_cmd": "cmake --build /repo/_build && ctest --test-dir /repo/_build -j8 --timeout 900",
               "source_commits": [], "add_only": True},
     "engines": [
         {"name": "simcore-L0", "path": "sim/core + harness/l0", "serves_properties": [p for p in props if p in REGISTRY and REGISTRY[p].get("engine", "simcore-L0") == "simcore-L0"],
          "kind_free_text": "component-level deterministic simulation: real component code (instrumented) driven by 1-8 simulated threads under a seeded scheduler"},
     ],
     "checks": checks,
     "notes": "See DESIGN.md. ./check <id> --tier quick|thorough ; ./check --replay <file>.",
     "not_applicable": na}
eng = {}
for pid in props:
    if pid in REGISTRY:
        eng.setdefault(REGISTRY[pid].get("engine", "simcore-L0"), []).append(pid)
ENG_DESC = {"simcore-L0": ("sim/core + harness/l0", "component-level deterministic simulation: real component code (instrumented) driven by 1-8 simulated threads under a seeded scheduler"),
            "simcore-L1": ("sim/core + sim/mpi (one rank) + harness/l2", "node-level deterministic simulation: the whole real runtime (one rank) under the seeded scheduler"),
            "simcore-L2": ("sim/core + sim/mpi + harness/l2", "cluster-level deterministic simulation: P rankified runtimes in one process over a simulated MPI network"),
            "simcore-L3": ("sim/core + sim/dev + harness/l3", "node-level simulation with a simulated accelerator back-end")}
m["engines"] = [{"name": k, "path": ENG_DESC.get(k, ("sim/core + sim/mpi + harness/l0 + harness/l2", ""))[0], "serves_properties": v, "kind_free_text": ENG_DESC.get(k, ("", "component-level part (one rank, several simulated threads) and cluster-level part (several rankified copies over the simulated network) in one harness"))[1]} for k, v in eng.items()]
json.dump(m, open(os.path.join(V, "MANIFEST.json"), "w"), indent=1)
print("checks:", len(checks), "not_applicable:", len(na))
