#!/bin/bash
# tools/final_pass.sh: run every claimed check's quick tier in /verif against /repo (two streams), rewriting evidence/*.json
cd /verif
ids=$(python3 -c "import json; print(' '.join(c['property_id'] for c in json.load(open('MANIFEST.json'))['checks']))")
a=""; b=""; i=0
for p in $ids; do if [ $((i%2)) = 0 ]; then a="$a $p"; else b="$b $p"; fi; i=$((i+1)); done
rm -f _work/sweep/summary_quick.txt
(VERIF_WORKERS=8 tools/sweep.sh quick $a) &
(VERIF_WORKERS=8 tools/sweep.sh quick $b) &
wait
echo "final pass done" >> _work/sweep/summary_quick.txt
