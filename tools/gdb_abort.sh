#!/bin/bash
# usage: tools/gdb_abort.sh <harness-exe> <plan> <seed> [extra harness args]: backtraces of all sim threads at abnormal end
H=$1; PLAN=$2; SEED=$3; shift 3
cat > /tmp/gdbcmds.$$ <<EOG
set pagination off
set follow-fork-mode child
set detach-on-fork on
break on_abort
run
thread apply all bt 14
quit
EOG
VERIF_ASLR_DONE=1 timeout 600 gdb -q -batch -x /tmp/gdbcmds.$$ --args $H --plan $PLAN --seed $SEED --out /tmp/o "$@" 2>&1 | grep -v "^\[New\|^\[Thread\|warning\|libthread_db\|^\[Attach\|^\[Detach\|^\[Inferior"
rm -f /tmp/gdbcmds.$$
