#!/bin/bash
# tools/sweep.sh <tier> <prop>...: run the given checks one after the other, logs under _work/sweep/
tier=$1; shift
mkdir -p /verif/_work/sweep
for p in "$@"; do
  /verif/check $p --tier $tier > /verif/_work/sweep/${p}_$tier.log 2>&1
  echo "$p rc=$? $(grep -a '\[check\] .* '$tier':' /verif/_work/sweep/${p}_$tier.log | tail -1)" >> /verif/_work/sweep/summary_$tier.txt
done
