#!/usr/bin/env python3
"""tools/minimise_case.py <Cxx> <plan-file> <seed> <class> [knob=val ...]: run the minimiser on one case, print result"""
import sys, os, json
V = os.path.dirname(os.path.dirname(os.path.abspath(__file__)))
sys.path.insert(0, V)
g = {'__file__': os.path.join(V, 'check'), '__name__': 'checkmod'}
exec(compile(open(os.path.join(V, 'check')).read(), os.path.join(V, 'check'), 'exec'), g)
prop, plan, seed, vclass = sys.argv[1], sys.argv[2], int(sys.argv[3]), sys.argv[4]
knobs = sys.argv[5:]
spec = g['REGISTRY'][prop]
exe = g['build_for'](spec)
v = {"seed": seed, "class": vclass, "plan": plan, "trace": "/nonexistent", "detail": ""}
wd = "/tmp/min_%d" % os.getpid()
m, err = g['minimise'](exe, v, wd, knobs=knobs)
if m is None:
    print("FAILED:", err); sys.exit(1)
print("seed", m["seed"], "class", m["class"])
print("\n".join(m["plan"]))
print("trace entries:", None if m["trace"] is None else len(m["trace"]))
json.dump(m, open("/tmp/minimised.json", "w"), indent=1)
