#!/usr/bin/env python3
"""MANIFEST.setup_cmd: build the shared pipeline once (plain build A + instrumented objects B)."""
import os, sys
V = os.path.dirname(os.path.dirname(os.path.abspath(__file__)))
sys.path.insert(0, V)
from build import pipeline as P
P.ensure()
print("setup ok")
