#!/usr/bin/env python3
"""tools/mutcamp.py <mutants.json> <tag> [--only id,...] [--tier quick]

Mutation campaign: plants each mutant (one at a time) in a scratch worktree of /repo
(/tmp/wt_<tag>, build output /tmp/work_<tag>; both are created here and must be removed by
the caller with `tools/mutcamp.py --clean <tag>`), runs the listed checks against it and
records whether each check reported a VIOLATION.  Never touches /repo's working tree.

mutants.json: [{"id": "m1", "file": "parsec/class/lifo.h", "old": "...", "new": "...",
                "props": ["C30"], "note": "why this breaks the property", "count": 1}, ...]
`old` must occur exactly `count` (default 1) times in the file.
Results are appended to <mutants>.results.jsonl (one line per mutant x property).
"""
import json, os, subprocess, sys, time, re

V = os.path.dirname(os.path.dirname(os.path.abspath(__file__)))


def sh(cmd, **kw):
    return subprocess.run(cmd, shell=True, text=True, capture_output=True, **kw)


def main():
    if sys.argv[1] == "--clean":
        tag = sys.argv[2]
        sh("git -C /repo worktree remove --force /tmp/wt_%s; rm -rf /tmp/wt_%s /tmp/work_%s; git -C /repo worktree prune" % (tag, tag, tag))
        return 0
    mfile, tag = sys.argv[1], sys.argv[2]
    only = None
    tier = "quick"
    for i, a in enumerate(sys.argv):
        if a == "--only": only = set(sys.argv[i + 1].split(","))
        if a == "--tier": tier = sys.argv[i + 1]
    wt, work = "/tmp/wt_" + tag, "/tmp/work_" + tag
    if not os.path.isdir(wt):
        r = sh("git -C /repo worktree add --detach %s HEAD" % wt)
        if r.returncode: print(r.stderr); return 2
    # the worktree follows /repo's committed HEAD plus /repo's uncommitted changes
    sh("git -C %s checkout -q -- . && git -C %s checkout -q --detach $(git -C /repo rev-parse HEAD)" % (wt, wt))
    d = sh("git -C /repo diff").stdout
    base_patch = None
    if d.strip():
        base_patch = "/tmp/work_%s.base.diff" % tag
        open(base_patch, "w").write(d)
    env = dict(os.environ, VERIF_REPO=wt, VERIF_WORK=work)
    env.setdefault("VERIF_WORKERS", "6")
    muts = json.load(open(mfile))
    out = open(mfile + ".results.jsonl", "a")
    for m in muts:
        if only and m["id"] not in only: continue
        sh("git -C %s checkout -q -- ." % wt)
        if base_patch: sh("git -C %s apply %s" % (wt, base_patch))
        p = os.path.join(wt, m["file"])
        s = open(p).read()
        cnt = s.count(m["old"])
        if cnt != m.get("count", 1):
            print("MUTANT %s: pattern occurs %d times in %s (expected %d): skipped" % (m["id"], cnt, m["file"], m.get("count", 1)), flush=True)
            out.write(json.dumps({"id": m["id"], "error": "pattern count %d" % cnt}) + "\n"); out.flush()
            continue
        open(p, "w").write(s.replace(m["old"], m["new"]))
        for prop in m["props"]:
            t0 = time.time()
            r = subprocess.run([os.path.join(V, "check"), prop, "--tier", tier], env=env, text=True, capture_output=True, cwd=V)
            txt = r.stdout + r.stderr
            viol = re.findall(r"VIOLATION property=\S+ replay=\S+", txt)
            cls = re.findall(r"^\s+class=(\S+) seed=\d+ ops=(\d+) trace_entries=(\S+)", txt, re.M)
            kf = len(re.findall(r"^KNOWN-FINDING", txt, re.M))
            summ = re.findall(r"\[check\] \S+ \S+: (runs=.*)", txt)
            res = {"id": m["id"], "prop": prop, "rc": r.returncode, "detected": bool(viol) and r.returncode == 1,
                   "class": cls[0][0] if cls else None, "ops": cls[0][1] if cls else None, "known_finding_lines": kf,
                   "summary": summ[-1] if summ else None, "wall": round(time.time() - t0, 1), "note": m.get("note", "")}
            if r.returncode not in (0, 1):
                res["tail"] = txt[-1500:]
            print("MUTANT %s %s: %s rc=%d class=%s %s" % (m["id"], prop, "DETECTED" if res["detected"] else "missed", r.returncode, res["class"], res["summary"]), flush=True)
            out.write(json.dumps(res) + "\n"); out.flush()
    sh("git -C %s checkout -q -- ." % wt)
    return 0


if __name__ == "__main__":
    sys.exit(main())
