#!/bin/bash
# tools/verify_seed.sh <Cxx>: re-verify a seeded change in its scratch worktree /tmp/seed_<id>:
#   with the patch: builds, stable tests still pass, demonstration FAILS; without: demonstration PASSES
id=$1; W=/tmp/seed_$id; O=/tmp/seed_out/$id
set -o pipefail
cd $W || exit 2
git checkout -q -- . ; git apply $O/patch.diff || { echo "patch does not apply"; exit 2; }
cmake --build _build -j12 2>&1 | tail -1
echo "--- demo WITH change:"; (cd $O && timeout 900 bash ./build_and_run.sh $W > $O/verify_with.log 2>&1; echo "rc=$?" | tee -a $O/verify_with.log); tail -3 $O/verify_with.log
echo "--- ctest WITH change:"; ctest --test-dir _build -j${CTEST_J:-4} -E task_generation --timeout 3600 --output-junit /tmp/junit_$id.xml > /dev/null 2>&1
[ -n "$WITH_TG" ] && { ctest --test-dir _build -R task_generation --timeout 3600 2>&1 | grep -a "tests passed\|Failed\|Passed"; }
python3 - $id <<'PY'
import json,sys
import xml.etree.ElementTree as ET
b=json.load(open('/root/.vp/BASELINE.json'))
stable=set(x.split('::')[0] for x in b['stable_pass'])
res={tc.get('name'):tc.get('status') for tc in ET.parse('/tmp/junit_%s.xml'%sys.argv[1]).getroot().iter('testcase')}
bad=[n for n in stable if res.get(n)!='run' and 'task_generation' not in n]
print("stable tests not passing with the change:", bad)
PY
git checkout -q -- . ; cmake --build _build -j12 2>&1 | tail -1
echo "--- demo WITHOUT change:"; (cd $O && timeout 900 bash ./build_and_run.sh $W > $O/verify_without.log 2>&1; echo "rc=$?" | tee -a $O/verify_without.log); tail -3 $O/verify_without.log
