#!/bin/bash
# tools/try_seed.sh <seed-dir-or-id> <Cxx>...: apply a seeded change to /repo, run the quick checks, undo it.
S=$1; shift
[ -d "$S" ] || S=/tmp/seed_out/$S
git -C /repo apply $S/patch.diff || { echo "patch does not apply"; exit 2; }
for p in "$@"; do VERIF_WORKERS=${VERIF_WORKERS:-16} ./check $p --tier quick 2>&1 | grep -a "VIOLATION\|  class\|quick:\|KNOWN" | cut -c1-300; done
git -C /repo checkout -- .
git -C /repo status --short | grep -v "_build" | head -3
