#!/bin/bash
# tools/try_seed_wt.sh <seed-dir-or-id> <Cxx>...: apply a seeded change in a scratch worktree of /repo (never /repo itself),
# (SEED_TAG=<tag> gives a private worktree /tmp/wt_<tag> so that several seeds can be tried at once)
# run the quick checks against it (VERIF_REPO/VERIF_WORK), undo it.  Remove with: tools/mutcamp.py --clean seedwt
S=$1; shift
[ -d "$S" ] || S=/tmp/seed_out/$S
TAG=${SEED_TAG:-seedwt}
W=/tmp/wt_$TAG
[ -d $W ] || git -C /repo worktree add --detach $W HEAD -q
git -C $W checkout -q -- . ; git -C $W checkout -q --detach $(git -C /repo rev-parse HEAD)
git -C $W apply $S/patch.diff || { echo "patch does not apply"; exit 2; }
export VERIF_REPO=$W VERIF_WORK=/tmp/work_$TAG
for p in "$@"; do VERIF_WORKERS=${VERIF_WORKERS:-6} /verif/check $p --tier quick 2>&1 | grep -a "VIOLATION\|  class\|quick:\|KNOWN\|FAILED\|rror" | cut -c1-300; done
git -C $W checkout -q -- .
