#!/bin/bash
# tools/seed_pipeline.sh <Cxx> <check-id>...: for a delivered seeded change /tmp/seed_out/<Cxx> run, side by side,
#  (a) tools/verify_seed.sh (agent's worktree /tmp/seed_<Cxx>: builds, stable tests pass, demonstration fails with / passes without)
#  (b) tools/try_seed_wt.sh (private scratch worktree /tmp/wt_s<Cxx>: our quick checks against the change)
# Logs: /tmp/seed_out/<Cxx>/verify.log and try.log
id=$1; shift
O=/tmp/seed_out/$id
( /verif/tools/verify_seed.sh $id > $O/verify.log 2>&1 ) &
( SEED_TAG=s$id VERIF_WORKERS=${VERIF_WORKERS:-5} /verif/tools/try_seed_wt.sh $id "$@" > $O/try.log 2>&1 ) &
wait
echo "=== $id verify"; grep -a "rc=\|stable tests\|does not apply" $O/verify.log
echo "=== $id try"; cat $O/try.log
