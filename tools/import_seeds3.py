#!/usr/bin/env python3
"""tools/import_seeds3.py: copy the third round of blind seeded changes from /tmp/seed_out/<id> into /verif/seeded/<id>
(patch.diff, demonstration, build_and_run.sh, NOTES.md) and write meta.json from the pipeline logs (verify.log / try.log)."""
import json, os, re, shutil, sys

META = {
 "C13": ("C13", "parsec_remote_dep_activate: the per-output initialisation `my_idx = (root == my_rank) ? 0 : -1` is hoisted out of the output loop, so a relay keeps its position from an earlier output and forwards later outputs to ranks that another relay also serves (activated twice)",
         ">= 2 outputs with different destination rank sets, chain or binomial topology, >= 4 processes"),
 "C37": ("C37", "parsec_taskpool_sync_ids_context drops the registry lock around MPI_Allreduce and writes back the stale array position / size afterwards",
         "another thread of the process reserving / registering a taskpool while the collective is in flight"),
 "C26": ("C26", "parsec_data_start_transfer_ownership_to_copy scans for 'any valid copy' on every read of an INVALID target (not only without owner) and keeps the last non-INVALID one: a stale SHARED copy with a higher device index than the owner is named as transfer source",
         ">= 3 copies and the history (d1 RW)(d2 R)(d1 RW)(d3 R) with the stale sharer above the owner"),
 "C29": ("C29", "parsec_countable_future_set decides 'last setter' by re-reading the count after the atomic decrement instead of using the value the decrement returned",
         "the last two sets running concurrently (both read 0, both run the completion callback)"),
 "C31": ("C31", "parsec_list_nolock_push_sorted, backward-scan branch: stops on A_LOWER_PRIORITY_THAN_B instead of !A_HIGHER_PRIORITY_THAN_B (an element is placed before existing ones of equal priority)",
         "priority ties reached through the backward scan (priorities <= head/tail midpoint)"),
 "C28": ("C28", "parsec_rbtree_update_node no longer re-checks that the new key is absent before re-inserting: the zone allocator's free-run tree gets two nodes with the same size key, one unreachable",
         ">= 3 distinct free-run sizes alive and a split / merge whose new size passes a neighbour's key and equals a non-adjacent key (12-op sequence on a 9-unit zone)"),
 "C34": ("C34", "parsec_obj_update (inline and not-inline) returns a fresh read of obj_reference_count instead of the fetch-add result",
         "two threads releasing the last two references at the same time (both read 0, both destruct)"),
 "C06": ("C06", "local termination detector: TERMINATING -> TERMINATED is published before the termination callback is called, so parsec_taskpool_wait / _test can return before the completion callback ran",
         "a worker (not the waiting thread) detects termination and the waiter polls during the callback window"),
 "C04": ("C04", "data_lookup_of_dtd_task: the 'readers still outstanding -> AGAIN' flag is assigned (`=`) instead of accumulated (`|=`): only the last written flow of a task decides",
         "a task writing >= 2 tiles with earlier readers still pending on a written tile that is not the last one"),
 "C41": ("C41", "parsec_ioa_resize_and_rdlock grows the info object array from a known_infos value read before the write lock and no longer re-checks under it: a late grower zeroes slots another thread has just set",
         "registry grown after the array was initialised and two threads touching new ids of the same array at the same time"),
 "C09": ("C09", "sched_spq_schedule appends a newly created per-distance list (push_back) instead of inserting it in distance order (add_before)",
         "a smaller distance first scheduled after a list for a larger distance exists (0, 2, 1)"),
 "C42": ("C42", "dump_dictionary no longer resets the per-buffer entry count when the dictionary spills into a new buffer",
         "a dictionary spanning >= 3 profiling buffers (> ~40 keys or long convertor strings)"),
}

def main():
    ids = sys.argv[1:] or sorted(META)
    for i in ids:
        src = "/tmp/seed_out/" + i
        dst = "/verif/seeded/" + i
        if not os.path.exists(src + "/patch.diff"):
            print(i, "no patch"); continue
        ver = open(src + "/verify.log", errors="replace").read() if os.path.exists(src + "/verify.log") else ""
        rcs = re.findall(r"rc=(\d+)", ver)
        stable = re.search(r"stable tests not passing with the change: (.*)", ver)
        tryl = open(src + "/try.log", errors="replace").read() if os.path.exists(src + "/try.log") else ""
        ok = len(rcs) >= 4 and rcs[0] != "0" and rcs[-1] == "0" and stable and stable.group(1).strip() == "[]"
        if not ok:
            print(i, "NOT fully verified yet: rcs=%s stable=%s" % (rcs, stable.group(1) if stable else None)); continue
        os.makedirs(dst, exist_ok=True)
        for f in os.listdir(src):
            p = os.path.join(src, f)
            if os.path.isfile(p) and os.path.getsize(p) < 300000 and (f.endswith((".c", ".h", ".sh", ".md", ".diff", ".jdf", ".txt")) ):
                shutil.copy(p, dst)
        det = {}
        cur = None
        for ln in tryl.splitlines():
            m = re.match(r"VIOLATION property=(\S+)", ln)
            if m: cur = m.group(1); det[cur] = "VIOLATION"
            m = re.match(r"\s+class=(\S+) seed=\d+ ops=(\d+) trace_entries=(\S+)", ln)
            if m and cur: det[cur] = "VIOLATION class %s (minimised to %s ops / %s trace entries)" % m.groups()
            m = re.match(r"\[check\] (\S+) quick: runs=(\d+).* rc=(\d)", ln)
            if m:
                k = m.group(1)
                det[k] = (det.get(k, "no violation") + "; quick tier, %s runs on a heavily loaded machine" % m.group(2)) if m.group(3) == "1" else "MISSED by the quick tier at the time (%s runs)" % m.group(2)
        prop, change, needs = META[i]
        meta = {"id": i, "breaks": [prop], "change": change, "needs": needs, "detected_by": det,
                "origin": "independent sub-agent given only the property text and a scratch worktree",
                "verified": "tools/verify_seed.sh %s (demonstration fails with / passes without the change; stable tests pass with it)" % i,
                "ran": ["tools/seed_pipeline.sh %s ..." % i]}
        extra = "/tmp/seed_out/%s.meta_extra.json" % i
        if os.path.exists(extra):
            meta.update(json.load(open(extra)))
        json.dump(meta, open(dst + "/meta.json", "w"), indent=1)
        print(i, "imported", det)

main()
