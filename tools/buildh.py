#!/usr/bin/env python3
"""tools/buildh.py <Cxx>: build the harness of a property and print its path."""
import sys, os
V = os.path.dirname(os.path.dirname(os.path.abspath(__file__)))
sys.path.insert(0, V)
g = {'__file__': os.path.join(V, 'check'), '__name__': 'checkmod'}
exec(compile(open(os.path.join(V, 'check')).read(), os.path.join(V, 'check'), 'exec'), g)
print(g['build_for'](g['REGISTRY'][sys.argv[1]]))
