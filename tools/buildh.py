#!/usr/bin/env python3
"""tools/buildh.py <Cxx>: build the harness(es) of a property and print the path(s)."""
import sys, os
V = os.path.dirname(os.path.dirname(os.path.abspath(__file__)))
sys.path.insert(0, V)
g = {'__file__': os.path.join(V, 'check'), '__name__': 'checkmod'}
exec(compile(open(os.path.join(V, 'check')).read(), os.path.join(V, 'check'), 'exec'), g)
for label, exe in g['build_variants'](g['REGISTRY'][sys.argv[1]]):
    print(exe)
