#!/bin/bash
# tools/realrun/build_ptg.sh <program> [out]: real-runtime runner for one generated PTG program
set -e
cd "$(dirname "$0")/../.."
P=$1; OUT=${2:-/tmp/ptg_real_$P}; W=/tmp/ptg_real_build_$P; mkdir -p $W
python3 gen/ptg/gen.py $P $W >/dev/null
/repo/_build/parsec/interfaces/ptg/ptg-compiler/parsec-ptgpp -E -i $W/$P.jdf -o $W/$P -f $P 2>/dev/null
gcc -O1 -g -D_GNU_SOURCE tools/realrun/ptg_real_main.c harness/l2/ptg_driver.c $W/$P.c -o $OUT -I. -I$W -I/repo/_build/parsec/include -I/repo/_build \
  -I/repo/parsec/include -I/repo -I/usr/lib/x86_64-linux-gnu/openmpi/include -L/repo/_build/parsec -lparsec -Wl,-rpath,/repo/_build/parsec \
  -L/usr/lib/x86_64-linux-gnu/openmpi/lib -lmpi 2>&1 | grep -v "warning\|note:\|^\s" || true
echo $OUT
