/* Run a PTG plan (ptg_shared_t dumped by the simulation harness with VERIF_DUMP_SHARED) on the REAL
 * runtime with real threads / real MPI.  usage: [mpiexec -n P] ptg_real shared.bin [scheduler] */
#include <stdio.h>
#include <stdlib.h>
#include <string.h>
#include <unistd.h>
#include <stdint.h>
#include <time.h>
#include "harness/l2/ptg_common.h"
static ptg_shared_t SH;
void sim_set_rank(int r) { (void)r; }
void *rank_main(void *);
static double now(void) { struct timespec ts; clock_gettime(CLOCK_MONOTONIC, &ts); return ts.tv_sec * 1e6 + ts.tv_nsec * 1e-3; }
static double T0;
void ptgh_event(int rank, int kind, long a, long b)
{
    /* optional: make one rank late (it reaches parsec_context_start PTG_REAL_DELAY_MS after the others),
     * to expose protocols that assume every peer keeps serving until everybody is done */
    if (kind == PE_ACTION_BEGIN && b == PA_START && getenv("PTG_REAL_DELAY_RANK") && atoi(getenv("PTG_REAL_DELAY_RANK")) == rank)
        usleep(1000 * (getenv("PTG_REAL_DELAY_MS") ? atoi(getenv("PTG_REAL_DELAY_MS")) : 2000));
    if (kind == PE_COMPLETE_CB) printf("%10.1f rank %d COMPLETION CALLBACK of taskpool slot %ld\n", now() - T0, rank, a);
    if (kind == PE_ACTION_END && (b == PA_CTXWAIT || b == PA_TPWAIT)) printf("%10.1f rank %d %s returned (action %ld)\n", now() - T0, rank, b == PA_CTXWAIT ? "parsec_context_wait" : "parsec_taskpool_wait", a);
    fflush(stdout);
}
int ptgh_body(int rank, int tpid, int cls, const int *params, void **data)
{
    (void)data;
    printf("%10.1f rank %d BODY begin tp %d class %d (%d,%d)\n", now() - T0, rank, tpid, cls, params[0], params[1]);
    usleep(200);
    printf("%10.1f rank %d BODY end   tp %d class %d (%d,%d)\n", now() - T0, rank, tpid, cls, params[0], params[1]);
    fflush(stdout);
    return 0;
}
int main(int argc, char **argv)
{
    FILE *f = fopen(argv[1], "rb");
    if (!f || fread(&SH, sizeof(SH), 1, f) != 1) { fprintf(stderr, "cannot read %s\n", argv[1]); return 2; }
    fclose(f);
    if (argc > 2) setenv("PARSEC_MCA_mca_sched", argv[2], 1);
    const char *r = getenv("OMPI_COMM_WORLD_RANK");
    ptg_rank_arg_t ra = {&SH, r ? atoi(r) : 0};
    setvbuf(stdout, NULL, _IOLBF, 0);
    T0 = now();
    rank_main(&ra);
    printf("RANK %d DONE\n", ra.rank);
    return 0;
}
