/* Run a DTD plan (dtd_shared_t dumped by the simulation harness with VERIF_DUMP_SHARED) on the
 * REAL runtime with REAL MPI and real threads: used to confirm that a simulated finding is
 * a property of PaRSEC and not of the simulator.  usage: mpiexec -n P dtd_real shared.bin [scheduler] */
#include <stdio.h>
#include <stdlib.h>
#include <string.h>
#include <unistd.h>
#include <stdint.h>
#include "harness/l2/dtd_common.h"
static dtd_shared_t SH;
void sim_set_rank(int r) { (void)r; }
void *rank_main(void *);
static int writes(int m) { return m == M_OUT || m == M_INOUT; }
static int reads(int m) { return m == M_IN || m == M_INOUT; }
void dtdh_event(int rank, int kind, long a, long b) { (void)rank; (void)kind; (void)a; (void)b; }
int dtdh_body(int rank, int id, int nparams, int64_t **p)
{
    dtd_task_desc_t *d = &SH.tasks[id];
    int64_t h = id + 1;
    char line[256]; int n = snprintf(line, sizeof(line), "BODY rank=%d task=%d", rank, id);
    for (int i = 0; i < nparams; i++) {
        if (!p[i]) { n += snprintf(line + n, sizeof(line) - n, " p%d=NULL!", i); continue; }
        if (reads(d->mode[i])) { h = h * 1000003 + p[i][0]; n += snprintf(line + n, sizeof(line) - n, " in%d(t%d)=%lld", i, d->tile[i], (long long)p[i][0]); }
    }
    usleep(d->delay / 1000 + 1);
    for (int i = 0; i < nparams; i++) if (p[i] && writes(d->mode[i])) { int64_t v = (h * 31 + i) & 0xffffffffff; for (int j = 0; j < SH.nelems; j++) p[i][j] = v + j; n += snprintf(line + n, sizeof(line) - n, " out%d(t%d)=%lld", i, d->tile[i], (long long)v); }
    puts(line); fflush(stdout);
    return 0;
}
int main(int argc, char **argv)
{
    FILE *f = fopen(argv[1], "rb");
    if (!f || fread(&SH, sizeof(SH), 1, f) != 1) { fprintf(stderr, "cannot read %s\n", argv[1]); return 2; }
    fclose(f);
    if (argc > 2) setenv("PARSEC_MCA_mca_sched", argv[2], 1);
    const char *r = getenv("OMPI_COMM_WORLD_RANK");
    dtd_rank_arg_t ra = {&SH, r ? atoi(r) : 0};
    if (getenv("DTD_REAL_LOG")) { char fn[256]; snprintf(fn, sizeof(fn), "%s.%d", getenv("DTD_REAL_LOG"), ra.rank); if (!freopen(fn, "w", stdout)) return 2; }
    setvbuf(stdout, NULL, _IOLBF, 0);
    rank_main(&ra);
    printf("RANK %d DONE", ra.rank);
    for (int k = 0; k < SH.ntiles; k++) if (SH.final_valid[k]) printf(" tile%d=%lld", k, (long long)SH.final_[k][0]);
    printf("\n");
    fflush(stdout);
    return 0;
}
