/* Run a DTD plan (dtd_shared_t dumped by the simulation harness with VERIF_DUMP_SHARED) on the
 * REAL runtime with REAL MPI and real threads: used to confirm that a simulated finding is
 * a property of PaRSEC and not of the simulator.  usage: mpiexec -n P dtd_real shared.bin [scheduler] */
#include <stdio.h>
#include <stdlib.h>
#include <string.h>
#include <unistd.h>
#include <stdint.h>
#include "harness/l2/dtd_common.h"
static dtd_shared_t SH;
void sim_set_rank(int r) { (void)r; }
void *rank_main(void *);
static int writes(int m) { return m == M_OUT || m == M_INOUT; }
static int reads(int m) { return m == M_IN || m == M_INOUT; }
static int jitter_us;
void dtdh_event(int rank, int kind, long a, long b)
{
    (void)rank; (void)a; (void)b;
    /* optional random pause before each insertion, to vary the insertion/execution overlap */
    if (kind == 1 && jitter_us > 0) { int d = rand() % jitter_us; if (d) usleep(d); }
}
int dtdh_body(int rank, int id, int nparams, int64_t **p)
{
    dtd_task_desc_t *d = &SH.tasks[id];
    int64_t h = id + 1;
    char line[512]; int n = snprintf(line, sizeof(line), "BODY rank=%d task=%d", rank, id);
    for (int i = 0; i < nparams; i++) {
        if (!p[i]) { n += snprintf(line + n, sizeof(line) - n, " p%d=NULL!", i); continue; }
        if (reads(d->mode[i])) { h = h * 1000003 + p[i][0]; n += snprintf(line + n, sizeof(line) - n, " in%d(t%d)=%lld", i, d->tile[i], (long long)p[i][0]); }
    }
    /* conflicting accesses in flight on this rank (real threads, so use atomics) */
    static int rd_inflight[DTD_MAX_TILES], wr_inflight[DTD_MAX_TILES];
    for (int i = 0; i < nparams; i++) {
        int t = d->tile[i];
        if (writes(d->mode[i])) {
            int r = __atomic_load_n(&rd_inflight[t], __ATOMIC_SEQ_CST), w = __atomic_fetch_add(&wr_inflight[t], 1, __ATOMIC_SEQ_CST);
            if (r || w) n += snprintf(line + n, sizeof(line) - n, " OVERLAP(writer of t%d starts with %d readers %d writers running)", t, r, w);
        } else {
            int w = __atomic_load_n(&wr_inflight[t], __ATOMIC_SEQ_CST);
            __atomic_fetch_add(&rd_inflight[t], 1, __ATOMIC_SEQ_CST);
            if (w) n += snprintf(line + n, sizeof(line) - n, " OVERLAP(reader of t%d starts with %d writers running)", t, w);
        }
    }
    usleep(d->delay / 1000 + 1);
    for (int i = 0; i < nparams; i++) if (p[i] && writes(d->mode[i])) { int64_t v = (h * 31 + i) & 0xffffffffff; for (int j = 0; j < SH.nelems; j++) p[i][j] = v + j; n += snprintf(line + n, sizeof(line) - n, " out%d(t%d)=%lld", i, d->tile[i], (long long)v); }
    for (int i = 0; i < nparams; i++) { if (writes(d->mode[i])) __atomic_fetch_sub(&wr_inflight[d->tile[i]], 1, __ATOMIC_SEQ_CST); else __atomic_fetch_sub(&rd_inflight[d->tile[i]], 1, __ATOMIC_SEQ_CST); }
    puts(line); fflush(stdout);
    return 0;
}
int main(int argc, char **argv)
{
    FILE *f = fopen(argv[1], "rb");
    if (!f || fread(&SH, sizeof(SH), 1, f) != 1) { fprintf(stderr, "cannot read %s\n", argv[1]); return 2; }
    fclose(f);
    if (argc > 2) setenv("PARSEC_MCA_mca_sched", argv[2], 1);
    if (getenv("DTD_REAL_JITTER_US")) { jitter_us = atoi(getenv("DTD_REAL_JITTER_US")); srand(getenv("DTD_REAL_SEED") ? atoi(getenv("DTD_REAL_SEED")) : getpid()); }
    const char *r = getenv("OMPI_COMM_WORLD_RANK");
    dtd_rank_arg_t ra = {&SH, r ? atoi(r) : 0};
    if (getenv("DTD_REAL_LOG")) { char fn[256]; snprintf(fn, sizeof(fn), "%s.%d", getenv("DTD_REAL_LOG"), ra.rank); if (!freopen(fn, "w", stdout)) return 2; }
    setvbuf(stdout, NULL, _IOLBF, 0);
    rank_main(&ra);
    printf("RANK %d DONE", ra.rank);
    for (int k = 0; k < SH.ntiles; k++) if (SH.final_valid[k]) printf(" tile%d=%lld", k, (long long)SH.final_[k][0]);
    printf("\n");
    fflush(stdout);
    return 0;
}
