/* Run a typed-flow plan (typed_shared_t dumped by the C18 harness with VERIF_DUMP_SHARED) on the REAL runtime with real
 * threads / real MPI.  usage: [mpiexec -n P] typed_real shared.bin [scheduler]
 * Producers write 1000*(k+1) + 10*column + row into element (row, column); every body prints the tile it sees, so a wrong
 * conversion is visible by eye; elements a consumer may rely on (its selection) are whatever its dependency declares. */
#include <stdio.h>
#include <stdlib.h>
#include <string.h>
#include <unistd.h>
#include <stdint.h>
#include "harness/l2/typed_common.h"
static typed_shared_t SH;
void sim_set_rank(int r) { (void)r; }
void *rank_main(void *);
void typedh_event(int rank, int kind, long a, long b) { (void)a; (void)b; if (kind == TE_INIT_FAILED) printf("rank %d: parsec_init failed\n", rank); }
void typedh_tile(int rank, int k, int when, void *ptr)
{
    int64_t *p = ptr;
    (void)rank;
    if (when == 0) for (int i = 0; i < SH.n * SH.n; i++) p[i] = -(1000 * (k + 1) + 10 * (i / SH.n) + i % SH.n);   /* initial content: negative */
}
void typedh_body(int rank, int prog, int cls, int k, void *ptr)
{
    int64_t *p = ptr;
    const typed_class_t *d = &TYPED_PROGS[prog].classes[cls];
    int n = SH.n;
    char line[4096];
    int o = snprintf(line, sizeof(line), "rank %d BODY %s(%d) ptr %p\n", rank, d->name, k, ptr);
    if (d->role == 0) for (int i = 0; i < n * n; i++) p[i] = 1000 * (k + 1) + 10 * (i / n) + i % n;
    if (p && n <= 8) for (int i = 0; i < n; i++) {
        o += snprintf(line + o, sizeof(line) - o, "      ");
        for (int j = 0; j < n; j++) o += snprintf(line + o, sizeof(line) - o, " %6lld", (long long)p[j * n + i]);
        o += snprintf(line + o, sizeof(line) - o, "\n");
    }
    fputs(line, stdout);
    fflush(stdout);
    usleep(getenv("TYPED_REAL_BODY_US") ? atoi(getenv("TYPED_REAL_BODY_US")) : 200);      /* long bodies widen windows */
}
int main(int argc, char **argv)
{
    FILE *f = fopen(argv[1], "rb");
    if (!f || fread(&SH, sizeof(SH), 1, f) != 1) { fprintf(stderr, "cannot read %s\n", argv[1]); return 2; }
    fclose(f);
    if (getenv("TYPED_REAL_N")) SH.n = atoi(getenv("TYPED_REAL_N"));       /* larger tiles than the simulation uses (transfer time) */
    if (argc > 2) setenv("PARSEC_MCA_mca_sched", argv[2], 1);
    const char *r = getenv("OMPI_COMM_WORLD_RANK");
    typed_rank_arg_t ra = {&SH, r ? atoi(r) : 0};
    setvbuf(stdout, NULL, _IOLBF, 0);
    rank_main(&ra);
    printf("RANK %d DONE\n", ra.rank);
    return 0;
}
