#!/bin/bash
# builds /tmp/dtd_real against the stock baseline build in /repo/_build (real libparsec.so, real OpenMPI)
set -e
cd "$(dirname "$0")/../.."
gcc -O1 -g -D_GNU_SOURCE tools/realrun/dtd_real_main.c harness/l2/dtd_driver.c -o ${1:-/tmp/dtd_real} -I. -I/repo/_build/parsec/include -I/repo/_build \
  -I/repo/parsec/include -I/repo -I/usr/lib/x86_64-linux-gnu/openmpi/include -L/repo/_build/parsec -lparsec -Wl,-rpath,/repo/_build/parsec \
  -L/usr/lib/x86_64-linux-gnu/openmpi/lib -lmpi 2>&1 | grep -v "warning\|note:\|^\s" || true
