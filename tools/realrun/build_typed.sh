#!/bin/bash
# tools/realrun/build_typed.sh [out]: real-runtime runner for the typed-flow programs of gen/typed/gen.py (property C18),
# built against the stock baseline build in /repo/_build (real ptgpp, real libparsec.so, real OpenMPI)
set -e
cd "$(dirname "$0")/../.."
OUT=${1:-/tmp/typed_real}; W=/tmp/typed_real_build; mkdir -p $W
PROGS=$(python3 gen/typed/gen.py $W)
SRCS=""
for P in $PROGS; do
  /repo/_build/parsec/interfaces/ptg/ptg-compiler/parsec-ptgpp -E -i $W/$P.jdf -o $W/$P -f $P 2>/dev/null
  SRCS="$SRCS $W/$P.c"
done
gcc -O1 -g -D_GNU_SOURCE tools/realrun/typed_real_main.c harness/l2/typed_driver.c $W/typed_ref.c $SRCS -o $OUT -I. -I$W -I/repo/_build/parsec/include -I/repo/_build \
  -I/repo/parsec/include -I/repo -I/usr/lib/x86_64-linux-gnu/openmpi/include -L/repo/_build/parsec -lparsec -Wl,-rpath,/repo/_build/parsec \
  -L/usr/lib/x86_64-linux-gnu/openmpi/lib -lmpi 2>&1 | grep -v "warning\|note:\|^\s" || true
echo $OUT
