/* parsec_map_operator on a matrix of which one rank owns no tile: that rank never leaves parsec_context_wait */
#include "parsec.h"
#include "parsec/runtime.h"
#include "parsec/data_internal.h"
#include "parsec/execution_stream.h"
#include "parsec/data_dist/matrix/two_dim_rectangle_cyclic.h"
#include <mpi.h>
#include <stdarg.h>
#include <stdio.h>
static int op(struct parsec_execution_stream_s *es, const void *src, void *dest, void *op_data, ...)
{
    va_list ap; va_start(ap, op_data); int k = va_arg(ap, int), n = va_arg(ap, int); va_end(ap);
    int rank; MPI_Comm_rank(MPI_COMM_WORLD, &rank);
    printf("rank %d: operator on tile (%d,%d)\n", rank, k, n); fflush(stdout);
    (void)es; (void)src; (void)dest;
    return 0;
}
int main(int argc, char **argv)
{
    int prov, world, rank;
    MPI_Init_thread(&argc, &argv, MPI_THREAD_SERIALIZED, &prov);
    MPI_Comm_size(MPI_COMM_WORLD, &world); MPI_Comm_rank(MPI_COMM_WORLD, &rank);
    int ntiles = argc > 1 ? atoi(argv[1]) : 1;
    parsec_context_t *parsec = parsec_init(2, NULL, NULL);
    parsec_matrix_block_cyclic_t A;
    parsec_matrix_block_cyclic_init(&A, PARSEC_MATRIX_FLOAT, PARSEC_MATRIX_TILE, rank, 4, 4, 4, 4 * ntiles, 0, 0, 4, 4 * ntiles, 1, world, 1, 1, 0, 0);
    A.mat = parsec_data_allocate((size_t)A.super.nb_local_tiles * A.super.bsiz * sizeof(float) + 1);
    parsec_data_collection_set_key(&A.super.super, "A");
    printf("rank %d owns %d tile(s)\n", rank, A.super.nb_local_tiles); fflush(stdout);
    parsec_taskpool_t *tp = parsec_map_operator_New(&A.super, NULL, op, "A");
    parsec_context_add_taskpool(parsec, tp);
    parsec_context_start(parsec);
    parsec_context_wait(parsec);
    printf("rank %d: parsec_context_wait returned\n", rank); fflush(stdout);
    parsec_taskpool_free(tp);
    parsec_data_free(A.mat);
    parsec_tiled_matrix_destroy(&A.super);
    parsec_fini(&parsec);
    MPI_Finalize();
    return 0;
}
