/* real-MPI reproduction of three C14 observations (links the stock libparsec.so + Open MPI) */
#include <mpi.h>
#include <stdio.h>
#include <stdlib.h>
#include <string.h>
#include <unistd.h>
#include "parsec/parsec_config.h"
#include "parsec/runtime.h"
#include "parsec/parsec_internal.h"
#include "parsec/execution_stream.h"
#include "parsec/parsec_comm_engine.h"
#include "parsec/remote_dep.h"
#include "parsec/utils/mca_param.h"
#include "parsec/utils/installdirs.h"
#include "parsec/utils/output.h"
static int me, ldone, rdone, amdone;
static parsec_comm_engine_t *ce;
static int lcb(parsec_comm_engine_t *c, parsec_ce_mem_reg_handle_t l, ptrdiff_t ld, parsec_ce_mem_reg_handle_t r, ptrdiff_t rd, size_t s, int rem, void *d)
{ (void)c;(void)l;(void)ld;(void)r;(void)rd;(void)s;(void)rem;(void)d; ldone++; return 1; }
static int rcb(parsec_comm_engine_t *c, parsec_ce_tag_t t, void *m, size_t s, int src, void *d)
{ (void)c;(void)t;(void)m;(void)s;(void)src;(void)d; rdone++; return 1; }
static int amcb(parsec_comm_engine_t *c, parsec_ce_tag_t t, void *m, size_t s, int src, void *d)
{ (void)c;(void)m;(void)d; printf("[%d] AM on tag %d, %zu bytes from %d\n", me, (int)t, s, src); amdone++; return 1; }
static double now(void) { return MPI_Wtime(); }
int main(int argc, char **argv)
{
    int prov, scen = argc > 1 ? atoi(argv[1]) : 1;
    MPI_Init_thread(&argc, &argv, MPI_THREAD_SERIALIZED, &prov);
    MPI_Comm_rank(MPI_COMM_WORLD, &me);
    parsec_installdirs_open(); parsec_mca_param_init(); parsec_output_init();
    parsec_context_t *ctx = calloc(1, sizeof(*ctx));
    parsec_vp_t *vp = calloc(1, sizeof(*vp));
    ctx->comm_ctx = -1; ctx->nb_vp = 1; vp->parsec_context = ctx; ctx->virtual_processes[0] = vp;
    parsec_comm_es.virtual_process = vp;
    ce = parsec_comm_engine_init(ctx);
    ce->tag_register(9, amcb, NULL, 256);
    ce->enable(ce);
    if (scen == 3) { ce->tag_register(10, amcb, NULL, 256); ce->enable(ce); }
    int peer = 1 - me, hs = ce->get_mem_handle_size();
    unsigned char A[64], B[64], P[64], G[64];
    memset(A, 0xAA, 64); memset(B, 0xBB, 64); memset(P, 0, 64); memset(G, 0, 64);
    parsec_ce_mem_reg_handle_t h1, h2; size_t sz;
    unsigned char rh1[256], rh2[256];
    uintptr_t myfn = (uintptr_t)rcb, peerfn;
    MPI_Sendrecv(&myfn, sizeof(myfn), MPI_BYTE, peer, 1, &peerfn, sizeof(peerfn), MPI_BYTE, peer, 1, MPI_COMM_WORLD, MPI_STATUS_IGNORE);
    if (scen == 1) {
        /* rank 0 puts A into rank 1's P; rank 1 gets rank 0's B into G: both transfers flow 0 -> 1 */
        if (me == 0) { ce->mem_register(A, PARSEC_MEM_TYPE_NONCONTIGUOUS, 64, MPI_BYTE, -1, &h1, &sz); ce->mem_register(B, PARSEC_MEM_TYPE_NONCONTIGUOUS, 64, MPI_BYTE, -1, &h2, &sz); }
        else         { ce->mem_register(P, PARSEC_MEM_TYPE_NONCONTIGUOUS, 64, MPI_BYTE, -1, &h1, &sz); ce->mem_register(G, PARSEC_MEM_TYPE_NONCONTIGUOUS, 64, MPI_BYTE, -1, &h2, &sz); }
        MPI_Sendrecv(h1, hs, MPI_BYTE, peer, 2, rh1, hs, MPI_BYTE, peer, 2, MPI_COMM_WORLD, MPI_STATUS_IGNORE);
        MPI_Sendrecv(h2, hs, MPI_BYTE, peer, 3, rh2, hs, MPI_BYTE, peer, 3, MPI_COMM_WORLD, MPI_STATUS_IGNORE);
        MPI_Barrier(MPI_COMM_WORLD);
        int x = 7;
        if (me == 0) ce->put(ce, h1, 0, rh1, 0, 64, 1, lcb, NULL, (parsec_ce_tag_t)peerfn, &x, sizeof(x));
        else         ce->get(ce, h2, 0, rh2, 0, 64, 0, lcb, NULL, (parsec_ce_tag_t)peerfn, &x, sizeof(x));
        double t0 = now();
        while ((ldone < 1 || rdone < 1) && now() - t0 < 5) ce->progress(ce);
        if (me == 1) printf("[1] put target P[0]=0x%02x (want 0xaa)  get target G[0]=0x%02x (want 0xbb)  -> %s\n", P[0], G[0], P[0] == 0xAA && G[0] == 0xBB ? "ok" : "WRONG DATA");
    } else if (scen == 2) {
        /* both ranks get from each other; run with PARSEC_MCA_runtime_comm_mpi_dynamic_requests=1 */
        ce->mem_register(A, PARSEC_MEM_TYPE_NONCONTIGUOUS, 64, MPI_BYTE, -1, &h1, &sz);
        ce->mem_register(G, PARSEC_MEM_TYPE_NONCONTIGUOUS, 64, MPI_BYTE, -1, &h2, &sz);
        MPI_Sendrecv(h1, hs, MPI_BYTE, peer, 2, rh1, hs, MPI_BYTE, peer, 2, MPI_COMM_WORLD, MPI_STATUS_IGNORE);
        MPI_Barrier(MPI_COMM_WORLD);
        int x = 7;
        ce->get(ce, h2, 0, rh1, 0, 64, peer, lcb, NULL, (parsec_ce_tag_t)peerfn, &x, sizeof(x));
        double t0 = now();
        while ((ldone < 1 || rdone < 1) && now() - t0 < 5) ce->progress(ce);
        printf("[%d] get: local completion %d, remote completion %d after %.1f s -> %s\n", me, ldone, rdone, now() - t0, ldone && rdone ? "ok" : "HUNG");
    } else {
        MPI_Barrier(MPI_COMM_WORLD);
        char msg[8] = "hello";
        if (me == 0) { ce->send_am(ce, 9, 1, msg, 6); ce->send_am(ce, 10, 1, msg, 6); }
        double t0 = now();
        while (me == 1 && amdone < 2 && now() - t0 < 3) ce->progress(ce);
        if (me == 1) printf("[1] %d of 2 active messages delivered (tag 9 registered before enable, tag 10 after) -> %s\n", amdone, amdone == 2 ? "ok" : "LOST");
    }
    fflush(stdout);
    MPI_Barrier(MPI_COMM_WORLD);
    MPI_Finalize(); return 0;
}
