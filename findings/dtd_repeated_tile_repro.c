#include "parsec/runtime.h"
#include "parsec/interfaces/dtd/insert_function.h"
#include "parsec/data_dist/matrix/two_dim_rectangle_cyclic.h"
#include "parsec/data_dist/matrix/matrix.h"
#include <stdio.h>
#include <stdlib.h>
#include <unistd.h>
#include <mpi.h>
static int bodyA(parsec_execution_stream_t *es, parsec_task_t *t) {
    double *a, *b, *c, *d; int id;
    parsec_dtd_unpack_args(t, &id, &a, &b, &c, &d);
    printf("A: %p %p %p %p\n", (void*)a,(void*)b,(void*)c,(void*)d); fflush(stdout);
    b[0] = 42.0; d[0] += 1;
    return PARSEC_HOOK_RETURN_DONE;
}
static int bodyB(parsec_execution_stream_t *es, parsec_task_t *t) {
    double *a, *b; int id;
    parsec_dtd_unpack_args(t, &id, &a, &b);
    printf("B: p0=%p p1=%p  (same tile: INOUT then OUTPUT)%s\n", (void*)a, (void*)b, (!a||!b) ? "  <-- NULL data pointer handed to the body" : ""); fflush(stdout);
    return PARSEC_HOOK_RETURN_DONE;
}
int main(int argc, char **argv) {
    MPI_Init(NULL,NULL);
    int nthreads = argc > 1 ? atoi(argv[1]) : 3, TILE_FULL, id = 0;
    parsec_context_t *ctx = parsec_init(nthreads, NULL, NULL);
    parsec_matrix_block_cyclic_t *m = calloc(1, sizeof(*m));
    int nt = 6, ne = 4;
    parsec_matrix_block_cyclic_init(m, PARSEC_MATRIX_DOUBLE, PARSEC_MATRIX_TILE, 0, ne, 1, nt * ne, 1, 0, 0, nt * ne, 1, 1, 1, 1, 1, 0, 0);
    m->mat = parsec_data_allocate((size_t)m->super.nb_local_tiles * (size_t)m->super.bsiz * sizeof(double));
    parsec_data_collection_t *DC = &m->super.super;
    parsec_data_collection_set_key(DC, "A");
    parsec_dtd_data_collection_init(DC);
    parsec_taskpool_t *tp = parsec_dtd_taskpool_new();
    parsec_arena_datatype_t *adt = parsec_matrix_adt_new_rect(parsec_datatype_double_t, ne, 1, ne);
    parsec_dtd_attach_arena_datatype(ctx, adt, &TILE_FULL);
    parsec_context_add_taskpool(ctx, tp);
    parsec_context_start(ctx);
#define T(k) PARSEC_DTD_TILE_OF_KEY(DC, k)
    parsec_dtd_insert_task(tp, bodyA, 0, PARSEC_DEV_CPU, "A", sizeof(int), &id, PARSEC_VALUE,
        PASSED_BY_REF, T(1), PARSEC_INPUT | TILE_FULL, PASSED_BY_REF, T(5), PARSEC_OUTPUT | TILE_FULL,
        PASSED_BY_REF, T(0), PARSEC_INPUT | TILE_FULL, PASSED_BY_REF, T(2), PARSEC_INOUT | TILE_FULL, PARSEC_DTD_ARG_END);
    parsec_dtd_insert_task(tp, bodyB, 0, PARSEC_DEV_CPU, "B", sizeof(int), &id, PARSEC_VALUE,
        PASSED_BY_REF, T(5), PARSEC_INOUT | TILE_FULL | PARSEC_AFFINITY, PASSED_BY_REF, T(5), PARSEC_OUTPUT | TILE_FULL, PARSEC_DTD_ARG_END);
    parsec_dtd_data_flush_all(tp, DC);
    parsec_taskpool_wait(tp);
    parsec_context_wait(ctx);
    printf("DONE\n");
    return 0;
}
